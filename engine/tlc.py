"""TLC runner and output parsers.

All TLC invocations of the framework go through `run_tlc`.  The spec modules live in /verif/spec;
TLC is started with that directory as cwd so EXTENDS/INSTANCE resolve.  A fresh metadir is made
under the system temp dir and removed afterwards (nothing a registered command needs lives there).
"""
from __future__ import annotations

import json
import os
import re
import shutil
import subprocess
import tempfile
import time
from dataclasses import dataclass, field

VERIF = os.path.dirname(os.path.dirname(os.path.abspath(__file__)))
SPEC_DIR = os.path.join(VERIF, "spec")
CLASSPATH = "/opt/veriftools/tla/tla2tools.jar:/opt/veriftools/tla/CommunityModules-deps.jar"


class MachineryError(Exception):
    """The verification machinery itself failed (exit status 2, never a VIOLATION)."""


@dataclass
class TlcResult:
    module: str
    cfg: str
    rc: int
    wall_s: float
    generated: int = 0          # "states generated" = transitions explored (+ initial states)
    distinct: int = 0
    depth: int = 0
    violated: str | None = None  # name of violated invariant / property, if any
    error: str | None = None     # other TLC error text
    prints: list = field(default_factory=list)   # parsed PrintT tuples (python lists)
    coverage: dict = field(default_factory=dict)  # action name -> (distinct, total) when -coverage
    output: str = ""

    @property
    def ok(self):
        return self.violated is None and self.error is None


_RE_STATES = re.compile(r"(\d+) states generated, (\d+) distinct states found, (\d+) states left on queue")
_RE_DEPTH = re.compile(r"The depth of the complete state graph search is (\d+)")
_RE_INV = re.compile(r"Error: Invariant (\S+) is violated")
_RE_PROP = re.compile(r"Error: (Temporal properties were violated|Action property (\S+) is violated|Deadlock reached)")
_RE_TPROP = re.compile(r"Error: Temporal property (\S+) was violated")
_RE_COV = re.compile(r"^<(\w+) line \d+, col \d+ to line \d+, col \d+ of module (\w+)>: (\d+):(\d+)")
_RE_SIM = re.compile(r"Progress: (\d+) states checked, (\d+) traces generated")


def _parse_tla_value(s: str):
    """Parse the TLA+ value syntax TLC prints (tuples, sets, strings, ints, booleans, records)
    into python objects: tuple->list, set->sorted list tagged as list, record->dict."""
    pos = 0
    n = len(s)

    def ws():
        nonlocal pos
        while pos < n and s[pos] in " \n\t\r":
            pos += 1

    def val():
        nonlocal pos
        ws()
        if s.startswith("<<", pos):
            pos += 2
            out = []
            ws()
            if s.startswith(">>", pos):
                pos += 2
                return out
            while True:
                out.append(val())
                ws()
                if s.startswith(",", pos):
                    pos += 1
                    continue
                if s.startswith(">>", pos):
                    pos += 2
                    return out
                raise ValueError("bad tuple at %d in %r" % (pos, s[:200]))
        if s.startswith("{", pos):
            pos += 1
            out = []
            ws()
            if s.startswith("}", pos):
                pos += 1
                return out
            while True:
                out.append(val())
                ws()
                if s.startswith(",", pos):
                    pos += 1
                    continue
                if s.startswith("}", pos):
                    pos += 1
                    return out
                raise ValueError("bad set at %d in %r" % (pos, s[:200]))
        if s.startswith("[", pos):
            pos += 1
            out = {}
            while True:
                ws()
                m = re.compile(r"(\w+)\s*\|->").match(s, pos)
                if not m:
                    raise ValueError("bad record at %d in %r" % (pos, s[:200]))
                pos = m.end()
                out[m.group(1)] = val()
                ws()
                if s.startswith(",", pos):
                    pos += 1
                    continue
                if s.startswith("]", pos):
                    pos += 1
                    return out
                raise ValueError("bad record at %d in %r" % (pos, s[:200]))
        if s.startswith('"', pos):
            j = pos + 1
            buf = []
            while s[j] != '"':
                if s[j] == "\\":
                    j += 1
                    buf.append({"n": "\n", "t": "\t"}.get(s[j], s[j]))
                else:
                    buf.append(s[j])
                j += 1
            pos = j + 1
            return "".join(buf)
        m = re.compile(r"-?\d+").match(s, pos)
        if m:
            pos = m.end()
            return int(m.group(0))
        m = re.compile(r"TRUE|FALSE").match(s, pos)
        if m:
            pos = m.end()
            return m.group(0) == "TRUE"
        m = re.compile(r"\w+").match(s, pos)
        if m:
            pos = m.end()
            return m.group(0)
        raise ValueError("cannot parse at %d: %r" % (pos, s[pos:pos + 80]))

    v = val()
    return v


def _extract_prints(out: str):
    """PrintT values start a line with '<<"' ; a value may span lines.  Parse by bracket matching."""
    res = []
    n = len(out)
    starts = [m.start() for m in re.finditer(r'^<<\s*"', out, re.M)]   # wide values are wrapped: '<< "TAG",\n   ...'
    i = 0
    for j in starts:
        if j < i:
            continue
        # bracket match
        depth = 0
        k = j
        in_str = False
        while k < n:
            c = out[k]
            if in_str:
                if c == "\\":
                    k += 1
                elif c == '"':
                    in_str = False
            else:
                if c == '"':
                    in_str = True
                elif out.startswith("<<", k):
                    depth += 1
                    k += 1
                elif out.startswith(">>", k):
                    depth -= 1
                    k += 1
                    if depth == 0:
                        break
            k += 1
        txt = out[j:k + 1]
        try:
            res.append(_parse_tla_value(txt))
        except Exception:
            pass
        i = k + 1
    return res


def run_tlc(module: str, cfg: str, *, workers: int | str = "auto", env: dict | None = None,
            simulate: str | None = None, depth: int | None = None, coverage: bool = False,
            timeout: float = 3600, heap: str = "4g", seed: int | None = None,
            deadlock: bool = False, extra: list | None = None, spec_dir: str = SPEC_DIR,
            parse_prints: bool = True, dfs_queue: bool = False) -> TlcResult:
    """Run TLC on spec/<module>.tla with spec/<cfg>.  `simulate` e.g. "num=1000"."""
    meta = tempfile.mkdtemp(prefix="tlc_meta_")
    cmd = ["java", "-XX:+UseParallelGC", "-Xmx" + heap, "-Xss512m"]
    if dfs_queue:
        cmd.append("-Dtlc2.tool.queue.IStateQueue=StateDeque")
    cmd += ["-cp", CLASSPATH, "tlc2.TLC", "-workers", str(workers), "-metadir", meta,
            "-noGenerateSpecTE", "-config", cfg]
    if not deadlock:
        cmd.append("-deadlock")       # disables deadlock checking
    if simulate:
        cmd += ["-simulate", simulate]
    if depth is not None:
        cmd += ["-depth", str(depth)]
    if coverage:
        cmd += ["-coverage", "1"]
    if seed is not None:
        cmd += ["-seed", str(seed)]
    if extra:
        cmd += list(extra)
    cmd.append(module + ".tla")
    e = dict(os.environ)
    e.pop("JAVA_TOOL_OPTIONS", None)
    if env:
        e.update({k: str(v) for k, v in env.items()})
    t0 = time.time()
    try:
        p = subprocess.run(cmd, cwd=spec_dir, env=e, stdout=subprocess.PIPE, stderr=subprocess.STDOUT,
                           text=True, timeout=timeout)
        out, rc = p.stdout, p.returncode
        timed_out = False
    except subprocess.TimeoutExpired as ex:
        out = ex.stdout.decode() if isinstance(ex.stdout, bytes) else (ex.stdout or "")
        rc, timed_out = -9, True
    finally:
        shutil.rmtree(meta, ignore_errors=True)
    r = TlcResult(module=module, cfg=cfg, rc=rc, wall_s=time.time() - t0, output=out)
    for m in _RE_STATES.finditer(out):
        r.generated, r.distinct = int(m.group(1)), int(m.group(2))
    m = _RE_DEPTH.search(out)
    if m:
        r.depth = int(m.group(1))
    if simulate:
        ms = list(_RE_SIM.finditer(out))
        if ms:
            r.generated = int(ms[-1].group(1))
            r.distinct = int(ms[-1].group(2))   # traces generated
    m = _RE_INV.search(out)
    if m:
        r.violated = m.group(1)
    else:
        m = _RE_PROP.search(out)
        mt = _RE_TPROP.search(out)
        if mt:
            r.violated = mt.group(1)
        elif m:
            r.violated = m.group(2) or m.group(1)
    if r.violated is None:
        if timed_out and simulate:
            pass  # simulation under an outer timeout is expected to be cut off
        elif timed_out:
            r.error = "timeout after %ss" % timeout
        elif rc != 0 or "Error:" in out:
            em = re.search(r"Error: (.*)", out)
            r.error = (em.group(1) if em else "TLC exit status %d" % rc)
    if coverage:
        for line in out.splitlines():
            m = _RE_COV.match(line.strip())
            if m:
                r.coverage[m.group(1)] = (int(m.group(3)), int(m.group(4)))
    if parse_prints:
        r.prints = _extract_prints(out)
    return r


def sany(module: str, spec_dir: str = SPEC_DIR) -> tuple[bool, str]:
    p = subprocess.run(["java", "-cp", CLASSPATH, "tla2sany.SANY", module + ".tla"], cwd=spec_dir,
                       stdout=subprocess.PIPE, stderr=subprocess.STDOUT, text=True)
    ok = p.returncode == 0 and "Semantic errors" not in p.stdout and "Parse Error" not in p.stdout \
        and "Fatal errors" not in p.stdout and "***Parse" not in p.stdout
    return ok, p.stdout
