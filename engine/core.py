"""Check context: tiers, seeds, model-check bookkeeping, verdict handling, known findings, evidence."""
from __future__ import annotations

import hashlib
import json
import os
import sys
import time
from fractions import Fraction

from .tlc import run_tlc, MachineryError, VERIF, TlcResult
from . import trace as _trace
import threading
_MC_LOCK = threading.Lock()

LEVELS = {"exploration", "fault_enumeration", "model_checking", "proof", "translation_validation", "other"}


def rat(x: float, max_den: int, rel_tol: float = 2e-6):
    """Exact-rational reconstruction of a float produced by the code: [num, den, ok].
    ok = the residual is within rel_tol (float32 arithmetic in qvalues.tdc)."""
    f = Fraction(float(x)).limit_denominator(max_den)
    ok = abs(float(f) - float(x)) <= rel_tol * max(1.0, abs(float(x)))
    return [f.numerator, f.denominator, bool(ok)]


def stable_hash(obj) -> str:
    return hashlib.sha256(json.dumps(obj, sort_keys=True, default=str).encode()).hexdigest()[:16]


class Ctx:
    def __init__(self, prop: str, tier: str, seed: int, level: str):
        assert level in LEVELS
        self.prop, self.tier, self.seed, self.level = prop, tier, seed, level
        self.t0 = time.time()
        self.cov = {"states": 0, "transitions": 0, "traces_validated_against_impl": 0, "evaluations": 0,
                    "distinct_nontrivial": 0, "samples": [], "model_runs": [], "negative_controls": {},
                    "known_findings_hit": [], "out_of_domain": 0}
        self.assumptions: list[str] = []
        self.violations: list[dict] = []
        self.known_hits: dict[str, int] = {}
        self._distinct: set = set()
        self.findings = load_findings()
        self.machinery_errors: list[str] = []
        self._phase = ("start", time.time())
        self.cov["phases_s"] = {}

    def phase(self, name):
        """wall-clock bookkeeping per phase (model checking / generation / driving / validation)"""
        old, t = self._phase
        self.cov["phases_s"][old] = round(self.cov["phases_s"].get(old, 0) + time.time() - t, 1)
        self._phase = (name, time.time())

    @property
    def quick(self):
        return self.tier == "quick"

    # ---------------- (M) ----------------
    def model_check(self, module, cfg, *, expect_violation: str | None = None, note: str = "", **kw) -> TlcResult:
        """Run TLC on a spec config.  expect_violation=None: the run must pass (otherwise machinery
        error: the model and its declarative layer disagree and must be repaired).  Otherwise the named
        invariant must be violated (Mut_* / AsIs_* sensitivity configs)."""
        if expect_violation is None:
            r = run_tlc(module, cfg, **kw)
        else:
            # a sensitivity config may list several invariants; with several workers TLC reports whichever it meets first.
            # Only the expected one is checked (temporary copy of the config without the other INVARIANT / PROPERTY lines).
            import tempfile
            from .tlc import SPEC_DIR
            keep = []
            for line in open(os.path.join(SPEC_DIR, cfg)):
                tok = line.split()
                if tok and tok[0] in ("INVARIANT", "INVARIANTS", "PROPERTY", "PROPERTIES"):
                    if expect_violation in tok[1:]:
                        keep.append("%s %s\n" % (tok[0], expect_violation))
                    continue
                keep.append(line)
            with tempfile.NamedTemporaryFile("w", suffix=".cfg", prefix="sens_", delete=False) as fh:
                fh.write("".join(keep))
                tmp_cfg = fh.name
            try:
                r = run_tlc(module, tmp_cfg, **kw)
            finally:
                os.unlink(tmp_cfg)
            r.cfg = cfg
        with _MC_LOCK:          # drivers start independent TLC runs from several threads; the bookkeeping is serialised
            return self._book_model_check(r, module, cfg, expect_violation, note)

    def _book_model_check(self, r, module, cfg, expect_violation, note):
        entry = {"module": module, "cfg": cfg, "generated": r.generated, "distinct": r.distinct,
                 "depth": r.depth, "wall_s": round(r.wall_s, 1), "note": note}
        if expect_violation is None:
            if not r.ok:
                raise MachineryError("model check %s/%s: %s\n%s" % (module, cfg, r.violated or r.error, r.output[-4000:]))
            self.cov["states"] += r.distinct
            self.cov["transitions"] += r.generated
        else:
            if r.violated != expect_violation:
                raise MachineryError("sensitivity config %s/%s: expected violation of %s, got %s / %s\n%s" %
                                     (module, cfg, expect_violation, r.violated, r.error, r.output[-3000:]))
            entry["expected_violation"] = expect_violation
        if r.coverage:
            entry["action_coverage"] = {k: v[1] for k, v in r.coverage.items()}
        self.cov["model_runs"].append(entry)
        return r

    def liveness(self, module, unfair_control=True, **kw):
        """<module>_live.cfg: under weak fairness of Next every behaviour of the model halts (PROPERTY Halts of FairSpec).
        Control: without the fairness conjunct (SPECIFICATION Spec) the same property must be violated by stuttering --
        the property is about the model's steps, not vacuously true."""
        cfg = module + "_live.cfg"
        r = self.model_check(module, cfg, note="liveness: every behaviour halts under weak fairness of Next", **kw)
        if unfair_control:
            import tempfile
            from .tlc import SPEC_DIR
            txt = open(os.path.join(SPEC_DIR, cfg)).read().replace("SPECIFICATION FairSpec", "SPECIFICATION Spec")
            with tempfile.NamedTemporaryFile("w", suffix=".cfg", prefix="unfair_", delete=False) as fh:
                fh.write(txt)
                tmp = fh.name
            try:
                u = run_tlc(module, tmp, **kw)
            finally:
                os.unlink(tmp)
            with _MC_LOCK:
                if u.violated not in ("Halts", "Temporal properties were violated"):
                    raise MachineryError("liveness control %s: Halts holds without fairness (%s / %s)" % (module, u.violated, u.error))
                self.cov["model_runs"].append({"module": module, "cfg": cfg + " without fairness", "generated": u.generated, "distinct": u.distinct,
                                               "depth": u.depth, "wall_s": round(u.wall_s, 1), "note": "control: Halts must fail by stuttering",
                                               "expected_violation": "Halts"})
        return r

    def require_actions(self, r: TlcResult, actions):
        dead = [a for a in actions if r.coverage.get(a, (0, 0))[1] == 0]
        if dead:
            raise MachineryError("spec actions never taken in %s/%s: %s" % (r.module, r.cfg, dead))

    # ---------------- (V) ----------------
    def validate(self, module, cfg, traces, **kw) -> dict:
        v = _trace.validate(module, cfg, traces, **kw)
        self.cov["states"] += v.pop("_states", 0)
        self.cov["traces_validated_against_impl"] += len(traces)
        return v

    def negative_controls(self, module, cfg, corrupted: list, name: str = "corrupted", **kw):
        """Every corrupted trace must be rejected, otherwise the acceptor is vacuous."""
        if not corrupted:
            if self.violations or self.known_hits:
                # when (nearly) every trace is rejected there may be no accepted trace left to corrupt;
                # the violations are the result of the run, the missing control is recorded
                self.cov["negative_controls"][name] = {"supplied": 0, "rejected": 0}
                return
            raise MachineryError("no negative controls supplied for %s" % module)
        v = _trace.validate(module, cfg, corrupted, **kw)
        v.pop("_states", None)
        acc = [t for t, r in v.items() if r["accept"]]
        self.cov["negative_controls"][name] = {"supplied": len(corrupted), "rejected": len(corrupted) - len(acc)}
        if acc:
            if self.violations:
                # the run already has violations to report: an accepted control is recorded, it must not mask them
                self.cov["negative_controls"][name]["accepted_tids"] = acc[:5]
                return
            raise MachineryError("negative control accepted by %s: tids %s" % (module, acc[:5]))

    # ---------------- bookkeeping ----------------
    def count(self, key=None, nontrivial=True):
        self.cov["evaluations"] += 1
        if nontrivial and key is not None:
            self._distinct.add(key if isinstance(key, (str, int, tuple)) else stable_hash(key))

    def sample(self, s, limit=6):
        if len(self.cov["samples"]) < limit:
            self.cov["samples"].append(s)

    def assume(self, text):
        if text not in self.assumptions:
            self.assumptions.append(text)

    # ---------------- verdicts ----------------
    def reject(self, case: dict, failed: list, signature: dict):
        """A recorded trace was rejected by the property-level acceptor.  Either a listed known
        finding (printed once per finding) or a violation."""
        sig = dict(signature)
        sig["failed"] = sorted(failed)
        f = match_finding(self.findings, self.prop, sig)
        if f is not None:
            self.known_hits[f["id"]] = self.known_hits.get(f["id"], 0) + 1
            return
        self.violations.append({"case": case, "failed": sorted(failed), "signature": sig})

    def finish(self, rule: str, explanation: str = "", exhaustive: bool | None = None) -> int:
        self.phase("finish")
        # Evidence and replay files belong to /repo's working tree.  A run against a scratch worktree (VERIF_REPO, only used to
        # try seeded changes) writes them to a scratch directory instead, so that it can never overwrite committed evidence.
        repo = os.environ.get("VERIF_REPO", "/repo").rstrip("/")
        out_root = VERIF if repo == "/repo" else os.path.join("/tmp/verif_scratch", repo.strip("/").replace("/", "_"))
        os.makedirs(os.path.join(out_root, "evidence"), exist_ok=True)
        os.makedirs(os.path.join(out_root, "replays"), exist_ok=True)
        self.cov["distinct_nontrivial"] = len(self._distinct)
        self.cov["rule"] = rule
        if explanation:
            self.cov["explanation"] = explanation
        if exhaustive is not None:
            self.cov["exhaustive"] = exhaustive
        for fid, n in sorted(self.known_hits.items()):
            f = next(x for x in self.findings if x["id"] == fid)
            print("KNOWN-FINDING: property=%s %s [%s, %d cases]" % (self.prop, f["what"], fid, n))
            self.cov["known_findings_hit"].append({"id": fid, "cases": n})
        seen = set()
        nviol = 0
        for v in self.violations:
            key = stable_hash(v["signature"])
            if key in seen:
                continue
            seen.add(key)
            nviol += 1
            path = os.path.join(out_root, "replays", "%s_%s.json" % (self.prop, key))
            with open(path, "w") as fh:
                json.dump({"property": self.prop, "seed": self.seed, "tier": self.tier, **v}, fh, indent=1, default=str)
            if nviol <= 20:
                print("VIOLATION property=%s replay=%s" % (self.prop, path))
                print("  failed clauses: %s  signature: %s" % (v["failed"], json.dumps(v["signature"], default=str)[:300]))
        ev = {"property_id": self.prop, "tier": self.tier, "seed": int(self.seed), "level": self.level,
              "coverage": self.cov, "assumptions": self.assumptions,
              "wall_s": round(time.time() - self.t0, 2), "violations": len(self.violations)}
        if not self.cov["samples"]:
            self.cov["samples"] = ["(no sample recorded)"]
        with open(os.path.join(out_root, "evidence", self.prop + ".json"), "w") as fh:
            json.dump(ev, fh, indent=1, default=str)
        print("%s %s: evaluations=%d distinct=%d traces=%d states=%d violations=%d known=%s wall=%.1fs" % (
            self.prop, self.tier, self.cov["evaluations"], self.cov["distinct_nontrivial"],
            self.cov["traces_validated_against_impl"], self.cov["states"], len(self.violations),
            dict(self.known_hits), time.time() - self.t0))
        return 1 if self.violations else 0


def load_findings():
    p = os.path.join(VERIF, "known_findings.json")
    if not os.path.exists(p):
        return []
    with open(p) as fh:
        return json.load(fh)["findings"]


def match_finding(findings, prop, sig):
    """An *open* finding matches iff every key of its `match` is present in the signature with an allowed
    value.  `fixed` entries suppress nothing."""
    for f in findings:
        if f.get("status") != "open" or f["property"] != prop:
            continue
        ok = True
        for k, allowed in f["match"].items():
            v = sig.get(k, None)
            if isinstance(allowed, list):
                if isinstance(v, list):
                    ok = ok and all(x in allowed for x in v) and len(v) > 0
                else:
                    ok = ok and v in allowed
            else:
                ok = ok and v == allowed
            if not ok:
                break
        if ok:
            return f
    return None
