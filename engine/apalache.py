"""Apalache (symbolic model checker) for inductive-invariant checks of small integer models: Init => Inv (length 0) and
Inv /\\ Next => Inv' (length 1).  Used where a mechanism's safety can be discharged for UNBOUNDED parameters; TLC explores
the same mechanism with small bounds and the conformance checks bind it to the code."""
from __future__ import annotations

import os
import shutil
import subprocess
import tempfile
import time

from .tlc import MachineryError, SPEC_DIR


def check(module, *, cinit, init, inv, length, expect_violation=False, timeout=600):
    out_dir = tempfile.mkdtemp(prefix="apalache_")
    cmd = ["apalache-mc", "check", "--cinit=" + cinit, "--init=" + init, "--inv=" + inv, "--length=%d" % length,
           "--out-dir=" + out_dir, module + ".tla"]
    t0 = time.time()
    try:
        p = subprocess.run(cmd, cwd=SPEC_DIR, stdout=subprocess.PIPE, stderr=subprocess.STDOUT, text=True, timeout=timeout)
    except subprocess.TimeoutExpired:
        raise MachineryError("apalache timed out: %s" % " ".join(cmd))
    finally:
        shutil.rmtree(out_dir, ignore_errors=True)
    ok = "EXITCODE: OK" in p.stdout
    violated = "EXITCODE: ERROR (12)" in p.stdout
    if not ok and not violated:
        raise MachineryError("apalache failed: %s\n%s" % (" ".join(cmd), p.stdout[-1500:]))
    if expect_violation != violated:
        raise MachineryError("apalache %s --init=%s --inv=%s --cinit=%s: expected %s, got %s" % (
            module, init, inv, cinit, "a violation" if expect_violation else "OK", "a violation" if violated else "OK"))
    return {"module": module, "cfg": "apalache --cinit=%s --init=%s --inv=%s --length=%d" % (cinit, init, inv, length),
            "tool": "apalache", "wall_s": round(time.time() - t0, 1), "generated": 0, "distinct": 0, "depth": length,
            **({"expected_violation": inv} if expect_violation else {})}


def inductive(ctx, module, *, inv, ind_init, init="Init", cinit_ok="ConstInitOk", cinit_mut=None, implies=None, note=""):
    """Init => inv; inv /\\ Next => inv'; optionally inv => implies; with cinit_mut the step must FAIL (seeded design fault)."""
    runs = [check(module, cinit=cinit_ok, init=init, inv=inv, length=0),
            check(module, cinit=cinit_ok, init=ind_init, inv=inv, length=1)]
    if implies:
        runs.append(check(module, cinit=cinit_ok, init=ind_init, inv=implies, length=0))
    if cinit_mut:
        runs.append(check(module, cinit=cinit_mut, init=ind_init, inv=inv, length=1, expect_violation=True))
    for r in runs:
        r["note"] = note
        ctx.cov["model_runs"].append(r)
    return runs
