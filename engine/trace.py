"""Batch trace validation: events recorded from the real code -> TLC acceptor -> verdicts.

A trace module XTrace.tla reads a JSON array of traces from IOEnv.TRACES_FILE, has one initial
state per trace (`tid \\in 1..Len(Traces)`) and prints, for each trace,
    <<"VERDICT", tid, "accept" | "reject", {failed clause names}>>
Stateful acceptors (event sequences) walk the events with a cursor and print the verdict from a
POSTCONDITION / terminal-state invariant.  Batches are sharded over parallel single-worker TLC
processes (TLCSet/TLCGet registers and verdict printing need -workers 1).
"""
from __future__ import annotations

import json
import os
import tempfile
import shutil
from concurrent.futures import ThreadPoolExecutor

from .tlc import run_tlc, MachineryError


def _check_ints(x, path="$"):
    if isinstance(x, bool):
        return
    if isinstance(x, int):
        if not (-2**31 < x < 2**31):
            raise MachineryError("trace integer out of TLC range at %s: %r" % (path, x))
    elif isinstance(x, float):
        raise MachineryError("float in trace at %s: %r (traces carry ints/rationals only)" % (path, x))
    elif isinstance(x, dict):
        for k, v in x.items():
            _check_ints(v, path + "." + str(k))
    elif isinstance(x, (list, tuple)):
        for i, v in enumerate(x):
            _check_ints(v, "%s[%d]" % (path, i))


def validate(module: str, cfg: str, traces: list, *, shards: int = 16, max_per_shard: int = 4000,
             timeout: float = 1800, heap: str = "2g", env: dict | None = None) -> dict:
    """Validate `traces` (each a dict with a unique integer 'tid').  Returns
    {tid: {"accept": bool, "failed": [names]}}.  Raises MachineryError if TLC fails or a verdict
    is missing."""
    if not traces:
        return {}
    tids = [t["tid"] for t in traces]
    if len(set(tids)) != len(tids):
        raise MachineryError("duplicate trace ids")
    _check_ints(traces)
    nsh = max(1, min(shards, (len(traces) + 49) // 50))
    while (len(traces) + nsh - 1) // nsh > max_per_shard:
        nsh += 1
    # longest-processing-time first: heavy traces (by serialised size, validation cost grows faster than linearly) are
    # dealt out first, each to the currently lightest shard
    sized = sorted(((len(json.dumps(t)), k) for k, t in enumerate(traces)), reverse=True)
    loads, parts = [0.0] * nsh, [[] for _ in range(nsh)]
    for size, k in sized:
        i = loads.index(min(loads))
        parts[i].append(traces[k])
        loads[i] += float(size) ** 1.5
    parts = [p for p in parts if p]
    nsh = len(parts)
    tmp = tempfile.mkdtemp(prefix="traces_")
    verdicts = {}
    outputs = []

    def one(i):
        f = os.path.join(tmp, "shard%d.json" % i)
        with open(f, "w") as fh:
            json.dump(parts[i], fh)
        e = {"TRACES_FILE": f}
        if env:
            e.update(env)
        return run_tlc(module, cfg, workers=1, env=e, timeout=timeout, heap=heap)

    try:
        with ThreadPoolExecutor(max_workers=min(16, nsh)) as ex:
            results = list(ex.map(one, range(nsh)))
    finally:
        shutil.rmtree(tmp, ignore_errors=True)
    states = 0
    for i, r in enumerate(results):
        states += r.distinct
        if not r.ok:
            raise MachineryError("trace validation %s/%s failed in TLC: %s\n%s" %
                                 (module, cfg, r.violated or r.error, r.output[-3000:]))
        for p in r.prints:
            if p and p[0] == "VERDICT":
                verdicts[p[1]] = {"accept": p[2] == "accept", "failed": sorted(p[3]) if len(p) > 3 else [],
                                  "info": p[4] if len(p) > 4 else None}
    missing = [t for t in tids if t not in verdicts]
    if missing:
        raise MachineryError("no verdict for %d traces of %s (e.g. tid %s)\n%s" %
                             (len(missing), module, missing[:5], results[0].output[-2000:]))
    verdicts["_states"] = states
    return verdicts
