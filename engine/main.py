"""CLI: ./check <property> [--tier quick|thorough] [--seed N] [--replay file]"""
from __future__ import annotations

import argparse
import importlib
import json
import os
import sys
import traceback

from .core import Ctx
from .tlc import MachineryError


def main(argv=None):
    ap = argparse.ArgumentParser()
    ap.add_argument("prop")
    ap.add_argument("--tier", default=os.environ.get("VERIF_TIER", "quick"), choices=["quick", "thorough"])
    ap.add_argument("--seed", type=int, default=int(os.environ.get("VERIF_SEED", "0") or 0))
    ap.add_argument("--replay", default=None)
    a = ap.parse_args(argv)
    prop = a.prop.upper()
    try:
        mod = importlib.import_module("drivers." + prop.lower())
    except ModuleNotFoundError as e:
        print("MACHINERY-ERROR: no driver for %s (%s)" % (prop, e))
        return 2
    ctx = Ctx(prop, a.tier, a.seed, mod.LEVEL)
    import logging
    import warnings
    logging.getLogger("mokapot").setLevel(logging.ERROR)
    logging.getLogger().setLevel(logging.ERROR)
    warnings.filterwarnings("ignore")
    try:
        import mokapot
        repo = os.environ.get("VERIF_REPO", "/repo").rstrip("/")
        if not os.path.abspath(mokapot.__file__).startswith(repo + "/"):
            raise MachineryError("mokapot resolves to %s, not %s" % (mokapot.__file__, repo))
        if a.replay:
            with open(a.replay) as fh:
                case = json.load(fh)
            return mod.replay(ctx, case)
        return mod.run(ctx)
    except MachineryError as e:
        print("MACHINERY-ERROR: %s" % e)
        return 2
    except Exception:
        traceback.print_exc()
        print("MACHINERY-ERROR: unexpected exception in the driver for %s" % prop)
        return 2


if __name__ == "__main__":
    sys.exit(main())
