----------------------------- MODULE BrewDecide -----------------------------
(* The best-feature safety net of brew() (brew.py:250-302), property C07.

   Rows 1..n with a genuine target flag, one input feature (ranks feat[i], direction featDesc) and the learned
   scores (ranks learned[i]; "untrained" = all zero, brew.py:250-252).
     CountFeature   feat_total = number of targets accepted at thr by the best feature (Model.feat_pass)
     CountPred      pred_total = number of rows labelled +1 by update_labels on the returned scores.  The label
                    column is read from the FILE in its own encoding: AsIs_NoLabelConversion = the code before the
                    fix: commit for F-07a read it without conversion, so with the 1/-1 encoding every decoy counted as
                    a target (astype(bool) of -1 is True)
     Decide         feat_total > pred_total (and not override) => return the feature's values and its direction
   Declarative (SafetyNet): unless override, the returned scores accept at least feat_total GENUINE targets at thr,
   or they are the best feature's values together with its direction. *)
EXTENDS TdcDef, TLC
CONSTANTS MaxN, MaxRank, Overrides, AsIs_NoLabelConversion, Mut_NeverFallBack, Mut_ForgetDirection
VARIABLES n, tgt, feat, featDesc, learned, trained, enc, override, thr, pc, featTotal, predTotal, ret, retDesc, usedFeat
vars == <<n, tgt, feat, featDesc, learned, trained, enc, override, thr, pc, featTotal, predTotal, ret, retDesc, usedFeat>>
Thresholds == {<<1, 1>>, <<1, 2>>}
Init == /\ n \in 1..MaxN /\ tgt \in [1..n -> BOOLEAN] /\ feat \in [1..n -> 1..MaxRank] /\ featDesc \in BOOLEAN
        /\ learned \in [1..n -> 1..MaxRank] /\ trained \in BOOLEAN /\ enc \in {"pm1", "zo", "bool"}
        /\ override \in Overrides /\ thr \in Thresholds
        /\ pc = "feature" /\ featTotal = 0 /\ predTotal = 0 /\ ret = <<>> /\ retDesc = TRUE /\ usedFeat = FALSE
\* goodness ranks of a score vector under a direction (higher = better)
Good(v, desc) == [i \in 1..n |-> IF desc THEN v[i] ELSE MaxRank + 1 - v[i]]
Accepted(v, desc, isT) == Cardinality({i \in 1..n : LabelDef(Good(v, desc), isT, n, i, thr) = 1})
Scores == IF trained THEN learned ELSE [i \in 1..n |-> 1]                      \* zeros when a fold model is untrained
CountFeature == /\ pc = "feature"
                /\ featTotal' = Accepted(feat, featDesc, tgt)
                /\ pc' = "pred" /\ UNCHANGED <<n, tgt, feat, featDesc, learned, trained, enc, override, thr, predTotal, ret, retDesc, usedFeat>>
\* what update_labels sees as the target flags
SeenTargets == IF AsIs_NoLabelConversion /\ enc = "pm1" THEN [i \in 1..n |-> TRUE] ELSE tgt
CountPred == /\ pc = "pred"
             /\ predTotal' = Accepted(Scores, TRUE, SeenTargets)
             /\ pc' = "decide" /\ UNCHANGED <<n, tgt, feat, featDesc, learned, trained, enc, override, thr, featTotal, ret, retDesc, usedFeat>>
Decide == /\ pc = "decide"
          /\ LET ft == IF override THEN 0 ELSE featTotal
                 fb == ft > predTotal /\ ~Mut_NeverFallBack IN
             /\ usedFeat' = fb
             /\ ret' = IF fb THEN feat ELSE Scores
             /\ retDesc' = IF fb /\ ~Mut_ForgetDirection THEN featDesc ELSE TRUE
          /\ pc' = "done" /\ UNCHANGED <<n, tgt, feat, featDesc, learned, trained, enc, override, thr, featTotal, predTotal>>
Next == CountFeature \/ CountPred \/ Decide
Spec == Init /\ [][Next]_vars
SafetyNet == pc = "done" => \/ override
                            \/ Accepted(ret, retDesc, tgt) >= featTotal
                            \/ (ret = feat /\ retDesc = featDesc)
\* ---- liveness (checked by BrewDecide_live.cfg): under weak fairness of the next-state action every behaviour comes to rest
\* in a state without successor -- the modelled procedure terminates for every input, schedule and fault inside the bounds
FairSpec == Spec /\ WF_vars(Next)
Halts == <>[](~ENABLED Next)
=============================================================================
