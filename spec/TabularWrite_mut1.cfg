SPECIFICATION Spec
CONSTANTS BufSizes = {0, 2, 3} MaxAppends = 2 MaxRows = 3
          Mut_FlushLosesRemainder = TRUE Mut_SliceOffByOne = FALSE Mut_NoTruncate = FALSE Mut_NoClose = FALSE
INVARIANT Final
CHECK_DEADLOCK FALSE
