SPECIFICATION Spec
CONSTANTS MaxRows = 5 NPair = 4 WithUnmapped = FALSE
  Kinds = {"single"}
  AsIs_AllSharedKeyError = FALSE AsIs_PairByFirstName = FALSE Mut_NoStrip = FALSE Mut_SharedContribute = FALSE Mut_NoCollapse = FALSE Mut_KeepWorst = FALSE
INVARIANT EmitCase
CONSTRAINT GenOnly
CHECK_DEADLOCK FALSE
