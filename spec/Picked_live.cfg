SPECIFICATION FairSpec
CONSTANTS MaxRows = 3 NPair = 2 WithUnmapped = TRUE
  Kinds = {"single", "swap"}
  AsIs_AllSharedKeyError = FALSE AsIs_PairByFirstName = FALSE Mut_NoStrip = FALSE Mut_SharedContribute = FALSE Mut_NoCollapse = FALSE Mut_KeepWorst = FALSE
PROPERTY Halts
CHECK_DEADLOCK FALSE
