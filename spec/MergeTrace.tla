----------------------------- MODULE MergeTrace -----------------------------
(* Property-level acceptor for C14 on executions recorded from the real code.
   trace = [tid,
            impl: "table" | "rowdict",  desc: BOOLEAN,
            inputs: [[rank ..] ..]      -- what the driver wrote to the files, one rank list per input
            raised: BOOLEAN, rtype: STRING (exception type, "" if none),
            out: [[input, position] ..] -- ids parsed from the id column of the returned rows, in order
                                           (what was returned before the exception when raised)
            rk: [rank ..]               -- the returned score of each row, mapped back to its rank (0: unknown)
            pay: [int ..], txt: [STRING ..]   -- the returned payload columns of each row
            payload_ok: BOOLEAN         -- every returned row had exactly the written columns ]
   The clauses are the declarative invariants of Merge.tla, evaluated through INSTANCE on the recorded
   final state (pc = "rejected" iff the call raised, "done" otherwise), plus Unmodified (payload and score
   of every returned row equal what was written for that id).  Ties: any order among equal ranks. *)
EXTENDS Integers, Sequences, FiniteSets, TLC, TLCExt, Json, IOUtils
Traces == JsonDeserialize(IOEnv.TRACES_FILE)
VARIABLE tid
T == Traces[tid]

M == INSTANCE Merge WITH MaxInputs <- 8, MaxLen <- 0, MaxRank <- 0, Impls <- {"table", "rowdict"},
                         TieAny <- TRUE, Mut_DropLast <- FALSE, Mut_NoGuard <- FALSE, Mut_StrictGuard <- FALSE,
                         inputs <- T.inputs, desc <- T.desc, impl <- T.impl,
                         heads <- [f \in DOMAIN T.inputs |-> 1],
                         out <- T.out, pc <- IF T.raised THEN "rejected" ELSE "done"

NOut == Len(T.out)
Shape == /\ T.impl \in {"table", "rowdict"}
         /\ Len(T.rk) = NOut /\ Len(T.pay) = NOut /\ Len(T.txt) = NOut
         /\ \A k \in 1..NOut : Len(T.out[k]) = 2
ValidIds == Shape /\ LET ar == M!AllRows IN \A k \in 1..NOut : T.out[k] \in ar
\* the stated domain: 1..8 non-empty inputs; the unguarded row-dict merge only for sorted (descending) inputs
InDomain == /\ Len(T.inputs) \in 1..8 /\ \A f \in DOMAIN T.inputs : Len(T.inputs[f]) >= 1
            /\ (T.impl = "rowdict" => T.desc /\ M!InputsSorted)
Unmodified == ~T.raised =>
                 /\ T.payload_ok
                 /\ \A k \in 1..NOut : LET f == T.out[k][1]  i == T.out[k][2] IN
                       /\ T.rk[k] = T.inputs[f][i]
                       \* (nullpay: every 5th row of a Parquet input holds a NULL in the integer payload column: recorded as -2;
                       \*  an integer handed back as a float by the row-dictionary merge is recorded as -3)
                       /\ T.pay[k] = (IF T.nullpay /\ i % 5 = 0 THEN -2 ELSE 1000 * f + i)
                       /\ T.txt[k] = "t" \o ToString(f) \o "/" \o ToString(i)
Clauses == LET valid == ValidIds IN
           [Shape            |-> Shape,
            ValidIds         |-> valid,
            EveryRowOnce     |-> M!EveryRowOnce,
            GloballySorted   |-> valid => M!GloballySorted,
            Unmodified       |-> valid => Unmodified,
            UnsortedRejected |-> M!UnsortedRejected,
            SortedAccepted   |-> M!SortedAccepted]
Failed == IF InDomain THEN LET cl == Clauses IN {c \in DOMAIN cl : ~cl[c]} ELSE {}
Init == tid \in 1..Len(Traces)
Spec == Init /\ [][UNCHANGED tid]_tid
Verdict == LET f == Failed IN PrintT(<<"VERDICT", T.tid, IF f = {} THEN "accept" ELSE "reject", f>>)
=============================================================================
