SPECIFICATION Spec
CONSTANTS MaxN = 4 MaxIter = 3 StrictA = FALSE GenMod = 1
  AsIs_UnconditionalUnshuffle = FALSE Mut_NoReshuffle = FALSE Mut_FeedUnlabeled = FALSE Mut_InverseMixup = FALSE
CONSTANT Thresholds <- ThrMid
CONSTANT ShuffleVals <- BothB
INVARIANT NoUnlabeledFed
INVARIANT SamePsm
INVARIANT AllLabelledFed
INVARIANT FedExact
INVARIANT LabelsAligned
INVARIANT AbortLegit
INVARIANT PredInvariant
CHECK_DEADLOCK FALSE
