----------------------------- MODULE DecideTrace -----------------------------
(* Property-level acceptor for C07 (best-feature safety net) on the return value of the real brew().
   trace = [tid, thr: <<num, den>>, override, nfiles, featnames: <<STRING>>,
            rows: <<[id, file, tgt, feats: <<ints>>]>>                    -- genuine target flags, feature VALUES
            models: <<[fold, feat_pass, best_feat: STRING, desc, trained]>> -- as reported by the returned fold models
            fits: <<[model, train: <<ids>>]>>, train_thr: <<num, den>>, direction: "" | feature name  -- training sets seen by Model.fit
            raised: STRING, descs: <<BOOLEAN per file>>,
            has_ref, same_as_ref: BOOLEAN                                 -- the same input was also analysed at a fresh path / the two
                                                                              returns (error type, directions, every score) are identical
            scores: <<[id, num, den, ok, nan, rank]>>]                     -- returned score (exact rational) and its dense
                                                                              rank among the returned scores of its file
   SafetyNet: unless override, the returned scores (with the returned direction) accept at least feat_total genuine
   targets at thr (C01 formula per collection, summed), or they are a best feature's values with its direction.
   feat_total is RECOMPUTED from the recorded training sets (the best count over features x directions at train_fdr, over
   the fold models), not taken from what the models report; FeatPassReported checks the report separately. *)
EXTENDS Integers, Sequences, FiniteSets, FiniteSetsExt, SequencesExt, TLC, TLCExt, Json, IOUtils, TdcDef
Traces == JsonDeserialize(IOEnv.TRACES_FILE)
VARIABLE tid
T == Traces[tid]
Files == 1..T.nfiles
Check(R, S) ==     \* R: id -> row, S: id -> returned score record
  LET Ids == DOMAIN R
      IdsOf(f) == {x \in Ids : R[x].file = f}
      MaxRk == Max({S[x].rank : x \in Ids} \cup {1})
      AcceptedIn(f) ==
         LET s == SetToSeq(IdsOf(f))  n == Len(s)
             rk == TLCEval([i \in 1..n |-> IF T.descs[f] THEN S[s[i]].rank ELSE MaxRk + 1 - S[s[i]].rank])
             tg == TLCEval([i \in 1..n |-> R[s[i]].tgt])
         IN AcceptedCount(rk, tg, n, <<T.thr[1], T.thr[2]>>)        \* one pass (Tdc.tla: CountEqualsDef)
      Accepted == FoldSet(LAMBDA f, a : a + AcceptedIn(f), 0, Files)
      NM == Len(T.models)
      NF == Len(T.featnames)
      \* ---- what the best single feature did during training, recomputed from the recorded training sets ----
      Train(k) == UNION {{T.fits[i].train[j] : j \in 1..Len(T.fits[i].train)} : i \in {i \in 1..Len(T.fits) : T.fits[i].model = k}}
      FoldsFitted == {T.fits[i].model : i \in 1..Len(T.fits)}
      FeatCount(k, j, d) ==
         LET s == SetToSeq(Train(k) \cap Ids)  n == Len(s)
             rk == TLCEval([i \in 1..n |-> IF d THEN R[s[i]].feats[j] ELSE -R[s[i]].feats[j]])
             tg == TLCEval([i \in 1..n |-> R[s[i]].tgt])
         IN AcceptedCount(rk, tg, n, <<T.train_thr[1], T.train_thr[2]>>)
      Cands == IF T.direction = "" THEN 1..NF ELSE {j \in 1..NF : T.featnames[j] = T.direction}
      Counts == [k \in FoldsFitted |-> [j \in Cands |-> [d \in BOOLEAN |-> FeatCount(k, j, d)]]]
      BestCount(k) == Max({Counts[k][j][d] : j \in Cands, d \in BOOLEAN})
      FeatTotal == IF FoldsFitted = {} THEN 0 ELSE Max({BestCount(k) : k \in FoldsFitted})
      \* the returned scores are the values of A best feature, returned with ITS direction
      IsBestFeature == \E k \in FoldsFitted, j \in Cands, d \in BOOLEAN :
                          /\ Counts[k][j][d] = FeatTotal
                          /\ \A x \in Ids : ~S[x].nan /\ S[x].ok /\ S[x].num = R[x].feats[j] * S[x].den
                          /\ \A f \in Files : T.descs[f] = d
      \* and the fold models report that count (Model.feat_pass)
      Reported == \A m \in 1..NM : T.models[m].fold \in FoldsFitted => T.models[m].feat_pass = BestCount(T.models[m].fold)
  IN [\* an explicit calibration error (C11: no accepted target in some fold) is not a SILENT degradation
      Returned |-> \/ T.raised_type = "RuntimeError" /\ T.calib_error
                   \/ T.raised = "" /\ DOMAIN S = Ids /\ Len(T.descs) = T.nfiles /\ NM >= 1,
      \* returned scores that are not finite (a fold calibrated with t = d: division by zero, outside C11's domain) have no
      \* well-defined ranking: such runs are not judged
      SafetyNet |-> (T.raised = "" /\ DOMAIN S = Ids /\ NM >= 1 /\ \A x \in Ids : ~S[x].nan) =>
                       (T.override \/ Accepted >= FeatTotal \/ IsBestFeature),
      FeatPassReported |-> (T.raised = "" /\ NM >= 1) => Reported,
      \* the decision is taken from THIS input (its genuine labels): the same input analysed at a path that held another table
      \* before (same rows, opposite labels) returns exactly what it returns at a fresh path
      DecisionFromThisInput |-> T.has_ref => T.same_as_ref,
      info |-> IF T.raised = "" /\ DOMAIN S = Ids /\ NM >= 1
               THEN <<Accepted, FeatTotal, IsBestFeature>> ELSE <<0, 0, FALSE>>]
\* explicit (TLCEval): a lazy function would repeat the CHOOSE at every application
RowsF == TLCEval([x \in {T.rows[i].id : i \in 1..Len(T.rows)} |-> T.rows[CHOOSE i \in 1..Len(T.rows) : T.rows[i].id = x]])
ScoresF == TLCEval([x \in {T.scores[i].id : i \in 1..Len(T.scores)} |-> T.scores[CHOOSE i \in 1..Len(T.scores) : T.scores[i].id = x]])
Init == tid \in 1..Len(Traces)
Spec == Init /\ [][UNCHANGED tid]_tid
Verdict == LET C == Check(RowsF, ScoresF)  F == {c \in {"Returned", "SafetyNet", "FeatPassReported", "DecisionFromThisInput"} : ~C[c]} IN
           PrintT(<<"VERDICT", T.tid, IF F = {} THEN "accept" ELSE "reject", F, C.info>>)
=============================================================================
