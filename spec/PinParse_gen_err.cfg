SPECIFICATION Spec
CONSTANTS
  FeatLo = 1 FeatHi = 2 OptSets <- OptWidth LevSets <- LevNone
  Orders = {"std", "rev", "mix", "featfirst"}
  Casings = {"lower", "upper", "mixed"}
  Encs = {"pm", "zo", "bool"}
  NanCls = {"none"}
  Chunks = {19}
  Workers = {1}
  RowCls = {"one"}
  Errs = {"none", "no_specid", "no_label", "no_scannr", "no_peptide", "no_proteins", "lab2", "lab-3"}
  NRows = 3 Rotate = FALSE RotK = 1
  AsIs_Remainder1Only = FALSE AsIs_ChargeDefaultName = TRUE
  Mut_KeepSingleNaN = FALSE Mut_CaseSensitive = FALSE Mut_ZeroIsTarget = FALSE Mut_KeyFileOrder = FALSE
INVARIANT EmitCase
CONSTRAINT GenOnly
CHECK_DEADLOCK FALSE
