SPECIFICATION Spec
CONSTANTS MaxRows = 3 MaxSpec = 3 NFiles = 2 Folds = 2 Workers = 2 MinChunk = 1 MaxChunk = 2 MaxCap = 3
  AsIs_EmptySliceRaises = FALSE AsIs_CapLargerThanFile = FALSE
  Mut_TrainIncludesHeldOut = FALSE Mut_NoSortByFold = FALSE Mut_CutAtNominal = FALSE
INVARIANT NeverFails
INVARIANT PartitionOK
INVARIANT SpectrumClosed
INVARIANT TrainFromOtherFolds
INVARIANT ReadComplete
INVARIANT NoLeak
INVARIANT OutcomeIsF
CHECK_DEADLOCK FALSE
