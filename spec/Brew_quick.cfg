SPECIFICATION Spec
CONSTANTS MaxRows = 5 MaxSpec = 3 NFiles = 1 Folds = 2 Workers = 2 MinChunk = 1 MaxChunk = 3 MaxCap = 2
  AsIs_EmptySliceRaises = FALSE AsIs_CapLargerThanFile = FALSE
  Mut_TrainIncludesHeldOut = FALSE Mut_NoSortByFold = FALSE Mut_CutAtNominal = FALSE
INVARIANT NeverFails
INVARIANT PartitionOK
INVARIANT SpectrumClosed
INVARIANT TrainFromOtherFolds
INVARIANT ReadComplete
INVARIANT NoLeak
INVARIANT OutcomeIsF
CHECK_DEADLOCK FALSE
