SPECIFICATION Spec
CONSTANTS MaxRuns = 3 MaxChunks = 3 Prefixes = {"", "a"} AsIs_GlobTemp = FALSE Mut_NoCleanup = FALSE
INVARIANT ResultsOnlyFromOwnInputs
INVARIANT NoIntermediateLeft
INVARIANT EmitCase
CHECK_DEADLOCK FALSE
