SPECIFICATION Spec
CONSTANTS MaxInputs = 2 MaxLen = 3 MaxRank = 3 Impls = {"table", "rowdict"} TieAny = FALSE
          Mut_DropLast = TRUE Mut_NoGuard = FALSE Mut_StrictGuard = FALSE
INVARIANT EveryRowOnce
INVARIANT GloballySorted
INVARIANT UnsortedRejected
INVARIANT SortedAccepted
CHECK_DEADLOCK FALSE
