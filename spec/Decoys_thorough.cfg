SPECIFICATION Spec
CONSTANTS MaxLen = 7 MaxLen2 = 2 Alphabet <- Alpha5 Enzymes = {"KR", "KRnoP"}
          Reverses = {TRUE, FALSE} Concats = {TRUE} Renderings <- RendOne Width = 3 LemmaMaxLen = 5
          Mut_MoveLast = FALSE Mut_JoinNoNewline = FALSE Mut_NameWithDesc = FALSE
INVARIANT ParsedOk
INVARIANT DecoysValid
INVARIANT PeptideLocal
INVARIANT PermsOk
INVARIANT RoundTrip
INVARIANT FileOk
INVARIANT Hence
CHECK_DEADLOCK FALSE
