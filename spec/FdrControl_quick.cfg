SPECIFICATION Spec
CONSTANTS MaxN = 5 PlusOne = 1 Alphas <- AlphaSet
INVARIANT Controlled
CHECK_DEADLOCK FALSE
