SPECIFICATION Spec
CONSTANTS MaxN = 6 MaxRaw = 3 Mut_SignFlipped = FALSE Mut_MaxAccepted = FALSE
INVARIANT OrderPreserved
INVARIANT Anchored
INVARIANT MatchesDef
INVARIANT ErrorIffNoAccepted
CHECK_DEADLOCK FALSE
