SPECIFICATION Spec
CONSTANTS MaxRows = 3 NPair = 2 WithUnmapped = FALSE
  Kinds = {"single"}
  AsIs_AllSharedKeyError = FALSE AsIs_PairByFirstName = FALSE Mut_NoStrip = FALSE Mut_SharedContribute = FALSE Mut_NoCollapse = TRUE Mut_KeepWorst = FALSE
INVARIANT OnePerPair
CHECK_DEADLOCK FALSE
