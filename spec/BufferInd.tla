----------------------------- MODULE BufferInd -----------------------------
(* Unbounded safety of the buffered writer's row accounting (C13, writer half), discharged with Apalache as an
   inductive invariant -- TabularWrite.tla explores the same mechanism exhaustively for small bounds with TLC, the
   hook events BufAppend / BufWrite / BufFinalize are validated against it by HookTrace.tla.

   State: app = rows appended so far, wr = rows handed to the inner writer, buf = rows in the buffer,
          size = buffer size (>= 1, fixed), fin = finalized.
   Steps (BufferedWriter.append_data -> _write_buffer, finalize):
     Append(k)  buf grows by k >= 0 rows, then FULL blocks of `size` rows are written while buf >= size
                (the loop is summarised by its effect: q = buf div size blocks)
     Finalize   the rest is written (force=True), nothing stays behind
   IndInv is inductive: Init => IndInv and IndInv /\ Next => IndInv'.  It implies NothingLost (at finalize every
   appended row has been written exactly once) for every buffer size and every append sequence.
   Mut_KeepRest (the forced flush forgets the partial block) breaks inductiveness: Apalache must report it. *)
EXTENDS Integers
CONSTANTS
  \* @type: Int;
  MaxK,
  \* @type: Bool;
  Mut_KeepRest
VARIABLES
  \* @type: Int;
  app,
  \* @type: Int;
  wr,
  \* @type: Int;
  buf,
  \* @type: Int;
  size,
  \* @type: Bool;
  fin

ConstInit == MaxK \in 0..1000000 /\ Mut_KeepRest \in BOOLEAN
ConstInitOk == MaxK \in 0..1000000 /\ Mut_KeepRest = FALSE
ConstInitMut == MaxK \in 0..1000000 /\ Mut_KeepRest = TRUE

Init == /\ app = 0 /\ wr = 0 /\ buf = 0 /\ fin = FALSE
        /\ size \in 1..1000000

Append == /\ ~fin
          /\ \E k \in 0..MaxK :
               LET b == buf + k  q == b \div size IN
               /\ app' = app + k
               /\ wr' = wr + q * size
               /\ buf' = b - q * size
          /\ UNCHANGED <<size, fin>>

Finalize == /\ ~fin
            /\ fin' = TRUE
            /\ IF Mut_KeepRest THEN wr' = wr /\ buf' = buf
               ELSE wr' = wr + buf /\ buf' = 0
            /\ UNCHANGED <<app, size>>

Next == Append \/ Finalize

\* the inductive invariant: every variable is constrained
IndInv == /\ size >= 1
          /\ app >= 0 /\ wr >= 0 /\ buf >= 0
          /\ app = wr + buf                    \* no row lost, none duplicated
          /\ (~fin => buf < size)              \* the buffer never holds a full block between calls
          /\ (fin => buf = 0)                  \* nothing stays behind at finalize
IndInit == /\ size \in Int /\ app \in Int /\ wr \in Int /\ buf \in Int /\ fin \in BOOLEAN
           /\ IndInv
\* what the property says
NothingLost == fin => wr = app
Safety == IndInv => NothingLost
=============================================================================
