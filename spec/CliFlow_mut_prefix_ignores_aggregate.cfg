SPECIFICATION Spec
CONSTANTS MaxDev = 2 Mut = "prefix_ignores_aggregate"
INVARIANT Dataflow
CHECK_DEADLOCK FALSE
