SPECIFICATION Spec
CONSTANTS
  FeatLo = 0 FeatHi = 2 OptSets <- OptWidth LevSets <- LevNone
  Orders = {"std", "rev"}
  Casings = {"lower", "upper"}
  Encs = {"pm", "zo"}
  NanCls = {"none", "first"}
  Chunks = {19}
  Workers = {1}
  RowCls = {"one"}
  Errs = {"none"}
  NRows = 3 Rotate = FALSE RotK = 1
  AsIs_Remainder1Only = FALSE AsIs_ChargeDefaultName = TRUE
  Mut_KeepSingleNaN = FALSE Mut_CaseSensitive = FALSE Mut_ZeroIsTarget = TRUE Mut_KeyFileOrder = FALSE
INVARIANT ResultIsDef
CHECK_DEADLOCK FALSE
