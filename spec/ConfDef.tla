------------------------------- MODULE ConfDef -------------------------------
(* Declarative layer of property C03 (competition and rollup), shared by the implementation-shaped model
   Confidence.tla (applied to the model's outputs) and by the acceptor ConfTrace.tla (applied to the result
   files recorded from the real assign_confidence / brew_rollup).

   A table is a function  Rows : Ids -> [spec, key (sequence: one entity per rollup level), tgt, rank]
   (rank: HIGHER = BETTER).  An output is a sequence of ids.  Ties are free: ANY maximal PSM of a
   spectrum / entity is an acceptable winner, so the layer is a set of predicates on outputs, not a
   function of the input. *)
EXTENDS Integers, Sequences, FiniteSets, FiniteSetsExt, SequencesExt, TdcDef

SeqSet(s) == {s[i] : i \in 1..Len(s)}
NoDup(s) == Cardinality(SeqSet(s)) = Len(s)
SortedDesc(Rows, s) == \A i \in 1..(Len(s) - 1) : Rows[s[i]].rank >= Rows[s[i + 1]].rank

\* PSM level: every row when de-duplication is off, otherwise exactly one row per spectrum, a maximal one
PsmSetOK(Rows, Ids, dedup, O) ==
   /\ O \subseteq Ids
   /\ IF dedup
        THEN /\ \A s \in {Rows[i].spec : i \in Ids} : Cardinality({x \in O : Rows[x].spec = s}) = 1
             /\ \A x \in O : \A i \in Ids : Rows[i].spec = Rows[x].spec => Rows[i].rank <= Rows[x].rank
        ELSE O = Ids
\* rollup level k over the retained PSMs P: one row per entity, a maximal one among P
LevelSetOK(Rows, P, k, O) ==
   /\ O \subseteq P
   /\ \A e \in {Rows[x].key[k] : x \in P} : Cardinality({x \in O : Rows[x].key[k] = e}) = 1
   /\ \A x \in O : \A y \in P : Rows[y].key[k] = Rows[x].key[k] => Rows[y].rank <= Rows[x].rank

\* q-values of the C01 formula over exactly the retained rows O; result: id -> rational
QOver(Rows, O) ==
   LET s == SetToSeq(O)  n == Len(s)
       rk == [i \in 1..n |-> Rows[s[i]].rank]
       tg == [i \in 1..n |-> Rows[s[i]].tgt]
       qm == QMap(rk, tg, n)
   IN [x \in O |-> qm[Rows[x].rank]]

\* tie freedom inside every spectrum and every entity (then the retained sets are unique)
TieFreeInGroups(Rows, Ids, nlev) ==
   \A i, j \in Ids : i # j =>
      /\ (Rows[i].spec = Rows[j].spec => Rows[i].rank # Rows[j].rank)
      /\ \A k \in 1..nlev : Rows[i].key[k] = Rows[j].key[k] => Rows[i].rank # Rows[j].rank
UniquePsm(Rows, Ids, dedup) ==
   IF dedup THEN {x \in Ids : \A i \in Ids : Rows[i].spec = Rows[x].spec => Rows[i].rank <= Rows[x].rank} ELSE Ids
UniqueLevel(Rows, P, k) == {x \in P : \A y \in P : Rows[y].key[k] = Rows[x].key[k] => Rows[y].rank <= Rows[x].rank}
=============================================================================
