SPECIFICATION Spec
CONSTANTS
  FeatLo = 0 FeatHi = 45 OptSets <- OptWidth LevSets <- LevAll
  Orders = {"std", "rev", "mix", "featfirst"}
  Casings = {"lower", "upper", "mixed"}
  Encs = {"pm", "zo", "bool"}
  NanCls = {"none", "first", "last", "two", "mid", "all"}
  Chunks = {2, 3, 4, 5, 6, 19}
  Workers = {1, 2}
  RowCls = {"one", "two", "three"}
  Errs = {"none"}
  NRows = 3 Rotate = TRUE RotK = 2
  AsIs_Remainder1Only = FALSE AsIs_ChargeDefaultName = TRUE
  Mut_KeepSingleNaN = FALSE Mut_CaseSensitive = FALSE Mut_ZeroIsTarget = FALSE Mut_KeyFileOrder = FALSE
INVARIANT InputsInDomain
INVARIANT AllColumnsOnce
INVARIANT IdsTogether
INVARIANT ChunkBound
INVARIANT FrameInOrder
INVARIANT ResultIsDef
INVARIANT ClausesDiscriminate
CHECK_DEADLOCK FALSE
