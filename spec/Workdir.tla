------------------------------ MODULE Workdir ------------------------------
(* Leftovers of earlier runs in the destination directory of assign_confidence (property C09).
   The file system is a map  name -> content; name = <<kind, prefix, idx>> with kind in
   {"chunk" (prefix + scores_metadata_<idx>), "level" (<level> file shared by all prefixes), "result"};
   content is abstracted to <<run, tokens>>: which run wrote it and which input chunks it carries.

   One run (confidence.py):  WriteChunk*  (create_sorted_file_iterator:821-832, BEFORE the try/finally)
                             Glob         (834-836: AsIs_GlobTemp = the code before the fix: commit for F-09a listed
                                           every file matching prefix + "scores_metadata_*"; now: the paths just written)
                             InitLevel, Merge (703-758), WriteResults, UnlinkLevel (392-455), Cleanup (finally: 845-852)
   An earlier run may Fail (an I/O call raises: the finally block runs if the run is inside the with-block) or be
   Killed (nothing runs) at any step; the last run completes.  Mut_NoCleanup: seeded fault. *)
EXTENDS Naturals, Sequences, FiniteSets, TLC

CONSTANTS MaxRuns, MaxChunks, Prefixes, AsIs_GlobTemp, Mut_NoCleanup

VARIABLES fs, run, cfg, pc, written, paths, result, history
vars == <<fs, run, cfg, pc, written, paths, result, history>>

Steps == {"chunks", "level", "merge", "results", "unlinklevel", "cleanup"}
Cfgs(last) == [k : 1..MaxChunks, pfx : Prefixes,
               crash : IF last THEN {"none"} ELSE Steps,
               kill : IF last THEN {FALSE} ELSE BOOLEAN]

Init == /\ fs = <<>> /\ run = 1 /\ cfg \in Cfgs(MaxRuns = 1) /\ pc = "chunks" /\ written = 0
        /\ paths = {} /\ result = {} /\ history = <<>>

Name(kind, idx) == <<kind, IF kind = "level" THEN "" ELSE cfg.pfx, idx>>
Put(f, name, c) == [n \in DOMAIN f \cup {name} |-> IF n = name THEN c ELSE f[n]]
Del(f, names) == [n \in DOMAIN f \ names |-> f[n]]
Chunks(f, pfx) == {n \in DOMAIN f : n[1] = "chunk" /\ n[2] = pfx}

NextRun(f) == /\ history' = Append(history, [k |-> cfg.k, pfx |-> cfg.pfx, crash |-> cfg.crash, kill |-> cfg.kill])
              /\ run' = run + 1 /\ cfg' \in Cfgs(run + 1 = MaxRuns)
              /\ pc' = "chunks" /\ written' = 0 /\ paths' = {} /\ result' = {} /\ fs' = f
InWith == pc \in {"level", "merge", "results", "unlinklevel"}

WriteChunk == /\ pc = "chunks" /\ written < cfg.k
              /\ fs' = Put(fs, Name("chunk", written), <<run, {written}>>)
              /\ written' = written + 1
              /\ pc' = IF written + 1 = cfg.k /\ cfg.crash # "chunks" THEN "glob" ELSE "chunks"
              /\ UNCHANGED <<run, cfg, paths, result, history>>
Glob == /\ pc = "glob"
        /\ paths' = IF AsIs_GlobTemp THEN Chunks(fs, cfg.pfx)
                    ELSE {Name("chunk", i) : i \in 0..(cfg.k - 1)}
        /\ pc' = "level" /\ UNCHANGED <<fs, run, cfg, written, result, history>>
InitLevel == /\ pc = "level" /\ cfg.crash # pc /\ fs' = Put(fs, Name("level", 0), <<run, {}>>)
             /\ pc' = "merge" /\ UNCHANGED <<run, cfg, written, paths, result, history>>
Merge == /\ pc = "merge" /\ cfg.crash # pc
         /\ fs' = Put(fs, Name("level", 0), <<run, UNION {{<<fs[p][1], t>> : t \in fs[p][2]} : p \in paths}>>)
         /\ pc' = "results" /\ UNCHANGED <<run, cfg, written, paths, result, history>>
WriteResults == /\ pc = "results" /\ cfg.crash # pc
                /\ result' = fs[Name("level", 0)][2] /\ fs' = Put(fs, Name("result", 0), fs[Name("level", 0)])
                /\ pc' = "unlinklevel" /\ UNCHANGED <<run, cfg, written, paths, history>>
UnlinkLevel == /\ pc = "unlinklevel" /\ cfg.crash # pc /\ fs' = Del(fs, {Name("level", 0)})
               /\ pc' = "cleanup" /\ UNCHANGED <<run, cfg, written, paths, result, history>>
Cleanup == /\ pc = "cleanup" /\ cfg.crash # pc /\ fs' = IF Mut_NoCleanup THEN fs ELSE Del(fs, paths)
           /\ pc' = "done" /\ UNCHANGED <<run, cfg, written, paths, result, history>>
CrashInChunks == pc = "chunks" /\ cfg.crash = "chunks" /\ written >= 1 /\ NextRun(fs)
CrashElsewhere == pc \notin {"chunks", "glob", "done"} /\ cfg.crash = pc
                  /\ IF ~cfg.kill /\ (InWith \/ pc = "cleanup") THEN NextRun(Del(fs, paths)) ELSE NextRun(fs)

Next == WriteChunk \/ Glob \/ InitLevel \/ Merge \/ WriteResults \/ UnlinkLevel \/ Cleanup
        \/ CrashInChunks \/ CrashElsewhere
Spec == Init /\ [][Next]_vars

Own == {<<run, i>> : i \in 0..(cfg.k - 1)}
\* C09: the results of the completed run come from its own inputs only
ResultsOnlyFromOwnInputs == pc = "done" => result = Own
\* and no intermediate file OF THAT RUN remains (stale higher-index chunk files of earlier runs may)
NoIntermediateLeft == pc = "done" => \A n \in DOMAIN fs : (n[1] # "result" => fs[n][1] # run)
\* behaviour generation: the run history that led to the completed run
EmitCase == pc = "done" => PrintT(<<"CASE", history, [k |-> cfg.k, pfx |-> cfg.pfx]>>)
\* ---- liveness (checked by Workdir_live.cfg): under weak fairness of the next-state action every behaviour comes to rest
\* in a state without successor -- the modelled procedure terminates for every input, schedule and fault inside the bounds
FairSpec == Spec /\ WF_vars(Next)
Halts == <>[](~ENABLED Next)
=============================================================================
