SPECIFICATION FairSpec
CONSTANTS Folds = 3 Mut_ScoreWithUntrained = FALSE
PROPERTY Halts
CHECK_DEADLOCK FALSE
