SPECIFICATION Spec
CONSTANTS MaxN = 3 MaxV = 2 AnyValues = FALSE AsIs_SortedReturn = TRUE Mut_WrongDirection = FALSE Mut_TieJitter = FALSE Thorough = FALSE
INVARIANT Inv_Equivariant
CHECK_DEADLOCK FALSE
