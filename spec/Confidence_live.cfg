SPECIFICATION FairSpec
CONSTANTS MaxRows = 3 NSpec = 2 NKey = 2 NLev = 1 MaxRank = 2
  AsIs_ChunkDedupOnRollup = FALSE Mut_SeenBeforeCompetition = FALSE Mut_MergeSmallestHead = FALSE
PROPERTY Halts
CHECK_DEADLOCK FALSE
