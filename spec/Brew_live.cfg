SPECIFICATION FairSpec
CONSTANTS MaxRows = 4 MaxSpec = 3 NFiles = 1 Folds = 2 Workers = 2 MinChunk = 1 MaxChunk = 2 MaxCap = 1
  AsIs_EmptySliceRaises = FALSE AsIs_CapLargerThanFile = FALSE
  Mut_TrainIncludesHeldOut = FALSE Mut_NoSortByFold = FALSE Mut_CutAtNominal = FALSE
PROPERTY Halts
CHECK_DEADLOCK FALSE
