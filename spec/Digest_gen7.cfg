SPECIFICATION Spec
CONSTANTS MaxLen = 7 Alphabet = {"K", "P", "M", "F"}
          Enzymes = {"KR", "KRnoP", "lbKRnoP", "lookK", "FWY"}
          MCs = {0} Bounds <- BoundsOne Clips = {FALSE} Semis = {FALSE}
          Mut_NoEndSite = FALSE Mut_McOffByOne = FALSE Mut_ClipAnyStart = FALSE
INVARIANT EmitCase
CONSTRAINT GenOnly
CHECK_DEADLOCK FALSE
