SPECIFICATION FairSpec
CONSTANTS MaxN = 3 MaxIter = 2 StrictA = FALSE GenMod = 1
  AsIs_UnconditionalUnshuffle = FALSE Mut_NoReshuffle = FALSE Mut_FeedUnlabeled = FALSE Mut_InverseMixup = FALSE
CONSTANT Thresholds <- ThrSmall
CONSTANT ShuffleVals <- BothB
PROPERTY Halts
CHECK_DEADLOCK FALSE
