SPECIFICATION Spec
CONSTANTS MaxDev = 2 Mut = "brew_unseeded"
INVARIANT Dataflow
CHECK_DEADLOCK FALSE
