------------------------------- MODULE PepXml -------------------------------
(* Implementation-shaped model of mokapot.read_pepxml(..., to_df=True) (mokapot/parsers/pepxml.py) against the
   declarative layer PepXmlDef (RowsDef / ErrDef), for every small document of the families below.

     OpenFile      _parse_pepxml 152-181        iterparse; a non-XML file raises (XMLSyntaxError -> ValueError)
     NextRun       _parse_msms_run 184-213      ms_data_file = base_name (+ raw_data unless it already ends with it);
                                                end of file: from_records + df["ms_data_file"] (KeyError on no row)
     NextSpectrum  _parse_spectrum 216-241      spec_info = run_info + end_scan, assumed_charge, retention_time_sec,
                                                precursor_neutral_mass
     BeginHit      _parse_psm 262-282           copy spec_info, peptide, primary protein, label from the primary
                                                protein, optional attributes
     Elem          _parse_psm 289-310           psm_info.iter(modification_info, search_score, alternative_protein)
                                                in document order; after the last element the row is emitted
     ModStep       _parse_psm 291-299           idx = offset + position; insert "[" mass "]" at idx;
                                                offset += 2 + len(mass); at the end psm["peptide"] = mod_pep
     Concat        read_pepxml 66-79            pd.concat of the files; Percolator columns -> ValueError
     Post          read_pepxml 81-128, 313-377  log10(num_matched_peptides); conversion of the score strings to
                                                numbers (the score values of the domain lie outside the
                                                log-transform heuristics of _log_features, so it is the identity)

   Mut_* are seeded design faults that TLC must reject (sensitivity of model and declarative layer). *)
EXTENDS PepXmlDef, TLC

CONSTANTS Families,              \* subset of {"single", "pairs", "struct1", "runs2", "files2", "errors"}
          MaxMods, MaxAlts,      \* bounds of the "single" family
          Rich,                  \* TRUE: more score / optional-attribute options in the "single" family
          MaxSpec2,              \* spectra per run in the "files2" family
          Mut_NoOffset,          \* fault: running offset not accumulated
          Mut_InsertBefore,      \* fault: modification inserted before its residue
          Mut_LabelPrimaryOnly,  \* fault: label from the primary protein only
          Mut_LabelLastWins,     \* fault: label overwritten by every alternative protein
          Mut_StaleSpec,         \* fault: spectrum attributes not refreshed per spectrum query
          Mut_LastFileOnly       \* fault: files not concatenated

VARIABLES doc, pc, fi, ri, si, hi, ei, mi, runinfo, specinfo, psm, offset, modpep, cur, frames, out
vars == <<doc, pc, fi, ri, si, hi, ei, mi, runinfo, specinfo, psm, offset, modpep, cur, frames, out>>

Prefix == "decoy_"

(* ------------------------------------------------------------------ small-scope documents *)
MassPool == {<<"1", "6">>, <<"1", "6", "0", ".", "0", "3">>}          \* texts of different length
Pep3 == <<"M", "C", "K">>
ModSeqs(n, maxm) == {m \in UNION {[1..k -> (1..n) \X MassPool] : k \in 0..maxm} :
                        \A i \in 1..(Len(m) - 1) : m[i][1] < m[i + 1][1]}
\* "xdecoy_P2": a target accession that contains the prefix, but not at its start
AccName == <<"sp|P1|A_HUMAN", "xdecoy_P2", "P3">>
ProtSeqs(maxa) == UNION {{[k \in 1..n |-> [decoy |-> d[k], acc |-> AccName[k]]] : d \in [1..n -> BOOLEAN]} :
                         n \in 1..(maxa + 1)}
S1 == <<<<"xcorr", 1250>>>>
S2 == <<<<"xcorr", -500>>, <<"deltacn", 125>>>>
ScoreOpts == IF Rich THEN {S1, S2, <<>>} ELSE {S1, S2}
OptOpts == IF Rich THEN {<<-1, -1, -1>>, <<1, 2, 2>>, <<0, -1, -1>>, <<-1, 0, 3>>} ELSE {<<-1, -1, -1>>, <<1, 2, 2>>}
MkHit(p, m, pr, s, o, l) == [pep |-> p, mods |-> m, prots |-> pr, scores |-> s,
                             mc |-> o[1], ntt |-> o[2], nmp |-> o[3], layout |-> l]
AllHits == {MkHit(Pep3, m, pr, s, o, l) : m \in ModSeqs(3, MaxMods), pr \in ProtSeqs(MaxAlts),
                                          s \in ScoreOpts, o \in OptOpts, l \in {0, 1}}
Pr(d1) == <<[decoy |-> d1, acc |-> AccName[1]]>>
Pr2(d1, d2) == <<[decoy |-> d1, acc |-> AccName[1]], [decoy |-> d2, acc |-> AccName[2]]>>
H1 == MkHit(Pep3, <<<<1, <<"1", "6">>>>, <<3, <<"1", "6", "0", ".", "0", "3">>>>>>, Pr2(TRUE, FALSE), S2, <<1, 2, 2>>, 0)
H2 == MkHit(<<"S", "T">>, <<>>, Pr(TRUE), S1, <<-1, -1, -1>>, 0)
H3 == MkHit(Pep3, <<<<2, <<"1", "6", "0", ".", "0", "3">>>>>>, Pr(FALSE), S1, <<0, 1, 0>>, 1)
H4 == MkHit(<<"A", "M", "R">>, <<<<2, <<"1", "6">>>>, <<3, <<"1", "6">>>>>>, Pr2(TRUE, TRUE), S2, <<-1, -1, -1>>, 1)
Pool4 == {H1, H2, H3, H4}
Pool2 == {H1, H2}
\* medium pool for the two-hit documents (state leaking from one hit into the next)
MidHits == {MkHit(Pep3, m, pr, S1, <<-1, -1, -1>>, 0) :
               m \in {x \in ModSeqs(3, 2) : \A i \in 1..Len(x) : x[i][2] = <<"1", "6">> /\ x[i][1] # 2},
               pr \in ProtSeqs(1)} \cup Pool4

\* spectrum attributes are a function of the position; scan numbers repeat in every run
Sp(r, s, hits) == [scan |-> 7 + s, charge |-> 1 + ((r + s) % 3), rt |-> 60000 + 1125 * s + 250 * r,
                   mass |-> 900000 + 375 * s + 1000 * r, hits |-> hits]
RunStem == <<"runA", "/data/x/runB">>
Run(r, spectra) == [stem |-> RunStem[r], ext |-> IF r = 1 THEN ".mzML" ELSE ".raw", full |-> (r = 2), spectra |-> spectra]
HitSeqs(pool, maxh) == UNION {[1..k -> pool] : k \in 0..maxh}
SpectraOf(r, pool, maxs, maxh) ==
   UNION {{[s \in 1..n |-> Sp(r, s, hs[s])] : hs \in [1..n -> HitSeqs(pool, maxh)]} : n \in 1..maxs}
PepFile(runs) == [kind |-> "pepxml", runs |-> runs]
NonXml == [kind |-> "nonxml", runs |-> <<>>]
OtherXml == [kind |-> "otherxml", runs |-> <<>>]
HasHit(f) == Len(HitsOfFile(f)) >= 1
OneHitFile(h) == PepFile(<<Run(1, <<Sp(1, 1, <<h>>)>>)>>)

Single  == {<<OneHitFile(h)>> : h \in AllHits}
Pairs   == {<<PepFile(<<Run(1, <<Sp(1, 1, <<a, b>>)>>)>>)>> : a, b \in MidHits}
Struct1 == {<<f>> : f \in {g \in {PepFile(<<Run(1, sp)>>) : sp \in SpectraOf(1, Pool4, 2, 2)} : HasHit(g)}}
Runs2   == {<<f>> : f \in {g \in {PepFile(<<Run(1, a), Run(2, b)>>) :
                                   a \in SpectraOf(1, Pool2, 2, 2), b \in SpectraOf(2, Pool2, 2, 2)} : HasHit(g)}}
FilesA  == {g \in {PepFile(<<Run(1, sp)>>) : sp \in SpectraOf(1, Pool2, MaxSpec2, 2)} : HasHit(g)}
FilesB  == {g \in {PepFile(<<Run(2, sp)>>) : sp \in SpectraOf(2, Pool2, MaxSpec2, 2)} : HasHit(g)}
Files2  == {<<a, b>> : a \in FilesA, b \in FilesB}
MarkedHit(name) == [H3 EXCEPT !.scores = Append(H3.scores, <<name, 10>>)]
Good == PepFile(<<Run(1, <<Sp(1, 1, <<H1, H2>>)>>)>>)
MarkedFiles == {OneHitFile(MarkedHit(nm)) : nm \in PercolatorNames}
               \cup {PepFile(<<Run(1, <<Sp(1, 1, <<H2>>), Sp(1, 2, <<H1, MarkedHit("Percolator PEP")>>)>>)>>)}
BadFiles == MarkedFiles \cup {NonXml, OtherXml}
Errors  == {<<b>> : b \in BadFiles} \cup {<<Good, b>> : b \in BadFiles} \cup {<<b, Good>> : b \in BadFiles}

Docs == (IF "single"  \in Families THEN Single  ELSE {}) \cup (IF "pairs"  \in Families THEN Pairs  ELSE {}) \cup
        (IF "struct1" \in Families THEN Struct1 ELSE {}) \cup (IF "runs2"  \in Families THEN Runs2  ELSE {}) \cup
        (IF "files2"  \in Families THEN Files2  ELSE {}) \cup (IF "errors" \in Families THEN Errors ELSE {})

(* ------------------------------------------------------------------ the parser *)
NoPsm == [none |-> TRUE]
Init == /\ doc \in Docs
        /\ pc = "file" /\ fi = 1 /\ ri = 0 /\ si = 0 /\ hi = 0 /\ ei = 0 /\ mi = 0
        /\ runinfo = "" /\ specinfo = NoPsm /\ psm = NoPsm /\ offset = 0 /\ modpep = <<>>
        /\ cur = <<>> /\ frames = <<>> /\ out = [kind |-> "none"]
IsInit == pc = "file" /\ fi = 1

File == doc[fi]
TheRun == File.runs[ri]
TheSpec == TheRun.spectra[si]
TheHit == TheSpec.hits[hi]

Raise == pc' = "done" /\ out' = [kind |-> "Raised"]

\* pepxml.py:66, 152-181
OpenFile == /\ pc = "file"
            /\ IF fi > Len(doc) THEN pc' = "concat" /\ UNCHANGED <<ri, cur, out>>
               ELSE IF File.kind = "nonxml" THEN Raise /\ UNCHANGED <<ri, cur>>      \* 177-180
               ELSE pc' = "run" /\ ri' = 1 /\ cur' = <<>> /\ UNCHANGED out
            /\ UNCHANGED <<doc, fi, si, hi, ei, mi, runinfo, specinfo, psm, offset, modpep, frames>>

\* pepxml.py:184-213 and the end of the records stream (175-176)
NextRun == /\ pc = "run"
           /\ IF ri > Len(File.runs)
              THEN /\ IF cur = <<>> THEN Raise /\ UNCHANGED <<fi, frames>>           \* df["ms_data_file"]: KeyError
                      ELSE pc' = "file" /\ fi' = fi + 1 /\ frames' = Append(frames, cur) /\ UNCHANGED out
                   /\ UNCHANGED <<si, runinfo>>
              ELSE /\ LET base == IF TheRun.full THEN TheRun.stem \o TheRun.ext ELSE TheRun.stem
                      IN runinfo' = IF TheRun.full THEN base ELSE base \o TheRun.ext   \* 206-209 endswith(raw_data)
                   /\ si' = 1 /\ pc' = "spectrum"
                   /\ UNCHANGED <<fi, frames, out>>
           /\ UNCHANGED <<doc, ri, hi, ei, mi, specinfo, psm, offset, modpep, cur>>

\* pepxml.py:216-241
NextSpectrum == /\ pc = "spectrum"
                /\ IF si > Len(TheRun.spectra)
                   THEN ri' = ri + 1 /\ pc' = "run" /\ UNCHANGED <<hi, specinfo>>
                   ELSE /\ specinfo' = IF Mut_StaleSpec /\ si > 1 THEN specinfo
                                       ELSE [file |-> runinfo, scan |-> TheSpec.scan, charge |-> TheSpec.charge,
                                             rt |-> TheSpec.rt, mass |-> TheSpec.mass]
                        /\ hi' = 1 /\ pc' = "hit" /\ UNCHANGED ri
                /\ UNCHANGED <<doc, fi, si, ei, mi, runinfo, psm, offset, modpep, cur, frames, out>>

Pow10(e) == IF e = 0 THEN 1 ELSE IF e = 1 THEN 10 ELSE IF e = 2 THEN 100 ELSE IF e = 3 THEN 1000 ELSE 10000
OptFeats(h) == (IF h.mc  >= 0 THEN {<<"missed_cleavages", 1000 * h.mc>>} ELSE {})              \* 269-272
               \cup (IF h.ntt >= 0 THEN {<<"ntt", 1000 * h.ntt>>} ELSE {})                     \* 274-277
               \cup (IF h.nmp >= 0 THEN {<<"num_matched_peptides", Pow10(h.nmp)>>} ELSE {})    \* 279-282 (raw count)
\* document order of the elements visited by psm_info.iter(...): layout 0 is the PepXML schema order
Elems(h) == LET alt == [k \in 1..(Len(h.prots) - 1) |-> <<"alt", k + 1>>]
                mod == IF Len(h.mods) > 0 \/ h.layout = 1 THEN <<<<"modinfo", 0>>>> ELSE <<>>
                sco == [k \in 1..Len(h.scores) |-> <<"score", k>>]
            IN IF h.layout = 0 THEN alt \o mod \o sco ELSE mod \o sco \o alt

\* pepxml.py:244-282; when the hits of the spectrum are exhausted: next spectrum
BeginHit == /\ pc = "hit"
            /\ IF hi > Len(TheSpec.hits)
               THEN si' = si + 1 /\ pc' = "spectrum" /\ UNCHANGED <<psm, ei>>
               ELSE /\ psm' = [file |-> specinfo.file, scan |-> specinfo.scan, charge |-> specinfo.charge,
                               rt |-> specinfo.rt, mass |-> specinfo.mass,
                               pep |-> TheHit.pep,
                               prots |-> <<AccOf(TheHit.prots[1], Prefix)>>,
                               target |-> ~TheHit.prots[1].decoy,               \* 266 not startswith(decoy_prefix)
                               feats |-> OptFeats(TheHit)]
                    /\ ei' = 1 /\ pc' = "elem" /\ UNCHANGED si
            /\ UNCHANGED <<doc, fi, ri, hi, mi, runinfo, specinfo, offset, modpep, cur, frames, out>>

\* pepxml.py:289-310
Elem == /\ pc = "elem"
        /\ LET es == Elems(TheHit) IN
           IF ei > Len(es)
           THEN /\ cur' = Append(cur, psm) /\ hi' = hi + 1 /\ pc' = "hit"          \* 309-310, from_records
                /\ UNCHANGED <<psm, ei, mi, offset, modpep>>
           ELSE LET e == es[ei] IN
                CASE e[1] = "modinfo" ->                                           \* 290-292
                       /\ offset' = 0 /\ modpep' = psm.pep /\ mi' = 1 /\ pc' = "mod"
                       /\ UNCHANGED <<psm, ei, cur, hi>>
                  [] e[1] = "alt" ->                                               \* 301-304
                       /\ LET p == TheHit.prots[e[2]]
                              t == IF Mut_LabelPrimaryOnly THEN psm.target
                                   ELSE IF Mut_LabelLastWins THEN ~p.decoy
                                   ELSE IF ~psm.target THEN ~p.decoy ELSE psm.target
                          IN psm' = [psm EXCEPT !.prots = Append(@, AccOf(p, Prefix)), !.target = t]
                       /\ ei' = ei + 1 /\ UNCHANGED <<pc, mi, offset, modpep, cur, hi>>
                  [] e[1] = "score" ->                                             \* 306-307 psm[name] = value
                       /\ LET s == TheHit.scores[e[2]]
                          IN psm' = [psm EXCEPT !.feats = {x \in @ : x[1] # s[1]} \cup {<<s[1], s[2]>>}]
                       /\ ei' = ei + 1 /\ UNCHANGED <<pc, mi, offset, modpep, cur, hi>>
        /\ UNCHANGED <<doc, fi, ri, si, runinfo, specinfo, frames, out>>

\* pepxml.py:293-299
ModStep == /\ pc = "mod"
           /\ IF mi > Len(TheHit.mods)
              THEN /\ psm' = [psm EXCEPT !.pep = modpep] /\ ei' = ei + 1 /\ pc' = "elem"    \* 299
                   /\ UNCHANGED <<mi, offset, modpep>>
              ELSE LET m == TheHit.mods[mi]
                       idx == offset + m[1] - (IF Mut_InsertBefore THEN 1 ELSE 0)           \* 294
                   IN /\ modpep' = SubSeq(modpep, 1, idx) \o <<"[">> \o m[2] \o <<"]">>
                                   \o SubSeq(modpep, idx + 1, Len(modpep))                  \* 296
                      /\ offset' = IF Mut_NoOffset THEN offset ELSE offset + 2 + Len(m[2])  \* 297
                      /\ mi' = mi + 1 /\ UNCHANGED <<psm, ei, pc>>
           /\ UNCHANGED <<doc, fi, ri, si, hi, runinfo, specinfo, cur, frames, out>>

\* pepxml.py:66-79
Concat == /\ pc = "concat"
          /\ LET all == IF Mut_LastFileOnly THEN frames[Len(frames)] ELSE FlatSeq(frames)
             IN IF \E i \in 1..Len(all) : \E x \in all[i].feats : x[1] \in PercolatorNames
                THEN Raise /\ UNCHANGED cur
                ELSE cur' = all /\ pc' = "post" /\ UNCHANGED out
          /\ UNCHANGED <<doc, fi, ri, si, hi, ei, mi, runinfo, specinfo, psm, offset, modpep, frames>>

\* pepxml.py:81-128 and _log_features 313-377 (identity on the score values of the domain)
Log10Milli(v) == 1000 * (CHOOSE e \in 0..4 : Pow10(e) = v)
Post == /\ pc = "post"
        /\ out' = [kind |-> "PepXmlRows",
                   rows |-> [i \in 1..Len(cur) |->
                               [cur[i] EXCEPT !.feats = {IF x[1] = "num_matched_peptides"
                                                         THEN <<x[1], Log10Milli(x[2])>> ELSE x : x \in @}]]]
        /\ pc' = "done"
        /\ UNCHANGED <<doc, fi, ri, si, hi, ei, mi, runinfo, specinfo, psm, offset, modpep, cur, frames>>

Next == OpenFile \/ NextRun \/ NextSpectrum \/ BeginHit \/ Elem \/ ModStep \/ Concat \/ Post
Spec == Init /\ [][Next]_vars

(* ------------------------------------------------------------------ properties *)
DocsInDomain == IsInit => DocOK(doc) \/ ErrDef(doc)
\* the parser produces exactly the declared table, or raises exactly when the declarative layer says so
Refines == pc = "done" => IF ErrDef(doc) THEN out.kind = "Raised"
                          ELSE out = [kind |-> "PepXmlRows", rows |-> RowsDef(Prefix, doc)]
\* consequences, stated separately (these are the clauses of the trace acceptor)
OnePsmPerHit == (pc = "done" /\ out.kind = "PepXmlRows") =>
                   Len(out.rows) = Len(FlatSeq([i \in 1..Len(doc) |-> HitsOfFile(doc[i])]))
LabelRule == (pc = "done" /\ out.kind = "PepXmlRows") =>
                LET hs == FlatSeq([i \in 1..Len(doc) |-> HitsOfFile(doc[i])])
                IN Len(hs) = Len(out.rows) /\
                   \A i \in 1..Len(hs) : ~out.rows[i].target <=> \A k \in 1..Len(hs[i].prots) : hs[i].prots[k].decoy
\* behaviour generation: one case per initial state
EmitCase == IsInit => PrintT(<<"CASE", doc>>)
GenOnly == IsInit
\* ---- liveness (checked by PepXml_live.cfg): under weak fairness of the next-state action every behaviour comes to rest
\* in a state without successor -- the modelled procedure terminates for every input, schedule and fault inside the bounds
FairSpec == Spec /\ WF_vars(Next)
Halts == <>[](~ENABLED Next)
=============================================================================
