SPECIFICATION Spec
CONSTANTS MaxRows = 3 NPair = 2 WithUnmapped = FALSE
  Kinds = {"single", "swap"}
  AsIs_AllSharedKeyError = FALSE AsIs_PairByFirstName = TRUE Mut_NoStrip = FALSE Mut_SharedContribute = FALSE Mut_NoCollapse = FALSE Mut_KeepWorst = FALSE
INVARIANT OnePerPair
CHECK_DEADLOCK FALSE
