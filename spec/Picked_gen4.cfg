SPECIFICATION Spec
CONSTANTS MaxRows = 4 NPair = 3 WithUnmapped = FALSE
  Kinds = {"single"}
  AsIs_AllSharedKeyError = FALSE AsIs_PairByFirstName = FALSE Mut_NoStrip = FALSE Mut_SharedContribute = FALSE Mut_NoCollapse = FALSE Mut_KeepWorst = FALSE
INVARIANT EmitCase
CONSTRAINT GenOnly
CHECK_DEADLOCK FALSE
