SPECIFICATION Spec
CONSTANTS MaxN = 3 MaxRank = 2 Overrides = {FALSE} AsIs_NoLabelConversion = FALSE Mut_NeverFallBack = FALSE Mut_ForgetDirection = TRUE
INVARIANT SafetyNet
CHECK_DEADLOCK FALSE
