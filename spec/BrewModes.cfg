SPECIFICATION Spec
CONSTANTS Folds = 3 Mut_ScoreWithUntrained = FALSE
INVARIANT UntrainedNeverScores
INVARIANT OriginalOnlyWhenPretrained
INVARIANT SafetyNetOnEveryPath
INVARIANT ListNeverRefitted
INVARIANT BadListsRejected
CHECK_DEADLOCK FALSE
