SPECIFICATION Spec
CONSTANTS NData = 2 NOrders = 2 NPaths = 2 MaxOps = 4 Mut = "none"
INVARIANT EmitCase
CHECK_DEADLOCK FALSE
