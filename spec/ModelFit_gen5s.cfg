SPECIFICATION Spec
CONSTANTS MaxN = 5 MaxIter = 3 StrictA = TRUE GenMod = 149
  AsIs_UnconditionalUnshuffle = FALSE Mut_NoReshuffle = FALSE Mut_FeedUnlabeled = FALSE Mut_InverseMixup = FALSE
CONSTANT Thresholds <- ThrAll
CONSTANT ShuffleVals <- BothB
INVARIANT EmitCase
CONSTRAINT GenKeep
CHECK_DEADLOCK FALSE
