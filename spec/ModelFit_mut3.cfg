SPECIFICATION Spec
CONSTANTS MaxN = 3 MaxIter = 3 StrictA = FALSE GenMod = 1
  AsIs_UnconditionalUnshuffle = FALSE Mut_NoReshuffle = FALSE Mut_FeedUnlabeled = FALSE Mut_InverseMixup = TRUE
CONSTANT Thresholds <- ThrSmall
CONSTANT ShuffleVals <- BothB
INVARIANT SamePsm
CHECK_DEADLOCK FALSE
