SPECIFICATION Spec
CONSTANTS MaxFiles = 3 Stems = {"run", "b"} Dirs = {"d1", "d2"} AsIs_PrefixIsStem = FALSE
INVARIANT ResultsOfEveryCollection
INVARIANT NoMixing
INVARIANT AggregateHoldsAll
INVARIANT NoIntermediateLeft
INVARIANT InputsPreserved
CHECK_DEADLOCK FALSE
