SPECIFICATION Spec
CONSTANTS MaxInputs = 2 MaxLen = 2 MaxRank = 2 Impls = {"table", "rowdict"} TieAny = FALSE
          Mut_DropLast = FALSE Mut_NoGuard = FALSE Mut_StrictGuard = FALSE
INVARIANT EveryRowOnce
INVARIANT GloballySorted
INVARIANT UnsortedRejected
INVARIANT SortedAccepted
INVARIANT NoDupAnytime
INVARIANT Conservation
INVARIANT PrefixSorted
CHECK_DEADLOCK FALSE
