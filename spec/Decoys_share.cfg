SPECIFICATION Spec
CONSTANTS MaxLen = 0 MaxLen2 = 4 Alphabet <- Alpha2 Enzymes = {"KR"}
          Reverses = {FALSE} Concats = {TRUE} Renderings <- RendOne Width = 2 LemmaMaxLen = 0
          Mut_MoveLast = FALSE Mut_JoinNoNewline = FALSE Mut_NameWithDesc = FALSE
INVARIANT NeverShared
CHECK_DEADLOCK FALSE
