------------------------------- MODULE Decoys -------------------------------
(* Decoy generation (property C18): mokapot.make_decoys = fasta.py make_decoys (190-260),
   _parse_fasta_files / _parse_protein (313-357), _shuffle_proteins (360-416), _cleavage_sites (419-443).

   Everything is at the level of ASCII codes: a residue is the code of its letter (K = 75 ...), a name
   and a file text are sequences of codes (NL = 10, GT = 62 ">", SP = 32), so the very same declarative
   operators decide the small model inputs here and the records read back from real files in
   DecoysTrace.tla (which INSTANCEs this module).

   DECLARATIVE LAYER (constant operators, no state)
     ValidDecoy(t, d, enz, reverse)   the relation of the statement between a target and a decoy sequence:
         same length; same residue multiset; the first and the last residue of every enzymatic peptide of
         the target (interval between consecutive cleavage sites, protein ends included) unchanged;
         for a residue-class enzyme the cleavage sites of d are those of t; with reverse the interior of
         every peptide is exactly reversed.  It is a RELATION: any RNG state / permutation is fine.
     ValidFile(targets, written, prefix, concat, enz, reverse)   the file: [targets unchanged, in order,]
         then one decoy per target, in order, named prefix \o name.
   IMPLEMENTATION-SHAPED LAYER (one action per code step)
     Pick, PickRecs  choose the input: enzyme, reverse, concatenate, text layout; then 1..2 records
     Parse     313-357  "\n".join(files)[1:].split("\n>"); splitlines; name = header up to the first space
     StartProt 381-384  sites = [0] + match ends + [len] (duplicates kept, computed once per protein), new_seq = list(seq)
     SkipPep   385-396  pep_len = (next site - 1) - (site + 1) <= 1
     MakePerm  399-410  first peptide of this LENGTH in the whole call: flip(arange) or a random permutation
     ApplyPerm 412      new_seq[start:end] = [new_seq[i + start] for i in perms[pep_len]]
     EndProt   414      decoys.append([prefix + name, new_seq])
     Write     240-258  [targets +] decoys, ">" name "\n" wrap(seq, Width) joined by "\n"
     ReRead    313-357  the reader again, on the written text
   Width is 70 in the code (textwrap default); the model uses a small Width so that sequences of
   Width, Width+1, 2*Width, 2*Width+1 residues occur; the driver exercises 70/71/140/141.
   The shuffle loop retries up to 100 times to avoid the identity; the model allows every permutation
   (identity included: it has probability > 0 in the code and the relation does not exclude it).

   Mut_* are seeded design faults that TLC must reject. *)
EXTENDS Integers, Sequences, FiniteSets, TLC, SequencesExt

(* ======================= ASCII ======================= *)
NL == 10  SP == 32  GT == 62
A == 65  C == 67  K == 75  P == 80  R == 82

(* ======================= declarative layer ======================= *)
EnzymeNames == {"KR", "K", "KRnoP"}
\* residue-class enzyme: whether the regex matches at a residue depends on that residue only
ResidueClass(enz) == enz \in {"KR", "K"}
\* the enzyme regex has a match ending after residue p (1 <= p <= Len(s))
\*   "KR" [KR]     "K" [K]     "KRnoP" [KR](?!P)  (not a residue class: looks at the next residue)
CutAfter(s, enz, p) ==
   CASE enz = "KR"    -> s[p] \in {K, R}
     [] enz = "K"     -> s[p] = K
     [] enz = "KRnoP" -> s[p] \in {K, R} /\ (p = Len(s) \/ s[p + 1] # P)
SiteSet(s, enz) == {0, Len(s)} \cup {p \in 1..Len(s) : CutAfter(s, enz, p)}
\* enzymatic peptides of s: <<a, b>> = residues a+1..b, a < b consecutive distinct sites
Peptides(s, enz) == LET ss == SetToSortSeq(SiteSet(s, enz), <)
                    IN {<<ss[i], ss[i + 1]>> : i \in 1..(Len(ss) - 1)}
Count(s, x) == Cardinality({i \in DOMAIN s : s[i] = x})
Residues(s) == {s[i] : i \in DOMAIN s}

SameLength(t, d) == Len(d) = Len(t)
SameComposition(t, d) == \A x \in Residues(t) \cup Residues(d) : Count(t, x) = Count(d, x)
\* the clauses below presuppose SameLength
TerminiFixed(t, d, enz) == \A ab \in Peptides(t, enz) : d[ab[1] + 1] = t[ab[1] + 1] /\ d[ab[2]] = t[ab[2]]
SameSites(t, d, enz) == SiteSet(d, enz) = SiteSet(t, enz)
InteriorReversed(t, d, enz) ==
   \A ab \in Peptides(t, enz) : \A i \in (ab[1] + 2)..(ab[2] - 1) : d[i] = t[ab[1] + ab[2] + 1 - i]
\* what the statement asserts before its "so ..."
DecoyCore(t, d, enz) == SameLength(t, d) /\ SameComposition(t, d) /\ TerminiFixed(t, d, enz)
ValidDecoy(t, d, enz, reverse) ==
   /\ DecoyCore(t, d, enz)
   /\ ResidueClass(enz) => SameSites(t, d, enz)
   /\ reverse => InteriorReversed(t, d, enz)
\* records are <<name, seq>>
ValidFile(targets, written, prefix, concat, enz, reverse) ==
   LET n == Len(targets)  off == IF concat THEN n ELSE 0 IN
   /\ Len(written) = off + n
   /\ concat => \A i \in 1..n : written[i] = targets[i]
   /\ \A i \in 1..n : /\ written[off + i][1] = prefix \o targets[i][1]
                      /\ ValidDecoy(targets[i][2], written[off + i][2], enz, reverse)

(* ======================= text functions (python str semantics) ======================= *)
RECURSIVE JoinWith(_, _)
JoinWith(parts, sep) == IF Len(parts) = 0 THEN <<>>                                   \* sep.join(parts)
                        ELSE IF Len(parts) = 1 THEN parts[1]
                        ELSE parts[1] \o sep \o JoinWith(Tail(parts), sep)
StartsAt(txt, i, sep) == i + Len(sep) - 1 <= Len(txt) /\ SubSeq(txt, i, i + Len(sep) - 1) = sep
RECURSIVE SplitOn(_, _)
SplitOn(txt, sep) ==                                                                  \* txt.split(sep), sep # ""
   LET hits == {i \in 1..Len(txt) : StartsAt(txt, i, sep)} IN
   IF hits = {} THEN <<txt>>
   ELSE LET i == CHOOSE h \in hits : \A g \in hits : h <= g
        IN <<SubSeq(txt, 1, i - 1)>> \o SplitOn(SubSeq(txt, i + Len(sep), Len(txt)), sep)
SplitLines(txt) ==                                                                    \* txt.splitlines(), "\n" only
   IF Len(txt) = 0 THEN <<>>
   ELSE LET parts == SplitOn(txt, <<NL>>)
        IN IF txt[Len(txt)] = NL THEN SubSeq(parts, 1, Len(parts) - 1) ELSE parts
BeforeSpace(line) == SplitOn(line, <<SP>>)[1]                                         \* line.split(" ")[0]
Chunks(s, w) == [j \in 1..((Len(s) + w - 1) \div w) |->                               \* textwrap.wrap of one long word
                   SubSeq(s, (j - 1) * w + 1, IF j * w < Len(s) THEN j * w ELSE Len(s))]

(* ======================= implementation-shaped layer ======================= *)
CONSTANTS MaxLen,            \* one-record inputs: every sequence over Alphabet up to this length
          MaxLen2,           \* two-record inputs: every pair of sequences up to this length (NoTwo: none)
          Alphabet, Enzymes, Reverses, Concats,
          Renderings,        \* how the input records are laid out as text (see Rend*)
          Width,             \* wrap width of the writer (70 in the code)
          LemmaMaxLen,       \* Hence is evaluated for targets up to this length
          Mut_MoveLast,      \* fault: the permuted slice includes the last residue of the peptide
          Mut_JoinNoNewline, \* fault: input files concatenated without "\n"
          Mut_NameWithDesc   \* fault: the reader keeps the whole header line as the name
NoTwo == -1
Alpha5 == {K, R, A, C, P}
Alpha3 == {K, A, C}
Alpha2 == {K, A}
\* rendering = [w: residues per input line, nl: file ends with "\n", desc: " description" after the accession,
\*              split: one file per record]
RendOne  == {[w |-> 99, nl |-> TRUE, desc |-> FALSE, split |-> FALSE]}
RendSome == {[w |-> 99, nl |-> TRUE, desc |-> FALSE, split |-> FALSE],
             [w |-> 2, nl |-> FALSE, desc |-> TRUE, split |-> TRUE]}
RendAll  == [w : {1, 2, 99}, nl : BOOLEAN, desc : BOOLEAN, split : BOOLEAN]

Prefix == <<100, 95>>                                       \* "d_"
Name(j) == IF j = 1 THEN <<97>> ELSE <<98, 124, 120>>       \* "a", "b|x"
Desc == <<100, 32, 101>>                                    \* "d e" (contains a space itself)

VARIABLES inp, pc, prots, pi, k, sites, perms, cur, decoys, text, back,
          napply     \* history: number of ApplyPerm steps (to witness that a permutation is re-used)
vars == <<inp, pc, prots, pi, k, sites, perms, cur, decoys, text, back, napply>>

Seqs(n) == UNION {[1..m -> Alphabet] : m \in 0..n}
RecLists == {<<<<Name(1), s>>>> : s \in Seqs(MaxLen)}
            \cup {<<<<Name(1), s1>>, <<Name(2), s2>>>> : s1 \in Seqs(MaxLen2), s2 \in Seqs(MaxLen2)}

(* ---- environment: the input files as text ---- *)
RecLines(rec, rd) == <<<<GT>> \o rec[1] \o (IF rd.desc THEN <<SP>> \o Desc ELSE <<>>)>> \o Chunks(rec[2], rd.w)
RECURSIVE AllLines(_, _)
AllLines(recs, rd) == IF Len(recs) = 0 THEN <<>> ELSE RecLines(recs[1], rd) \o AllLines(Tail(recs), rd)
FileText(recs, rd) == JoinWith(AllLines(recs, rd), <<NL>>) \o (IF rd.nl THEN <<NL>> ELSE <<>>)
InputFiles == IF inp.rend.split THEN [i \in 1..Len(inp.recs) |-> FileText(<<inp.recs[i]>>, inp.rend)]
              ELSE <<FileText(inp.recs, inp.rend)>>

(* ---- the reader, fasta.py:313-357 ---- *)
ReadFiles(files) == LET all == JoinWith(files, IF Mut_JoinNoNewline THEN <<>> ELSE <<NL>>)      \* 332
                    IN SplitOn(Tail(all), <<NL, GT>>)
RECURSIVE Flatten(_)
Flatten(ls) == IF Len(ls) = 0 THEN <<>> ELSE ls[1] \o Flatten(Tail(ls))
ParseProtein(raw) == LET entry == SplitLines(raw)                                             \* 350
                         prot == IF Mut_NameWithDesc THEN entry[1] ELSE BeforeSpace(entry[1])  \* 351
                     IN IF Len(entry) = 1 THEN <<prot, <<>>>> ELSE <<prot, Flatten(Tail(entry))>>   \* 352-357
Reader(files) == LET raw == ReadFiles(files) IN [i \in 1..Len(raw) |-> ParseProtein(raw[i])]
(* ---- the writer, fasta.py:249-255 ---- *)
WriteText(recs) == JoinWith([i \in 1..Len(recs) |->
                                <<GT>> \o recs[i][1] \o <<NL>> \o JoinWith(Chunks(recs[i][2], Width), <<NL>>)], <<NL>>)

Init == /\ pc = "pick" /\ inp = <<>> /\ prots = <<>> /\ pi = 0 /\ k = 0 /\ sites = <<>> /\ perms = <<>> /\ cur = <<>>
        /\ decoys = <<>> /\ text = <<>> /\ back = <<>> /\ napply = 0
\* two steps only so that TLC's workers share the fan-out (successors of one state are computed by one worker)
Pick == /\ pc = "pick" /\ pc' = "pickrecs"
        /\ inp' \in [recs : {<<>>}, enz : Enzymes, reverse : Reverses, concat : Concats, rend : Renderings]
        /\ UNCHANGED <<sites, prots, pi, k, perms, cur, decoys, text, back, napply>>
PickRecs == /\ pc = "pickrecs" /\ pc' = "parse"
            /\ \E r \in RecLists : inp' = [inp EXCEPT !.recs = r]
            /\ UNCHANGED <<sites, prots, pi, k, perms, cur, decoys, text, back, napply>>
Parse == /\ pc = "parse" /\ prots' = Reader(InputFiles) /\ pi' = 1 /\ pc' = "prot"            \* 233-234
         /\ UNCHANGED <<sites, inp, k, perms, cur, decoys, text, back, napply>>

\* 437-442: sites = [0] + [m.end() ...] + [len(sequence)], duplicates kept
ImplSites(s, enz) == <<0>> \o SetToSortSeq({p \in 1..Len(s) : CutAfter(s, enz, p)}, <) \o <<Len(s)>>
StartProt == /\ pc = "prot" /\ pi <= Len(prots) /\ pc' = "pep"                                 \* 381-385
             /\ sites' = ImplSites(prots[pi][2], inp.enz) /\ cur' = prots[pi][2] /\ k' = 1
             /\ UNCHANGED <<inp, prots, pi, perms, decoys, text, back, napply>>
\* python 0-based slice [Start, End) of new_seq; k = start_idx + 1
Start == sites[k] + 1                                                                         \* 391
End == IF Mut_MoveLast THEN sites[k + 1] ELSE sites[k + 1] - 1                               \* 392
PepLen == End - Start                                                                         \* 393
InLoop == pc = "pep" /\ k + 1 <= Len(sites)                                                   \* 385-388
SkipPep == /\ InLoop /\ PepLen <= 1 /\ k' = k + 1                                             \* 395-396
           /\ UNCHANGED <<sites, inp, pc, prots, pi, perms, cur, decoys, text, back, napply>>
Flip(n) == [i \in 0..(n - 1) |-> n - 1 - i]                                                   \* 401
MakePerm == /\ InLoop /\ PepLen > 1 /\ PepLen \notin DOMAIN perms                             \* 399-410
            /\ \E p \in (IF inp.reverse THEN {Flip(PepLen)} ELSE Permutations(0..(PepLen - 1))) :
                  perms' = perms @@ (PepLen :> p)
            /\ UNCHANGED <<sites, inp, pc, prots, pi, k, cur, decoys, text, back, napply>>
ApplyPerm == /\ InLoop /\ PepLen > 1 /\ PepLen \in DOMAIN perms                               \* 412
             /\ cur' = [j \in 1..Len(cur) |-> IF Start < j /\ j <= End
                                              THEN cur[Start + perms[PepLen][j - Start - 1] + 1] ELSE cur[j]]
             /\ k' = k + 1 /\ napply' = napply + 1
             /\ UNCHANGED <<sites, inp, pc, prots, pi, perms, decoys, text, back>>
EndProt == /\ pc = "pep" /\ k + 1 > Len(sites)                                                \* 414
           /\ decoys' = Append(decoys, <<Prefix \o prots[pi][1], cur>>) /\ pi' = pi + 1 /\ pc' = "prot"
           /\ UNCHANGED <<sites, inp, prots, k, perms, cur, text, back, napply>>
ToWrite == IF inp.concat THEN prots \o decoys ELSE decoys                                     \* 240-243
Write == /\ pc = "prot" /\ pi > Len(prots) /\ text' = WriteText(ToWrite) /\ pc' = "reread"    \* 249-258
         /\ UNCHANGED <<sites, inp, prots, pi, k, perms, cur, decoys, back, napply>>
ReRead == /\ pc = "reread" /\ back' = Reader(<<text>>) /\ pc' = "done"
          /\ UNCHANGED <<sites, inp, prots, pi, k, perms, cur, decoys, text, napply>>
Next == Pick \/ PickRecs \/ Parse \/ StartProt \/ SkipPep \/ MakePerm \/ ApplyPerm \/ EndProt \/ Write \/ ReRead
Spec == Init /\ [][Next]_vars

(* ======================= what is checked ======================= *)
Parsed == pc \notin {"pick", "pickrecs", "parse"}
\* the reader recovers the abstract records from every layout (multi-line, descriptions, several files)
ParsedOk == Parsed => prots = inp.recs
\* every finished decoy is a valid decoy of its target (checked between proteins: as soon as it is appended)
DecoysValid == pc = "prot" => \A i \in 1..Len(decoys) :
                  /\ decoys[i][1] = Prefix \o inp.recs[i][1]
                  /\ ValidDecoy(inp.recs[i][2], decoys[i][2], inp.enz, inp.reverse)
\* implementation-level (stronger than the statement): each peptide keeps its own residues
PeptideLocal == pc = "prot" => \A i \in 1..Len(decoys) : LET t == inp.recs[i][2]  d == decoys[i][2] IN
                  \A ab \in Peptides(t, inp.enz) :
                     SameComposition(SubSeq(t, ab[1] + 1, ab[2]), SubSeq(d, ab[1] + 1, ab[2]))
\* one permutation per peptide length for the whole call
PermsOk == pc = "pep" => \A n \in DOMAIN perms : /\ n > 1 /\ DOMAIN perms[n] = 0..(n - 1)
                                            /\ {perms[n][i] : i \in 0..(n - 1)} = 0..(n - 1)
\* reachability witness (expected to be VIOLATED in Decoys_share.cfg): a stored permutation is never re-used
NeverShared == napply <= Cardinality(DOMAIN perms)
\* re-read(write(x)) = x
RoundTrip == pc = "done" => back = ToWrite
\* the file as a whole
FileOk == pc = "done" => ValidFile(inp.recs, back, Prefix, inp.concat, inp.enz, inp.reverse)
\* "so the cleavage sites ... are identical": for a residue-class enzyme SameSites follows from the core
\* clauses for EVERY rearrangement d of the target, not only the ones the code produces
Hence == (pc = "prot" /\ pi = 1) => \A i \in 1..Len(inp.recs) : LET t == inp.recs[i][2] IN
            (Len(t) <= LemmaMaxLen /\ ResidueClass(inp.enz)) =>
               \A p \in Permutations(1..Len(t)) : LET d == [j \in 1..Len(t) |-> t[p[j]]] IN
                  DecoyCore(t, d, inp.enz) => SameSites(t, d, inp.enz)
\* NOT claimed (violated for [KR](?!P): "AKPCR" -> "APKCR"): sites identical for every enzyme
SitesAnyEnzyme == pc = "prot" => \A i \in 1..Len(decoys) : SameSites(inp.recs[i][2], decoys[i][2], inp.enz)

\* behaviour generation: one case per chosen input
EmitCase == pc = "parse" => PrintT(<<"CASE", [i \in 1..Len(inp.recs) |-> inp.recs[i][2]], inp.enz, inp.reverse, inp.concat>>)
GenOnly == pc \in {"pick", "pickrecs", "parse"}
\* ---- liveness (checked by Decoys_live.cfg): under weak fairness of the next-state action every behaviour comes to rest
\* in a state without successor -- the modelled procedure terminates for every input, schedule and fault inside the bounds
FairSpec == Spec /\ WF_vars(Next)
Halts == <>[](~ENABLED Next)
=============================================================================
