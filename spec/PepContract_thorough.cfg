SPECIFICATION Spec
CONSTANTS MaxN = 5 MaxV = 2 AnyValues = FALSE AsIs_SortedReturn = FALSE Mut_WrongDirection = FALSE Mut_TieJitter = FALSE Thorough = FALSE
INVARIANT Inv_OnePerPsm
INVARIANT Inv_InRange
INVARIANT Inv_Monotone
INVARIANT Inv_TieEqual
INVARIANT Inv_Equivariant
INVARIANT Inv_Aligned
INVARIANT SortedReturnRejected
INVARIANT NeedsSorted
CHECK_DEADLOCK FALSE
