SPECIFICATION Spec
CONSTANTS MaxRows = 10 MaxSpec = 6 MaxMult = 3 FoldCounts = {2, 3, 4, 5, 6}
INVARIANT EmitCase
CHECK_DEADLOCK FALSE
