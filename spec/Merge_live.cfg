SPECIFICATION FairSpec
CONSTANTS MaxInputs = 2 MaxLen = 2 MaxRank = 2 Impls = {"table", "rowdict"} TieAny = FALSE
          Mut_DropLast = FALSE Mut_NoGuard = FALSE Mut_StrictGuard = FALSE
PROPERTY Halts
CHECK_DEADLOCK FALSE
