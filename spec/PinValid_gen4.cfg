SPECIFICATION Spec
CONSTANTS MaxH = 4 MaxRows = 4 Mut_OnlyWider = FALSE
INVARIANT EmitCase
CONSTRAINT GenOnly
CHECK_DEADLOCK FALSE
