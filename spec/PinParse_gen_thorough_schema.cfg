SPECIFICATION Spec
CONSTANTS
  FeatLo = 0 FeatHi = 3 OptSets <- OptAll LevSets <- LevSome
  Orders = {"std", "rev", "mix", "featfirst"}
  Casings = {"lower", "upper", "mixed"}
  Encs = {"pm", "zo", "bool"}
  NanCls = {"none", "first", "two", "all", "charge"}
  Chunks = {3}
  Workers = {2}
  RowCls = {"three"}
  Errs = {"none"}
  NRows = 3 Rotate = FALSE RotK = 1
  AsIs_Remainder1Only = FALSE AsIs_ChargeDefaultName = TRUE
  Mut_KeepSingleNaN = FALSE Mut_CaseSensitive = FALSE Mut_ZeroIsTarget = FALSE Mut_KeyFileOrder = FALSE
INVARIANT EmitCase
CONSTRAINT GenOnly
CHECK_DEADLOCK FALSE
