----------------------------- MODULE PepContract -----------------------------
(* Contract of the PEP / q-value estimators of mokapot (property C06).

   The numeric estimators (triqler's qvality spline fit, gaussian KDE + NNLS, histogram + NNLS, the
   cumulative-sum q-value formulas) are NOT transcribed (DESIGN.md section 2): only what every one of them
   owes its caller is specified, over one recorded ESTIMATE

      n              number of PSMs handed to the estimator
      rank[1..n]     dense integer ranks of the input scores, HIGHER = BETTER, in INPUT order
      val[1..n]      returned values in RETURN order, quantised  round(value * scale)   (scale = 10^9 for PEPs)
      fl[1..n]       "ok" | "nan" | "inf" | "neg" | "gt1"  -- exact float classification of the returned value
      perm[1..n]     a permutation; the estimator is called a second time on the input  x o perm
                     (x_p[i] = x[perm[i]]) and returns valp / flp

   clauses (eps in quanta; the trace acceptor uses eps = 1 quantum = 1/scale, i.e. 1e-9 for PEPs):

      OnePerPsm    Len(val) = n
      InRange      PEP: every value finite and 0 <= v <= 1;   q-value estimators: finite and >= 0
      Monotone     rank[i] > rank[j]  =>  val[i] <= val[j] + eps        (PEPs never decrease as the score worsens)
      TieEqual     rank[i] = rank[j]  =>  |val[i] - val[j]| <= eps
      Equivariant  Est(x o perm) = Est(x) o perm within eps: the i-th returned value belongs to the i-th input
                   PSM whatever the input order

   MonoTieFast is the same Monotone / TieEqual with sharing (one sort by rank, running maximum), used by the
   trace acceptor on long vectors; FastEqualsDef below proves it equal to the pairwise definition for every
   small (rank, value) vector, monotone or not.

   Sanity layer (TLC-checkable): a tiny machine  PickInput -> PickPerm -> Call -> CallPerm  over an abstract
   estimator "value = f[rank]" with f non-increasing in the rank.
     AsIs_SortedReturn   the estimator returns its values in descending-score order instead of input order.
                         This is what peps_from_scores_qvality does today (peps.py:48-78: qvality evaluates
                         allScores[::-1] and the wrapper does not un-sort; its callers pre-sort).  The contract
                         must reject it unless sorted order = input order (SortedReturnRejected, NeedsSorted).
     Mut_WrongDirection  seeded fault: values increase with the score
     Mut_TieJitter       seeded fault: tied PSMs receive different values (position dependent)
   Shapes / EmitShape enumerate the case shapes replayed by drivers/c06.py into the real estimators. *)
EXTENDS Integers, Sequences, FiniteSets, SequencesExt, TLC

(* ------------------------------------------------------------------------------------------------ *)
(* declarative contract                                                                             *)
(* ------------------------------------------------------------------------------------------------ *)
Abs(x) == IF x < 0 THEN -x ELSE x
MaxI(a, b) == IF a >= b THEN a ELSE b
Finite(fl, i) == fl[i] \notin {"nan", "inf"}

OnePerPsm(n, val, fl) == Len(val) = n /\ Len(fl) = n
InRangePep(n, val, fl, scale) == \A i \in 1..n : fl[i] = "ok" /\ val[i] >= 0 /\ val[i] <= scale
InRangeQ(n, val, fl) == \A i \in 1..n : fl[i] \in {"ok", "gt1"} /\ val[i] >= 0
\* non-finite values are InRange's business; the order clauses speak about the finite ones
Monotone(n, rank, val, fl, eps) ==
   \A i, j \in 1..n : (Finite(fl, i) /\ Finite(fl, j) /\ rank[i] > rank[j]) => val[i] <= val[j] + eps
TieEqual(n, rank, val, fl, eps) ==
   \A i, j \in 1..n : (Finite(fl, i) /\ Finite(fl, j) /\ rank[i] = rank[j]) => Abs(val[i] - val[j]) <= eps
IsPerm(n, perm) == Len(perm) = n /\ {perm[i] : i \in 1..n} = 1..n
Compose(n, x, perm) == [i \in 1..n |-> x[perm[i]]]
Equivariant(n, perm, val, fl, valp, flp, eps) ==
   \A i \in 1..n : /\ Finite(flp, i) = Finite(fl, perm[i])
                   /\ (Finite(flp, i) /\ Finite(fl, perm[i])) => Abs(valp[i] - val[perm[i]]) <= eps
Aligned(n, rank, perm, val, fl, valp, flp, eps) ==
   /\ Monotone(n, rank, val, fl, eps) /\ TieEqual(n, rank, val, fl, eps)
   /\ LET rp == Compose(n, rank, perm) IN Monotone(n, rp, valp, flp, eps) /\ TieEqual(n, rp, valp, flp, eps)
   /\ Equivariant(n, perm, val, fl, valp, flp, eps)

(* ---- Monotone / TieEqual with sharing: O(n log n) ---- *)
\* pairs <<rank, value>> of the finite entries, best rank first, ascending value inside a rank
PairSeq(n, rank, val, fl) ==
   SetToSortSeq({<<rank[i], val[i]>> : i \in {i \in 1..n : Finite(fl, i)}},
                LAMBDA a, b : a[1] > b[1] \/ (a[1] = b[1] /\ a[2] < b[2]))
RECURSIVE Scan(_, _, _, _, _, _, _, _, _)
\* r: rank of the current group, gmin / gmax: its extreme values so far, himax: maximum over all strictly
\* better ranks (initialised with the first value, which the first group's gmax dominates), m / t: Monotone /
\* TieEqual so far.  Returns <<Monotone, TieEqual>>.
Scan(s, k, r, gmin, gmax, himax, eps, m, t) ==
   IF k > Len(s) THEN <<m, t>>
   ELSE LET p == s[k] IN
        IF p[1] = r
        THEN Scan(s, k + 1, r, gmin, p[2], himax, eps, m, t /\ p[2] - gmin <= eps)
        ELSE LET h == MaxI(himax, gmax)
             IN Scan(s, k + 1, p[1], p[2], p[2], h, eps, m /\ h <= p[2] + eps, t)
MonoTieFast(n, rank, val, fl, eps) ==
   LET s == PairSeq(n, rank, val, fl)
   IN IF Len(s) = 0 THEN <<TRUE, TRUE>>
      ELSE Scan(s, 2, s[1][1], s[1][2], s[1][2], s[1][2], eps, TRUE, TRUE)

(* ------------------------------------------------------------------------------------------------ *)
(* sanity layer                                                                                     *)
(* ------------------------------------------------------------------------------------------------ *)
CONSTANTS MaxN,                \* vectors of 1..MaxN PSMs
          MaxV,                \* abstract values 0..MaxV (scale = MaxV: all of them are "probabilities")
          AnyValues,           \* TRUE: Call returns EVERY value vector (FastEqualsDef), FALSE: the abstract estimator
          AsIs_SortedReturn, Mut_WrongDirection, Mut_TieJitter,
          Thorough             \* generation: also the size class up to 5000

VARIABLES pc, n, rank, f, perm, out, outp, shape
vars == <<pc, n, rank, f, perm, out, outp, shape>>

Canonical(g, m) == \E top \in 1..m : {g[i] : i \in 1..m} = 1..top
NonIncreasing(g, m) == \A a, b \in 1..m : a > b => g[a] <= g[b]
Init == pc = "input" /\ n = 0 /\ rank = <<>> /\ f = <<>> /\ perm = <<>> /\ out = <<>> /\ outp = <<>> /\ shape = <<>>

PickInput == /\ pc = "input"
             /\ \E m \in 1..MaxN : \E rk \in [1..m -> 1..m] : \E g \in [1..m -> 0..MaxV] :
                   /\ Canonical(rk, m) /\ NonIncreasing(g, m)
                   /\ AnyValues => g = [i \in 1..m |-> 0]          \* f is not used by FastEqualsDef
                   /\ n' = m /\ rank' = rk /\ f' = g
             /\ pc' = "perm" /\ UNCHANGED <<perm, out, outp, shape>>
PickPerm == /\ pc = "perm"
            /\ \E p \in [1..n -> 1..n] : IsPerm(n, p) /\ (AnyValues => p = [i \in 1..n |-> i]) /\ perm' = p
            /\ pc' = "call" /\ UNCHANGED <<n, rank, f, out, outp, shape>>

SortDesc(x) == SortSeq(x, LAMBDA a, b : a > b)
Top(x) == CHOOSE r \in {x[i] : i \in DOMAIN x} : \A j \in DOMAIN x : x[j] <= r
\* the abstract estimator on the rank vector x (input order)
Honest(x) == [i \in 1..n |-> f[x[i]]]
SortedReturn(x) == LET s == SortDesc(x) IN [i \in 1..n |-> f[s[i]]]
Est(x) ==
   LET base == IF AsIs_SortedReturn THEN SortedReturn(x)
               ELSE IF Mut_WrongDirection THEN [i \in 1..n |-> f[Top(x) + 1 - x[i]]]
               ELSE Honest(x)
   IN IF Mut_TieJitter THEN [i \in 1..n |-> IF i % 2 = 0 /\ base[i] < MaxV THEN base[i] + 1 ELSE base[i]]
      ELSE base
Call == /\ pc = "call"
        /\ IF AnyValues THEN \E v \in [1..n -> 0..MaxV] : out' = v ELSE out' = Est(rank)
        /\ pc' = "callp" /\ UNCHANGED <<n, rank, f, perm, outp, shape>>
CallPerm == /\ pc = "callp"
            /\ outp' = IF AnyValues THEN Compose(n, out, perm) ELSE Est(Compose(n, rank, perm))
            /\ pc' = "done" /\ UNCHANGED <<n, rank, f, perm, out, shape>>
Next == PickInput \/ PickPerm \/ Call \/ CallPerm
Spec == Init /\ [][Next]_vars

Ok == [i \in 1..n |-> "ok"]
Done == pc = "done"
Inv_OnePerPsm   == Done => OnePerPsm(n, out, Ok) /\ OnePerPsm(n, outp, Ok)
Inv_InRange     == Done => InRangePep(n, out, Ok, MaxV) /\ InRangePep(n, outp, Ok, MaxV)
Inv_Monotone    == Done => Monotone(n, rank, out, Ok, 0) /\ Monotone(n, Compose(n, rank, perm), outp, Ok, 0)
Inv_TieEqual    == Done => TieEqual(n, rank, out, Ok, 0) /\ TieEqual(n, Compose(n, rank, perm), outp, Ok, 0)
Inv_Equivariant == Done => Equivariant(n, perm, out, Ok, outp, Ok, 0)
Inv_Aligned     == Done => Aligned(n, rank, perm, out, Ok, outp, Ok, 0)

\* "values returned in sorted order" satisfy the alignment clauses exactly when that IS the input order
IsSortedDesc(x) == \A i \in 1..(n - 1) : x[i] >= x[i + 1]
Injective(g, m) == \A a, b \in 1..m : a # b => g[a] # g[b]
SortedReturnRejected ==
   Done => LET rp == Compose(n, rank, perm)  s == SortedReturn(rank)  sp == SortedReturn(rp)
           IN Aligned(n, rank, perm, s, Ok, sp, Ok, 0) <=> (s = Honest(rank) /\ sp = Honest(rp))
NeedsSorted ==
   (Done /\ Injective(f, Top(rank))) =>
        LET rp == Compose(n, rank, perm)  s == SortedReturn(rank)  sp == SortedReturn(rp)
        IN /\ (Monotone(n, rank, s, Ok, 0) /\ TieEqual(n, rank, s, Ok, 0)) <=> IsSortedDesc(rank)
           /\ Aligned(n, rank, perm, s, Ok, sp, Ok, 0) <=> (IsSortedDesc(rank) /\ IsSortedDesc(rp))
\* the sharing version equals the pairwise definition (every value vector, eps 0 and 1)
FastEqualsDef ==
   pc = "callp" => \A eps \in {0, 1} :
        MonoTieFast(n, rank, out, Ok, eps) = <<Monotone(n, rank, out, Ok, eps), TieEqual(n, rank, out, Ok, eps)>>

(* ------------------------------------------------------------------------------------------------ *)
(* (G) case shapes                                                                                  *)
(* ------------------------------------------------------------------------------------------------ *)
PepAlgs == {"qvality", "kde_nnls", "hist_nnls"}
QAlgs == {"tdc", "from_counts", "from_peps"}
Mixtures == {"separated", "overlapping", "mostly_null"}
TiePatterns == {"none", "some", "heavy"}
PermClasses == {"identity", "reversal", "sorted_asc", "sorted_desc", "random"}
Sizes == IF Thorough THEN {"s100", "s300", "s1000", "s5000"} ELSE {"s100", "s300", "s1000"}
Shapes == ({"pep"} \X PepAlgs \X Mixtures \X TiePatterns \X PermClasses \X Sizes)
          \cup ({"q"} \X QAlgs \X Mixtures \X TiePatterns \X PermClasses \X Sizes)
GenInit == pc = "gen" /\ shape \in Shapes
           /\ n = 0 /\ rank = <<>> /\ f = <<>> /\ perm = <<>> /\ out = <<>> /\ outp = <<>>
GenSpec == GenInit /\ [][FALSE]_vars
EmitShape == pc = "gen" => PrintT(<<"CASE", shape[1], shape[2], shape[3], shape[4], shape[5], shape[6]>>)
=============================================================================
