SPECIFICATION Spec
CONSTANTS MaxRows = 3 NSpec = 2 NKey = 2 NLev = 2 MaxRank = 2
  AsIs_ChunkDedupOnRollup = FALSE Mut_SeenBeforeCompetition = FALSE Mut_MergeSmallestHead = FALSE
INVARIANT PsmLevelOK
INVARIANT RollupLevelsOK
INVARIANT NoRollupNoLevels
INVARIANT PrefixSorted
INVARIANT OutcomeIsF
CHECK_DEADLOCK FALSE
