SPECIFICATION Spec
CONSTANTS NProt = 3 NPep = 2 AllNamings = TRUE
  Mut_SmallestFirst = FALSE Mut_FirstMatchOnly = FALSE Mut_NoUnpatch = FALSE Mut_SplitByProteins = FALSE Mut_PairEveryName = FALSE
INVARIANT WellFormed
INVARIANT EveryProteinGrouped
INVARIANT SetOfAMember
INVARIANT NoGroupInsideAnother
INVARIANT UniqueToSingleGroup
INVARIANT SharedExactly
INVARIANT PairingByName
INVARIANT EqualsCanonical
INVARIANT RemoveSafe
INVARIANT MapAgreesWithGroups
INVARIANT HasDecoysFlag
CHECK_DEADLOCK FALSE
