----------------------------- MODULE DigestTrace -----------------------------
(* Property-level acceptor for C17 on calls of mokapot.digest recorded from the real code.

   trace = [tid, seq: STRING, enzyme: name of DigestDef!Cut (the driver passed the matching regex),
            raised: "" or the text of an exception raised by mokapot,
            runs:  [ <<mc, minL, maxL, clip, semi, peptides>> .. ]   one Digest record per call on (seq, enzyme);
                   peptides = the returned set as a sorted list of strings
            pairs: [ <<i, j>> .. ]   indices into runs: run j allows at least what run i allows
                   (more missed cleavages / wider bounds / semi) -- the monotonicity obligations ]
   Everything is decided here: the defining set is recomputed by DigestDef!Digest from (seq, enzyme, parameters)
   and compared with the recorded set of strings.  Traces outside the domain (minL < 1, maxL < minL, mc < 0,
   unknown enzyme) are accepted vacuously. *)
EXTENDS Integers, Sequences, FiniteSets, TLC, TLCExt, Json, IOUtils
ChrS(c) == c                                  \* sequences and peptides are strings here
INSTANCE DigestDef WITH Chr <- ChrS
Traces == JsonDeserialize(IOEnv.TRACES_FILE)
VARIABLE tid
T == Traces[tid]
NR == Len(T.runs)
PepSet(r) == {r[6][k] : k \in 1..Len(r[6])}
Expected(r) == Digest(T.seq, T.enzyme, r[1], r[2], r[3], r[4], r[5])
Domain == /\ T.enzyme \in EnzymeNames
          /\ \A k \in 1..NR : InDomain(T.runs[k][1], T.runs[k][2], T.runs[k][3])
\* r2 allows at least what r1 allows (same clipping)
Dominates(r1, r2) == /\ r1[1] <= r2[1] /\ r2[2] <= r1[2] /\ r1[3] <= r2[3]
                     /\ r1[4] = r2[4] /\ (r1[5] => r2[5])
PairOk(pr) == pr[1] \in 1..NR /\ pr[2] \in 1..NR /\ pr[1] # pr[2]
Clauses == [Returned  |-> T.raised = "",
            Exact     |-> \A k \in 1..NR : LET r == T.runs[k] IN PepSet(r) = Expected(r),
            Substring |-> \A k \in 1..NR : \A p \in PepSet(T.runs[k]) : IsSubstring(T.seq, p),
            PairShape |-> \A q \in 1..Len(T.pairs) : LET pr == T.pairs[q] IN
                             PairOk(pr) /\ Dominates(T.runs[pr[1]], T.runs[pr[2]]),
            Monotone  |-> \A q \in 1..Len(T.pairs) : LET pr == T.pairs[q] IN
                             PairOk(pr) => PepSet(T.runs[pr[1]]) \subseteq PepSet(T.runs[pr[2]])]
Failed == IF Domain THEN LET cl == Clauses IN {c \in DOMAIN cl : ~cl[c]} ELSE {}
Init == tid \in 1..Len(Traces)
Spec == Init /\ [][UNCHANGED tid]_tid
Verdict == LET f == Failed IN PrintT(<<"VERDICT", T.tid, IF f = {} THEN "accept" ELSE "reject", f>>)
=============================================================================
