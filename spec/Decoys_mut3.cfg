SPECIFICATION Spec
CONSTANTS MaxLen = 2 MaxLen2 = 1 Alphabet <- Alpha3 Enzymes = {"KR"}
          Reverses = {TRUE} Concats = {TRUE} Renderings <- RendAll Width = 2 LemmaMaxLen = 0
          Mut_MoveLast = FALSE Mut_JoinNoNewline = FALSE Mut_NameWithDesc = TRUE
INVARIANT ParsedOk
INVARIANT DecoysValid
INVARIANT PeptideLocal
INVARIANT PermsOk
INVARIANT RoundTrip
INVARIANT FileOk
INVARIANT Hence
CHECK_DEADLOCK FALSE
