SPECIFICATION Spec
CONSTANTS MaxN = 4 DetSort = TRUE Mut_NoPlusOne = TRUE Mut_GroupFirst = FALSE
INVARIANT OpEqualsDef
INVARIANT FastEqualsDef
INVARIANT CountEqualsDef
INVARIANT InRange
INVARIANT Monotone
INVARIANT TieEqual
INVARIANT LabelRule
CHECK_DEADLOCK FALSE
