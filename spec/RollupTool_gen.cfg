SPECIFICATION Spec
CONSTANTS Stems <- StemsDef Roots <- RootsDef Cols <- Cols3 BaseSet <- BasesAll MaxOps = 4 NRows = 4
 Mut_NoDot = FALSE Mut_ReadUnfiltered = FALSE Mut_SharedSeen = FALSE Mut_BreakOnSeen = FALSE Mut_KeyWithDecoy = FALSE Mut_TempAppend = FALSE AsIs_BaseNames = FALSE
INVARIANT EmitCase
CHECK_DEADLOCK FALSE
