------------------------------- MODULE Picked -------------------------------
(* Property C15: picked-protein -- one entry per target/decoy protein-group pair, won by its best peptide.

   STATE (what picked_protein is handed: a Proteins object and the peptide table)
     The grouping is seen through the three maps of the Proteins object.  A stripped peptide is <<q, side>>:
     peptide id q of the digest, in its target (side = TRUE) or decoy version.
       own[q] >= 1   the peptide is UNIQUE to the groups of pair own[q]: peptide_map sends <<q, TRUE>> to the
                     target group and <<q, FALSE>> to the decoy group of that pair
       own[q] = 0    SHARED between groups (key of shared_peptides, no entry in peptide_map)
       own[q] = -1   not a peptide of the digest at all (only with WithUnmapped: the guard of the code)
     Names are <<k, p, m>>: member m of pair p carrying k copies of the decoy prefix.  A group NAME is the
     sequence of its members' names (the code joins them with ", "); protein_map sends every target name to
     its prefixed name.  gk[p] is the kind of pair p:
       "single"  one protein                      target <<T1>>       decoy <<D1>>
       "same"    two proteins, same peptides      target <<T1, T2>>   decoy <<D1, D2>>
       "sub"     second protein is a subset       target <<T1, T2>>   decoy <<D1, D2>>
       "swap"    as "same", but the decoy entries stand in the other order in the FASTA file, so that the
                 decoy group is NAMED <<D2, D1>> (read_fasta names a group after its members in visiting
                 order: largest first, ties in entry order)
     The peptide table has rows 1..n: <stripped peptide id pid[i], notation variant Var(i), target flag,
     rank (HIGHER = BETTER)>.  Rows of the same pid are different notations of one stripped sequence
     (flanking residues, "[+16]", "(ox)", lower-case tokens): Var(i) = 1 is the first notation, 2 the next ...

   DECLARATIVE LAYER (operators D_*, on explicit arguments, shared with PickedTrace.tla)
     R : rows, own, and the result E = set of entries [row, pair, tgt]: the entry is the group on side tgt of
     pair `pair` and reports the peptide of row `row`.  Ties are free: any best row of a pair may win.

   IMPLEMENTATION-SHAPED LAYER (one action per code step)
     Strip   picked_protein.py:45, 120-153   modifications, flanks, lower-case tokens removed
     Map     picked_protein.py:50-51, 156-170  peptide_map.get: the group or nothing
     Guard   picked_protein.py:59-100        unmatched rows must be shared; ValueError when more than 10 % of
                                             the rows are neither (and the 5 % rule on :93-100)
     Pair    picked_protein.py:102-107       drop unmatched, key = protein_map.get(first name, first name)
     Best    utils.py:29-39 (groupby_max), picked_protein.py:109-117   shuffle, sort, keep the last row of
                                             every key = ANY row of maximal score of the key
     Conf    confidence.py:367-390, 392-416  the entries are written as the protein level and get TDC q-values

   AsIs_* : what the code under /repo does today where it deviates from the statement (TRUE = as the code);
   Mut_*  : seeded design faults that TLC must reject. *)
EXTENDS Integers, Sequences, FiniteSets, TLC, TdcDef

(* ------------------------------ declarative layer ------------------------------ *)
D_Contrib(R, own) == {i \in DOMAIN R : own[R[i].pep] >= 1}            \* rows with a unique peptide
D_Present(R, own) == {own[R[i].pep] : i \in D_Contrib(R, own)}         \* pairs with >= 1 retained unique peptide
D_InDomain(R, own) == \A i \in DOMAIN R : own[R[i].pep] >= 0           \* every row is unique or shared
\* shared peptides never contribute
D_SharedNever(R, own, E) == \A e \in E : e.row \in D_Contrib(R, own)
\* the entry is the group (target or decoy side of the pair) that owns the reported peptide
D_Owner(R, own, E) == \A e \in E : /\ e.row \in DOMAIN R
                                   /\ e.pair = own[R[e.row].pep] /\ e.tgt = R[e.row].tgt
\* exactly one entry for every pair that has a retained unique peptide, and no other entry
D_OnePerPair(R, own, E) == /\ \A p \in D_Present(R, own) : Cardinality({e \in E : e.pair = p}) = 1
                           /\ \A e \in E : e.pair \in D_Present(R, own)
\* the reported peptide is a best-scoring unique peptide of the pair (either side)
D_Best(R, own, E) == \A e \in E : /\ e.row \in DOMAIN R
                                  /\ \A i \in D_Contrib(R, own) : own[R[i].pep] = e.pair => R[i].rank <= R[e.row].rank
\* protein q-values: the C01 formula (TdcDef!QDef) over exactly the entries; result: entry -> rational
D_Q(R, E) == LET s == SetToSeq(E)  m == Len(s)
                 rk == [k \in 1..m |-> R[s[k].row].rank]
                 tg == [k \in 1..m |-> s[k].tgt]
             IN [e \in E |-> QDef(rk, tg, m, CHOOSE k \in 1..m : s[k] = e)]

(* --------------------------- implementation-shaped layer --------------------------- *)
CONSTANTS MaxRows, NPair,
          Kinds,                     \* subset of {"single", "same", "sub", "swap"}
          WithUnmapped,              \* TRUE: peptides outside the digest occur (own = -1)
          AsIs_AllSharedKeyError,    \* :103-107 `.str.split(",", expand=True)[0]` raises KeyError on an empty frame
          AsIs_PairByFirstName,      \* :103-107 the pair key is taken from the FIRST member name of the group only
          Mut_NoStrip,               \* fault: decorated peptides are looked up as they are
          Mut_SharedContribute,      \* fault: a shared peptide is credited to one of its groups
          Mut_NoCollapse,            \* fault: decoy groups are not paired with their target group
          Mut_KeepWorst              \* fault: drop_duplicates(keep="first")

VARIABLES n, pid, own, ptgt, rank, gk,        \* the input
          pc, stripped, grp, key, out, qv
vars == <<n, pid, own, ptgt, rank, gk, pc, stripped, grp, key, out, qv>>

\* canonical inputs (every table and grouping is one of these up to renaming and row order):
\*   rows sorted by descending rank, ranks dense; peptide ids and pair numbers in order of first use
RankSeqs == [m \in 1..MaxRows |-> {r \in [1..m -> 1..m] : /\ \A i \in 1..(m - 1) : r[i] >= r[i + 1] /\ r[i] <= r[i + 1] + 1
                                                           /\ r[m] = 1}]
PidSeqs == [m \in 1..MaxRows |-> {f \in [1..m -> 1..m] : /\ f[1] = 1
                                                          /\ \A i \in 2..m : f[i] <= Max({f[j] : j \in 1..(i - 1)}) + 1}]
OwnVals == (IF WithUnmapped THEN {-1} ELSE {}) \cup (0..NPair)
OwnSeqs == [k \in 1..MaxRows |-> {f \in [1..k -> OwnVals] :
                                    \A i \in 1..k : f[i] >= 1 => f[i] <= Max({f[j] : j \in 1..(i - 1)} \cup {0}) + 1}]

NPid == Max({pid[i] : i \in 1..n})
NP == Max({own[q] : q \in DOMAIN own} \cup {1})          \* pairs of the database (at least one)
Var(i) == Cardinality({j \in 1..i : pid[j] = pid[i]})
Rows == [i \in 1..n |-> [pep |-> pid[i], var |-> Var(i), tgt |-> ptgt[pid[i]], rank |-> rank[i]]]

Init == /\ n \in 1..MaxRows
        /\ pid \in PidSeqs[n]
        /\ own \in OwnSeqs[NPid]
        /\ ptgt \in [1..NPid -> BOOLEAN]
        /\ rank \in RankSeqs[n]
        /\ gk \in [1..NP -> Kinds]
        /\ pc = "strip" /\ stripped = <<>> /\ grp = <<>> /\ key = <<>> /\ out = {} /\ qv = <<>>

(* names and the maps of the Proteins object *)
GSize(p) == IF gk[p] = "single" THEN 1 ELSE 2
TName(p, m) == <<0, p, m>>
Pref(nm) == <<nm[1] + 1, nm[2], nm[3]>>
GroupName(p, side) ==
   IF side THEN [m \in 1..GSize(p) |-> TName(p, m)]
   ELSE IF gk[p] = "swap" THEN <<Pref(TName(p, 2)), Pref(TName(p, 1))>>
   ELSE [m \in 1..GSize(p) |-> Pref(TName(p, m))]
ProteinMap == [nm \in {TName(p, m) : p \in 1..NP, m \in 1..2} |-> Pref(nm)]     \* target name -> decoy name
None == <<>>                                                                     \* "no group" (NaN)
PeptideMapGet(s) ==                      \* s = <<q, side>>, q = 0: a string that is no peptide of the digest
   IF s[1] # 0 /\ own[s[1]] >= 1 THEN GroupName(own[s[1]], s[2])
   ELSE IF Mut_SharedContribute /\ s[1] # 0 /\ own[s[1]] = 0 THEN GroupName(1, s[2])
   ELSE None
IsSharedKey(s) == s[1] # 0 /\ own[s[1]] = 0

Strip == /\ pc = "strip"                                          \* picked_protein.py:45, 120-153
         /\ stripped' = [i \in 1..n |-> IF Mut_NoStrip /\ Var(i) > 1 THEN <<0, Rows[i].tgt>>
                                        ELSE <<pid[i], Rows[i].tgt>>]
         /\ pc' = "map"
         /\ UNCHANGED <<n, pid, own, ptgt, rank, gk, grp, key, out, qv>>

Map == /\ pc = "map"                                              \* picked_protein.py:50-51, 170
       /\ grp' = [i \in 1..n |-> PeptideMapGet(stripped[i])]
       /\ pc' = "guard"
       /\ UNCHANGED <<n, pid, own, ptgt, rank, gk, stripped, key, out, qv>>

Unmatched == {i \in 1..n : grp[i] = None}
Unmapped == {i \in Unmatched : ~IsSharedKey(stripped[i])}          \* neither unique nor shared
Guard == /\ pc = "guard"                                          \* picked_protein.py:59-100
         /\ LET bad == Cardinality(Unmapped)
                badT == Cardinality({i \in Unmapped : Rows[i].tgt})    \* :94 sums the TARGET flags of these rows
                dec == Cardinality({i \in 1..n : ~Rows[i].tgt})
            IN pc' = IF 10 * bad > n THEN "error"                      \* :86  ValueError (fewer than 90 % matched)
                     ELSE IF badT > 0 /\ 20 * badT > dec THEN "error"  \* :96  ValueError (0/0 = nan passes)
                     ELSE "pair"
         /\ UNCHANGED <<n, pid, own, ptgt, rank, gk, stripped, grp, key, out, qv>>

IsTargetName(nm) == nm \in DOMAIN ProteinMap
DecoyOf(nm) == IF IsTargetName(nm) THEN ProteinMap[nm] ELSE nm                    \* protein_map.get(x, x)
PairKey(g) == IF Mut_NoCollapse THEN {g[1]}
              ELSE IF AsIs_PairByFirstName THEN {DecoyOf(g[1])}                   \* :105-106 first name only
              ELSE {DecoyOf(g[m]) : m \in DOMAIN g}                               \* the pair as a set of names
Kept == {i \in 1..n : grp[i] # None}
Pair == /\ pc = "pair"                                            \* picked_protein.py:102-107
        /\ IF Kept = {} /\ AsIs_AllSharedKeyError
             THEN pc' = "error" /\ key' = key                     \* KeyError: 0
             ELSE pc' = "best" /\ key' = [i \in Kept |-> PairKey(grp[i])]
        /\ UNCHANGED <<n, pid, own, ptgt, rank, gk, stripped, grp, out, qv>>

Best == /\ pc = "best"                                            \* utils.py:29-39, picked_protein.py:109-117
        /\ LET K == {key[i] : i \in DOMAIN key}
           IN \E f \in [K -> DOMAIN key] :
                 /\ \A k \in K : /\ key[f[k]] = k
                                 /\ \A i \in DOMAIN key : key[i] = k =>
                                       IF Mut_KeepWorst THEN rank[i] >= rank[f[k]] ELSE rank[i] <= rank[f[k]]
                 /\ out' = {f[k] : k \in K}
        /\ pc' = "conf"
        /\ UNCHANGED <<n, pid, own, ptgt, rank, gk, stripped, grp, key, qv>>

Conf == /\ pc = "conf"                                            \* confidence.py:367-390, 392-416
        /\ LET s == SetToSeq(out)  m == Len(s)
           IN qv' = QMap([k \in 1..m |-> rank[s[k]]], [k \in 1..m |-> Rows[s[k]].tgt], m)
        /\ pc' = "done"
        /\ UNCHANGED <<n, pid, own, ptgt, rank, gk, stripped, grp, key, out>>

Next == Strip \/ Map \/ Guard \/ Pair \/ Best \/ Conf
Spec == Init /\ [][Next]_vars
Done == pc = "done"

(* ------------------------------ invariants ------------------------------ *)
\* what the result rows say: group name -> (pair, side); best peptide / stripped sequence / score / flag = row i
EntryOf(i) == [row |-> i, pair |-> grp[i][1][2], tgt |-> grp[i][1][1] = 0]
Entries == {EntryOf(i) : i \in out}
OnePerPair   == Done => D_OnePerPair(Rows, own, Entries) /\ Cardinality(Entries) = Cardinality(out)
OwnerGroup   == Done => D_Owner(Rows, own, Entries)
BestPeptide  == Done => D_Best(Rows, own, Entries)
SharedNever  == Done => D_SharedNever(Rows, own, Entries)
QFollowsTdc  == Done => LET dq == D_Q(Rows, Entries) IN \A i \in out : Eq(qv[rank[i]], dq[EntryOf(i)])
\* the call succeeds on every input of the domain; outside of it (small tables) it is refused
NoErrorInDomain == D_InDomain(Rows, own) => pc # "error"
GuardRefuses == pc \in {"pair", "best", "conf", "done"} => 10 * Cardinality({i \in 1..n : own[pid[i]] < 0}) <= n

\* behaviour generation: one case per initial state
EmitCase == pc = "strip" => PrintT(<<"CASE", n, pid, own, ptgt, rank>>)
GenOnly == pc = "strip"
\* ---- liveness (checked by Picked_live.cfg): under weak fairness of the next-state action every behaviour comes to rest
\* in a state without successor -- the modelled procedure terminates for every input, schedule and fault inside the bounds
FairSpec == Spec /\ WF_vars(Next)
Halts == <>[](~ENABLED Next)
=============================================================================
