SPECIFICATION Spec
CONSTANTS MaxRows = 3 NSpec = 2 NKey = 2 NLev = 1 MaxRank = 3
  AsIs_ChunkDedupOnRollup = FALSE Mut_SeenBeforeCompetition = FALSE Mut_MergeSmallestHead = TRUE
INVARIANT PsmLevelOK
INVARIANT RollupLevelsOK
INVARIANT NoRollupNoLevels
INVARIANT PrefixSorted
CHECK_DEADLOCK FALSE
