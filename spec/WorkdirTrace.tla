----------------------------- MODULE WorkdirTrace -----------------------------
(* Property-level acceptor for C09: a run in a directory holding the leftovers of earlier (failed, killed, different)
   runs against the same run in a clean directory.
   trace = [tid, kind: "assign" | "cli",
            last: [pfx: STRING, ext: STRING, nchunks: Nat],           -- the observed (last) run
            clean: [raised: STRING, files: <<[name, rows: <<<<ints>>>>]>>, input_after: <<STRING>>],
            dirty: [raised: STRING, files: <<...>>, input_after: <<STRING>>,
                    listing: <<[name, kind: "chunk"|"level"|"result"|"other", pfx, idx, ext]>>]]
   Accepted iff (the clean run succeeds =>) the dirty run succeeds with the same result files (as row sets), no
   intermediate file OF THAT RUN remains, and (cli) the user's input file ends up exactly as in the clean run. *)
EXTENDS Integers, Sequences, FiniteSets, TLC, TLCExt, Json, IOUtils
Traces == JsonDeserialize(IOEnv.TRACES_FILE)
VARIABLE tid
T == Traces[tid]
SeqSet(s) == {s[i] : i \in 1..Len(s)}
SameFiles(a, b) == /\ Len(a) = Len(b)
                   /\ \A i \in 1..Len(a) : /\ a[i].name = b[i].name
                                           /\ Len(a[i].rows) = Len(b[i].rows)
                                           /\ SeqSet(a[i].rows) = SeqSet(b[i].rows)
IsIntermediateOfLastRun(e) == \/ e.kind = "level"
                              \/ e.kind = "chunk" /\ e.pfx = T.last.pfx /\ e.ext = T.last.ext /\ e.idx < T.last.nchunks
Clauses ==
   [DirtySucceeds |-> T.dirty.raised = "",
    SameResults |-> T.dirty.raised = "" => SameFiles(T.dirty.files, T.clean.files),
    NoIntermediateLeft |-> T.dirty.raised = "" =>
                              \A i \in 1..Len(T.dirty.listing) : ~IsIntermediateOfLastRun(T.dirty.listing[i]),
    InputPreserved |-> T.dirty.input_after = T.clean.input_after]
Failed == IF T.clean.raised # "" THEN {} ELSE {c \in DOMAIN Clauses : ~Clauses[c]}
Init == tid \in 1..Len(Traces)
Spec == Init /\ [][UNCHANGED tid]_tid
Verdict == PrintT(<<"VERDICT", T.tid, IF Failed = {} THEN "accept" ELSE "reject", Failed>>)
=============================================================================
