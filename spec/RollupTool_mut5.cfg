SPECIFICATION Spec
CONSTANTS Stems <- StemsDef Roots <- RootsDef Cols <- Cols3 BaseSet <- BasesAll MaxOps = 3 Exts <- ExtsCsv NRows = 6
 Mut_NoDot = FALSE Mut_ReadUnfiltered = FALSE Mut_SharedSeen = FALSE Mut_BreakOnSeen = FALSE Mut_KeyWithDecoy = TRUE Mut_TempAppend = FALSE AsIs_BaseNames = FALSE
PROPERTY RollObeysRule
CHECK_DEADLOCK FALSE
