------------------------------ MODULE Pipeline ------------------------------
(* The command-line run (mokapot/mokapot.py main) as a composition of stages over ONE file system: which files a run
   reads, creates, truncates, appends to and removes, for every combination of input files and naming options.

     VerifyPin(f)   is_valid_tsv / pin_to_valid_tsv -> '<pin>.tsv' (fresh) -> moved over the input      (mokapot.py:61-73)
     Parse          read_pin: one collection per input file                                               (:81)
     prefixes       aggregate or a single file: "" for every collection; otherwise the file's STEM        (:82-85)
     Brew           models, scores (C02, C05, C07, C11 say what they are)                                 (:118-127)
     per collection c, in order (confidence.py:626-790):
        InitResults(c)   result files <root><prefix.>targets|decoys.<level> are truncated unless appending
        Stream(c)        chunk files, shared level files <root><level><ext>: written, merged, removed (C03, C09)
        WriteResults(c)  rows of c are appended to its result files
        after a collection without prefix every later collection appends                                  (:789-790)
     SaveModels     <root>mokapot.model_fold-<k>.pkl                                                        (:151-161)

   File contents are abstracted to the set of collections whose rows a file holds.  Invariants: at the end every
   collection's results can be found (ResultsOfEveryCollection), a result file never mixes collections unless the
   user asked for aggregation (NoMixing), no intermediate file remains, input files are only ever replaced by their
   own conversion.  AsIs_PrefixIsStem = TRUE is the code: two input files with the same stem in different directories
   get the same prefix, and the second collection truncates the first one's result files. *)
EXTENDS Naturals, Sequences, FiniteSets, TLC
CONSTANTS MaxFiles, Stems, Dirs, AsIs_PrefixIsStem
VARIABLES inputs,      \* sequence of <<dir, stem>> (distinct paths)
          aggregate, decoys, rollup,
          pc, cur, append, fs, ragged, converted
vars == <<inputs, aggregate, decoys, rollup, pc, cur, append, fs, ragged, converted>>
Paths == Dirs \X Stems
Init == /\ inputs \in UNION {[1..n -> Paths] : n \in 1..MaxFiles}
        /\ \A i, j \in 1..Len(inputs) : i # j => inputs[i] # inputs[j]
        /\ aggregate \in BOOLEAN /\ decoys \in BOOLEAN /\ rollup \in BOOLEAN
        /\ ragged \in [1..Len(inputs) -> BOOLEAN]          \* does the file need the PIN -> TSV conversion?
        /\ pc = "verify" /\ cur = 1 /\ append = FALSE
        /\ fs = [n \in {<<"input", inputs[i]>> : i \in 1..Len(inputs)} |-> {"original"}]
        /\ converted = {}
N == Len(inputs)
Put(f, name, c) == [n \in DOMAIN f \cup {name} |-> IF n = name THEN c ELSE f[n]]
Del(f, names) == [n \in DOMAIN f \ names |-> f[n]]
Prefix(c) == IF aggregate \/ N = 1 THEN "" ELSE IF AsIs_PrefixIsStem THEN inputs[c][2] ELSE inputs[c][1] \o "/" \o inputs[c][2]
Levels == IF rollup THEN {"psms", "peptides"} ELSE {"psms"}
Kinds == IF decoys THEN {"targets", "decoys"} ELSE {"targets"}
ResultName(c, k, l) == <<"result", Prefix(c), k, l>>
ResultNames(c) == {ResultName(c, k, l) : k \in Kinds, l \in Levels}

VerifyPin == /\ pc = "verify"
             /\ IF cur > N THEN pc' = "confidence" /\ cur' = 1 /\ UNCHANGED <<fs, converted>>
                ELSE /\ IF ragged[cur]
                          THEN /\ fs' = Put(fs, <<"input", inputs[cur]>>, {"converted"})     \* tsv written fresh, then moved
                               /\ converted' = converted \cup {cur}
                          ELSE UNCHANGED <<fs, converted>>
                     /\ cur' = cur + 1 /\ UNCHANGED pc
             /\ UNCHANGED <<inputs, aggregate, decoys, rollup, append, ragged>>
InitResults == /\ pc = "confidence" /\ cur <= N
               /\ fs' = IF append THEN [n \in DOMAIN fs \cup ResultNames(cur) |-> IF n \in DOMAIN fs THEN fs[n] ELSE {}]
                        ELSE [n \in DOMAIN fs \cup ResultNames(cur) |-> IF n \in ResultNames(cur) THEN {} ELSE fs[n]]
               /\ pc' = "stream" /\ UNCHANGED <<inputs, aggregate, decoys, rollup, cur, append, ragged, converted>>
Stream == /\ pc = "stream"
          /\ fs' = Put(Put(fs, <<"chunk", Prefix(cur)>>, {cur}), <<"level">>, {cur})
          /\ pc' = "write" /\ UNCHANGED <<inputs, aggregate, decoys, rollup, cur, append, ragged, converted>>
WriteResults == /\ pc = "write"
                /\ fs' = Del([n \in DOMAIN fs |-> IF n \in ResultNames(cur) THEN fs[n] \cup {cur} ELSE fs[n]],
                             {<<"chunk", Prefix(cur)>>, <<"level">>})
                /\ append' = (append \/ Prefix(cur) = "")
                /\ cur' = cur + 1
                /\ pc' = IF cur = N THEN "done" ELSE "confidence"
                /\ UNCHANGED <<inputs, aggregate, decoys, rollup, ragged, converted>>
Next == VerifyPin \/ InitResults \/ Stream \/ WriteResults
Spec == Init /\ [][Next]_vars
---------------------------------------------------------------------------
ResultsOfEveryCollection == pc = "done" => \A c \in 1..N : \A n \in ResultNames(c) : n \in DOMAIN fs /\ c \in fs[n]
NoMixing == pc = "done" /\ ~aggregate /\ N > 1 => \A c \in 1..N : \A n \in ResultNames(c) : n \in DOMAIN fs => fs[n] \subseteq {c}
AggregateHoldsAll == pc = "done" /\ (aggregate \/ N = 1) => \A c \in 1..N : \A n \in ResultNames(c) : fs[n] = 1..N
NoIntermediateLeft == pc = "done" => \A n \in DOMAIN fs : n[1] \notin {"chunk", "level"}
InputsPreserved == \A i \in 1..N : fs[<<"input", inputs[i]>>] = IF i \in converted THEN {"converted"} ELSE {"original"}
EmitCase == pc = "verify" /\ cur = 1 => PrintT(<<"CASE", inputs, aggregate, decoys, rollup, ragged>>)
GenOnly == pc = "verify" /\ cur = 1
\* ---- liveness (checked by Pipeline_live.cfg): under weak fairness of the next-state action every behaviour comes to rest
\* in a state without successor -- the modelled procedure terminates for every input, schedule and fault inside the bounds
FairSpec == Spec /\ WF_vars(Next)
Halts == <>[](~ENABLED Next)
=============================================================================
