----------------------------- MODULE TabularRead -----------------------------
(* Property C13, reader half: for every table, chunk size >= 1 and requested column subset / order, the
   concatenation of the chunks delivered by any reader equals reading the table in one piece, with the
   requested columns in the requested order and a row index that continues across chunks.

   Declarative layer: Whole = Project(table, requested columns), index 0..R-1.
   Implementation-shaped layer (one action per code step of get_chunked_data_iterator):
     base readers  CSVFileReader      tabular_data.py:211-220  read_csv(usecols = SET of columns, chunksize) -> file
                                                                order, global index kept by pandas; then chunk[columns]
                   DataFrameReader    tabular_data.py:254-259  df.iloc[pos : pos + c], then chunk[columns]
                   ParquetFileReader  tabular_data.py:306-316  iter_batches(c, columns) -> requested order (pyarrow);
                                                                df.index + batchNo * chunk_size
     wrappers      ColumnMappedReader tabular_data.py:137-173  request -> original names, chunk renamed
                   JoinedTabularDataReader   streaming.py:40-86   per-reader sub-requests IN THE READER'S column order,
                                                                lock-step next() on all iterators (stop when any stops),
                                                                pd.concat(axis=1) (join on the index), then df[columns]
                   ComputedTabularDataReader streaming.py:125-148 request minus the computed column to the reader,
                                                                df[column] = func(df) appended, then df[columns]
   A table has R rows 0..R-1 and physical columns "a","b","c" (file order).  A cell is <<row, source column>>, the
   computed column's cell is KCell (a function of the chunk length only is row independent).
   Environment (pandas / pyarrow), stated as CONSTANTs:
     FullBatches = TRUE   every Parquet batch but the last has exactly chunk_size rows, whatever the row groups are
                          (pyarrow 25, observed on every (R, c, rg) the driver writes); FALSE = a batch never spans a
                          row group: then batchNo * chunk_size is wrong (sensitivity config).
     AsIs_CsvEmptyCols    pandas.read_csv(usecols = []) delivers ONE frame with 0 rows and 0 columns and then stops.
                          CSVFileReader passes an empty sub-request straight through, so a joined reader whose request
                          touches no column of a CSV sub-reader stops after the first chunk (TRUE = what the current
                          code does; FALSE = the sub-reader keeps delivering row-count-preserving empty-column frames).
     AsIs_ParquetEmptyCols  pyarrow iter_batches(n, columns = []) does NOT re-batch: its batches are bounded by the row
                          groups, i.e. FullBatches fails for an empty sub-request; ParquetFileReader passes the empty
                          list through and still computes the index as batchNo * chunk_size, so the joined reader's
                          concat(axis=1) joins on wrong index values (TRUE = current code / pyarrow 25). *)
EXTENDS Integers, Sequences, FiniteSets, TLC, SequencesExt

CONSTANTS MaxRows, MaxChunk, MaxRg,
          FullBatches, AsIs_CsvEmptyCols, AsIs_ParquetEmptyCols,
          Mut_IndexRestart,      \* seeded fault: Parquet index restarts at 0 in every chunk
          Mut_NoReorder,         \* seeded fault: CSV reader returns usecols order (file order), no chunk[columns]
          Mut_JoinNoReorder      \* seeded fault: joined reader omits the final df[columns]

VARIABLES R, c, rg, base, wrap, split, cols,      \* the configuration (chosen in Init)
          pos, posR, batchNo, chunks, done, misaligned
cfgv == <<R, c, rg, base, wrap, split, cols>>
vars == <<R, c, rg, base, wrap, split, cols, pos, posR, batchNo, chunks, done, misaligned>>

Phys == <<"a", "b", "c">>
KCell == <<-1, "k">>
None == <<0>>                      \* cols: columns = None (all columns); the empty request is not in the domain
AllCols == <<"*">>                 \* the same at the level of column names
Injective(s) == \A i, j \in 1..Len(s) : i # j => s[i] # s[j]
Requests == {None} \cup {s \in UNION {[1..n -> 1..3] : n \in 1..3} : Injective(s)}

(* ---------------- declarative layer ---------------- *)
Names == CASE wrap = "mapped"   -> <<"A", "b", "C">>         \* column_map = {a -> A, c -> C}, b untouched
           [] wrap = "computed" -> <<"a", "b", "k">>         \* reader over (a, b) + computed column k
           [] OTHER             -> Phys
Src(nm) == CASE nm = "A" -> "a" [] nm = "C" -> "c" [] OTHER -> nm
Cell(r, nm) == IF nm = "k" THEN KCell ELSE <<r, Src(nm)>>
Hdr == IF cols = None THEN Names ELSE [k \in 1..Len(cols) |-> Names[cols[k]]]
WholeRows == [r \in 1..R |-> [k \in 1..Len(Hdr) |-> Cell(r - 1, Hdr[k])]]
WholeIdx == [r \in 1..R |-> r - 1]

(* ---------------- frames ---------------- *)
Frame(h, ix, rw) == [hdr |-> h, idx |-> ix, rows |-> rw]
PosIn(h, nm) == CHOOSE k \in 1..Len(h) : h[k] = nm
\* pandas df[names]
Select(f, names) == Frame(names, f.idx,
                          [i \in 1..Len(f.rows) |-> [k \in 1..Len(names) |-> f.rows[i][PosIn(f.hdr, names[k])]]])
\* read_csv(usecols = S): the columns of S in FILE order
UseCols(f, S) == Select(f, SelectSeq(f.hdr, LAMBDA nm : nm \in S))
Rng(s) == {s[k] : k \in 1..Len(s)}
\* n rows of the stored table starting at row lo, physical columns pc, index starting at i0
Stored(pc, lo, n, i0) == Frame(pc, [j \in 1..n |-> i0 + j - 1],
                               [j \in 1..n |-> [k \in 1..Len(pc) |-> <<lo + j - 1, pc[k]>>]])
Rename(f, ren(_)) == Frame([k \in 1..Len(f.hdr) |-> ren(f.hdr[k])], f.idx, f.rows)
AddCol(f, nm, cell) == Frame(Append(f.hdr, nm), f.idx, [i \in 1..Len(f.rows) |-> Append(f.rows[i], cell)])
HConcat(f, g) == Frame(f.hdr \o g.hdr, g.idx, [i \in 1..Len(g.rows) |-> f.rows[i] \o g.rows[i]])
EmptyFrame == Frame(<<>>, <<>>, <<>>)

Min2(x, y) == IF x < y THEN x ELSE y
\* rows in the next batch of a reader of kind k standing at row p
BatchLenE(k, p, emptyReq) ==
                  IF k = "parquet" /\ (~FullBatches \/ (AsIs_ParquetEmptyCols /\ emptyReq))
                    THEN Min2(Min2(c, R - p), rg - (p % rg))       \* stop at the row-group boundary
                    ELSE Min2(c, R - p)
BatchLen(k, p) == BatchLenE(k, p, FALSE)
\* the chunk a base reader of kind k over physical columns pc yields for request req (AllCols or names of pc)
BaseChunk(k, pc, req, p, bn) ==
   LET n == BatchLenE(k, p, req = <<>>) IN
   CASE k = "csv" ->
          LET raw == Stored(pc, p, n, p) IN                               \* pandas keeps the global row index
          IF req = AllCols THEN raw
          ELSE IF Mut_NoReorder THEN UseCols(raw, Rng(req)) ELSE Select(UseCols(raw, Rng(req)), req)
     [] k = "frame" ->
          LET raw == Stored(pc, p, n, p) IN IF req = AllCols THEN raw ELSE Select(raw, req)
     [] k = "parquet" ->
          LET i0 == IF Mut_IndexRestart THEN 0 ELSE bn * c                \* df.index + i * chunk_size (315)
              raw == Stored(pc, p, n, i0)
          IN IF req = AllCols THEN raw ELSE Select(raw, req)                 \* pyarrow: requested order

(* ---------------- configuration ---------------- *)
Init == /\ R \in 0..MaxRows /\ c \in 1..MaxChunk
        /\ base \in {"csv", "frame", "parquet"}
        /\ rg \in 1..MaxRg /\ (base # "parquet" => rg = 1)
        /\ wrap \in {"plain", "mapped", "joined", "computed"}
        /\ split \in 1..2 /\ (wrap # "joined" => split = 1)
        /\ cols \in Requests
        /\ (wrap = "computed" => cols # None)              \* its signature rejects columns = None (guard, DESIGN C13)
        /\ pos = 0 /\ posR = 0 /\ batchNo = 0 /\ chunks = <<>> /\ done = FALSE /\ misaligned = FALSE

Deliver(f, n) == /\ chunks' = Append(chunks, f) /\ pos' = pos + n /\ batchNo' = batchNo + 1
                 /\ UNCHANGED <<cfgv, done, misaligned>>

\* ---- plain reader (from_path / DataFrameReader) ----
PlainReq == IF cols = None THEN AllCols ELSE Hdr
PlainNext == /\ wrap = "plain" /\ ~done /\ pos < R /\ posR' = posR
             /\ LET f == BaseChunk(base, Phys, PlainReq, pos, batchNo) IN Deliver(f, Len(f.idx))

\* ---- ColumnMappedReader: _get_orig_columns, inner chunk, rename ----
RenFwd(nm) == CASE nm = "a" -> "A" [] nm = "c" -> "C" [] OTHER -> nm
MappedNext == /\ wrap = "mapped" /\ ~done /\ pos < R /\ posR' = posR
              /\ LET orig == IF cols = None THEN AllCols ELSE [k \in 1..Len(Hdr) |-> Src(Hdr[k])]
                     f == BaseChunk(base, Phys, orig, pos, batchNo)
                 IN Deliver(Rename(f, RenFwd), Len(f.idx))

\* ---- ComputedTabularDataReader over a reader of (a, b) ----
ComputedNext == /\ wrap = "computed" /\ ~done /\ posR' = posR
                /\ LET pc == <<"a", "b">>
                       inner == SelectSeq(Hdr, LAMBDA nm : nm # "k")                  \* _reader_columns
                   IN IF inner = <<>> /\ base = "csv" /\ AsIs_CsvEmptyCols
                        THEN /\ batchNo = 0                                             \* one (0, 0) frame, then stop
                             /\ Deliver(Select(AddCol(EmptyFrame, "k", KCell), Hdr), R) \* pos := R : iterator is spent
                        ELSE /\ pos < R
                             /\ LET f == BaseChunk(base, pc, inner, pos, batchNo)
                                IN Deliver(Select(AddCol(f, "k", KCell), Hdr), Len(f.idx))

\* ---- JoinedTabularDataReader([reader of Phys[1..split] (kind base), DataFrameReader of the rest]) ----
LeftCols == SubSeq(Phys, 1, split)
RightCols == SubSeq(Phys, split + 1, 3)
SubReq(pc) == IF cols = None THEN AllCols ELSE SelectSeq(pc, LAMBDA nm : nm \in Rng(Hdr))   \* _subset_columns
LeftStuck == base = "csv" /\ AsIs_CsvEmptyCols /\ cols # None /\ SubReq(LeftCols) = <<>>
JoinedNext ==
   /\ wrap = "joined" /\ ~done /\ posR < R
   /\ IF LeftStuck THEN batchNo = 0 ELSE pos < R            \* otherwise next(left) raises StopIteration: see Exhaust
   /\ LET lf == IF LeftStuck THEN EmptyFrame ELSE BaseChunk(base, LeftCols, SubReq(LeftCols), pos, batchNo)
          nl == Len(lf.idx)
          nr == BatchLen("frame", posR)
          rf == BaseChunk("frame", RightCols, SubReq(RightCols), posR, batchNo)
          ok == LeftStuck \/ lf.idx = rf.idx                 \* concat(axis=1) joins on the index
          lf2 == IF LeftStuck THEN Frame(<<>>, rf.idx, [i \in 1..nr |-> <<>>]) ELSE lf
          joined == HConcat(lf2, rf)
      IN /\ misaligned' = (misaligned \/ ~ok)
         /\ chunks' = IF ~ok THEN chunks
                      ELSE Append(chunks, IF cols = None \/ Mut_JoinNoReorder THEN joined ELSE Select(joined, Hdr))
         /\ pos' = IF LeftStuck THEN R ELSE pos + nl
         /\ posR' = posR + nr /\ batchNo' = batchNo + 1
         /\ UNCHANGED <<cfgv, done>>

\* ---- end of iteration: some underlying iterator raises StopIteration ----
Spent == IF wrap = "joined" THEN (pos >= R \/ posR >= R) ELSE pos >= R
\* pandas delivers one empty chunk (right header, no rows) for a header-only CSV file; harmless, so optional here
CsvEmptyChunk == /\ ~done /\ base = "csv" /\ R = 0 /\ batchNo = 0 /\ wrap \in {"plain", "mapped"}
                 /\ chunks' = Append(chunks, Frame(Hdr, <<>>, <<>>)) /\ batchNo' = 1
                 /\ UNCHANGED <<cfgv, pos, posR, done, misaligned>>
Exhaust == /\ ~done /\ Spent /\ done' = TRUE /\ UNCHANGED <<cfgv, pos, posR, batchNo, chunks, misaligned>>

Next == PlainNext \/ MappedNext \/ ComputedNext \/ JoinedNext \/ CsvEmptyChunk \/ Exhaust
Spec == Init /\ [][Next]_vars

(* ---------------- invariants ---------------- *)
RECURSIVE CatRows(_, _), CatIdx(_, _)
CatRows(cs, k) == IF k > Len(cs) THEN <<>> ELSE cs[k].rows \o CatRows(cs, k + 1)
CatIdx(cs, k) == IF k > Len(cs) THEN <<>> ELSE cs[k].idx \o CatIdx(cs, k + 1)
ChunksEqualWhole == done => /\ CatRows(chunks, 1) = WholeRows
                            /\ \A k \in 1..Len(chunks) : chunks[k].hdr = Hdr
IndexContinues   == done => CatIdx(chunks, 1) = WholeIdx
PrefixAlways     == IsPrefix(CatRows(chunks, 1), WholeRows)
Aligned          == ~misaligned

\* behaviour generation: one case per configuration
EmitCase == (batchNo = 0 /\ ~done /\ chunks = <<>>) =>
               PrintT(<<"CASE", "r", R, c, rg, base, wrap, split, cols>>)
GenOnly == batchNo = 0 /\ ~done /\ chunks = <<>>
=============================================================================
