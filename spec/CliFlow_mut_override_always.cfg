SPECIFICATION Spec
CONSTANTS MaxDev = 2 Mut = "override_always"
INVARIANT Dataflow
CHECK_DEADLOCK FALSE
