SPECIFICATION Spec
CONSTANTS MaxN = 5 DetSort = FALSE Mut_NoPlusOne = FALSE Mut_GroupFirst = FALSE
INVARIANT OpEqualsDef
INVARIANT FastEqualsDef
INVARIANT CountEqualsDef
INVARIANT InRange
INVARIANT Monotone
INVARIANT TieEqual
INVARIANT LabelRule
CHECK_DEADLOCK FALSE
