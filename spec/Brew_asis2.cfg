SPECIFICATION Spec
CONSTANTS MaxRows = 4 MaxSpec = 3 NFiles = 2 Folds = 2 Workers = 1 MinChunk = 1 MaxChunk = 1 MaxCap = 5
  AsIs_EmptySliceRaises = FALSE AsIs_CapLargerThanFile = TRUE
  Mut_TrainIncludesHeldOut = FALSE Mut_NoSortByFold = FALSE Mut_CutAtNominal = FALSE
INVARIANT NeverFails
INVARIANT PartitionOK
INVARIANT SpectrumClosed
INVARIANT TrainFromOtherFolds
INVARIANT ReadComplete
INVARIANT NoLeak
CHECK_DEADLOCK FALSE
