SPECIFICATION FairSpec
CONSTANTS BufSizes = {0, 2, 3} MaxAppends = 2 MaxRows = 3
          Mut_FlushLosesRemainder = FALSE Mut_SliceOffByOne = FALSE Mut_NoTruncate = FALSE Mut_NoClose = FALSE
PROPERTY Halts
CHECK_DEADLOCK FALSE
