------------------------------- MODULE DigestDef -------------------------------
(* In-silico digestion (property C17): the defining set.  Pure operators, no state.

   A protein `seq` is either a TLA+ STRING (TLC evaluates Len, \o and SubSeq on strings; SubSeq(s, i, i) is
   the i-th character, SubSeq(s, a + 1, b) is python's s[a:b]) -- used by DigestTrace, so that a recorded set
   of peptide strings is compared with the defining set by TLC without any driver-side encoding -- or a tuple
   of one-character strings -- used by the model Digest.tla (TLC interns every string it builds under a global
   lock, which serialises its workers).  The module is instantiated with Chr(c) = the one-residue sequence of
   the representation in use:  c  for strings,  <<c>>  for tuples.  Only Len and SubSeq are applied to sequences.

   Enzymes are predicates on (residue before, residue after) a position p \in 0..Len(seq); "#" stands for
   "outside the sequence".  The drivers map the names to the regular expressions given to mokapot:
       "KR"       [KR]              cut after K or R
       "KRnoP"    [KR](?!P)         ... unless followed by P               (negative look-ahead)
       "lbKRnoP"  (?<=[KR])(?!P)    the same sites from a zero-width pattern (look-behind + look-ahead)
       "lookK"    (?=K)             cut BEFORE K, zero width; matches at position 0 when seq starts with K
       "FWY"      [FWY]             cut after F, W or Y
       "lookM"    (?=M)             cut before M (only in the model: sensitivity of the duplicate-site layer)

   Digest(seq, enz, mc, minL, maxL, clip, semi) =
       every seq[a:b] with a < b both in SiteSet = {0, Len(seq)} \cup cut positions,
                      at most mc sites strictly between a and b, minL <= b - a <= maxL          (enzymatic)
     + if clip: pep[1:] for every enzymatic pep with a = 0 that starts with "M" and has Len - 1 >= minL
     + if semi: every proper prefix and proper suffix of length >= minL of every enzymatic pep.
   Domain of the property: minL >= 1 (peptides are non-empty), maxL >= minL, mc >= 0. *)
EXTENDS Integers, Sequences, FiniteSets
CONSTANT Chr(_)

At(seq, i) == IF i >= 1 /\ i <= Len(seq) THEN SubSeq(seq, i, i) ELSE Chr("#")
Sub(seq, a, b) == SubSeq(seq, a + 1, b)                          \* python seq[a:b], 0 <= a <= b <= Len(seq)

EnzymeNames == {"KR", "KRnoP", "lbKRnoP", "lookK", "FWY"}
Cut(enz, before, after) ==
   CASE enz = "KR"      -> before \in {Chr("K"), Chr("R")}
     [] enz = "KRnoP"   -> before \in {Chr("K"), Chr("R")} /\ after # Chr("P")
     [] enz = "lbKRnoP" -> before \in {Chr("K"), Chr("R")} /\ after # Chr("P")
     [] enz = "lookK"   -> after = Chr("K")
     [] enz = "FWY"     -> before \in {Chr("F"), Chr("W"), Chr("Y")}
     [] enz = "lookM"   -> after = Chr("M")
CutAfter(seq, enz, p) == Cut(enz, At(seq, p), At(seq, p + 1))
CutSites(seq, enz) == {p \in 0..Len(seq) : CutAfter(seq, enz, p)}
SiteSet(seq, enz) == {0, Len(seq)} \cup CutSites(seq, enz)       \* sequence ends included, DISTINCT sites

Missed(S, a, b) == Cardinality({s \in S : a < s /\ s < b})
Enzymatic(S, mc, minL, maxL) ==
   {ab \in S \X S : /\ ab[1] < ab[2]
                    /\ ab[2] - ab[1] >= minL /\ ab[2] - ab[1] <= maxL
                    /\ Missed(S, ab[1], ab[2]) <= mc}
ProperEnds(pep, minL) ==                                          \* proper prefixes and suffixes, length >= minL
   {SubSeq(pep, 1, n) : n \in minL..(Len(pep) - 1)} \cup {SubSeq(pep, Len(pep) - n + 1, Len(pep)) : n \in minL..(Len(pep) - 1)}
ClippedForm(pep, a, minL) ==
   IF a = 0 /\ At(pep, 1) = Chr("M") /\ Len(pep) - 1 >= minL THEN {SubSeq(pep, 2, Len(pep))} ELSE {}

Digest(seq, enz, mc, minL, maxL, clip, semi) ==
   LET S == SiteSet(seq, enz) IN
   UNION { LET pep == Sub(seq, ab[1], ab[2]) IN
           {pep} \cup (IF clip THEN ClippedForm(pep, ab[1], minL) ELSE {})
                 \cup (IF semi THEN ProperEnds(pep, minL) ELSE {})
         : ab \in Enzymatic(S, mc, minL, maxL) }

InDomain(mc, minL, maxL) == mc >= 0 /\ minL >= 1 /\ maxL >= minL
IsSubstring(seq, p) == \E a \in 0..(Len(seq) - Len(p)) : Sub(seq, a, a + Len(p)) = p
=============================================================================
