------------------------------- MODULE ConfGen -------------------------------
(* Behaviour generation for Confidence.tla / ConfTrace.tla: every canonical PSM table (spectra and entities
   named in order of first appearance, dense ranks) up to the bounds, built row by row so that all TLC
   workers share the enumeration.  The driver adds labels, flags, chunk sizes, formats, collections. *)
EXTENDS Naturals, Sequences, FiniteSets, TLC, FiniteSetsExt
CONSTANTS MaxRows, NSpec, NKey, NLev, MaxRank
VARIABLE rows
MaxOf(S) == IF S = {} THEN 0 ELSE Max(S)
Init == rows = <<>>
AddRow == /\ Len(rows) < MaxRows
          /\ \E sp \in 1..NSpec, rk \in 1..MaxRank, ky \in [1..NLev -> 1..NKey] :
                /\ sp <= 1 + MaxOf({rows[i][1] : i \in 1..Len(rows)})
                /\ \A k \in 1..NLev : ky[k] <= 1 + MaxOf({rows[i][2][k] : i \in 1..Len(rows)})
                /\ rows' = Append(rows, <<sp, ky, rk>>)
Spec == Init /\ [][AddRow]_rows
Dense == \E top \in 1..MaxRank : {rows[i][3] : i \in 1..Len(rows)} = 1..top
EmitCase == (Len(rows) >= 1 /\ Dense) => PrintT(<<"CASE", rows>>)
=============================================================================
