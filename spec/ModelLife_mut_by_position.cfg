SPECIFICATION Spec
CONSTANTS NData = 2 NOrders = 2 NPaths = 2 MaxOps = 5 Mut = "by_position"
INVARIANT AnswersByLastFit
CHECK_DEADLOCK FALSE
