SPECIFICATION Spec
CONSTANTS MaxN = 5 MaxV = 3 AnyValues = TRUE AsIs_SortedReturn = FALSE Mut_WrongDirection = FALSE Mut_TieJitter = FALSE Thorough = FALSE
INVARIANT FastEqualsDef
CHECK_DEADLOCK FALSE
