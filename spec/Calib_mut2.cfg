SPECIFICATION Spec
CONSTANTS MaxN = 4 MaxRaw = 3 Mut_SignFlipped = FALSE Mut_MaxAccepted = TRUE
INVARIANT OrderPreserved
INVARIANT Anchored
INVARIANT MatchesDef
INVARIANT ErrorIffNoAccepted
CHECK_DEADLOCK FALSE
