SPECIFICATION Spec
CONSTANTS MaxRows = 3 NPair = 3 WithUnmapped = TRUE
  Kinds = {"single", "same", "sub"}
  AsIs_AllSharedKeyError = FALSE AsIs_PairByFirstName = TRUE Mut_NoStrip = FALSE Mut_SharedContribute = FALSE Mut_NoCollapse = FALSE Mut_KeepWorst = FALSE
INVARIANT OnePerPair
INVARIANT OwnerGroup
INVARIANT BestPeptide
INVARIANT SharedNever
INVARIANT QFollowsTdc
INVARIANT NoErrorInDomain
INVARIANT GuardRefuses
CHECK_DEADLOCK FALSE
