------------------------------- MODULE Merge -------------------------------
(* k-way merge of score-sorted inputs (property C14).

   Two implementations, one shape:
     "rowdict"  mokapot.utils.merge_sort / get_next_row (utils.py:107-166): a dict {input -> current row},
                scanned in key order with a STRICT comparison `max_score < score` (117), so the FIRST input
                among those with the best head wins; the winner's iterator is advanced (123) or, on
                StopIteration, the input is deleted (125-126).  Descending only, no sortedness check.
     "table"    mokapot.streaming.MergedTabularDataReader.get_row_iterator (streaming.py:211-298):
                np.argmax / np.argmin over the list of head values (268-271) = the FIRST best head; the row
                is yielded (274), then the input is advanced (277); the new head is compared with the
                previous head of the SAME input and a ValueError is raised when it is better (283-292,
                the sortedness guard); on StopIteration the input is deleted from the lists (295-298).
   A row is <<input, position>>; inputs[f][i] is its rank (an int standing for the score; the score is a
   strictly increasing function of the rank; `desc` says whether higher ranks come first).

   Declarative layer (the property): EveryRowOnce, GloballySorted, UnsortedRejected, SortedAccepted.
   They are evaluated (M) on every reachable final state of the implementation-shaped actions below and
   (V), through INSTANCE in MergeTrace.tla, on the final state recorded from the real code.
   TieAny = TRUE replaces "the first best head" by "any best head": the relation the acceptor admits.
   Mut_* are seeded design faults (sensitivity of the model). *)
EXTENDS Integers, Sequences, FiniteSets, TLC

CONSTANTS MaxInputs, MaxLen, MaxRank,
          Impls,          \* subset of {"table", "rowdict"}
          TieAny,         \* TRUE: any input with a best head may be taken (declarative tie rule)
          Mut_DropLast,   \* fault: an input's last row is lost when the input is exhausted
          Mut_NoGuard,    \* fault: the table merger does not check sortedness
          Mut_StrictGuard \* fault: the guard also rejects equal neighbours (>= instead of >)

VARIABLES inputs, desc, impl, heads, out, pc
vars == <<inputs, desc, impl, heads, out, pc>>

Guarded == impl = "table"
Better(a, b) == IF desc THEN a > b ELSE a < b
SortedSeq(s) == \A i \in 1..(Len(s) - 1) : ~Better(s[i + 1], s[i])

(* ---------------- declarative layer ---------------- *)
AllRows == UNION {{<<f, i>> : i \in 1..Len(inputs[f])} : f \in DOMAIN inputs}
RankOf(r) == inputs[r[1]][r[2]]
InputsSorted == \A f \in DOMAIN inputs : SortedSeq(inputs[f])
\* C14: every input row exactly once ...
EveryRowOnce == pc = "done" => /\ {out[i] : i \in 1..Len(out)} = AllRows
                               /\ Len(out) = Cardinality(AllRows)
\* ... in globally sorted order (any order among equal scores)
GloballySorted == pc = "done" /\ InputsSorted => SortedSeq([i \in 1..Len(out) |-> RankOf(out[i])])
\* the table merger never completes on an input that is not sorted as declared ...
UnsortedRejected == Guarded /\ ~InputsSorted => pc # "done"
\* ... and nobody rejects sorted inputs
SortedAccepted == InputsSorted => pc # "rejected"
\* step invariants of the scan
NoDupAnytime == \A i, j \in 1..Len(out) : i # j => out[i] # out[j]
Remaining == UNION {{<<f, i>> : i \in heads[f]..Len(inputs[f])} : f \in DOMAIN inputs}
Conservation == /\ {out[i] : i \in 1..Len(out)} \cup Remaining = AllRows
                /\ {out[i] : i \in 1..Len(out)} \cap Remaining = {}
PrefixSorted == InputsSorted => SortedSeq([i \in 1..Len(out) |-> RankOf(out[i])])

(* ---------------- implementation-shaped layer ---------------- *)
AllSeqs == UNION {[1..n -> 1..MaxRank] : n \in 1..MaxLen}
DescSorted(s) == \A i \in 1..(Len(s) - 1) : s[i] >= s[i + 1]
\* merge_sort has no guard and no ascending mode: its domain is descending-sorted inputs
SeqUniverse == IF "table" \in Impls THEN AllSeqs ELSE {s \in AllSeqs : DescSorted(s)}
Init == /\ inputs \in UNION {[1..k -> SeqUniverse] : k \in 1..MaxInputs}
        /\ impl \in Impls
        /\ desc \in (IF impl = "table" THEN BOOLEAN ELSE {TRUE})
        /\ (impl = "rowdict" => \A f \in DOMAIN inputs : DescSorted(inputs[f]))
        /\ heads = [f \in DOMAIN inputs |-> 1] /\ out = <<>> /\ pc = "run"

Live == {f \in DOMAIN inputs : heads[f] <= Len(inputs[f])}     \* keys of current_row_dict / row_iterators
Val(f) == inputs[f][heads[f]]                                   \* values[...] / float(row[score_column])
BestHeads == {f \in Live : \A g \in Live : ~Better(Val(g), Val(f))}
\* utils.py:115-120 (strict <, dict order) and streaming.py:268-271 (argmax/argmin): the first best head
First == CHOOSE f \in BestHeads : \A g \in BestHeads : f <= g
Picks == IF TieAny THEN BestHeads ELSE {First}
GuardFires(f) == /\ Guarded /\ ~Mut_NoGuard
                 /\ LET nw == inputs[f][heads[f] + 1] IN
                    Better(nw, Val(f)) \/ (Mut_StrictGuard /\ nw = Val(f))

\* yield the row, next() succeeds, the new head passes the guard (utils 123; streaming 274-294)
Advance == /\ pc = "run" /\ Live # {}
           /\ \E f \in Picks :
                /\ heads[f] < Len(inputs[f]) /\ ~GuardFires(f)
                /\ out' = Append(out, <<f, heads[f]>>)
                /\ heads' = [heads EXCEPT ![f] = @ + 1]
           /\ UNCHANGED <<inputs, desc, impl, pc>>
\* yield the row, next() succeeds, the new head is better than the old one: ValueError (streaming 283-292)
Reject == /\ pc = "run" /\ Live # {}
          /\ \E f \in Picks :
               /\ heads[f] < Len(inputs[f]) /\ GuardFires(f)
               /\ out' = Append(out, <<f, heads[f]>>)
               /\ heads' = [heads EXCEPT ![f] = @ + 1]
          /\ pc' = "rejected"
          /\ UNCHANGED <<inputs, desc, impl>>
\* yield the row, next() raises StopIteration: the input is dropped (utils 124-126; streaming 295-298)
Exhaust == /\ pc = "run" /\ Live # {}
           /\ \E f \in Picks :
                /\ heads[f] = Len(inputs[f])
                /\ out' = IF Mut_DropLast /\ Len(inputs[f]) > 1 THEN out ELSE Append(out, <<f, heads[f]>>)
                /\ heads' = [heads EXCEPT ![f] = @ + 1]
           /\ UNCHANGED <<inputs, desc, impl, pc>>
\* `while row_iterator_dict != {}` (utils 163) / `while len(row_iterators)` (streaming 267) falls through
Finish == pc = "run" /\ Live = {} /\ pc' = "done" /\ UNCHANGED <<inputs, desc, impl, heads, out>>
Next == Advance \/ Reject \/ Exhaust \/ Finish
Spec == Init /\ [][Next]_vars

(* ---------------- behaviour generation: one case per initial state ---------------- *)
EmitCase == (pc = "run" /\ out = <<>>) => PrintT(<<"CASE", impl, desc, inputs>>)
GenOnly == pc = "run" /\ out = <<>>
\* ---- liveness (checked by Merge_live.cfg): under weak fairness of the next-state action every behaviour comes to rest
\* in a state without successor -- the modelled procedure terminates for every input, schedule and fault inside the bounds
FairSpec == Spec /\ WF_vars(Next)
Halts == <>[](~ENABLED Next)
=============================================================================
