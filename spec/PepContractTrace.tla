-------------------------- MODULE PepContractTrace --------------------------
(* Property-level acceptor for C06 on estimates recorded from the real code (drivers/c06.py).

   trace = [tid, kind, alg, n, scale, ranks, targets, ...]
     kind "pep" | "q"   two calls of peps_from_scores / qvalues_from_scores(scores, targets, alg): on the input x
                        and on x o perm.       ranks:[int] dense ranks of the scores the driver generated
                        (higher = better) in INPUT order; targets:[BOOLEAN]; perm:[1..n] (x_p[i] = x[perm[i]]);
                        values / values_perm:[int] = round(returned value * scale) in RETURN order;
                        flags / flags_perm:["ok"|"nan"|"inf"|"neg"|"gt1"] exact classification of the returned
                        float (nan / inf are recorded with value 0);  raised / raised_perm: "" or
                        "<ExceptionType>: <message>" (then the value lists are empty)
     kind "file"        the posterior_error_prob column of targets.<level> (+ decoys.<level>) written by
                        assign_confidence: one entry per result row, ranks = rank of the row's score (looked up by
                        the row id in the input the driver generated; 0 = unknown row), values / flags as above.
                        n = number of result rows.

   Tolerance: every comparison allows Eps = 1 quantum = 1/scale (scale = 10^9 for PEPs, so 1e-9 absolute; the
   q-value estimators "from_counts" are not bounded by 1 and are recorded at the largest power of ten
   scale <= 10^9 that keeps round(value * scale) inside TLC's 32-bit integers).  One quantum is exactly the
   rounding slack of the projection (|round(a s) - round(b s)| <= 1 whenever |a - b| s <= 1); summation-order
   noise of a numerically stable estimator (1e-14 measured for kde_nnls on most inputs) is far below it.  A larger
   difference between Est(x o perm) and Est(x) o perm is a dependence of the estimate on the row order and is
   reported under Equivariant (it is what mis-alignment looks like from outside).

   Domain (property text): >= 50 targets and >= 50 decoys, non-degenerate score distribution (taken as
   >= 20 distinct score values).  Estimates outside are accepted vacuously (info "out_of_domain"). *)
EXTENDS Integers, Sequences, FiniteSets, TLC, TLCExt, Json, IOUtils
VARIABLE tid
\* the declarative operators of PepContract (its constants / variables belong to the sanity machine only)
C == INSTANCE PepContract WITH MaxN <- 0, MaxV <- 0, AnyValues <- FALSE, AsIs_SortedReturn <- FALSE,
        Mut_WrongDirection <- FALSE, Mut_TieJitter <- FALSE, Thorough <- FALSE,
        pc <- tid, n <- tid, rank <- tid, f <- tid, perm <- tid, out <- tid, outp <- tid, shape <- tid
Traces == JsonDeserialize(IOEnv.TRACES_FILE)
T == Traces[tid]
Eps == 1
FastFrom == 12      \* pairwise definition up to this length, MonoTieFast (proved equal by PepContract) above

Count(seq, v) == Cardinality({i \in 1..Len(seq) : seq[i] = v})
InDomain == /\ Len(T.ranks) = T.n /\ Len(T.targets) = T.n
            /\ Count(T.targets, TRUE) >= 50 /\ Count(T.targets, FALSE) >= 50
            /\ Cardinality({T.ranks[i] : i \in 1..T.n}) >= 20

\* <<Monotone, TieEqual>> of one returned vector against the ranks it was called with
MonoTie(m, rk, val, fl) ==
   IF Len(val) # m \/ Len(fl) # m \/ Len(rk) # m THEN <<FALSE, FALSE>>
   ELSE IF m <= FastFrom THEN <<C!Monotone(m, rk, val, fl, Eps), C!TieEqual(m, rk, val, fl, Eps)>>
   ELSE C!MonoTieFast(m, rk, val, fl, Eps)
InRangeOf(kind, m, val, fl, scale) ==
   /\ Len(val) = m /\ Len(fl) = m
   /\ IF kind = "q" THEN C!InRangeQ(m, val, fl) ELSE C!InRangePep(m, val, fl, scale)

\* "the i-th returned value belongs to the i-th input PSM whatever the input order": ALIGNMENT of Est(x o perm) with
\* Est(x) o perm.  Numeric estimators (KDE + NNLS) are not bit-wise independent of the row order: an ill-conditioned
\* tail can amplify summation-order noise for a few PSMs, and estimators that interpolate over tied scores may give a
\* tied PSM another (tie-equal) value in another row order.  Neither is a mis-alignment.  A mis-aligned return (e.g.
\* values handed back in sorted order) moves nearly every value.  Aligned therefore allows up to 1 % of the positions
\* (at least one) to differ by more than 1e-3; the strict form is C!Equivariant, which PepContract.tla model-checks.
Abs(x) == IF x < 0 THEN -x ELSE x
Aligned(m, perm, v, fl, vp, flp) ==
   LET tol == IF T.scale >= 1000 THEN T.scale \div 1000 ELSE 1
       bad == {i \in 1..m : flp[i] # fl[perm[i]] \/ Abs(vp[i] - v[perm[i]]) > tol}
   IN Cardinality(bad) * 100 <= m \/ Cardinality(bad) <= 1

\* qvality only: T.ref = the PEPs of the third-party routine itself (triqler), from the best to the worst score.  The wrapper
\* must hand every PSM the value computed for it: the k-th best PSM gets ref[k].  Only judged when the reference gives equal
\* values to equal scores (otherwise positions inside a tie group are not determined).
RefAligned(m) ==
   LET srt == SortSeq([i \in 1..m |-> i], LAMBDA a, b : T.ranks[a] > T.ranks[b])
       tieEq == \A k \in 1..(m - 1) : T.ranks[srt[k]] = T.ranks[srt[k + 1]] => Abs(T.ref[k] - T.ref[k + 1]) <= Eps
   IN Len(T.ref) # m \/ Len(T.values) # m \/ ~tieEq \/ \A k \in 1..m : Abs(T.values[srt[k]] - T.ref[k]) <= Eps

\* two calls (original, permuted).  A call that raised fails Completed only: nothing else can be said about it.
EstClauses ==
   LET m == T.n
       ra == T.raised # ""   rb == T.raised_perm # ""
       wf == C!IsPerm(m, T.perm)
       rp == IF wf THEN C!Compose(m, T.ranks, T.perm) ELSE T.ranks
       a == IF ra THEN <<TRUE, TRUE>> ELSE MonoTie(m, T.ranks, T.values, T.flags)
       b == IF rb \/ ~wf THEN <<TRUE, TRUE>> ELSE MonoTie(m, rp, T.values_perm, T.flags_perm)
   IN [WellFormed   |-> wf /\ T.scale >= 1,
       Completed    |-> ~ra /\ ~rb,
       OnePerPsm    |-> (ra \/ C!OnePerPsm(m, T.values, T.flags)) /\ (rb \/ C!OnePerPsm(m, T.values_perm, T.flags_perm)),
       InRange      |-> ra \/ InRangeOf(T.kind, m, T.values, T.flags, T.scale),
       InRangeP     |-> rb \/ InRangeOf(T.kind, m, T.values_perm, T.flags_perm, T.scale),
       Monotone     |-> a[1],
       MonotoneP    |-> b[1],
       TieEqual     |-> a[2],
       TieEqualP    |-> b[2],
       RefAligned   |-> ra \/ T.ref = <<>> \/ RefAligned(m),
       Equivariant  |-> (ra \/ rb \/ ~wf) \/
                        /\ C!OnePerPsm(m, T.values, T.flags) /\ C!OnePerPsm(m, T.values_perm, T.flags_perm)
                        /\ Aligned(m, T.perm, T.values, T.flags, T.values_perm, T.flags_perm)]

\* the PEP column of a result file against the ranks of its rows
FileClauses ==
   LET m == T.n
       a == MonoTie(m, T.ranks, T.values, T.flags)
   IN [Completed |-> T.raised = "" /\ m > 0,
       KnownRows |-> \A i \in 1..Len(T.ranks) : T.ranks[i] >= 1,
       OnePerPsm |-> C!OnePerPsm(m, T.values, T.flags) /\ Len(T.ranks) = m,
       InRange   |-> InRangeOf("pep", m, T.values, T.flags, T.scale),
       Monotone  |-> a[1],
       TieEqual  |-> a[2]]

Clauses == IF T.kind = "file" THEN FileClauses
           ELSE IF ~InDomain THEN [Domain |-> TRUE]
           ELSE EstClauses
Init == tid \in 1..Len(Traces)
Spec == Init /\ [][UNCHANGED tid]_tid
Verdict == LET cl == Clauses
               failed == {c \in DOMAIN cl : ~cl[c]}
           IN PrintT(<<"VERDICT", T.tid, IF failed = {} THEN "accept" ELSE "reject", failed,
                       IF "Domain" \in DOMAIN cl THEN "out_of_domain" ELSE "in_domain">>)
=============================================================================
