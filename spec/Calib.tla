------------------------------- MODULE Calib -------------------------------
(* Implementation-shaped model of calibrate_scores (dataset.py:742-775 and 528-563, applied per fold in
   brew.py:455-476): labels = _update_labels(scores, targets, eval_fdr); pos = labels == 1; error if none;
   target_score = min(scores[pos]); decoy_score = median(scores[labels == -1]);
   (scores - target_score) / (target_score - decoy_score).
   Checked against the declarative consequences of C11 for every small score vector. *)
EXTENDS CalibDef, TLC
CONSTANTS MaxN, MaxRaw, Mut_SignFlipped, Mut_MaxAccepted
VARIABLES n, raw, tgt, thr, pc, labels, out, err
vars == <<n, raw, tgt, thr, pc, labels, out, err>>
Thresholds == {<<1, 1>>, <<1, 2>>, <<1, 4>>, <<3701, 10000>>}
Init == /\ n \in 1..MaxN /\ raw \in [1..n -> 0..MaxRaw] /\ tgt \in [1..n -> BOOLEAN] /\ thr \in Thresholds
        /\ pc = "labels" /\ labels = <<>> /\ out = <<>> /\ err = "none"
Labels == /\ pc = "labels"
          /\ labels' = [i \in 1..n |-> LabelDef(raw, tgt, n, i, thr)]
          /\ pc' = "anchor" /\ UNCHANGED <<n, raw, tgt, thr, out, err>>
Anchor == /\ pc = "anchor"
          /\ LET pos == {i \in 1..n : labels[i] = 1}  neg == {i \in 1..n : labels[i] = -1} IN
             IF pos = {} THEN err' = "RuntimeError" /\ pc' = "failed" /\ UNCHANGED out
             ELSE LET t == IF Mut_MaxAccepted THEN Max({raw[i] : i \in pos}) ELSE Min({raw[i] : i \in pos})
                      dv == SortSeq([k \in 1..Cardinality(neg) |-> raw[SetToSortSeq(neg, <)[k]]], <)
                      d2 == IF neg = {} THEN 0 ELSE Median2(dv)
                      den == IF Mut_SignFlipped THEN d2 - 2 * t ELSE 2 * t - d2
                  IN /\ out' = [i \in 1..n |-> <<2 * (raw[i] - t), den>>]     \* num / den, den may be <= 0 outside the domain
                     /\ pc' = "done" /\ UNCHANGED err
          /\ UNCHANGED <<n, raw, tgt, thr, labels>>
Next == Labels \/ Anchor
Spec == Init /\ [][Next]_vars
FI == Info(raw, tgt, n, thr)
Dom == InCalibDomain(FI)
\* comparisons of out values: denominators are equal, positive inside the domain
OrderPreserved == pc = "done" /\ Dom => \A i, j \in 1..n : (raw[i] < raw[j]) <=> (out[i][1] < out[j][1] /\ out[i][2] > 0)
Anchored == pc = "done" /\ Dom => /\ \A i \in 1..n : raw[i] = FI.t => out[i][1] = 0
                                  /\ \A i \in 1..n : 2 * raw[i] = FI.d2 => out[i][1] = -out[i][2]
MatchesDef == pc = "done" /\ Dom => \A i \in 1..n : out[i][2] > 0 /\ IsCalibrated(FI, raw[i], out[i][1], out[i][2])
ErrorIffNoAccepted == (pc = "failed" => ~FI.hasAcc) /\ (pc = "done" => FI.hasAcc)
EmitCase == pc = "labels" => PrintT(<<"CASE", n, raw, tgt, thr>>)
GenOnly == pc = "labels"
\* ---- liveness (checked by Calib_live.cfg): under weak fairness of the next-state action every behaviour comes to rest
\* in a state without successor -- the modelled procedure terminates for every input, schedule and fault inside the bounds
FairSpec == Spec /\ WF_vars(Next)
Halts == <>[](~ENABLED Next)
=============================================================================
