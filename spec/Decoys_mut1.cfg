SPECIFICATION Spec
CONSTANTS MaxLen = 4 MaxLen2 = 0 Alphabet <- Alpha5 Enzymes = {"KR"}
          Reverses = {TRUE, FALSE} Concats = {TRUE} Renderings <- RendOne Width = 2 LemmaMaxLen = 0
          Mut_MoveLast = TRUE Mut_JoinNoNewline = FALSE Mut_NameWithDesc = FALSE
INVARIANT ParsedOk
INVARIANT DecoysValid
INVARIANT PeptideLocal
INVARIANT PermsOk
INVARIANT RoundTrip
INVARIANT FileOk
INVARIANT Hence
CHECK_DEADLOCK FALSE
