------------------------------- MODULE Tdc -------------------------------
(* Implementation-shaped model of mokapot.qvalues.tdc + _fdr2qvalue (qvalues.py:109-192) against the
   declarative layer TdcDef:
     Sort      srt_idx = argsort(-scores)         -- any order among ties (argsort is not stable)
     Fwd(k)    cumulative targets / decoys, fdr[k] = (D+1)/T, 1 where T = 0  (not capped here)
     Bwd       from worst to best over tie groups (np.unique counts): the group's FDR is the one at
               the END of the group (argmax of num_total), running minimum initialised to 1
     (Unsort)  qvals[argsort(srt_idx)]  -- QOp(i)
   Mut_NoPlusOne / Mut_GroupFirst are seeded design faults (sensitivity of the model). *)
EXTENDS TdcDef, TLC

CONSTANTS MaxN,
          DetSort,          \* TRUE: one (stable) sort order only; FALSE: every argsort order among ties
          Mut_NoPlusOne,    \* fault: numerator D instead of D+1
          Mut_GroupFirst    \* fault: group FDR taken at the first member of a tie group

VARIABLES n, rank, tgt, pc, order, k, cumT, cumD, fdr, minQ, q
vars == <<n, rank, tgt, pc, order, k, cumT, cumD, fdr, minQ, q>>

Canonical(f, m) == \E top \in 1..m : {f[i] : i \in 1..m} = 1..top
Init == /\ n \in 1..MaxN
        /\ rank \in [1..n -> 1..n] /\ Canonical(rank, n)
        /\ tgt \in [1..n -> BOOLEAN]
        /\ pc = "sort" /\ order = <<>> /\ k = 0 /\ cumT = 0 /\ cumD = 0 /\ fdr = <<>> /\ minQ = One /\ q = <<>>

IsSortPerm(p) == /\ \A i, j \in 1..n : i # j => p[i] # p[j]
                 /\ \A i \in 1..(n - 1) : rank[p[i]] >= rank[p[i + 1]]
StableOrder == SortSeq([i \in 1..n |-> i], LAMBDA a, b : rank[a] > rank[b] \/ (rank[a] = rank[b] /\ a < b))
Sort == /\ pc = "sort"
        /\ IF DetSort THEN order' = StableOrder
           ELSE order' \in {p \in [1..n -> 1..n] : IsSortPerm(p)}
        /\ pc' = "fwd" /\ k' = 1
        /\ UNCHANGED <<n, rank, tgt, cumT, cumD, fdr, minQ, q>>
Fwd == /\ pc = "fwd" /\ k <= n
       /\ LET t == cumT + (IF tgt[order[k]] THEN 1 ELSE 0)
              d == cumD + (IF tgt[order[k]] THEN 0 ELSE 1)
              num == IF Mut_NoPlusOne THEN d ELSE d + 1
          IN /\ cumT' = t /\ cumD' = d
             /\ fdr' = Append(fdr, IF t = 0 THEN One ELSE <<num, t>>)
       /\ k' = k + 1
       /\ pc' = IF k = n THEN "bwd" ELSE "fwd"
       /\ q' = IF k = n THEN [i \in 1..n |-> One] ELSE q
       /\ UNCHANGED <<n, rank, tgt, order, minQ>>
GroupStart(e) == CHOOSE s \in 1..e : /\ \A j \in s..e : rank[order[j]] = rank[order[e]]
                                      /\ (s = 1 \/ rank[order[s - 1]] # rank[order[e]])
Bwd == /\ pc = "bwd" /\ k > 1
       /\ LET e == k - 1  s == GroupStart(e)
              cur == IF Mut_GroupFirst THEN fdr[s] ELSE fdr[e]
              m == IF Lt(cur, minQ) THEN cur ELSE minQ
          IN /\ minQ' = m
             /\ q' = [i \in 1..n |-> IF i \in s..e THEN m ELSE q[i]]
             /\ k' = s
             /\ pc' = IF s = 1 THEN "done" ELSE "bwd"
       /\ UNCHANGED <<n, rank, tgt, order, cumT, cumD, fdr>>
Next == Sort \/ Fwd \/ Bwd
Spec == Init /\ [][Next]_vars
\* simulation beyond the exhaustive bounds (MaxN = 7: 6.05 M inputs): one random input per behaviour
SimInit == /\ n = MaxN /\ rank = [i \in 1..MaxN |-> 1] /\ tgt = [i \in 1..MaxN |-> TRUE]
           /\ pc = "pick" /\ order = <<>> /\ k = 0 /\ cumT = 0 /\ cumD = 0 /\ fdr = <<>> /\ minQ = One /\ q = <<>>
SimPick == /\ pc = "pick"
           /\ rank' = [i \in 1..MaxN |-> RandomElement(1..MaxN)]
           /\ tgt' = [i \in 1..MaxN |-> RandomElement(BOOLEAN)]
           /\ pc' = "sort" /\ UNCHANGED <<n, order, k, cumT, cumD, fdr, minQ, q>>
SimSpec == SimInit /\ [][SimPick \/ Next]_vars

Pos(i) == CHOOSE p \in 1..n : order[p] = i
QOp(i) == q[Pos(i)]

OpEqualsDef == pc = "done" => \A i \in 1..n : Eq(QOp(i), QDef(rank, tgt, n, i))
FastEqualsDef == pc = "sort" => LET qm == QMap(rank, tgt, n) IN \A i \in 1..n : Eq(qm[rank[i]], QDef(rank, tgt, n, i))
InRange     == pc = "done" => \A i \in 1..n : Lt(Zero, QOp(i)) /\ Leq(QOp(i), One)
Monotone    == pc = "done" => \A i, j \in 1..n : rank[i] >= rank[j] => Leq(QOp(i), QOp(j))
TieEqual    == pc = "done" => \A i, j \in 1..n : rank[i] = rank[j] => Eq(QOp(i), QOp(j))
\* label rule, at the dyadic / off-lattice thresholds the drivers use
Thresholds == {<<1, 1>>, <<1, 2>>, <<1, 4>>, <<101, 10000>>, <<3701, 10000>>, <<5503, 10000>>}
LabelRule   == pc = "done" => \A i \in 1..n : \A thr \in Thresholds :
                  LabelOf(tgt[i], QOp(i), thr) = LabelDef(rank, tgt, n, i, thr)
\* the one-pass count of accepted targets (TdcDef!AcceptedCount, used by the acceptors on long vectors) is the definition
CountEqualsDef == pc = "sort" => \A thr \in Thresholds :
                     AcceptedCount(rank, tgt, n, thr) = Cardinality({i \in 1..n : tgt[i] /\ Leq(QDef(rank, tgt, n, i), thr)})
\* behaviour generation: one case per initial state
EmitCase == pc = "sort" => PrintT(<<"CASE", n, rank, tgt>>)
GenOnly == pc = "sort"   \* generation configs do not explore beyond the initial states
\* ---- liveness (checked by Tdc_live.cfg): under weak fairness of the next-state action every behaviour comes to rest
\* in a state without successor -- the modelled procedure terminates for every input, schedule and fault inside the bounds
FairSpec == Spec /\ WF_vars(Next)
Halts == <>[](~ENABLED Next)
=============================================================================
