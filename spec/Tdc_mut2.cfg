SPECIFICATION Spec
CONSTANTS MaxN = 4 DetSort = TRUE Mut_NoPlusOne = FALSE Mut_GroupFirst = TRUE
INVARIANT OpEqualsDef
INVARIANT FastEqualsDef
INVARIANT CountEqualsDef
INVARIANT InRange
INVARIANT Monotone
INVARIANT TieEqual
INVARIANT LabelRule
CHECK_DEADLOCK FALSE
