------------------------------- MODULE TdcDef -------------------------------
(* Target-decoy competition q-values (property C01): the defining formula.

   Inputs are functions on 1..n:  rank[i] \in Nat (HIGHER = BETTER; the score direction has already
   been applied, any strictly monotone rescaling of the scores leaves the ranks unchanged) and
   tgt[i] \in BOOLEAN.

     Fdr(r)  = min(1, (#decoys with rank >= r  + 1) / #targets with rank >= r)     (1 if no target)
     QDef(i) = min { Fdr(r) : r a rank value present in the input, r <= rank[i] }
     Label   = -1 for decoys, +1 for targets with QDef <= thr, 0 for the other targets

   QFast is the same definition with sharing (one Fdr per distinct rank, running minimum), used by the
   trace acceptors on long vectors; Tdc.tla proves QFast = QDef = the scan of qvalues.py for all
   small inputs. *)
EXTENDS Integers, Sequences, FiniteSets, Rat, SequencesExt

AtOrBetter(rank, n, r) == {i \in 1..n : rank[i] >= r}
NT(tgt, S) == Cardinality({i \in S : tgt[i]})
ND(tgt, S) == Cardinality({i \in S : ~tgt[i]})
Fdr(rank, tgt, n, r) == LET S == AtOrBetter(rank, n, r)  t == NT(tgt, S)  d == ND(tgt, S)
                        IN IF t = 0 \/ d + 1 >= t THEN One ELSE <<d + 1, t>>
Thr(rank, n, i) == {rank[j] : j \in {j \in 1..n : rank[j] <= rank[i]}}
QDef(rank, tgt, n, i) ==
   LET C == {Fdr(rank, tgt, n, r) : r \in Thr(rank, n, i)}
   IN CHOOSE q \in C : \A p \in C : Leq(q, p)
LabelOf(isTgt, q, thr) == IF ~isTgt THEN -1 ELSE IF Leq(q, thr) THEN 1 ELSE 0
LabelDef(rank, tgt, n, i, thr) == LabelOf(tgt[i], QDef(rank, tgt, n, i), thr)

(* ---- the same with sharing ---- *)
RankSet(rank, n) == {rank[i] : i \in 1..n}
RECURSIVE RunMinUp(_, _, _, _)
\* asc: ascending sequence of the distinct ranks; f: rank -> Fdr; returns rank -> q
RunMinUp(asc, f, k, acc) ==
   IF k > Len(asc) THEN acc
   ELSE LET r == asc[k]
            m == IF k = 1 THEN f[r] ELSE MinR(f[r], acc[asc[k - 1]])
        IN RunMinUp(asc, f, k + 1, [x \in DOMAIN acc \cup {r} |-> IF x = r THEN m ELSE acc[x]])
QMap(rank, tgt, n) ==
   LET R == RankSet(rank, n)
       f == [r \in R |-> Fdr(rank, tgt, n, r)]
   IN RunMinUp(SetToSortSeq(R, <), f, 1, <<>>)
\* usage: LET qm == QMap(rank, tgt, n) IN ... qm[rank[i]] ...

(* ---- counting accepted targets in one pass (long vectors: thousands of rows) ----
   q(i) <= thr  iff  some threshold r <= rank[i] has Fdr(r) <= thr  iff  rank[i] >= the WORST rank rw with Fdr(rw) <= thr.
   So the number of accepted targets is the number of targets at or above rw: scan the rows from best to worst with
   running counts and remember the target count at the last tie-group end whose FDR passes.  Tdc.tla checks
   AcceptedCount = |{i : tgt[i] /\ QDef(i) <= thr}| for all small inputs (invariant CountEqualsDef). *)
RECURSIVE AccScan(_, _, _, _, _, _, _, _)
AccScan(srt, rank, tgt, thr, k, t, d, best) ==
   IF k > Len(srt) THEN best
   ELSE LET i == srt[k]
            t2 == IF tgt[i] THEN t + 1 ELSE t
            d2 == IF tgt[i] THEN d ELSE d + 1
            endgrp == k = Len(srt) \/ rank[srt[k + 1]] # rank[i]
            pass == endgrp /\ t2 > 0 /\ Leq(IF d2 + 1 >= t2 THEN One ELSE <<d2 + 1, t2>>, thr)
        IN AccScan(srt, rank, tgt, thr, k + 1, t2, d2, IF pass THEN t2 ELSE best)
AcceptedCount(rank, tgt, n, thr) ==
   AccScan(SortSeq([i \in 1..n |-> i], LAMBDA a, b : rank[a] > rank[b]), rank, tgt, thr, 1, 0, 0, 0)
=============================================================================
