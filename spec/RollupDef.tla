------------------------------- MODULE RollupDef -------------------------------
(* The stand-alone rollup tool (mokapot/brew_rollup.py do_rollup) over a DIRECTORY: pure operators shared by the
   implementation-shaped model RollupTool.tla and by the acceptor RollupToolTrace.tla (properties C03 -- "the stand-alone
   rollup tool applies the same rule to previously written result files" -- and C09 -- leftovers of earlier runs).

   A directory is a function  f : Name -> set of row ids,
       Name = [stem : sequence of one-character strings, td : "t" | "d" | "temp", lvl : the level word of the file name,
               ext : "csv" (no suffix) | "pq" (.parquet)]
   i.e. the file  <stem>.targets.<lvl>s[.parquet] / <stem>.decoys.<lvl>s[.parquet] / <stem>.temp.<lvl>s[.parquet].
   Rows : id -> [key : <<precursor, modified_peptide, peptide, peptide_group entity>>, tgt, rank]   (rank: HIGHER = BETTER).

   Level words.  The command line and the INPUT file names use  psm, precursor, modifiedpeptide, peptide, peptidegroup
   (brew_rollup.py:68-76, the files assign_confidence writes); the tool's internal level names -- column names after
   STANDARD_COLUMN_NAME_MAP, keys of DEFAULT_PARENT_LEVELS, OUTPUT file names -- are precursor, modified_peptide, peptide,
   peptide_group (204-209).  Internal(b) is the translation a base level needs before the parent table applies to it. *)
EXTENDS ConfDef, TLC

LvWords == <<"precursor", "modified_peptide", "peptide", "peptide_group">>      \* key index of a row = position here
LvIdx(l) == CHOOSE k \in 1..4 : LvWords[k] = l
ParentOf == [precursor |-> "psm", modified_peptide |-> "precursor", peptide |-> "modified_peptide", peptide_group |-> "precursor"]
Bases == {"psm", "precursor", "modifiedpeptide", "peptide", "peptidegroup"}
Internal(b) == IF b = "modifiedpeptide" THEN "modified_peptide" ELSE IF b = "peptidegroup" THEN "peptide_group" ELSE b
\* compute_rollup_levels (213-227): least fixed point of "a child whose parent is in the list joins the list"
RECURSIVE Closure(_)
Closure(S) == LET S2 == S \cup {c \in DOMAIN ParentOf : ParentOf[c] \in S} IN IF S2 = S THEN S ELSE Closure(S2)
\* the levels rolled up to: reachable from the base level AND present as a column of the input (316-320).
\* asIsNames: the pinned tree fed the command-line word itself into the parent table (finding F-03f).
LevelsFor(base, cols, asIsNames) == Closure({IF asIsNames THEN base ELSE Internal(base)}) \cap cols
\* the levels the statement of C03 promises for a base level: itself (when it is an entity level) and everything above it
LevelsPromised(base, cols) == Closure({Internal(base)}) \cap cols

Dot == <<".">>
\* "file.name.startswith(file_root + '.')" (299-304): the tool's own earlier outputs are not its inputs
Own(stem, root) == IsPrefix(root \o Dot, stem \o Dot)
OwnNoDot(stem, root) == IsPrefix(root, stem)                      \* seeded slip: the dot forgotten

Put(f, n, c) == [m \in DOMAIN f \cup {n} |-> IF m = n THEN c ELSE f[m]]
Del(f, N) == [m \in DOMAIN f \ N |-> f[m]]
Nm(stem, td, lvl, ext) == [stem |-> stem, td |-> td, lvl |-> lvl, ext |-> ext]
\* the format of a run (281-291): Parquet as soon as ANY file "*.<base>s.parquet" exists in the directory -- the tool's own earlier
\* outputs and temp files included --, and a refusal (RuntimeError) when files "*.<base>s" of the other format exist as well
HasFmt(f, base, x) == \E n \in DOMAIN f : n.lvl = base /\ n.ext = x
Suffix(f, base) == IF HasFmt(f, base, "pq") THEN "pq" ELSE "csv"
Refuses(f, base) == HasFmt(f, base, "pq") /\ HasFmt(f, base, "csv")
InputNames(f, root, base) == {n \in DOMAIN f : n.lvl = base /\ n.td \in {"t", "d"} /\ n.ext = Suffix(f, base) /\ ~Own(n.stem, root)}
InputRows(f, root, base) == UNION {f[n] : n \in InputNames(f, root, base)}

\* ---- the rule (declarative): f2 is an acceptable directory after rolling up f with (root, base) ----
LevelOK(Rows, f, f2, root, base, l) ==
   LET P == InputRows(f, root, base)
       nt == Nm(root, "t", l, Suffix(f, base))  nd == Nm(root, "d", l, Suffix(f, base)) IN
   /\ nt \in DOMAIN f2 /\ nd \in DOMAIN f2
   /\ LevelSetOK(Rows, P, LvIdx(l), f2[nt] \cup f2[nd])                \* one row per entity, a best one among the inputs
   /\ \A x \in f2[nt] : Rows[x].tgt
   /\ \A x \in f2[nd] : ~Rows[x].tgt
InputsUntouched(f, f2, root) == \A n \in DOMAIN f : ~Own(n.stem, root) => n \in DOMAIN f2 /\ f2[n] = f[n]
RollOK(Rows, f, f2, root, base, cols) ==
   IF Refuses(f, base) THEN f2 = f                                     \* an explicit refusal writes nothing
   ELSE /\ InputsUntouched(f, f2, root)
        /\ \A l \in LevelsPromised(base, cols) : LevelOK(Rows, f, f2, root, base, l)
\* leftovers never matter: the clean directory holds the input files only
Clean(f, root) == Del(f, {n \in DOMAIN f : Own(n.stem, root)})
TieFreeLevel(Rows, P, k) == \A x, y \in P : x # y /\ Rows[x].key[k] = Rows[y].key[k] => Rows[x].rank # Rows[y].rank
=============================================================================
