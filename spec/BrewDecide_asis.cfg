SPECIFICATION Spec
CONSTANTS MaxN = 3 MaxRank = 2 Overrides = {FALSE} AsIs_NoLabelConversion = TRUE Mut_NeverFallBack = FALSE Mut_ForgetDirection = FALSE
INVARIANT SafetyNet
CHECK_DEADLOCK FALSE
