SPECIFICATION Spec
CONSTANTS MaxN = 4 MaxRaw = 3 Mut_SignFlipped = FALSE Mut_MaxAccepted = FALSE
INVARIANT EmitCase
CONSTRAINT GenOnly
CHECK_DEADLOCK FALSE
