SPECIFICATION Spec
CONSTANTS MaxRuns = 2 MaxChunks = 3 Prefixes = {"", "a"} AsIs_GlobTemp = TRUE Mut_NoCleanup = FALSE
INVARIANT ResultsOnlyFromOwnInputs
INVARIANT NoIntermediateLeft
CHECK_DEADLOCK FALSE
