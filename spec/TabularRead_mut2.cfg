SPECIFICATION Spec
CONSTANTS MaxRows = 4 MaxChunk = 3 MaxRg = 2 FullBatches = TRUE AsIs_CsvEmptyCols = FALSE AsIs_ParquetEmptyCols = FALSE
          Mut_IndexRestart = FALSE Mut_NoReorder = TRUE Mut_JoinNoReorder = FALSE
INVARIANT ChunksEqualWhole
CHECK_DEADLOCK FALSE
