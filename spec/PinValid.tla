------------------------------ MODULE PinValid ------------------------------
(* is_valid_tsv (mokapot/parsers/pin_to_tsv.py:107-151) on ARBITRARY texts: data lines narrower or wider than the
   header, with or without a DefaultDirection line -- the last sentence of C19 ("a file is reported valid exactly
   when all its lines have as many fields as the header and it has no DefaultDirection line") quantifies over all
   files, not only over convertible PIN texts (PinTsv.tla covers those: every line at least as wide as the header).

   A text is abstracted to its shape: header width h, the widths w[1..n] of the data lines, dd (a DefaultDirection
   line stands second), nl (trailing newline; irrelevant to validity, carried for the driver).
   IMPLEMENTATION LAYER: Second (the early returns on the second line), Loop (one remaining line per step), Done.
   DECLARATIVE LAYER:    ValidShape.
   Mut_OnlyWider is a seeded design fault (only lines WIDER than the header are rejected) which TLC must reject. *)
EXTENDS Integers, Sequences, TLC
CONSTANTS MaxH, MaxRows, Mut_OnlyWider
VARIABLES c, pc, i, res
vars == <<c, pc, i, res>>
Widths == UNION {[1..n -> 1..(MaxH + 1)] : n \in 1..MaxRows}
ValidShape(x) == ~x.dd /\ \A k \in 1..Len(x.w) : x.w[k] = x.h
Init == /\ c \in [h : 1..MaxH, w : Widths, dd : BOOLEAN, nl : BOOLEAN]
        /\ pc = "second" /\ i = 1 /\ res = "?"
Bad(wd) == IF Mut_OnlyWider THEN wd > c.h ELSE wd # c.h
\* line_2 = next(f_in): the DefaultDirection test, then the width of the second line
Second == /\ pc = "second"
          /\ IF c.dd THEN pc' = "done" /\ res' = "invalid" /\ i' = i
             ELSE IF c.w[1] # c.h THEN pc' = "done" /\ res' = "invalid" /\ i' = i
             ELSE pc' = "loop" /\ res' = res /\ i' = 2
          /\ UNCHANGED c
\* for line in f_in: ...
Loop == /\ pc = "loop"
        /\ IF i > Len(c.w) THEN pc' = "done" /\ res' = "valid" /\ i' = i
           ELSE IF Bad(c.w[i]) THEN pc' = "done" /\ res' = "invalid" /\ i' = i
           ELSE pc' = "loop" /\ res' = res /\ i' = i + 1
        /\ UNCHANGED c
Next == Second \/ Loop
Spec == Init /\ [][Next]_vars
ResultIsDef == pc = "done" => (res = "valid") = ValidShape(c)
\* the loop never looks at a line twice and never skips one
LoopInRange == pc = "loop" => i \in 2..(Len(c.w) + 1)
EmitCase == (pc = "second") => PrintT(<<"VCASE", c.h, c.w, c.dd, c.nl>>)
GenOnly == pc = "second"
=============================================================================
