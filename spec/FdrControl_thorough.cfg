SPECIFICATION Spec
CONSTANTS MaxN = 6 PlusOne = 1 Alphas <- AlphaSet
INVARIANT Controlled
CHECK_DEADLOCK FALSE
