SPECIFICATION Spec
CONSTANTS MaxN = 6 DetSort = TRUE Mut_NoPlusOne = FALSE Mut_GroupFirst = FALSE
INVARIANT OpEqualsDef
INVARIANT FastEqualsDef
INVARIANT CountEqualsDef
INVARIANT InRange
INVARIANT Monotone
INVARIANT TieEqual
INVARIANT LabelRule
CHECK_DEADLOCK FALSE
