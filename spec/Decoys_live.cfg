SPECIFICATION FairSpec
CONSTANTS MaxLen = 4 MaxLen2 = 2 Alphabet <- Alpha3 Enzymes = {"KR", "KRnoP"}
          Reverses = {TRUE, FALSE} Concats = {TRUE, FALSE} Renderings <- RendSome Width = 2 LemmaMaxLen = 4
          Mut_MoveLast = FALSE Mut_JoinNoNewline = FALSE Mut_NameWithDesc = FALSE
PROPERTY Halts
CHECK_DEADLOCK FALSE
