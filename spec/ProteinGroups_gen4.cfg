SPECIFICATION Spec
CONSTANTS NProt = 4 NPep = 4 AllNamings = FALSE
  Mut_SmallestFirst = FALSE Mut_FirstMatchOnly = FALSE Mut_NoUnpatch = FALSE Mut_SplitByProteins = FALSE Mut_PairEveryName = FALSE
INVARIANT EmitCase
CONSTRAINT GenOnly
CHECK_DEADLOCK FALSE
