---------------------------- MODULE FdrControl ----------------------------
(* Property C04 at specification level: exact finite-sample FDR control of the (D+1)/T estimator.
   For EVERY weak order of n PSMs (ties included), EVERY set of correct targets and EVERY level alpha, the false
   discovery proportion among the targets accepted at q <= alpha, averaged over all 2^k equally likely target/decoy
   labellings of the k null PSMs (null targets and decoys are exchangeable; scores do not depend on the labels of
   null PSMs -- which is what held-out scoring (C02) and competition before estimation (C03) guarantee), is at most
   alpha.  q-values are TdcDef!QDef (C01).  PlusOne = 0 models dropping the +1: TLC must then find a counterexample.

   The input is picked in two actions from a single initial state so that all workers share the enumeration. *)
EXTENDS Integers, Sequences, FiniteSets, TLC, Rat, FiniteSetsExt
CONSTANTS MaxN, PlusOne, Alphas
AlphaSet == {<<1, 2>>, <<1, 3>>, <<1, 4>>, <<1, 5>>, <<1, 10>>}
L == 60  \* lcm(1..6): V/R * L is an integer for R <= 6

AtOrBetter(rank, n, r) == {i \in 1..n : rank[i] >= r}
Fdr(rank, tgt, n, r) == LET S == AtOrBetter(rank, n, r)
                            t == Cardinality({i \in S : tgt[i]}) d == Cardinality(S) - t
                        IN IF t = 0 \/ d + PlusOne >= t THEN One ELSE <<d + PlusOne, t>>
QDef(rank, tgt, n, i) == LET C == {Fdr(rank, tgt, n, r) : r \in {rank[j] : j \in {j \in 1..n : rank[j] <= rank[i]}}}
                         IN CHOOSE q \in C : \A p \in C : Leq(q, p)

VARIABLES pc, n, rank, correct, alpha
vars == <<pc, n, rank, correct, alpha>>
Canonical(f, m) == \E top \in 1..m : {f[i] : i \in 1..m} = 1..top
Init == pc = "pick1" /\ n = 0 /\ rank = <<>> /\ correct = {} /\ alpha = <<1, 1>>
Pick1 == /\ pc = "pick1"
         /\ \E m \in 1..MaxN : \E rk \in [1..m -> 1..m] : Canonical(rk, m) /\ n' = m /\ rank' = rk
         /\ pc' = "pick2" /\ UNCHANGED <<correct, alpha>>
Pick2 == /\ pc = "pick2"
         /\ correct' \in SUBSET (1..n) /\ alpha' \in Alphas
         /\ pc' = "eval" /\ UNCHANGED <<n, rank>>
Spec == Init /\ [][Pick1 \/ Pick2]_vars

Null == (1..n) \ correct
ScaledFdp(nullTargets) ==
   LET tgt == [i \in 1..n |-> i \in correct \/ i \in nullTargets]
       acc == {i \in 1..n : tgt[i] /\ Leq(QDef(rank, tgt, n, i), alpha)}
       V == Cardinality(acc \cap Null)
       R == Cardinality(acc)
   IN IF R = 0 THEN 0 ELSE (L * V) \div R
SumFdp == FoldSet(LAMBDA s, a : a + ScaledFdp(s), 0, SUBSET Null)
RECURSIVE Pow2(_)
Pow2(k) == IF k = 0 THEN 1 ELSE 2 * Pow2(k - 1)
\* E[FDP] <= alpha   <=>   SumFdp * den <= num * L * 2^k
Controlled == pc = "eval" => SumFdp * alpha[2] <= alpha[1] * L * Pow2(Cardinality(Null))
=============================================================================
