SPECIFICATION Spec
CONSTANTS MaxLen = 0 MaxLen2 = 4 Alphabet <- Alpha3 Enzymes = {"KR"}
          Reverses = {TRUE, FALSE} Concats = {TRUE} Renderings <- RendOne Width = 3 LemmaMaxLen = 0
          Mut_MoveLast = FALSE Mut_JoinNoNewline = FALSE Mut_NameWithDesc = FALSE
INVARIANT ParsedOk
INVARIANT DecoysValid
INVARIANT PeptideLocal
INVARIANT PermsOk
INVARIANT RoundTrip
INVARIANT FileOk
INVARIANT Hence
CHECK_DEADLOCK FALSE
