SPECIFICATION Spec
CONSTANTS MaxDev = 2 Mut = "brew_gets_train_fdr"
INVARIANT Dataflow
CHECK_DEADLOCK FALSE
