----------------------------- MODULE FdrTrace -----------------------------
(* C04, end-to-end exploration on the real code: replicates of a simulated mixture with known ground truth were run
   through brew + assign_confidence; each replicate reports at level alpha the number R of accepted targets and the
   number V of them that are incorrect.
   trace = [tid, alpha_pm (alpha in per mille), runs: <<<<V, R>>>>]
   FDP_i = V_i / max(1, R_i) in per mille.  The trace is rejected only if the mean FDP exceeds 1.5 alpha + 4 SE
   (decided on squares, integer arithmetic):  mean > 1.5 alpha  /\  (mean - 1.5 alpha)^2 * N > 16 * s^2. *)
EXTENDS Integers, Sequences, FiniteSets, FiniteSetsExt, TLC, TLCExt, Json, IOUtils
Traces == JsonDeserialize(IOEnv.TRACES_FILE)
VARIABLE tid
T == Traces[tid]
N == Len(T.runs)
Fdp(i) == IF T.runs[i][2] = 0 THEN 0 ELSE (1000 * T.runs[i][1]) \div T.runs[i][2]
Sum(f(_), S) == FoldSet(LAMBDA i, a : a + f(i), 0, S)
Mean == Sum(Fdp, 1..N) \div N
Dev2(i) == (Fdp(i) - Mean) * (Fdp(i) - Mean)
Var == IF N < 2 THEN 0 ELSE Sum(Dev2, 1..N) \div (N - 1)
Bound == (3 * T.alpha_pm) \div 2
Clauses == [Shape |-> N >= 2 /\ \A i \in 1..N : T.runs[i][1] >= 0 /\ T.runs[i][1] <= T.runs[i][2],
            MeanFdpControlled |-> Mean <= Bound \/ (Mean - Bound) * (Mean - Bound) * N <= 16 * Var,
            SomethingAccepted |-> \E i \in 1..N : T.runs[i][2] > 0]
Failed == {c \in DOMAIN Clauses : ~Clauses[c]}
Init == tid \in 1..Len(Traces)
Spec == Init /\ [][UNCHANGED tid]_tid
Verdict == PrintT(<<"VERDICT", T.tid, IF Failed = {} THEN "accept" ELSE "reject", Failed, <<Mean, Var, N>>>>)
=============================================================================
