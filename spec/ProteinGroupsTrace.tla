----------------------------- MODULE ProteinGroupsTrace -----------------------------
(* Property-level acceptor for C16 on results recorded from the real mokapot.read_fasta.
   One trace = one FASTA content (incidence structure + rendering) read several times (permuted entry
   orders, PYTHONHASHSEED values, one or two files):
     trace = [tid, prefix,
              prots : [ [name, base, decoy: BOOLEAN, peps: [peptide ids]] .. ]     -- protein id = index;
                       the incidence the generator built into the sequences (decoy peptides have own ids)
              runs  : [ [order: [protein ids in file order], hashseed, raised: "" | "Type: msg",
                         unknown : number of returned strings that are no peptide / accession of the file,
                         uniq    : [ [q, [members]] .. ]          peptide_map: peptide id -> group, the group
                                                                  name split at ", " into member protein ids
                         shared  : [ [q, [[members] ..]] .. ]     shared_peptides: value split at "; " and ", "
                         pairs   : [ [key, value] .. ]            protein_map, the strings as returned ] .. ] ]
   The clauses are the operators D_* of ProteinGroups.tla (the declarative layer) evaluated for every run, and
   SameAcrossRuns (the maps, as sets, are the same for every entry order / hash seed).
   Domain: at least one target entry yields a peptide (otherwise read_fasta refuses the file with
   "Only decoy proteins were found"); traces outside the domain are accepted vacuously. *)
EXTENDS Integers, Sequences, FiniteSets, TLC, TLCExt, Json, IOUtils, SequencesExt
D == INSTANCE ProteinGroups WITH     \* only the constant-free operators D_* are used: dummies for the rest
        NProt <- 1, NPep <- 1, AllNamings <- FALSE, Mut_SmallestFirst <- FALSE, Mut_FirstMatchOnly <- FALSE,
        Mut_NoUnpatch <- FALSE, Mut_SplitByProteins <- FALSE, Mut_PairEveryName <- FALSE,
        peps <- <<>>, nm <- <<>>, pc <- "", order <- <<>>, i <- 0, todo <- {}, grouped <- {}, pmap <- <<>>,
        dmap <- <<>>, hasDecoys <- FALSE, uniq <- <<>>, shared <- <<>>

Traces == JsonDeserialize(IOEnv.TRACES_FILE)
VARIABLE tid
T == Traces[tid]

P == 1..Len(T.prots)
Inc == [p \in P |-> ToSet(T.prots[p].peps)]
Name == [p \in P |-> T.prots[p].name]
Tg == {p \in P : ~T.prots[p].decoy}
Pref(s) == T.prefix \o s
Um(r) == LET U == ToSet(r.uniq) IN [q \in {e[1] : e \in U} |-> ToSet((CHOOSE e \in U : e[1] = q)[2])]
Sm(r) == LET S == ToSet(r.shared)
         IN [q \in {e[1] : e \in S} |-> {ToSet(g) : g \in ToSet((CHOOSE e \in S : e[1] = q)[2])}]
Dm(r) == LET S == ToSet(r.pairs) IN [k \in {e[1] : e \in S} |-> (CHOOSE e \in S : e[1] = k)[2]]

\* the generator's side of the binding: distinct accessions, decoy entries named prefix + accession
InputOK == /\ \A a, b \in P : a # b => Name[a] # Name[b]
           /\ \A p \in P : Name[p] = IF T.prots[p].decoy THEN Pref(T.prots[p].base) ELSE T.prots[p].base
           /\ Len(T.runs) >= 1
InDomain == \E p \in Tg : Inc[p] # {}

\* the clauses of one run: a record (all fields are evaluated once), and the names of the failed ones
RunClauses(r) ==
   LET um == Um(r)  sm == Sm(r)  dm == Dm(r)
       wf == r.raised = "" /\ r.unknown = 0 /\ D!D_WellFormed(P, um, sm)
   IN [Returned            |-> r.raised = "",
       Projected           |-> wf /\ Len(r.uniq) = Cardinality(DOMAIN um) /\ Len(r.shared) = Cardinality(DOMAIN sm)
                                  /\ Len(r.pairs) = Cardinality(DOMAIN dm),
       EveryProteinGrouped |-> wf /\ D!D_EveryProteinGrouped(P, Inc, um, sm),
       SetOfAMember        |-> wf /\ D!D_SetOfAMember(Inc, um, sm),
       NoGroupInsideAnother |-> wf /\ D!D_NoGroupInsideAnother(um, sm),
       UniqueToSingleGroup |-> wf /\ D!D_UniqueToSingleGroup(Inc, um, sm),
       SharedExactly       |-> wf /\ D!D_SharedExactly(P, Inc, um, sm),
       PairingByName       |-> wf /\ D!D_Pairing(P, Inc, Name, Tg, Pref, dm)]
RunFailed(r) == LET c == RunClauses(r) IN {x \in DOMAIN c : ~c[x]}
\* the returned maps, as sets, are the same for every entry order and hash seed
SameAcrossRuns == LET u1 == Um(T.runs[1])  s1 == Sm(T.runs[1])  d1 == Dm(T.runs[1])
                  IN \A k \in 2..Len(T.runs) : Um(T.runs[k]) = u1 /\ Sm(T.runs[k]) = s1 /\ Dm(T.runs[k]) = d1

Failed == IF ~InputOK THEN {"InputOK"}
          ELSE IF ~InDomain THEN {}
          ELSE UNION {RunFailed(T.runs[k]) : k \in 1..Len(T.runs)}
               \cup (IF SameAcrossRuns THEN {} ELSE {"SameAcrossRuns"})
Init == tid \in 1..Len(Traces)
Spec == Init /\ [][UNCHANGED tid]_tid
Verdict == LET f == Failed IN PrintT(<<"VERDICT", T.tid, IF f = {} THEN "accept" ELSE "reject", f>>)
=============================================================================
