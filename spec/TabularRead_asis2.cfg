SPECIFICATION Spec
CONSTANTS MaxRows = 4 MaxChunk = 3 MaxRg = 2 FullBatches = TRUE AsIs_CsvEmptyCols = FALSE AsIs_ParquetEmptyCols = TRUE
          Mut_IndexRestart = FALSE Mut_NoReorder = FALSE Mut_JoinNoReorder = FALSE
INVARIANT Aligned
CHECK_DEADLOCK FALSE
