SPECIFICATION FairSpec
CONSTANTS MaxN = 4 MaxRaw = 3 Mut_SignFlipped = FALSE Mut_MaxAccepted = FALSE
PROPERTY Halts
CHECK_DEADLOCK FALSE
