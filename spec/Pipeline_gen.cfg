SPECIFICATION Spec
CONSTANTS MaxFiles = 3 Stems = {"run", "b"} Dirs = {"d1", "d2"} AsIs_PrefixIsStem = TRUE
INVARIANT EmitCase
CONSTRAINT GenOnly
CHECK_DEADLOCK FALSE
