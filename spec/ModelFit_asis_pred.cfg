SPECIFICATION Spec
CONSTANTS MaxN = 4 MaxIter = 3 StrictA = FALSE
  AsIs_UnconditionalUnshuffle = TRUE Mut_NoReshuffle = FALSE Mut_FeedUnlabeled = FALSE Mut_InverseMixup = FALSE
CONSTANT Thresholds <- ThrMid
CONSTANT ShuffleVals <- BothB
INVARIANT PredInvariant
CHECK_DEADLOCK FALSE
