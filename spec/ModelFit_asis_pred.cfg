SPECIFICATION Spec
CONSTANTS MaxN = 3 MaxIter = 3 StrictA = FALSE GenMod = 1
  AsIs_UnconditionalUnshuffle = TRUE Mut_NoReshuffle = FALSE Mut_FeedUnlabeled = FALSE Mut_InverseMixup = FALSE
CONSTANT Thresholds <- ThrSmall
CONSTANT ShuffleVals <- BothB
INVARIANT PredInvariant
CHECK_DEADLOCK FALSE
