SPECIFICATION Spec
CONSTANTS MaxLen = 2 MaxLen2 = 2 Alphabet <- Alpha3 Enzymes = {"KR"}
          Reverses = {TRUE} Concats = {TRUE} Renderings <- RendAll Width = 2 LemmaMaxLen = 0
          Mut_MoveLast = FALSE Mut_JoinNoNewline = TRUE Mut_NameWithDesc = FALSE
INVARIANT ParsedOk
INVARIANT DecoysValid
INVARIANT PeptideLocal
INVARIANT PermsOk
INVARIANT RoundTrip
INVARIANT FileOk
INVARIANT Hence
CHECK_DEADLOCK FALSE
