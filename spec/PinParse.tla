------------------------------ MODULE PinParse ------------------------------
(* Parsing a Percolator tab-delimited / Parquet PSM table into a dataset (property C10):
   mokapot.read_pin / read_percolator  (mokapot/parsers/pin.py), the case-insensitive column lookup
   (parsers/helpers.py), the label conversion (utils.py convert_targets_column) and the column checks of
   OnDiskPsmDataset (dataset.py:497-526).

   An input X is a record
     hdr    sequence of column KINDS in file order: the reserved kinds
              required   "specid" "label" "scannr" "peptide" "proteins"
              optional   "filename" "calcmass" "expmass" "ret_time" "charge"
              levels     "modifiedpeptide" "precursor" "peptidegroup"
            and "feature" for every other column.  A column is identified by its position in hdr.
     cs     casing class of the reserved names in the file ("lower" | "upper" | "mixed")
     nrows  number of PSM rows;   nan  set of <<column, row>> cells holding a missing value
     enc    label encoding "pm" (1/-1) | "zo" (1/0) | "bool";   lab  the label cell of every row (bool: 1/0)
     cc, rsize, w   column-scan chunk size, row-scan chunk size, worker threads (configuration)

   DECLARATIVE LAYER (constant operators, no state): MustFail, FeaturesDef, KeyDef, TargetsDef, MetaDef,
   LevelsDef and the named clauses Clauses(X, R, nm, rid) that relate an input to a reported result R.
   It is permissive where the statement is: a column named "charge" may be reported as a feature or as
   metadata (pin.py:192 looks the default up as "charge_column").

   IMPLEMENTATION-SHAPED LAYER (one action per code step)
     Classify    pin.py:170-205   find_required_column / find_columns / find_optional_column, spectra, nonfeat,
                                  features = columns not in nonfeat, in file order
     MakeChunks  pin.py:115-143, 215-219   create_chunks_with_identifier(features, spectra + [label], CHUNK)
                                  AsIs_Remainder1Only = TRUE is the chunking before commit 799639f
     Start / Scan / Finish  pin.py:221-229, 273-302   one task per column chunk in a joblib thread pool of w
                                  workers (FIFO dispatch, any interleaving and completion order); a task reads
                                  its columns row chunk by row chunk; ONLY a column chunk that contains ALL
                                  identifier columns appends its identifier sub-frame to the shared list;
                                  NaN mask per scanned column, OR-ed over the row chunks
     Concat      pin.py:230-232, utils.py:183-219   pd.concat(list) ("No objects to concatenate" if empty),
                                  label conversion {1} -> True, {0,-1} -> False, else ValueError, bool unchanged
     Build       pin.py:234-269, dataset.py:497-526   drop the NaN features, column existence checks
   Mut_* are seeded design faults which TLC must reject.  PinParseTrace.tla instantiates this module for
   its declarative layer (constants and variables are then dummies). *)
EXTENDS Integers, Sequences, FiniteSets, TLC, SequencesExt

CONSTANTS FeatLo, FeatHi,     \* feature counts FeatLo..FeatHi
          OptSets,            \* which sets of optional columns occur   (<- OptAll | OptWidth | OptWidthPlus)
          LevSets,            \* which sets of rollup-level columns occur (<- LevAll | LevSome | LevNone)
          Orders,             \* subset of {"std", "rev", "mix", "featfirst"}
          Casings,            \* subset of {"lower", "upper", "mixed"}
          Encs,               \* subset of {"pm", "zo", "bool"}
          NanCls,             \* subset of {"none", "first", "last", "two", "mid", "all", "charge"}
          Chunks,             \* column-scan chunk sizes
          Workers,            \* thread counts
          RowCls,             \* subset of {"one", "two", "three"}: number of row-scan chunks
          Errs,               \* subset of {"none", "no_specid", "no_label", "no_scannr", "no_peptide", "no_proteins", "lab2", "lab-3"}
          NRows,              \* rows of the model tables
          Rotate, RotK,       \* TRUE: lev/ord/cs/enc/nan/rows/workers are not crossed but rotated (RotK rotations per point)
          AsIs_Remainder1Only,     \* chunking of pin.py before 799639f: identifiers get their own chunk only for remainder 1
          AsIs_ChargeDefaultName,  \* pin.py:192 looks the charge column up under the name "charge_column"
          Mut_KeepSingleNaN,  \* fault: features are dropped only when more than one has missing values
          Mut_CaseSensitive,  \* fault: reserved names are matched case-sensitively (lower case only)
          Mut_ZeroIsTarget,   \* fault: label >= 0 is a target
          Mut_KeyFileOrder    \* fault: spectrum key in file order instead of filename, scan, ret_time, expmass

VARIABLES c, x, pc, cls, chunks, nextT, running, prog, mask, ret, dfl, out
vars == <<c, x, pc, cls, chunks, nextT, running, prog, mask, ret, dfl, out>>

\* Range(f) == {f[i] : i \in DOMAIN f} comes with SequencesExt (Functions)
Sorted(S) == SetToSortSeq(S, <)
Min2(a, b) == IF a < b THEN a ELSE b

(* ============================== kinds ============================== *)
RequiredSeq == <<"specid", "peptide", "proteins", "label", "scannr">>      \* lookup order, pin.py:171-175
RequiredKinds == Range(RequiredSeq)
KeySeq == <<"filename", "scannr", "ret_time", "expmass">>                  \* pin.py:193
LevSeq == <<"modifiedpeptide", "precursor", "peptidegroup">>               \* pin.py:181-183
OptSeq == <<"filename", "ret_time", "expmass", "calcmass", "charge">>
OptKinds == Range(OptSeq)
LevKinds == Range(LevSeq)
UniqueKinds == RequiredKinds \cup OptKinds \cup LevKinds
AllKinds == UniqueKinds \cup {"feature"}

(* ============================== declarative layer ============================== *)
Cols(X, k) == {i \in 1..Len(X.hdr) : X.hdr[i] = k}
Has(X, k) == Cols(X, k) # {}
Col(X, k) == CHOOSE i \in Cols(X, k) : TRUE
\* the statement's domain: every reserved name at most once, a label cell for every row, cells inside the table,
\* missing values only in feature (and charge) columns
WellFormed(X) ==
   /\ \A i \in 1..Len(X.hdr) : X.hdr[i] \in AllKinds
   /\ \A k \in UniqueKinds : Cardinality(Cols(X, k)) <= 1
   /\ X.nrows >= 1 /\ Len(X.lab) = X.nrows
   /\ X.enc \in {"pm", "zo", "bool"}
   /\ (X.enc = "bool" => \A r \in 1..X.nrows : X.lab[r] \in {0, 1})
   /\ \A p \in X.nan : /\ p[1] \in 1..Len(X.hdr) /\ p[2] \in 1..X.nrows
                       /\ X.hdr[p[1]] \in {"feature", "charge"}

MissingRequired(X) == \E k \in RequiredKinds : ~Has(X, k)
BadLabel(X) == X.enc # "bool" /\ \E r \in 1..X.nrows : X.lab[r] \notin {-1, 0, 1}
MustFail(X) == MissingRequired(X) \/ BadLabel(X)

NanCols(X) == {p[1] : p \in X.nan}
\* cf: is a column named "charge" counted as a feature (the statement leaves it open)
FeatureLike(X, cf) == {i \in 1..Len(X.hdr) : X.hdr[i] = "feature" \/ (cf /\ X.hdr[i] = "charge")}
FeaturesDef(X, cf) == Sorted(FeatureLike(X, cf) \ NanCols(X))               \* file order
KeyDef(X) == LET ks == SelectSeq(KeySeq, LAMBDA k : Has(X, k)) IN [j \in 1..Len(ks) |-> Col(X, ks[j])]
TargetsDef(X) == [r \in 1..X.nrows |-> X.lab[r] = 1]
MetaDef(X, cf) == {i \in 1..Len(X.hdr) : X.hdr[i] \notin {"feature", "charge"}}
                  \cup (IF cf THEN {} ELSE Cols(X, "charge"))
LevelsDef(X) == {i \in 1..Len(X.hdr) : X.hdr[i] \in LevKinds \cup {"peptide"}}

(* A result R = [err      "" when a dataset was returned, else the name of the error
                 features sequence of column identifiers      key     sequence of column identifiers
                 rows     sequence of row identifiers, one per entry of the dataset, in its order
                 targets  sequence of BOOLEAN, same order     meta, levels   sets of column identifiers]
   nm[i] = identifier of column i, rid[r] = identifier of row r in R's vocabulary (identity in the model,
   the names written into the file / the key cells of the row in a recorded trace). *)
Img(f, S) == {f[i] : i \in S}
MapSeq(f, s) == [j \in 1..Len(s) |-> f[s[j]]]
Clauses(X, R, nm, rid) ==
   LET parsed == R.err = ""
       ok(cf) == R.features = MapSeq(nm, FeaturesDef(X, cf))
   IN [Parses   |-> ~MustFail(X) => parsed,                                  \* parsing succeeds
       Rejects  |-> MustFail(X) => ~parsed,                                  \* missing column / bad label: error
       Features |-> (parsed /\ ~MustFail(X)) => \E cf \in BOOLEAN : ok(cf),  \* exactly the non-reserved NaN-free columns
       Metadata |-> (parsed /\ ~MustFail(X)) => \E cf \in BOOLEAN : ok(cf) /\ R.meta = Img(nm, MetaDef(X, cf)),
       Key      |-> (parsed /\ ~MustFail(X)) => R.key = MapSeq(nm, KeyDef(X)),
       Rows     |-> (parsed /\ ~MustFail(X)) => R.rows = [r \in 1..X.nrows |-> rid[r]],   \* one entry per row, file order
       Targets  |-> (parsed /\ ~MustFail(X)) => R.targets = TargetsDef(X),
       Levels   |-> (parsed /\ ~MustFail(X)) => R.levels = Img(nm, LevelsDef(X))]
FailedClauses(X, R, nm, rid) == LET cl == Clauses(X, R, nm, rid) IN {k \in DOMAIN cl : ~cl[k]}

(* ============================== enumerated inputs ============================== *)
OptAll == SUBSET OptKinds
OptWidth == {{}, {"expmass"}, {"expmass", "ret_time"}, {"filename", "ret_time", "expmass"}}      \* 2..5 identifiers
OptWidthPlus == OptWidth \cup {o \cup {"calcmass", "charge"} : o \in OptWidth}
LevAll == SUBSET LevKinds
LevSome == {{}, {"precursor"}, LevKinds}
LevNone == {{}}
OrderSeq == <<"std", "rev", "mix", "featfirst">>
CasingSeq == <<"mixed", "lower", "upper">>
EncSeq == <<"pm", "zo", "bool">>
NanSeq == <<"none", "first", "two", "last", "mid", "all", "charge">>
RowSeq == <<"one", "two", "three">>
WorkerSeq == <<1, 2, 3, 4>>
LabelErrs == {"lab2", "lab-3"}

Feats(n) == [j \in 1..n |-> "feature"]
FrontCols(opt) == <<"specid", "label", "scannr">> \o SelectSeq(OptSeq, LAMBDA k : k \in opt)
BackCols(lev) == <<"peptide">> \o SelectSeq(LevSeq, LAMBDA k : k \in lev) \o <<"proteins">>
\* alternate reserved and feature columns until one kind runs out
Mix(R, n) == LET m == Len(R)  k == Min2(m, n) IN
             [p \in 1..(m + n) |-> IF p <= 2 * k THEN (IF p % 2 = 1 THEN R[(p + 1) \div 2] ELSE "feature")
                                   ELSE IF m > n THEN R[p - k] ELSE "feature"]
HdrOf(nf, opt, lev, ord, err) ==
   LET full == CASE ord = "std"       -> FrontCols(opt) \o Feats(nf) \o BackCols(lev)
                 [] ord = "rev"       -> Reverse(FrontCols(opt) \o Feats(nf) \o BackCols(lev))
                 [] ord = "featfirst" -> Feats(nf) \o FrontCols(opt) \o BackCols(lev)
                 [] ord = "mix"       -> Mix(FrontCols(opt) \o BackCols(lev), nf)
   IN CASE err = "no_specid"   -> SelectSeq(full, LAMBDA k : k # "specid")
        [] err = "no_label"    -> SelectSeq(full, LAMBDA k : k # "label")
        [] err = "no_scannr"   -> SelectSeq(full, LAMBDA k : k # "scannr")
        [] err = "no_peptide"  -> SelectSeq(full, LAMBDA k : k # "peptide")
        [] err = "no_proteins" -> SelectSeq(full, LAMBDA k : k # "proteins")
        [] OTHER               -> full

\* NaN placement classes: cells <<column, row class>>, row class "first" | "mid" | "last"
FeatCols(hdr) == Sorted({i \in 1..Len(hdr) : hdr[i] = "feature"})
NanValid(cl, nf, opt) == CASE cl = "none" -> TRUE  [] cl = "first" -> nf >= 1  [] cl = "last" -> nf >= 2
                           [] cl = "two" -> nf >= 2  [] cl = "mid" -> nf >= 3  [] cl = "all" -> nf >= 2
                           [] cl = "charge" -> "charge" \in opt
NanCells(cl, hdr) ==
   LET F == FeatCols(hdr)  n == Len(F) IN
   CASE cl = "none"   -> {}
     [] cl = "first"  -> {<<F[1], "first">>}
     [] cl = "last"   -> {<<F[n], "last">>}
     [] cl = "two"    -> {<<F[1], "last">>, <<F[n], "first">>}
     [] cl = "mid"    -> {<<F[(n + 1) \div 2], "mid">>}
     [] cl = "all"    -> {<<F[j], IF j % 2 = 1 THEN "first" ELSE "last">> : j \in 1..n}
     [] cl = "charge" -> {<<i, "mid">> : i \in {i \in 1..Len(hdr) : hdr[i] = "charge"}}
RowOf(rcl, n) == CASE rcl = "first" -> 1  [] rcl = "last" -> n  [] rcl = "mid" -> (n + 1) \div 2
RSizeOf(rowcl, n) == CASE rowcl = "one" -> n  [] rowcl = "two" -> (n + 1) \div 2  [] rowcl = "three" -> (n + 2) \div 3
\* labels of the model tables: odd rows are targets; "lab2" / "lab-3" spoil the last / first row
LabOf(enc, err, n) == [r \in 1..n |->
   IF err = "lab2" /\ r = n THEN 2 ELSE IF err = "lab-3" /\ r = 1 THEN -3
   ELSE IF r % 2 = 1 THEN 1 ELSE IF enc = "pm" THEN -1 ELSE 0]

CaseOK(k) == /\ NanValid(k.nan, k.nfeat, k.opt)
             /\ (k.err \in LabelErrs => k.enc # "bool")
Sel(seq, S) == SelectSeq(seq, LAMBDA e : e \in S)
Pick(seq, S, i) == LET s == Sel(seq, S) IN s[(i % Len(s)) + 1]
LevSeqOfSets == <<{}, LevKinds, {"precursor"}, {"modifiedpeptide", "peptidegroup"}, {"modifiedpeptide"},
                  {"peptidegroup"}, {"modifiedpeptide", "precursor"}, {"precursor", "peptidegroup"}>>
RotCase(nf, opt, cc, err, rot) ==
   LET h == nf * 7 + Cardinality(opt) * 3 + cc + rot * 5
       enc0 == Pick(EncSeq, Encs, h \div 2 + rot)
       nan0 == Pick(NanSeq, NanCls, h + rot \div 2)
   IN [nfeat |-> nf, opt |-> opt, cc |-> cc, err |-> err,
       w   |-> Pick(WorkerSeq, Workers, h + rot),        \* RotK = |Workers|: every worker count at every point
       lev |-> Pick(LevSeqOfSets, LevSets, h + 2 * rot),
       ord |-> Pick(OrderSeq, Orders, h + rot),
       cs  |-> Pick(CasingSeq, Casings, h \div 3 + rot),
       enc |-> IF err \in LabelErrs /\ enc0 = "bool" THEN "pm" ELSE enc0,
       nan |-> IF NanValid(nan0, nf, opt) THEN nan0 ELSE "none",
       rows |-> Pick(RowSeq, RowCls, h \div 4 + rot)]
Cases ==
   IF Rotate
   THEN {RotCase(nf, opt, cc, err, rot) : nf \in FeatLo..FeatHi, opt \in OptSets, cc \in Chunks,
                                          err \in Errs, rot \in 0..(RotK - 1)}
   ELSE {k \in [nfeat : FeatLo..FeatHi, opt : OptSets, lev : LevSets, ord : Orders, cs : Casings, enc : Encs,
                nan : NanCls, cc : Chunks, w : Workers, rows : RowCls, err : Errs] : CaseOK(k)}
InputOf(k) == LET hdr == HdrOf(k.nfeat, k.opt, k.lev, k.ord, k.err) IN
   [hdr |-> hdr, cs |-> k.cs, nrows |-> NRows,
    nan |-> {<<p[1], RowOf(p[2], NRows)>> : p \in NanCells(k.nan, hdr)},
    enc |-> k.enc, lab |-> LabOf(k.enc, k.err, NRows),
    cc |-> k.cc, rsize |-> RSizeOf(k.rows, NRows), w |-> k.w]

(* ============================== implementation-shaped layer ============================== *)
\* find_column(..., ignore_case=True): the casing of the file does not matter (helpers.py:42-51)
Find(base) == {i \in 1..Len(x.hdr) : x.hdr[i] = base /\ (Mut_CaseSensitive => x.cs = "lower")}
One(base) == CHOOSE i \in Find(base) : TRUE
Opt(base) == IF Find(base) = {} THEN 0 ELSE One(base)         \* 0 stands for None
ErrResult(e) == [err |-> e, features |-> <<>>, key |-> <<>>, rows |-> <<>>, targets |-> <<>>, meta |-> {}, levels |-> {}]
NoCls == [features |-> <<>>, spectra |-> <<>>, ids |-> <<>>, label |-> 0, nonfeat |-> {}, levels |-> {}]

Init == /\ c \in Cases
        /\ x = InputOf(c)
        /\ pc = "classify" /\ cls = NoCls /\ chunks = <<>> /\ nextT = 1 /\ running = {}
        /\ prog = <<>> /\ mask = <<>> /\ ret = <<>> /\ dfl = <<>> /\ out = ErrResult("unset")

\* pin.py:170-205
Classify ==
   /\ pc = "classify"
   /\ IF \E k \in RequiredKinds : Find(k) = {}
      THEN /\ out' = ErrResult("MissingColumn")          \* helpers.py:53-54 ValueError "... was not found"
           /\ pc' = "done" /\ UNCHANGED cls
      ELSE LET specid == One("specid")  peptides == One("peptide")  proteins == One("proteins")      \* :171-173
               labels == One("label")  scan == One("scannr")                                        \* :174-175
               levs == UNION {Find(LevSeq[j]) : j \in 1..3}                                          \* :181-185
               filename == Opt("filename")  calcmass == Opt("calcmass")                              \* :188-189
               expmass == Opt("expmass")  rt == Opt("ret_time")                                      \* :190-191
               charge == IF AsIs_ChargeDefaultName THEN Opt("charge_column") ELSE Opt("charge")      \* :192
               altcharge == Find("charge")        \* :196 names starting with "charge" (features never do)
               keyseq == IF Mut_KeyFileOrder THEN Sorted({filename, scan, rt, expmass})
                         ELSE <<filename, scan, rt, expmass>>
               spectra == SelectSeq(keyseq, LAMBDA v : v # 0)                                        \* :193
               nonfeat == {specid, scan, peptides, proteins, labels} \cup levs                       \* :176, :185
                          \cup (IF charge # 0 /\ Cardinality(altcharge) > 1 THEN {charge} ELSE {})   \* :197-198
                          \cup ({filename, calcmass, expmass, rt} \ {0})                             \* :200-202
               features == SelectSeq([i \in 1..Len(x.hdr) |-> i], LAMBDA i : i \notin nonfeat)       \* :204
           IN /\ cls' = [features |-> features, spectra |-> spectra, ids |-> Append(spectra, labels),
                         label |-> labels, nonfeat |-> nonfeat, levels |-> {peptides} \cup levs]
              /\ pc' = "chunk" /\ UNCHANGED out        \* :208 all(spectra) holds: names are non-empty
   /\ UNCHANGED <<c, x, chunks, nextT, running, prog, mask, ret, dfl>>

\* utils.py create_chunks
Chunk(seq, n) == [k \in 1..((Len(seq) + n - 1) \div n) |->
                    SubSeq(seq, (k - 1) * n + 1, Min2(k * n, Len(seq)))]
\* pin.py:115-135 before 799639f
AsIsChunks(data, ids, n) == IF (Len(data) + Len(ids)) % n # 1 THEN Chunk(data \o ids, n)
                            ELSE Chunk(data, n) \o <<ids>>
\* pin.py:115-143 (799639f): the identifiers stay in the flat chunking when the last chunk holds them all
RepairedChunks(data, ids, n) ==
   LET r == (Len(data) + Len(ids)) % n
       last == IF r = 0 THEN n ELSE r
   IN IF last >= Len(ids) THEN Chunk(data \o ids, n) ELSE Chunk(data, n) \o <<ids>>
ChunksOf(data, ids, n) == IF AsIs_Remainder1Only THEN AsIsChunks(data, ids, n) ELSE RepairedChunks(data, ids, n)

\* pin.py:215-219
MakeChunks == /\ pc = "chunk"
              /\ chunks' = ChunksOf(cls.features, cls.ids, x.cc)
              /\ prog' = [t \in 1..Len(chunks') |-> 0]
              /\ mask' = [t \in 1..Len(chunks') |-> {}]
              /\ ret' = [t \in 1..Len(chunks') |-> {}]
              /\ pc' = "scan"
              /\ UNCHANGED <<c, x, cls, nextT, running, dfl, out>>

NRC == (x.nrows + x.rsize - 1) \div x.rsize                       \* row chunks of the reader
RowsOfChunk(k) == ((k - 1) * x.rsize + 1)..Min2(k * x.rsize, x.nrows)
HasAllIds(t) == Range(cls.ids) \subseteq Range(chunks[t])          \* pin.py:284  set(spectra) <= set(column)

\* pin.py:221-229: joblib dispatches the tasks in order to at most w threads
Start == /\ pc = "scan" /\ nextT <= Len(chunks) /\ Cardinality(running) < x.w
         /\ running' = running \cup {nextT} /\ nextT' = nextT + 1
         /\ UNCHANGED <<c, x, pc, cls, chunks, prog, mask, ret, dfl, out>>
\* pin.py:283-298: one row chunk of a running task.  Only the task whose column chunk holds all identifier
\* columns touches shared state (the list df_spectra_list) while it runs, so its row chunks are separate
\* steps; the row chunks of the other tasks are local (they commute with everything) and are folded into Finish.
Scan(t) == /\ pc = "scan" /\ t \in running /\ HasAllIds(t) /\ prog[t] < NRC
           /\ LET k == prog[t] + 1
                  scanned == Range(chunks[t]) \ Range(cls.ids)                            \* :294 drop(spectra)
              IN /\ dfl' = Append(dfl, <<t, k>>)                                           \* :285
                 /\ mask' = [mask EXCEPT ![t] = @ \cup {col \in scanned :                  \* :295-298
                                                        \E r \in RowsOfChunk(k) : <<col, r>> \in x.nan}]
                 /\ prog' = [prog EXCEPT ![t] = k]
           /\ UNCHANGED <<c, x, pc, cls, chunks, nextT, running, ret, out>>
\* pin.py:300-302: the task returns the columns whose mask is set (a chunk without all identifiers scans
\* every one of its columns, identifier columns included: :284 is false, nothing is dropped from the frame)
Finish(t) == /\ pc = "scan" /\ t \in running /\ (HasAllIds(t) => prog[t] = NRC)
             /\ ret' = [ret EXCEPT ![t] = IF HasAllIds(t) THEN mask[t]
                                          ELSE {col \in Range(chunks[t]) : \E r \in 1..x.nrows : <<col, r>> \in x.nan}]
             /\ running' = running \ {t}
             /\ UNCHANGED <<c, x, pc, cls, chunks, nextT, prog, mask, dfl, out>>
Join == /\ pc = "scan" /\ nextT > Len(chunks) /\ running = {}
        /\ pc' = "concat"
        /\ UNCHANGED <<c, x, cls, chunks, nextT, running, prog, mask, ret, dfl, out>>

RECURSIVE FrameRows(_, _)
FrameRows(l, i) == IF i > Len(l) THEN <<>> ELSE Sorted(RowsOfChunk(l[i][2])) \o FrameRows(l, i + 1)
IsTarget(v) == IF Mut_ZeroIsTarget THEN v >= 0 ELSE v = 1
\* pin.py:230-232, utils.py:183-219
Concat == /\ pc = "concat"
          /\ IF dfl = <<>> THEN out' = ErrResult("NoConcat") /\ pc' = "done"      \* ValueError: No objects to concatenate
             ELSE LET rows == FrameRows(dfl, 1) IN
                  IF x.enc # "bool" /\ \E r \in Range(rows) : x.lab[r] < -1 \/ x.lab[r] > 1     \* utils.py:212
                  THEN out' = ErrResult("BadLabel") /\ pc' = "done"
                  ELSE /\ out' = [out EXCEPT !.err = "", !.rows = rows,
                                             !.targets = [j \in 1..Len(rows) |-> IsTarget(x.lab[rows[j]])]]
                       /\ pc' = "build"
          /\ UNCHANGED <<c, x, cls, chunks, nextT, running, prog, mask, ret, dfl>>
\* pin.py:234-269; dataset.py:497-526 (every column named by the dataset is a column of the file)
Build == /\ pc = "build"
         /\ LET drop == UNION Range(ret)                                                       \* :234-235
                keep == IF Mut_KeepSingleNaN /\ Cardinality(drop) <= 1 THEN cls.features
                        ELSE SelectSeq(cls.features, LAMBDA f : f \notin drop)                 \* :242-244
                named == Range(keep) \cup Range(cls.spectra) \cup cls.nonfeat \cup cls.levels
            IN IF ~(named \subseteq 1..Len(x.hdr)) THEN out' = ErrResult("ColumnCheck")
               ELSE out' = [out EXCEPT !.features = keep, !.key = cls.spectra, !.meta = cls.nonfeat,
                                       !.levels = cls.levels]
         /\ pc' = "done"
         /\ UNCHANGED <<c, x, cls, chunks, nextT, running, prog, mask, ret, dfl>>

ScanAny == \E t \in running : Scan(t)
FinishAny == \E t \in running : Finish(t)
Next == Classify \/ MakeChunks \/ Start \/ ScanAny \/ FinishAny \/ Join \/ Concat \/ Build
Spec == Init /\ [][Next]_vars

(* ============================== what TLC checks ============================== *)
Id(n) == [i \in 1..n |-> i]
Chunked == pc = "scan" /\ nextT = 1           \* the state MakeChunks leads to (chunks never change afterwards)
InputsInDomain == pc = "classify" => WellFormed(x)
\* every feature and identifier column is scanned exactly once, no empty task
AllColumnsOnce == Chunked =>
   /\ UNION {Range(chunks[k]) : k \in 1..Len(chunks)} = Range(cls.features) \cup Range(cls.ids)
   /\ \A a, b \in 1..Len(chunks) : a # b => Range(chunks[a]) \cap Range(chunks[b]) = {}
   /\ \A k \in 1..Len(chunks) : chunks[k] # <<>> /\ Cardinality(Range(chunks[k])) = Len(chunks[k])
\* the consumer's requirement (pin.py:284): exactly one column chunk contains ALL identifier columns
IdsTogether == Chunked => Cardinality({k \in 1..Len(chunks) : Range(cls.ids) \subseteq Range(chunks[k])}) = 1
\* a chunk is never larger than the chunk size unless it is the identifiers' own chunk
ChunkBound == Chunked => \A k \in 1..Len(chunks) : Len(chunks[k]) <= x.cc \/ chunks[k] = cls.ids
\* for every schedule the reported result is the declared one
ResultIsDef == pc = "done" => FailedClauses(x, out, Id(Len(x.hdr)), Id(x.nrows)) = {}
\* the frame is filled by one task, row chunks in order (whatever the other threads do)
FrameInOrder == \A i \in 1..Len(dfl) : dfl[i][2] = i /\ dfl[i][1] = dfl[1][1]
\* the clauses discriminate: perturbed results are not accepted
Accepts(R) == FailedClauses(x, R, Id(Len(x.hdr)), Id(x.nrows)) = {}
ClausesDiscriminate == (pc = "done" /\ out.err = "") =>
   /\ (out.features # <<>> => ~Accepts([out EXCEPT !.features = Tail(@)]))
   /\ (x.nrows >= 2 => ~Accepts([out EXCEPT !.rows = Reverse(@)]))
   /\ ~Accepts([out EXCEPT !.targets = [@ EXCEPT ![1] = ~@]])
   /\ ~Accepts([out EXCEPT !.key = Tail(@)])
   /\ ~Accepts(ErrResult("ValueError"))

(* ---- behaviour generation: one case per initial state ---- *)
Code == [specid |-> "s", label |-> "l", scannr |-> "n", peptide |-> "p", proteins |-> "q", filename |-> "f",
         calcmass |-> "c", expmass |-> "e", ret_time |-> "r", charge |-> "h", modifiedpeptide |-> "m",
         precursor |-> "u", peptidegroup |-> "g", feature |-> "x"]
RECURSIVE HdrStr(_, _)
HdrStr(h, i) == IF i > Len(h) THEN "" ELSE Code[h[i]] \o HdrStr(h, i + 1)
RECURSIVE NanStr(_, _)
NanStr(s, i) == IF i > Len(s) THEN "" ELSE ToString(s[i][1]) \o ":" \o s[i][2] \o "," \o NanStr(s, i + 1)
CaseStr(k) == LET hdr == HdrOf(k.nfeat, k.opt, k.lev, k.ord, k.err)
                  cells == NanCells(k.nan, hdr)
                  cs == Sorted({p[1] : p \in cells})
                  cellseq == [j \in 1..Len(cs) |-> CHOOSE p \in cells : p[1] = cs[j]]
              IN HdrStr(hdr, 1) \o "|" \o k.ord \o "|" \o k.cs \o "|" \o k.enc \o "|" \o k.nan \o "|"
                 \o NanStr(cellseq, 1) \o "|" \o ToString(k.cc) \o "|" \o ToString(k.w) \o "|" \o k.rows
                 \o "|" \o k.err
EmitCase == pc = "classify" => PrintT(<<"CASE", CaseStr(c)>>)
GenOnly == pc = "classify"
\* ---- liveness (checked by PinParse_live.cfg): under weak fairness of the next-state action every behaviour comes to rest
\* in a state without successor -- the modelled procedure terminates for every input, schedule and fault inside the bounds
FairSpec == Spec /\ WF_vars(Next)
Halts == <>[](~ENABLED Next)
=============================================================================
