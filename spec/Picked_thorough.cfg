SPECIFICATION Spec
CONSTANTS MaxRows = 5 NPair = 4 WithUnmapped = FALSE
  Kinds = {"swap"}
  AsIs_AllSharedKeyError = FALSE AsIs_PairByFirstName = FALSE Mut_NoStrip = FALSE Mut_SharedContribute = FALSE Mut_NoCollapse = FALSE Mut_KeepWorst = FALSE
INVARIANT OnePerPair
INVARIANT OwnerGroup
INVARIANT BestPeptide
INVARIANT SharedNever
INVARIANT QFollowsTdc
INVARIANT NoErrorInDomain
INVARIANT GuardRefuses
CHECK_DEADLOCK FALSE
