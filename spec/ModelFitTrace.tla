----------------------------- MODULE ModelFitTrace -----------------------------
(* Property-level acceptor for C12 on what a recording estimator saw inside the real mokapot.Model.fit and
   on what Model.predict / load_model(...).predict returned.  One trace = one training run (one "variant":
   row order x shuffle switch x rng) of a case, together with the predictions of the case's reference run.

   trace = [tid, n, thr: <<num, den>> (train_fdr), maxit, shuffle (information only),
            kind: "int" | "real", eps,          -- eps: tolerance on predictions in trace units (0 for "int")
            tgt: <<BOOLEAN>>, dir: <<Int>>      -- by row id 1..n; dir = value (or dense rank) of the feature named by
                                                   Model(direction=..): the "current scores" of iteration 1
            raised: "" | "Type: message",
            fits:   <<[iter, ids, y2, yok]>>    -- EstFit: k-th estimator.fit(X, y): ids = X[:, 0], y2 = 2 * y
                                                   (2 positive, 0 negative, 1 = a label-0 row was passed)
            scores: <<[iter, ids, s, ok]>>      -- EstScore: scoring calls made during Model.fit after the iter-th fit;
                                                   s = the integer score returned for each row ("real": its dense rank)
            preds:  <<[name, ids, s, ok]>>      -- Predict: "same" | "colperm" (feature columns permuted) | "reload"
                                                   (save + load_model); s ints ("real": round(1e6 * score))
            ref_status: "none" | "done" | "abort", ref_ids, ref_s, ref_fits: <<[ids, y2]>>   -- the reference variant
            model_outcome: "" | "done" | "abort", model_pred: <<Int>> by id   -- predicted by ModelFit.tla (TLC cases) ]

   Clauses (C12):
     NoUnlabeledFed / SamePsm / AllLabelledFed -- in every iteration k the <<id, y>> pairs handed to the estimator
        are exactly {<<r, 1>> : r target with q(r) <= thr} \cup {<<r, 0>> : r decoy}, q by the C01 formula
        (TdcDef!QMap) under the scores the estimator gave in iteration k-1 (k = 1: under the direction feature,
        in either orientation)
     Completed      -- training only gives up ("Model performs worse after training") when no target passes under
                       the estimator's last scores
     PredsAgree     -- predictions on the same PSMs, with permuted feature columns and after save/load are identical
     VariantsAgree  -- ... and identical (kind "real": within eps, provided both runs fed the same pairs) to those
                       of the reference run (other row order / other shuffle switch / other rng)
     ModelPred      -- ... and equal to what ModelFit.tla predicts for this input
   Runs that cannot start (no target passes under the direction feature) are outside the domain: accepted, info "ood". *)
EXTENDS TdcDef, TLC, TLCExt, Json, IOUtils
Traces == JsonDeserialize(IOEnv.TRACES_FILE)
VARIABLE tid
T == Traces[tid]
N == T.n
TrainFdr == <<T.thr[1], T.thr[2]>>
Rows == 1..N
SeqSet(s) == {s[i] : i \in 1..Len(s)}
IsRowPerm(ids) == Len(ids) = N /\ SeqSet(ids) = Rows
\* explicit id -> value function of a call on all rows (ids is a permutation of the rows)
ById(ids, s) == LET pos == SortSeq([j \in 1..N |-> j], LAMBDA x, y : ids[x] < ids[y])
                IN TLCEval([r \in Rows |-> s[pos[r]]])
LabelsUnder(rank) == LET qm == QMap(rank, T.tgt, N) IN TLCEval([r \in Rows |-> LabelOf(T.tgt[r], qm[rank[r]], TrainFdr)])
NPos(L) == Cardinality({r \in Rows : L[r] = 1})
\* the other orientation of a feature ("lower is better"), as ranks
Rev(rank) == LET V == {rank[r] : r \in Rows}
                 top == CHOOSE m \in V : \A x \in V : x <= m
             IN TLCEval([r \in Rows |-> top - rank[r]])
Pairs(ids, y2) == {<<ids[j], y2[j]>> : j \in 1..Len(ids)}
DeclFed(L) == {<<r, 2>> : r \in {r \in Rows : L[r] = 1}} \cup {<<r, 0>> : r \in {r \in Rows : L[r] = -1}}
Within(x, y) == x - y <= T.eps /\ y - x <= T.eps
NF == Len(T.fits)
PerfWorse == "RuntimeError: Model performs worse after training."

\* ---- well-formedness of the recording (everything else is only evaluated on well-formed traces)
Shape == /\ N >= 2 /\ Len(T.tgt) = N /\ Len(T.dir) = N /\ NF <= T.maxit
         /\ \A k \in 1..NF : LET f == T.fits[k] IN
               /\ f.iter = k /\ f.yok /\ Len(f.ids) = Len(f.y2)
               /\ \A j \in 1..Len(f.ids) : f.ids[j] \in Rows /\ f.y2[j] \in {0, 1, 2}
         /\ \A i \in 1..Len(T.scores) : LET e == T.scores[i] IN e.ok /\ e.iter \in 1..NF /\ Len(e.s) = Len(e.ids)
         /\ \A i \in 1..Len(T.preds) : Len(T.preds[i].s) = Len(T.preds[i].ids)
\* every scoring call during training is on all rows, every iteration has one, repeated calls return the same
ScoresCoverAll == /\ \A i \in 1..Len(T.scores) : IsRowPerm(T.scores[i].ids)
                  /\ \A k \in 1..NF : \E i \in 1..Len(T.scores) : T.scores[i].iter = k

Check ==
  LET ScoreOf == TLCEval([k \in 1..NF |->
                    LET e == T.scores[CHOOSE i \in 1..Len(T.scores) : T.scores[i].iter = k] IN ById(e.ids, e.s)])
      LD == LabelsUnder(T.dir)
      LA == LabelsUnder(Rev(T.dir))
      Exact(k, L) == LET f == T.fits[k] IN Pairs(f.ids, f.y2) = DeclFed(L) /\ Len(f.ids) = Cardinality(DeclFed(L))
      \* iteration 1: either orientation of the direction feature is accepted; the clause names of a rejected
      \* trace refer to the orientation with more positives
      L1 == IF NF >= 1 /\ Exact(1, LD) THEN LD ELSE IF NF >= 1 /\ Exact(1, LA) THEN LA
            ELSE IF NPos(LD) >= NPos(LA) THEN LD ELSE LA
      ExpL == TLCEval([k \in 1..NF |-> IF k = 1 THEN L1 ELSE LabelsUnder(ScoreOf[k - 1])])
      InDomain == NPos(LD) > 0 \/ NPos(LA) > 0
      Done == T.raised = ""
      SamePred == ById(T.preds[1].ids, T.preds[1].s)
      RefPred == ById(T.ref_ids, T.ref_s)
      Comparable == T.kind = "int" \/
                    (Len(T.ref_fits) = NF /\ \A k \in 1..NF :
                        Pairs(T.fits[k].ids, T.fits[k].y2) = Pairs(T.ref_fits[k].ids, T.ref_fits[k].y2))
      PredsWellFormed == Len(T.preds) >= 1 /\ \A i \in 1..Len(T.preds) : T.preds[i].ok /\ IsRowPerm(T.preds[i].ids)
  IN
  [indomain |-> InDomain,
   comparable |-> T.ref_status # "done" \/ ~Done \/ Comparable,
   clauses |->
   [NoUnlabeledFed |-> \A k \in 1..NF : LET f == T.fits[k]  L == ExpL[k] IN
                          \A j \in 1..Len(f.ids) : L[f.ids[j]] # 0 /\ f.y2[j] # 1,
    SamePsm        |-> \A k \in 1..NF : LET f == T.fits[k]  L == ExpL[k] IN
                          \A j \in 1..Len(f.ids) : /\ f.y2[j] = 2 <=> L[f.ids[j]] = 1
                                                   /\ ~T.tgt[f.ids[j]] => f.y2[j] = 0,
    AllLabelledFed |-> \A k \in 1..NF : LET f == T.fits[k]  L == ExpL[k] IN
                          /\ {r \in Rows : L[r] # 0} \subseteq SeqSet(f.ids)
                          /\ Cardinality(SeqSet(f.ids)) = Len(f.ids),
    ScoresConsistent |-> \A i \in 1..Len(T.scores) : ById(T.scores[i].ids, T.scores[i].s) = ScoreOf[T.scores[i].iter],
    Completed      |-> IF Done THEN NF = T.maxit
                       ELSE T.raised = PerfWorse /\ NF >= 1 /\ NPos(LabelsUnder(ScoreOf[NF])) = 0,
    PredsAgree     |-> Done => /\ PredsWellFormed
                               /\ \A i \in 1..Len(T.preds) : LET p == ById(T.preds[i].ids, T.preds[i].s) IN
                                     \A r \in Rows : Within(p[r], SamePred[r]),
    \* a third model whose estimator is a hyper-parameter search (GridSearchCV): every fit the search makes BEFORE the training
    \* loop must also be handed rows and start labels of the same PSM (either orientation of the direction feature)
    SearchFitsAligned |-> LET ok(L) == \A i \in 1..Len(T.search_fits) : LET e == T.search_fits[i] IN
                                          \A j \in 1..Len(e.ids) : /\ e.ids[j] \in Rows /\ L[e.ids[j]] # 0
                                                                    /\ (e.y2[j] = 2 <=> L[e.ids[j]] = 1)
                                                                    /\ (e.y2[j] = 0 <=> L[e.ids[j]] = -1)
                          IN ok(LD) \/ ok(LA),
    \* a second model with the default (stateful) StandardScaler: same PSMs, permuted feature columns, reloaded model
    ScaledPredsAgree |-> \A i \in 1..Len(T.preds_scaled) : LET a == T.preds_scaled[1]  b == T.preds_scaled[i] IN
                            /\ a.ok /\ b.ok /\ Len(a.s) = Len(b.s)
                            /\ \A k \in 1..Len(a.s) : (IF a.s[k] > b.s[k] THEN a.s[k] - b.s[k] ELSE b.s[k] - a.s[k]) <= 100,
    VariantsAgree  |-> /\ T.ref_status = "abort" => ~Done
                       /\ T.ref_status = "done" =>
                            /\ Done /\ PredsWellFormed /\ IsRowPerm(T.ref_ids)
                            /\ Comparable => \A r \in Rows : Within(SamePred[r], RefPred[r]),
    ModelPred      |-> /\ T.model_outcome = "abort" => ~Done
                       /\ T.model_outcome = "done" => /\ Done /\ PredsWellFormed /\ Len(T.model_pred) = N
                                                      /\ \A r \in Rows : SamePred[r] = T.model_pred[r]]]

\* <<failed clauses, information>>
Result == IF ~Shape THEN <<{"Shape"}, "malformed">>
          ELSE IF ~ScoresCoverAll THEN <<{"ScoresCoverAll"}, "malformed">>
          ELSE LET K == Check IN
               IF ~K.indomain THEN <<{}, "ood">>
               ELSE LET C == K.clauses IN
                    <<{c \in DOMAIN C : ~C[c]}, IF K.comparable THEN "ok" ELSE "incomparable">>
Init == tid \in 1..Len(Traces)
Spec == Init /\ [][UNCHANGED tid]_tid
Verdict == LET r == Result IN PrintT(<<"VERDICT", T.tid, IF r[1] = {} THEN "accept" ELSE "reject", r[1], r[2]>>)
=============================================================================
