SPECIFICATION Spec
CONSTANTS MaxN = 3 MaxRank = 2 Overrides = {FALSE} AsIs_NoLabelConversion = FALSE Mut_NeverFallBack = TRUE Mut_ForgetDirection = FALSE
INVARIANT SafetyNet
CHECK_DEADLOCK FALSE
