----------------------------- MODULE RunsTrace -----------------------------
(* Acceptor for groups of runs of the real code on ONE input under different configurations / in different
   sessions (C05: chunk sizes, workers, completion orders, file format; C08: repeats, hash seeds, model orders).
   trace = [tid, tol,
            runs: <<[cfg: STRING, raised: STRING, raised_type: STRING,
                     vals: <<ints>>,                         -- scores (canonical rationals flattened, or scaled ints)
                     files: <<[name: STRING, rows: <<<<ints / strings>>>>]>>,
                     digests: <<STRING>>]>>]                 -- sha256 of byte-level artefacts (C08)
   Accepted iff every run fails exactly when the first (reference) run fails, with the same error type, and every run
   has the outcome of the first one: vals equal entry by entry within tol
   (tol = 0: exactly), result files equal as sets of rows with equal row counts, digests equal. *)
EXTENDS Integers, Sequences, FiniteSets, TLC, TLCExt, Json, IOUtils
Traces == JsonDeserialize(IOEnv.TRACES_FILE)
VARIABLE tid
T == Traces[tid]
SeqSet(s) == {s[i] : i \in 1..Len(s)}
Abs(x) == IF x < 0 THEN -x ELSE x
SameVals(a, b) == Len(a) = Len(b) /\ \A i \in 1..Len(a) : Abs(a[i] - b[i]) <= T.tol
SameFiles(a, b) == /\ Len(a) = Len(b)
                   /\ \A i \in 1..Len(a) : /\ a[i].name = b[i].name
                                           /\ Len(a[i].rows) = Len(b[i].rows)
                                           /\ SeqSet(a[i].rows) = SeqSet(b[i].rows)
Check(R) ==
   [\* a run never fails BECAUSE of its configuration: it fails iff the reference run fails, with the same error type
    NoRunFails |-> \A r \in 1..Len(R) : R[r].raised_type = R[1].raised_type,
    AtLeastTwo |-> Len(R) >= 2,
    SameScores |-> \A r \in 2..Len(R) : R[r].raised = "" /\ R[1].raised = "" => SameVals(R[r].vals, R[1].vals),
    SameFiles  |-> \A r \in 2..Len(R) : R[r].raised = "" /\ R[1].raised = "" => SameFiles(R[r].files, R[1].files),
    SameDigests |-> \A r \in 2..Len(R) : R[r].raised = "" /\ R[1].raised = "" => R[r].digests = R[1].digests]
Failed == LET C == Check(T.runs) IN {c \in DOMAIN C : ~C[c]}
\* which runs differ from the first (diagnosis)
Differing == {r \in 2..Len(T.runs) : ~(SameVals(T.runs[r].vals, T.runs[1].vals) /\ SameFiles(T.runs[r].files, T.runs[1].files)
                                        /\ T.runs[r].digests = T.runs[1].digests /\ T.runs[r].raised_type = T.runs[1].raised_type)}
Init == tid \in 1..Len(Traces)
Spec == Init /\ [][UNCHANGED tid]_tid
Verdict == LET F == Failed IN PrintT(<<"VERDICT", T.tid, IF F = {} THEN "accept" ELSE "reject", F,
                                       IF F = {} THEN {} ELSE Differing>>)
=============================================================================
