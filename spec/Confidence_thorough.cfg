SPECIFICATION Spec
CONSTANTS MaxRows = 4 NSpec = 3 NKey = 3 NLev = 1 MaxRank = 4
  AsIs_ChunkDedupOnRollup = FALSE Mut_SeenBeforeCompetition = FALSE Mut_MergeSmallestHead = FALSE
INVARIANT PsmLevelOK
INVARIANT RollupLevelsOK
INVARIANT NoRollupNoLevels
INVARIANT PrefixSorted
INVARIANT OutcomeIsF
CHECK_DEADLOCK FALSE
