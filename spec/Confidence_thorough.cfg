SPECIFICATION Spec
CONSTANTS MaxRows = 5 NSpec = 3 NKey = 2 NLev = 1 MaxRank = 3
  AsIs_ChunkDedupOnRollup = FALSE Mut_SeenBeforeCompetition = FALSE Mut_MergeSmallestHead = FALSE
INVARIANT PsmLevelOK
INVARIANT RollupLevelsOK
INVARIANT NoRollupNoLevels
INVARIANT PrefixSorted
INVARIANT OutcomeIsF
CHECK_DEADLOCK FALSE
