SPECIFICATION Spec
CONSTANTS MaxDev = 2 Mut = "dedup_not_passed"
INVARIANT Dataflow
CHECK_DEADLOCK FALSE
