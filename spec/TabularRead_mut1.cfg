SPECIFICATION Spec
CONSTANTS MaxRows = 4 MaxChunk = 3 MaxRg = 2 FullBatches = TRUE AsIs_CsvEmptyCols = FALSE AsIs_ParquetEmptyCols = FALSE
          Mut_IndexRestart = TRUE Mut_NoReorder = FALSE Mut_JoinNoReorder = FALSE
INVARIANT IndexContinues
CHECK_DEADLOCK FALSE
