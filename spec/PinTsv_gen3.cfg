SPECIFICATION Spec
CONSTANTS ProtSep = ":" MaxFeat = 2 MaxRows = 3 MaxProt = 3 Mut_EndOffByOne = FALSE Mut_KeepDD = FALSE Mut_ValidSkipsDD = FALSE
INVARIANT EmitCase
CONSTRAINT GenOnly
CHECK_DEADLOCK FALSE
