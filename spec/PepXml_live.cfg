SPECIFICATION FairSpec
CONSTANTS
  Families = {"struct1", "files2", "errors"}
  MaxMods = 2 MaxAlts = 1 Rich = FALSE MaxSpec2 = 1
  Mut_NoOffset = FALSE Mut_InsertBefore = FALSE Mut_LabelPrimaryOnly = FALSE Mut_LabelLastWins = FALSE Mut_StaleSpec = FALSE Mut_LastFileOnly = FALSE
PROPERTY Halts
CHECK_DEADLOCK FALSE
