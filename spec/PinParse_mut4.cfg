SPECIFICATION Spec
CONSTANTS
  FeatLo = 0 FeatHi = 4 OptSets <- OptWidthPlus LevSets <- LevSome
  Orders = {"std", "rev", "mix", "featfirst"}
  Casings = {"lower", "upper", "mixed"}
  Encs = {"pm", "zo", "bool"}
  NanCls = {"none", "first", "last", "two", "mid", "all", "charge"}
  Chunks = {3, 19}
  Workers = {2}
  RowCls = {"two"}
  Errs = {"none"}
  NRows = 3 Rotate = FALSE RotK = 1
  AsIs_Remainder1Only = FALSE AsIs_ChargeDefaultName = TRUE
  Mut_KeepSingleNaN = FALSE Mut_CaseSensitive = FALSE Mut_ZeroIsTarget = FALSE Mut_KeyFileOrder = TRUE
INVARIANT ResultIsDef
CHECK_DEADLOCK FALSE
