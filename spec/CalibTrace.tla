----------------------------- MODULE CalibTrace -----------------------------
(* Acceptor for direct calls of the calibration functions (C11):
   trace = [tid, n, raw: <<ints>>, tgt: <<BOOLEAN>>, thr: <<num, den>>, raised_type: "" | "RuntimeError" | ...,
            out: <<[num, den, ok, nan]>>]                         -- returned values as rationals, den > 0 *)
EXTENDS CalibDef, TLC, TLCExt, Json, IOUtils
Traces == JsonDeserialize(IOEnv.TRACES_FILE)
VARIABLE tid
T == Traces[tid]
Check(fi) ==
  LET n == T.n  dom == InCalibDomain(fi)  ok == T.raised_type = "" IN
  [ErrorIffNoAccepted |-> (T.raised_type = "RuntimeError") <=> ~fi.hasAcc,
   NoOtherError |-> T.raised_type \in {"", "RuntimeError"},
   Shape |-> ok => Len(T.out) = n,
   Calibrated |-> (ok /\ dom /\ Len(T.out) = n) =>
        \A i \in 1..n : ~T.out[i].nan /\ T.out[i].ok /\ T.out[i].den > 0
                        /\ IsCalibrated(fi, T.raw[i], T.out[i].num, T.out[i].den),
   OrderPreserved |-> (ok /\ dom /\ Len(T.out) = n) =>
        \A i, j \in 1..n : (T.raw[i] < T.raw[j]) <=> (T.out[i].num * T.out[j].den < T.out[j].num * T.out[i].den),
   Anchored |-> (ok /\ dom /\ Len(T.out) = n) =>
        \A i \in 1..n : /\ (T.raw[i] = fi.t => T.out[i].num = 0)
                        /\ (2 * T.raw[i] = fi.d2 => T.out[i].num = -T.out[i].den)]
Failed == LET fi == Info(T.raw, T.tgt, T.n, <<T.thr[1], T.thr[2]>>)  C == Check(fi) IN {c \in DOMAIN C : ~C[c]}
InDom == InCalibDomain(Info(T.raw, T.tgt, T.n, <<T.thr[1], T.thr[2]>>))
Init == tid \in 1..Len(Traces)
Spec == Init /\ [][UNCHANGED tid]_tid
Verdict == LET F == Failed IN PrintT(<<"VERDICT", T.tid, IF F = {} THEN "accept" ELSE "reject", F, InDom>>)
=============================================================================
