--------------------------- MODULE ProteinGroups ---------------------------
(* Property C16: protein grouping of mokapot.read_fasta (parsers/fasta.py).

   DECLARATIVE LAYER (operators D_*, on explicit arguments, shared with ProteinGroupsTrace.tla):
     P        set of proteins (FASTA entries), inc \in [P -> SUBSET peptides] the digest (incidence)
     um       the returned peptide_map     : function  unique peptide -> group
     sm       the returned shared_peptides : function  shared peptide -> set of groups
     dm       the returned protein_map     : function  target name -> decoy name
   A group is identified with its SET of member proteins (the code names a group by joining the member
   accessions with ", " in the order in which they joined; every group has exactly one founder, so the
   member set determines the group).  read_fasta returns no table of groups: the groups are the values of
   the two peptide maps, and a group's peptide set is the set of peptides the maps send to it (GPeps).
   With that reading "consistent peptide map" is part of D_SetOfAMember: the peptides mapped to a group are
   exactly the peptides of one member and include the peptides of every member.

   IMPLEMENTATION-SHAPED LAYER (actions Pair, Sort, Visit, Absorb, Split; one per code step):
     fasta.py:83-101   proteins = {prot: peps} for proteins with >= 1 peptide, peptides = {pep: {prot}}  (Init)
     fasta.py:114-136  decoy_map[name] = prefix + name for every retained non-prefixed name              (Pair)
     fasta.py:110,536  stable sorts: visited by descending number of peptides, ties in entry order       (Sort)
     fasta.py:536-547  intersection of the peptide -> names sets, filtered to current group names        (Visit)
     fasta.py:550-561  every matching group is renamed "<group>, <prot>" and the peptide map patched in
                       place, one match after the other in set-iteration (hash) order                    (Absorb)
     fasta.py:155-163  a peptide whose set has one name is unique, the others are shared                 (Split)
   Names in the peptide map are modelled as member sets: the entry of a single protein A is {A}, which is
   also the name of the group founded by A -- exactly the aliasing of the strings in the code.
   Entry order of the FASTA file only breaks ties of the stable sorts: Sort takes every admissible order.
   Mut_* are seeded design faults that TLC must reject. *)
EXTENDS Integers, Sequences, FiniteSets, TLC, FiniteSetsExt, SequencesExt

(* ------------------------------ declarative layer ------------------------------ *)
\* Range(f) == {f[x] : x \in DOMAIN f} comes from Functions (via FiniteSetsExt)
RetainedOf(P, inc) == {p \in P : inc[p] # {}}                 \* proteins that yield at least one peptide
PepsOf(P, inc) == UNION {inc[p] : p \in P}
GroupsOf(um, sm) == Range(um) \cup UNION Range(sm)
GPeps(um, sm, g) == {q \in DOMAIN um : um[q] = g} \cup {q \in DOMAIN sm : g \in sm[q]}
Holds(inc, g, q) == \E m \in g : q \in inc[m]                 \* group g contains peptide q

D_WellFormed(P, um, sm) == \A g \in GroupsOf(um, sm) : g \subseteq P
D_EveryProteinGrouped(P, inc, um, sm) ==
   \A p \in RetainedOf(P, inc) : \E g \in GroupsOf(um, sm) : p \in g
D_SetOfAMember(inc, um, sm) ==
   \A g \in GroupsOf(um, sm) : LET gp == GPeps(um, sm, g)
                               IN (\E m \in g : inc[m] = gp) /\ (\A m \in g : inc[m] \subseteq gp)
D_NoGroupInsideAnother(um, sm) ==
   \A g, h \in GroupsOf(um, sm) : g # h => ~(GPeps(um, sm, g) \subseteq GPeps(um, sm, h))
D_UniqueToSingleGroup(inc, um, sm) ==
   \A q \in DOMAIN um : {g \in GroupsOf(um, sm) : Holds(inc, g, q)} = {um[q]}
D_SharedExactly(P, inc, um, sm) ==
   DOMAIN sm = {q \in PepsOf(P, inc) : Cardinality({g \in GroupsOf(um, sm) : Holds(inc, g, q)}) >= 2}
\* name \in [P -> names], Tg \subseteq P the target entries (name without the prefix), Pref(n) = prefix + n.
\* Every target that yields a peptide is paired with Pref(its name); nothing else than targets is paired.
\* (Whether a target WITHOUT peptides is paired is left open: the statement is about proteins after reading.)
D_Pairing(P, inc, name, Tg, Pref(_), dm) ==
   /\ \A p \in RetainedOf(P, inc) \cap Tg : name[p] \in DOMAIN dm /\ dm[name[p]] = Pref(name[p])
   /\ \A k \in DOMAIN dm : (\E p \in Tg : name[p] = k) /\ dm[k] = Pref(k)

\* Independence of entry order / iteration order: the canonical result is a function of the incidence only.
MaximalOf(P, inc) == LET R == RetainedOf(P, inc)
                     IN {p \in R : \A r \in R : ~(inc[p] \subseteq inc[r] /\ inc[p] # inc[r])}
CanonGroups(P, inc) == {{m \in RetainedOf(P, inc) : inc[m] \subseteq inc[p]} : p \in MaximalOf(P, inc)}
CanonUnique(P, inc) == LET G == CanonGroups(P, inc)
                           U == {q \in PepsOf(P, inc) : Cardinality({g \in G : Holds(inc, g, q)}) = 1}
                       IN [q \in U |-> CHOOSE g \in G : Holds(inc, g, q)]
CanonShared(P, inc) == LET G == CanonGroups(P, inc)
                           S == {q \in PepsOf(P, inc) : Cardinality({g \in G : Holds(inc, g, q)}) >= 2}
                       IN [q \in S |-> {g \in G : Holds(inc, g, q)}]

(* --------------------------- implementation-shaped layer --------------------------- *)
CONSTANTS NProt, NPep,
          AllNamings,           \* TRUE: every injective naming of the entries; FALSE: T1, D1, T2, D2, ...
          Mut_SmallestFirst,    \* fault: the descending re-sort of _group_proteins is missing
          Mut_FirstMatchOnly,   \* fault: a protein joins only the first matching group (hash order)
          Mut_NoUnpatch,        \* fault: the absorbed protein's own entry stays in the peptide map
          Mut_SplitByProteins,  \* fault: unique/shared decided on proteins instead of groups
          Mut_PairEveryName     \* fault: the startswith(decoy_prefix) test is missing
Prot == 1..NProt
Pep == 1..NPep
Names == (0..1) \X Prot                     \* <<k, b>>: accession b carrying k copies of the decoy prefix
Pref(n) == <<n[1] + 1, n[2]>>
HasPrefix(n) == n[1] >= 1
FixedNaming == [p \in Prot |-> <<(p + 1) % 2, (p + 1) \div 2>>]
Namings == IF AllNamings THEN {f \in [Prot -> Names] : \A a, b \in Prot : a # b => f[a] # f[b]}
           ELSE {FixedNaming}

VARIABLES peps,       \* [Prot -> SUBSET Pep]: the digest of every entry
          nm,         \* [Prot -> Names]
          pc, order, i,
          todo,       \* matches of the protein being visited that are still to be renamed
          grouped,    \* set of [members, peps]
          pmap,       \* [Pep -> set of names (member sets)]   -- `peptides`, patched in place
          dmap, hasDecoys, uniq, shared
vars == <<peps, nm, pc, order, i, todo, grouped, pmap, dmap, hasDecoys, uniq, shared>>

Retained == RetainedOf(Prot, peps)
ProteinLevelMap == [q \in Pep |-> {{p} : p \in {p \in Prot : q \in peps[p]}}]

Init == /\ peps \in [Prot -> SUBSET Pep] /\ nm \in Namings
        /\ pc = "pair" /\ order = <<>> /\ i = 1 /\ todo = {} /\ grouped = {}
        /\ pmap = ProteinLevelMap                                               \* fasta.py:83-101
        /\ dmap = <<>> /\ hasDecoys = FALSE /\ uniq = <<>> /\ shared = <<>>

Pair == /\ pc = "pair"                                                          \* fasta.py:114-136
        /\ LET tg == {p \in Retained : Mut_PairEveryName \/ ~HasPrefix(nm[p])}
           IN /\ dmap' = [n \in {nm[p] : p \in tg} |-> Pref(n)]
              /\ hasDecoys' = \E p \in tg : \E r \in Retained : nm[r] = Pref(nm[p])
              /\ pc' = IF tg = {} THEN "error" ELSE "sort"                      \* ValueError: only decoys
        /\ UNCHANGED <<peps, nm, order, i, todo, grouped, pmap, uniq, shared>>

IsVisitOrder(o) == /\ \A a, b \in DOMAIN o : a # b => o[a] # o[b]
                   /\ \A a, b \in DOMAIN o : a < b =>
                        IF Mut_SmallestFirst THEN Cardinality(peps[o[a]]) <= Cardinality(peps[o[b]])
                        ELSE Cardinality(peps[o[a]]) >= Cardinality(peps[o[b]])
Sort == /\ pc = "sort"                                                          \* fasta.py:110, 536
        /\ order' \in {o \in [1..Cardinality(Retained) -> Retained] : IsVisitOrder(o)}
        /\ pc' = "group"
        /\ UNCHANGED <<peps, nm, i, todo, grouped, pmap, dmap, hasDecoys, uniq, shared>>

Visit == /\ pc = "group" /\ todo = {} /\ i <= Len(order)                        \* fasta.py:536-547
         /\ LET prot == order[i]  ps == peps[prot]
                inter == {e \in UNION {pmap[q] : q \in ps} : \A q \in ps : e \in pmap[q]}
                matches == {e \in inter : \E g \in grouped : g.members = e}
            IN IF matches = {}
                 THEN /\ grouped' = grouped \cup {[members |-> {prot}, peps |-> ps]}
                      /\ todo' = {} /\ i' = i + 1
                 ELSE /\ grouped' = grouped /\ i' = i
                      /\ IF Mut_FirstMatchOnly THEN \E m \in matches : todo' = {m} ELSE todo' = matches
         /\ UNCHANGED <<peps, nm, pc, order, pmap, dmap, hasDecoys, uniq, shared>>

Absorb == /\ pc = "group" /\ todo # {}                                          \* fasta.py:550-561
          /\ \E m \in todo :                                                    \* any set-iteration order
               LET prot == order[i]
                   g == CHOOSE g \in grouped : g.members = m
                   new == m \cup {prot}
               IN /\ grouped' = (grouped \ {g}) \cup {[members |-> new, peps |-> g.peps]}
                  /\ pmap' = [q \in Pep |->
                                IF q \in g.peps
                                  THEN ((pmap[q] \ {m}) \ (IF Mut_NoUnpatch THEN {} ELSE {{prot}})) \cup {new}
                                  ELSE pmap[q]]
                  /\ todo' = todo \ {m}
                  /\ i' = IF todo = {m} THEN i + 1 ELSE i
          /\ UNCHANGED <<peps, nm, pc, order, dmap, hasDecoys, uniq, shared>>

Split == /\ pc = "group" /\ todo = {} /\ i > Len(order)                         \* fasta.py:155-163
         /\ LET src == IF Mut_SplitByProteins THEN ProteinLevelMap ELSE pmap
                keys == {q \in Pep : src[q] # {}}
            IN /\ uniq' = [q \in {q \in keys : Cardinality(src[q]) = 1} |-> CHOOSE e \in src[q] : TRUE]
               /\ shared' = [q \in {q \in keys : Cardinality(src[q]) > 1} |-> src[q]]
         /\ pc' = "done"
         /\ UNCHANGED <<peps, nm, order, i, todo, grouped, pmap, dmap, hasDecoys>>

Next == Pair \/ Sort \/ Visit \/ Absorb \/ Split
Spec == Init /\ [][Next]_vars
Done == pc = "done"

(* ------------------------------ invariants ------------------------------ *)
\* the statement, on what read_fasta returns
WellFormed          == Done => D_WellFormed(Prot, uniq, shared)
EveryProteinGrouped == Done => D_EveryProteinGrouped(Prot, peps, uniq, shared)
SetOfAMember        == Done => D_SetOfAMember(peps, uniq, shared)
NoGroupInsideAnother == Done => D_NoGroupInsideAnother(uniq, shared)
UniqueToSingleGroup == Done => D_UniqueToSingleGroup(peps, uniq, shared)
SharedExactly       == Done => D_SharedExactly(Prot, peps, uniq, shared)
PairingByName       == Done => D_Pairing(Prot, peps, nm, {p \in Prot : ~HasPrefix(nm[p])}, Pref, dmap)
\* order independence: whatever visiting order (entry order) and absorb order (hash order) was taken
EqualsCanonical     == Done => /\ uniq = CanonUnique(Prot, peps) /\ shared = CanonShared(Prot, peps)
                               /\ {g.members : g \in grouped} = CanonGroups(Prot, peps)
\* internal consistency of the loop: the dict operations of 553/557 never raise KeyError, and the patched
\* peptide map agrees with the table of groups when the loop ends
RemoveSafe == (pc = "group" /\ todo # {}) =>
                 \A m \in todo : \E g \in grouped : g.members = m /\ \A q \in g.peps : m \in pmap[q]
MapAgreesWithGroups == Done => \A q \in Pep : pmap[q] = {g.members : g \in {g \in grouped : q \in g.peps}}
HasDecoysFlag == Done => (hasDecoys <=> \E p, r \in Retained : ~HasPrefix(nm[p]) /\ nm[r] = Pref(nm[p]))

\* behaviour generation: one case per incidence structure
EmitCase == pc = "pair" => PrintT(<<"CASE", peps>>)
GenOnly == pc = "pair"
\* ---- liveness (checked by ProteinGroups_live.cfg): under weak fairness of the next-state action every behaviour comes to rest
\* in a state without successor -- the modelled procedure terminates for every input, schedule and fault inside the bounds
FairSpec == Spec /\ WF_vars(Next)
Halts == <>[](~ENABLED Next)
=============================================================================
