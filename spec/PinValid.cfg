SPECIFICATION Spec
CONSTANTS MaxH = 3 MaxRows = 4 Mut_OnlyWider = FALSE
INVARIANT ResultIsDef
INVARIANT LoopInRange
CHECK_DEADLOCK FALSE
