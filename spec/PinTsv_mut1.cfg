SPECIFICATION Spec
CONSTANTS ProtSep = ":" MaxFeat = 1 MaxRows = 2 MaxProt = 2 Mut_EndOffByOne = TRUE Mut_KeepDD = FALSE Mut_ValidSkipsDD = FALSE
INVARIANT ConvertIsDef
CHECK_DEADLOCK FALSE
