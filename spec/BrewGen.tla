------------------------------- MODULE BrewGen -------------------------------
(* Behaviour generation for Brew.tla / BrewTrace.tla: every dataset SHAPE (which row belongs to which
   spectrum, spectra named in order of first appearance) inside the domain B-02 of the fold construction
   (no spectrum with more than n \div folds PSMs), for every fold count.  The driver adds labels, features,
   key width, files, cap, workers, chunk sizes, schedule, format, and a seeded relabelling of the scan numbers
   (which permutes the crc32 hash order). *)
EXTENDS Naturals, Sequences, FiniteSets, TLC, FiniteSetsExt
CONSTANTS MaxRows, MaxSpec, MaxMult, FoldCounts
VARIABLE specOf
MaxOf(S) == IF S = {} THEN 0 ELSE Max(S)
Mult(s) == Cardinality({i \in 1..Len(specOf) : specOf[i] = s})
Init == specOf = <<>>
Add == /\ Len(specOf) < MaxRows
       /\ \E s \in 1..MaxSpec : /\ s <= 1 + MaxOf({specOf[i] : i \in 1..Len(specOf)})
                                /\ Mult(s) < MaxMult
                                /\ specOf' = Append(specOf, s)
Spec == Init /\ [][Add]_specOf
InB02(folds) == Len(specOf) >= folds /\ \A i \in 1..Len(specOf) : Mult(specOf[i]) <= Len(specOf) \div folds
EmitCase == \A folds \in FoldCounts : InB02(folds) => PrintT(<<"CASE", folds, specOf>>)
=============================================================================
