SPECIFICATION Spec
CONSTANTS ProtSep = ":" MaxFeat = 1 MaxRows = 2 MaxProt = 2 Mut_EndOffByOne = FALSE Mut_KeepDD = FALSE Mut_ValidSkipsDD = TRUE
INVARIANT ValidIffDef
CHECK_DEADLOCK FALSE
