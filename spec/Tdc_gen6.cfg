SPECIFICATION Spec
CONSTANTS MaxN = 6 DetSort = TRUE Mut_NoPlusOne = FALSE Mut_GroupFirst = FALSE
INVARIANT EmitCase
CONSTRAINT GenOnly
CHECK_DEADLOCK FALSE
