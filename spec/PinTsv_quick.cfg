SPECIFICATION Spec
CONSTANTS ProtSep = ":" MaxFeat = 2 MaxRows = 2 MaxProt = 3 Mut_EndOffByOne = FALSE Mut_KeepDD = FALSE Mut_ValidSkipsDD = FALSE
INVARIANT InputsInDomain
INVARIANT ConvertIsDef
INVARIANT SameHeaderInv
INVARIANT OneLinePerPsmInv
INVARIANT NonProteinInv
INVARIANT ProteinsInv
INVARIANT RectangularInv
INVARIANT OutputValid
INVARIANT Idempotent
INVARIANT ValidIffDef
INVARIANT ClausesCharacterise
CHECK_DEADLOCK FALSE
