----------------------------- MODULE TdcTrace -----------------------------
(* Property-level acceptor for C01 on calls recorded from the real code.
   trace = [tid, kind ("q" | "labels"), n, rank:[..] (higher = better, direction applied by the driver),
            tgt:[BOOLEAN..], q:[[num, den, ok]..]            -- kind "q": returned q-values as rationals
            thr:[num, den], labels:[-1|0|1 ..]               -- kind "labels"                        ]
   everything is in INPUT order, so "returned in input order" is part of QExact. *)
EXTENDS TdcDef, TLC, TLCExt, Json, IOUtils
Traces == JsonDeserialize(IOEnv.TRACES_FILE)
VARIABLE tid
T == Traces[tid]
n == T.n
QExp == IF n <= 14 THEN [i \in 1..n |-> QDef(T.rank, T.tgt, n, i)]
        ELSE LET qm == QMap(T.rank, T.tgt, n) IN [i \in 1..n |-> qm[T.rank[i]]]
QClauses == [Shape |-> Len(T.q) = n /\ Len(T.rank) = n /\ Len(T.tgt) = n,
             Reconstructed |-> \A i \in 1..Len(T.q) : T.q[i][3],
             QExact |-> Len(T.q) = n /\ LET qe == QExp IN \A i \in 1..n : Eq(<<T.q[i][1], T.q[i][2]>>, qe[i]),
             InRange |-> \A i \in 1..Len(T.q) : T.q[i][1] > 0 /\ T.q[i][1] <= T.q[i][2]]
LClauses == [Shape |-> Len(T.labels) = n /\ Len(T.rank) = n /\ Len(T.tgt) = n,
             LabelRule |-> Len(T.labels) = n /\ LET qe == QExp IN
                           \A i \in 1..n : T.labels[i] = LabelOf(T.tgt[i], qe[i], <<T.thr[1], T.thr[2]>>)]
Clauses == IF T.kind = "q" THEN QClauses ELSE LClauses
Failed == {c \in DOMAIN Clauses : ~Clauses[c]}
Init == tid \in 1..Len(Traces)
Spec == Init /\ [][UNCHANGED tid]_tid
Verdict == PrintT(<<"VERDICT", T.tid, IF Failed = {} THEN "accept" ELSE "reject", Failed>>)
=============================================================================
