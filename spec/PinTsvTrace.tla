---------------------------- MODULE PinTsvTrace ----------------------------
(* Property-level acceptor for C19 on conversions recorded from the real code.

   trace = [tid,
            lines_in  : [[field..]..], nl_in  : BOOLEAN    -- the input text: every line (header, optional
                                                              DefaultDirection line, PSM lines) as its fields
            raised    : STRING                             -- "" or the exception mokapot raised
            lines_out : [[field..]..], nl_out : BOOLEAN    -- text written by pin_to_valid_tsv(input)
            lines_out2: [[field..]..], nl_out2: BOOLEAN    -- text written by pin_to_valid_tsv(that output)
            valid_in, valid_out : BOOLEAN                  -- is_valid_tsv(input), is_valid_tsv(output)
            second_pass_equal   : BOOLEAN                  -- the two written texts are the same string
            cli : [ran : BOOLEAN, lines, nl]               -- file content after the verify step of
                                                              mokapot.mokapot.main (thorough tier)
            mode : "convert" | "valid"                     -- "valid": only is_valid_tsv(input) was called ]
   (header = lines_in[1], rows_in = the PSM lines of lines_in, rows_out = Tail(lines_out).)

   The expected conversion is recomputed from lines_in with the declarative layer of PinTsv.tla
   (ConvertDef, ValidDef) and compared field by field.  A text outside the statement's domain
   (no PSM line, empty field at a line end, ...) is accepted vacuously: verdict "accept" with the
   marker {"OutOfDomain"}. *)
EXTENDS Integers, Sequences, TLC, TLCExt, Json, IOUtils
Traces == JsonDeserialize(IOEnv.TRACES_FILE)
VARIABLE tid
T == Traces[tid]

\* declarative layer only: the model's constants and variables are dummies here
D == INSTANCE PinTsv WITH ProtSep <- ":", MaxFeat <- 0, MaxRows <- 0, MaxProt <- 0,
                          Mut_EndOffByOne <- FALSE, Mut_KeepDD <- FALSE, Mut_ValidSkipsDD <- FALSE,
                          case <- 0, x <- 0, src <- 0, pass <- 0, pc <- 0, cur <- 0, ncol <- 0, idx <- 0,
                          out <- 0, out1 <- 0

X == [lines |-> T.lines_in, nl |-> T.nl_in, sep |-> T.sep]
Y == [lines |-> T.lines_out, nl |-> T.nl_out, sep |-> T.sep]
Domain == D!InDomain(X)

\* one named clause per obligation (short names: the engine's print parser needs the VERDICT tuple on one line)
ClausesIn(exp) ==
   [NoRaise  |-> T.raised = "",
    Header   |-> D!SameHeader(T.lines_out, X),                  \* same header
    RowCount |-> D!OneLinePerPsm(T.lines_out, X),               \* one line per PSM (DefaultDirection dropped)
    Rect     |-> D!RectOut(T.lines_out, X),                     \* rectangular
    Fields   |-> D!NonProteinUnchanged(T.lines_out, X),         \* original order, non-protein fields unchanged
    Proteins |-> D!ProteinsJoined(T.lines_out, X),              \* proteins joined by the protein separator T.sep
    Exact    |-> T.lines_out = exp,                             \* field by field the recomputed conversion
    ValidIn  |-> T.valid_in = D!ValidDef(X),
    ValidOut |-> T.valid_out /\ Len(T.lines_out) >= 1 /\ D!ValidDef(Y),
    Idem     |-> T.second_pass_equal /\ T.lines_out2 = T.lines_out /\ T.nl_out2 = T.nl_out,
    Cli      |-> T.cli.ran => /\ T.cli.lines = exp
                              /\ D!ValidDef([lines |-> T.cli.lines, nl |-> T.cli.nl, sep |-> T.sep])
                              /\ (D!ValidDef(X) => T.cli.nl = T.nl_in)]
Order == <<"NoRaise", "Header", "RowCount", "Rect", "Fields", "Proteins", "Exact", "ValidIn", "ValidOut", "Idem", "Cli">>
Clauses == ClausesIn(D!ConvertDef(X))
\* mode "valid": only is_valid_tsv(input) was called, on an arbitrary text (lines narrower or wider than the header,
\* PinValid.tla); the domain is then: a header and at least one more line, no empty field at a line start / end
ValidOnly == T.mode = "valid"
ValidDomain == /\ Len(T.lines_in) >= 2
               /\ \A i \in 1..Len(T.lines_in) : LET ln == T.lines_in[i] IN
                     Len(ln) >= 1 /\ ln[1] # "" /\ (ln[Len(ln)] # "" \/ (i >= 2 /\ Len(ln) >= 2))   \* (a data line may END in an empty field)
Failed == IF ValidOnly THEN (IF ~ValidDomain THEN {}
                             ELSE (IF T.raised = "" THEN {} ELSE {"NoRaise"}) \cup
                                  (IF T.valid_in = D!ValidDef(X) THEN {} ELSE {"ValidIn"}))
          ELSE IF Domain THEN {c \in DOMAIN Clauses : ~Clauses[c]} ELSE {}
\* printed: the first three failed clauses in Order and "+n" for the n others (line width); the verdict uses Failed
Shown(F) == LET fs == SelectSeq(Order, LAMBDA c : c \in F) IN
            IF Len(fs) <= 3 THEN F ELSE {fs[1], fs[2], fs[3], "+" \o ToString(Len(fs) - 3)}
Init == tid \in 1..Len(Traces)
Spec == Init /\ [][UNCHANGED tid]_tid
Verdict == LET F == Failed IN
           PrintT(<<"VERDICT", T.tid, IF F = {} THEN "accept" ELSE "reject",
                    IF (IF ValidOnly THEN ValidDomain ELSE Domain) THEN Shown(F) ELSE {"OutOfDomain"}>>)
=============================================================================
