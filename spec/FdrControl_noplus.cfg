SPECIFICATION Spec
CONSTANTS MaxN = 3 PlusOne = 0 Alphas <- AlphaSet
INVARIANT Controlled
CHECK_DEADLOCK FALSE
