SPECIFICATION FairSpec
CONSTANTS MaxFiles = 3 Stems = {"run", "b"} Dirs = {"d1", "d2"} AsIs_PrefixIsStem = FALSE
PROPERTY Halts
CHECK_DEADLOCK FALSE
