SPECIFICATION FairSpec
CONSTANTS ProtSep = ":" MaxFeat = 1 MaxRows = 2 MaxProt = 2 Mut_EndOffByOne = FALSE Mut_KeepDD = FALSE Mut_ValidSkipsDD = FALSE
PROPERTY Halts
CHECK_DEADLOCK FALSE
