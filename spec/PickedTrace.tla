----------------------------- MODULE PickedTrace -----------------------------
(* Property-level acceptor for C15 on results recorded from the real mokapot.picked_protein (mode "direct")
   and from targets.proteins / decoys.proteins written by mokapot.assign_confidence(proteins=...) (mode "e2e").

   trace = [tid, mode, prefix, fasta_decoys : BOOLEAN (the FASTA file held the decoy entries),
     -- the structure the generator built into the FASTA file (intent) --
     pairs : [ [t: [target member names], d: [decoy member names]] .. ]           pair p = index
     peps  : [ [own: 0 (shared) | p, tseq: target string, dseq: decoy string] .. ]  stripped peptide id = index
     -- what mokapot.read_fasta returned for that file (the Proteins object handed to the code) --
     pm : [ [seq, members: [names]] .. ]   peptide_map, the group name split at ", "
     sh : [ seq .. ]                       keys of shared_peptides
     pmap : [ [t, d] .. ]                  protein_map
     has_decoys
     -- the peptide table --
     rows : [ [pid, tgt, rank (HIGHER = BETTER), s4 (= 4 * score handed to the code), str (the peptide as written:
               notation `nota` applied to seq), seq (the stripped sequence), nota] .. ]
     -- the result --
     raised : "" | exception type
     out : [ [members: [names] ("mokapot protein group" split at ", "), best, stripped, s4, tgt, q: [num, den, ok]] .. ]
           e2e: tgt = the row stands in targets.proteins; direct: q = [0, 1, TRUE] (no q-values are returned) ]

   The clauses are the operators D_* of Picked.tla evaluated on (rows, own, entries); ties -> any winner.
   InputOK is the generator's side of the binding (the Proteins object realises the intended structure, peptide
   strings are distinct, scores are ordered like the ranks): a trace failing it is a harness failure, not a verdict. *)
EXTENDS Integers, Sequences, FiniteSets, TLC, TLCExt, Json, IOUtils, SequencesExt
D == INSTANCE Picked WITH     \* only the constant-free operators D_* (and Rat!Eq) are used: dummies for the rest
        MaxRows <- 1, NPair <- 1, Kinds <- {"single"}, WithUnmapped <- FALSE, AsIs_AllSharedKeyError <- FALSE,
        AsIs_PairByFirstName <- FALSE, Mut_NoStrip <- FALSE, Mut_SharedContribute <- FALSE, Mut_NoCollapse <- FALSE,
        Mut_KeepWorst <- FALSE, n <- 0, pid <- <<>>, own <- <<>>, ptgt <- <<>>, rank <- <<>>, gk <- <<>>, pc <- "",
        stripped <- <<>>, grp <- <<>>, key <- <<>>, out <- {}, qv <- <<>>

Traces == JsonDeserialize(IOEnv.TRACES_FILE)
VARIABLE tid
T == Traces[tid]

NP == Len(T.pairs)
TM(p) == ToSet(T.pairs[p].t)
DM(p) == ToSet(T.pairs[p].d)
R == [i \in 1..Len(T.rows) |-> [pep |-> T.rows[i].pid, tgt |-> T.rows[i].tgt, rank |-> T.rows[i].rank]]
Own == [k \in 1..Len(T.peps) |-> T.peps[k].own]

\* the input row whose peptide an output row reports (0: none or ambiguous), and the group it names (<<0, _>>: none)
RowOf(o) == LET S == {i \in 1..Len(T.rows) : T.rows[i].str = o.best}
            IN IF Cardinality(S) = 1 THEN CHOOSE i \in S : TRUE ELSE 0
GroupOf(o) == LET m == ToSet(o.members)
                  S == {x \in (1..NP) \X BOOLEAN : m = (IF x[2] THEN TM(x[1]) ELSE DM(x[1]))}
              IN IF S = {} THEN <<0, TRUE>> ELSE CHOOSE x \in S : TRUE
EntryOf(o) == LET g == GroupOf(o) IN [row |-> RowOf(o), pair |-> g[1], tgt |-> g[2]]
Entries == {EntryOf(T.out[k]) : k \in 1..Len(T.out)}

(* ---- generator's side ---- *)
PMGet(s) == LET S == {k \in 1..Len(T.pm) : T.pm[k].seq = s}
            IN IF S = {} THEN {} ELSE ToSet(T.pm[CHOOSE k \in S : TRUE].members)
InputOK ==
   LET SH == ToSet(T.sh)  PMAP == ToSet(T.pmap)  nr == Len(T.rows)
   IN /\ NP >= 1       \* (T.has_decoys, the reader's own opinion, is NOT part of the binding: the clauses judge the result against the FASTA as written)
      /\ \A p \in 1..NP : /\ TM(p) # {} /\ DM(p) = {T.prefix \o m : m \in TM(p)}
                          /\ \A m \in TM(p) : <<m, T.prefix \o m>> \in PMAP
                          /\ \A r \in 1..NP : r # p => TM(p) \cap TM(r) = {}
      /\ \A k \in 1..Len(T.peps) :
            LET e == T.peps[k]
            IN /\ e.own \in 0..NP
               /\ IF e.own >= 1 THEN /\ PMGet(e.tseq) = TM(e.own)
                                     /\ T.fasta_decoys => PMGet(e.dseq) = DM(e.own)
                  ELSE /\ e.tseq \in SH /\ PMGet(e.tseq) = {}
                       /\ T.fasta_decoys => (e.dseq \in SH /\ PMGet(e.dseq) = {})
               /\ ~T.fasta_decoys => (PMGet(e.dseq) = {} /\ e.dseq \notin SH)
      /\ \A i \in 1..nr : LET r == T.rows[i]
                          IN /\ r.pid \in 1..Len(T.peps)
                             /\ r.seq = (IF r.tgt THEN T.peps[r.pid].tseq ELSE T.peps[r.pid].dseq)
      /\ \A i, j \in 1..nr : /\ i # j => T.rows[i].str # T.rows[j].str
                             /\ (T.rows[i].rank < T.rows[j].rank) <=> (T.rows[i].s4 < T.rows[j].s4)

(* ---- the property ---- *)
Clauses ==
   LET r == R  own == Own  E == Entries  no == Len(T.out)
       known == \A e \in E : e.row # 0 /\ e.pair # 0
   IN [Returned    |-> T.raised = "",
       \* every row reports a peptide of the table and names a group of the database
       KnownPeptide |-> \A e \in E : e.row # 0,
       KnownGroup  |-> \A e \in E : e.pair # 0,
       \* exactly one entry per pair with a retained unique peptide
       OnePerPair  |-> D!D_OnePerPair(r, own, E) /\ Cardinality(E) = no,
       \* the entry is the side of the pair that owns the reported peptide ...
       OwnerGroup  |-> D!D_Owner(r, own, E),
       \* ... which is a best unique peptide of the pair
       BestPeptide |-> D!D_Best(r, own, E),
       SharedNever |-> D!D_SharedNever(r, own, E),
       \* it reports that peptide, its stripped sequence, its score (and its target flag)
       Reports     |-> \A k \in 1..no : LET o == T.out[k]  i == RowOf(o)
                                        IN i # 0 /\ o.stripped = T.rows[i].seq /\ o.s4 = T.rows[i].s4
                                           /\ o.tgt = T.rows[i].label,      \* the label the table gave that row (tgt = the side owning its sequence)
       \* q-values: C01 over exactly these entries
       QExact      |-> T.mode = "e2e" =>
                         /\ known /\ Cardinality(E) = no
                         /\ LET dq == D!D_Q(r, E)
                            IN \A k \in 1..no : LET o == T.out[k]
                                                IN o.q[3] /\ D!Eq(<<o.q[1], o.q[2]>>, dq[EntryOf(o)])]
Failed == IF ~InputOK THEN {"InputOK"}
          ELSE LET c == Clauses IN {x \in DOMAIN c : ~c[x]}
Init == tid \in 1..Len(Traces)
Spec == Init /\ [][UNCHANGED tid]_tid
Verdict == LET f == Failed IN PrintT(<<"VERDICT", T.tid, IF f = {} THEN "accept" ELSE "reject", f>>)
=============================================================================
