SPECIFICATION Spec
CONSTANTS NData = 2 NOrders = 2 NPaths = 2 MaxOps = 5 Mut = "save_drops_trained_flag"
INVARIANT AnswersByLastFit
CHECK_DEADLOCK FALSE
