SPECIFICATION Spec
CONSTANTS BufSizes = {0, 1, 2, 3, 4, 5} MaxAppends = 3 MaxRows = 4
          Mut_FlushLosesRemainder = FALSE Mut_SliceOffByOne = FALSE Mut_NoTruncate = FALSE Mut_NoClose = FALSE
INVARIANT NoLoss
INVARIANT Final
INVARIANT Bounded
CHECK_DEADLOCK FALSE
