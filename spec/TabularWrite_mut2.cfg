SPECIFICATION Spec
CONSTANTS BufSizes = {0, 2, 3} MaxAppends = 2 MaxRows = 3
          Mut_FlushLosesRemainder = FALSE Mut_SliceOffByOne = TRUE Mut_NoTruncate = FALSE Mut_NoClose = FALSE
INVARIANT NoLoss
CHECK_DEADLOCK FALSE
