SPECIFICATION FairSpec
CONSTANTS
  FeatLo = 1 FeatHi = 2 OptSets <- OptWidth LevSets <- LevNone
  Orders = {"std", "mix"}
  Casings = {"mixed"}
  Encs = {"pm"}
  NanCls = {"none", "two"}
  Chunks = {2, 19}
  Workers = {1, 2}
  RowCls = {"one", "two"}
  Errs = {"none", "no_label", "lab2"}
  NRows = 3 Rotate = FALSE RotK = 1
  AsIs_Remainder1Only = FALSE AsIs_ChargeDefaultName = TRUE
  Mut_KeepSingleNaN = FALSE Mut_CaseSensitive = FALSE Mut_ZeroIsTarget = FALSE Mut_KeyFileOrder = FALSE
PROPERTY Halts
CHECK_DEADLOCK FALSE
