SPECIFICATION Spec
CONSTANTS NData = 2 NOrders = 2 NPaths = 2 MaxOps = 5 Mut = "none"
INVARIANT AnswersByLastFit
INVARIANT TrainedIffFitted
INVARIANT NamesFollowEstimator
CHECK_DEADLOCK FALSE
