------------------------------ MODULE RollupTool ------------------------------
(* Implementation-shaped model of the stand-alone rollup tool working in ONE directory over a HISTORY of operations
   (mokapot/brew_rollup.py do_rollup:259-454), against the declarative layer RollupDef (RollOK).  Properties C03 (the rule
   on previously written result files) and C09 (files left by earlier runs of the tool never alter a run's results).

   History operations (one StartOp each):
     put(stem, v)     the result files of collection <stem> (version v of its content) are placed in the directory
     drop(stem)       the collection is withdrawn (its files are deleted)
     roll(root, base) the tool runs with --file_root root --level base, source = destination = the directory
   One roll, step by step:
     Glob     target_files / decoy_files = sorted(src_dir.glob("*.targets.<base>s")), ...decoys...           (293-298)
     Filter   files whose name starts with file_root + "." are dropped                                       (299-304)
     Levels   compute_rollup_levels, kept when present as a column; temp writers are created (truncating)    (316-372)
     Merge    rows arrive in non-increasing score order (MergedTabularDataReader); per level, an entity not yet
              seen is added to the level's seen-set and the row is appended to the level's temp file          (383-405)
     Write    per level: q-values / PEPs over the temp rows, targets and decoys to their files                (427-450)
   The temp files stay in the directory (as in the code).  Faults the model can be given:
     Mut_NoDot          startswith(file_root) without the dot          Mut_ReadUnfiltered  readers built from the unfiltered lists
     Mut_SharedSeen     one seen-set shared by all levels              Mut_BreakOnSeen     leave the level loop at the first seen entity
     Mut_KeyWithDecoy   seen key = (entity, is_decoy)                  Mut_TempAppend      temp files appended to, not truncated
   Formats (Exts): a collection is put as text or Parquet files; a roll reads the format Suffix says, writes its files in it, and
   refuses to run when files of the base level exist in both formats (Glob -> idle, nothing written).
     AsIs_BaseNames     the command-line level word is fed to the parent table untranslated (pinned tree, F-03f) *)
EXTENDS RollupDef

CONSTANTS Stems, Roots, Cols, BaseSet, MaxOps, NRows, Exts,
          Mut_NoDot, Mut_ReadUnfiltered, Mut_SharedSeen, Mut_BreakOnSeen, Mut_KeyWithDecoy, Mut_TempAppend, AsIs_BaseNames

\* ---- the fixed small world of the model: NRows PSMs, two versions of content per collection ----
Ids == 1..NRows
\* entities chosen so that levels are NOT nested, identifiers coincide across levels, and a target and a decoy share an entity
RowsM == [x \in Ids |-> [key |-> <<1 + (x % 2), 1 + (x % 3), 1 + ((x * x) % 3), 1 + (x \div 3)>>, tgt |-> (x % 3 # 0), rank |-> x]]
SA == <<"a">>   SRB == <<"r", "b">>   SR == <<"r">>   SQ == <<"q">>
Content(stem, v) == IF stem = SA THEN (IF v = 1 THEN {x \in Ids : x % 2 = 1} ELSE {x \in Ids : x <= 2})
                    ELSE (IF v = 1 THEN {x \in Ids : x % 2 = 0} ELSE {x \in Ids : x >= NRows - 1})
\* what assign_confidence left for a collection at a level word (the C03 rule itself, tie free here: ranks are distinct)
InWord == [precursor |-> "precursor", modified_peptide |-> "modifiedpeptide", peptide |-> "peptide", peptide_group |-> "peptidegroup"]
CollFile(stem, v, l) == IF l = "psm" THEN Content(stem, v) ELSE UniqueLevel(RowsM, Content(stem, v), LvIdx(l))
PutOp(f, stem, v, ext) ==
   LET g == Del(f, {n \in DOMAIN f : n.stem = stem /\ n.td \in {"t", "d"}})
       files == {<<Nm(stem, td, IF l = "psm" THEN l ELSE InWord[l], ext), {x \in CollFile(stem, v, l) : RowsM[x].tgt = (td = "t")}>> :
                    td \in {"t", "d"}, l \in Cols \cup {"psm"}}
   IN [m \in DOMAIN g \cup {e[1] : e \in files} |-> IF m \in {e[1] : e \in files} THEN (CHOOSE e \in files : e[1] = m)[2] ELSE g[m]]
DropOp(f, stem) == Del(f, {n \in DOMAIN f : n.stem = stem /\ n.td \in {"t", "d"}})

ExtsCsv == {"csv"}
ExtsBoth == {"csv", "pq"}
Bases3 == {"psm", "precursor", "peptide"}
StemsA == {SA}
RootsR == {SR}
BasesPep == {"peptide", "precursor"}
StemsDef == {SA, SRB}
RootsDef == {SR, SQ}
ColsAll == {"precursor", "modified_peptide", "peptide", "peptide_group"}
Cols3 == {"precursor", "modified_peptide", "peptide"}
BasesAll == Bases
Ops == [op : {"put"}, stem : Stems, v : {1, 2}, ext : Exts] \cup [op : {"drop"}, stem : Stems] \cup [op : {"roll"}, root : Roots, base : BaseSet]

VARIABLES fs, pc, cur, fs0, inp, lv, pend, seen, temp, todo, hist
vars == <<fs, pc, cur, fs0, inp, lv, pend, seen, temp, todo, hist>>

Init == /\ fs = <<>> /\ pc = "idle" /\ cur = [op |-> "none"] /\ fs0 = <<>> /\ inp = {} /\ lv = {} /\ pend = {}
        /\ seen = <<>> /\ temp = <<>> /\ todo = {} /\ hist = <<>>

StartOp == /\ pc = "idle" /\ Len(hist) < MaxOps
           /\ \E o \in Ops :
                /\ hist' = Append(hist, o) /\ cur' = o
                /\ CASE o.op = "put" -> fs' = PutOp(fs, o.stem, o.v, o.ext) /\ pc' = "idle" /\ UNCHANGED fs0
                     [] o.op = "drop" -> o.stem \in {n.stem : n \in DOMAIN fs} /\ fs' = DropOp(fs, o.stem) /\ pc' = "idle" /\ UNCHANGED fs0
                     [] o.op = "roll" -> fs' = fs /\ fs0' = fs /\ pc' = "glob"
           /\ UNCHANGED <<inp, lv, pend, seen, temp, todo>>
Sfx == Suffix(fs0, cur.base)
Glob == /\ pc = "glob"
        /\ IF Refuses(fs, cur.base) THEN inp' = {} /\ pc' = "idle"           \* RuntimeError: both formats found (286-289)
           ELSE inp' = {n \in DOMAIN fs : n.lvl = cur.base /\ n.td \in {"t", "d"} /\ n.ext = Suffix(fs, cur.base)} /\ pc' = "filter"
        /\ UNCHANGED <<fs, cur, fs0, lv, pend, seen, temp, todo, hist>>
IsOwn(stem) == IF Mut_NoDot THEN OwnNoDot(stem, cur.root) ELSE Own(stem, cur.root)
Filter == /\ pc = "filter"
          /\ LET kept == {n \in inp : ~IsOwn(n.stem)}  rd == IF Mut_ReadUnfiltered THEN inp ELSE kept IN
             /\ inp' = rd
             /\ pc' = IF rd = {} THEN "idle" ELSE "levels"          \* no input file: outside the statement (the tool fails)
          /\ UNCHANGED <<fs, cur, fs0, lv, pend, seen, temp, todo, hist>>
TempName(l) == Nm(cur.root, "temp", l, Sfx)
Levels == /\ pc = "levels"
          /\ lv' = LevelsFor(cur.base, Cols, AsIs_BaseNames)
          /\ pend' = {e \in inp \X Ids : e[2] \in fs[e[1]]}
          /\ seen' = [l \in lv' |-> {}]
          /\ temp' = [l \in lv' |-> IF Mut_TempAppend /\ TempName(l) \in DOMAIN fs THEN fs[TempName(l)] ELSE {}]
          /\ pc' = "merge" /\ UNCHANGED <<fs, cur, fs0, inp, todo, hist>>
KeyOf(x, l) == IF Mut_KeyWithDecoy THEN <<RowsM[x].key[LvIdx(l)], RowsM[x].tgt>> ELSE <<RowsM[x].key[LvIdx(l)]>>
\* the level loop of one merged row, in list order; st = <<seen, temp, stopped>>
LvSeq == SetToSortSeq(lv, LAMBDA a, b : LvIdx(a) < LvIdx(b))
RECURSIVE Visit(_, _, _)
Visit(x, i, st) ==
   IF i > Len(LvSeq) \/ st[3] THEN st
   ELSE LET l == LvSeq[i]
            sn == IF Mut_SharedSeen THEN UNION {st[1][m] : m \in lv} ELSE st[1][l]
            k == KeyOf(x, l)
        IN IF k \in sn THEN Visit(x, i + 1, <<st[1], st[2], Mut_BreakOnSeen>>)
           ELSE Visit(x, i + 1, <<[st[1] EXCEPT ![l] = @ \cup {k}], [st[2] EXCEPT ![l] = @ \cup {x}], FALSE>>)
MergeStep == /\ pc = "merge" /\ pend # {}
             /\ \E e \in pend : /\ \A e2 \in pend : RowsM[e2[2]].rank <= RowsM[e[2]].rank
                                /\ LET st == Visit(e[2], 1, <<seen, temp, FALSE>>) IN seen' = st[1] /\ temp' = st[2]
                                /\ pend' = pend \ {e}
             /\ UNCHANGED <<fs, pc, cur, fs0, inp, lv, todo, hist>>
MergeDone == /\ pc = "merge" /\ pend = {}
             /\ fs' = [m \in DOMAIN fs \cup {TempName(l) : l \in lv} |-> IF \E l \in lv : m = TempName(l) THEN temp[CHOOSE l \in lv : m = TempName(l)] ELSE fs[m]]
             /\ todo' = lv /\ pc' = "write" /\ UNCHANGED <<cur, fs0, inp, lv, pend, seen, temp, hist>>
WriteLevel == /\ pc = "write" /\ todo # {}
              /\ \E l \in todo :
                   /\ fs' = Put(Put(fs, Nm(cur.root, "t", l, Sfx), {x \in temp[l] : RowsM[x].tgt}), Nm(cur.root, "d", l, Sfx), {x \in temp[l] : ~RowsM[x].tgt})
                   /\ todo' = todo \ {l}
              /\ UNCHANGED <<pc, cur, fs0, inp, lv, pend, seen, temp, hist>>
Finish == /\ pc = "write" /\ todo = {} /\ pc' = "idle" /\ UNCHANGED <<fs, cur, fs0, inp, lv, pend, seen, temp, todo, hist>>

Next == StartOp \/ Glob \/ Filter \/ Levels \/ MergeStep \/ MergeDone \/ WriteLevel \/ Finish
Spec == Init /\ [][Next]_vars

\* ---- properties ----
InDomain == InputRows(fs0, cur.root, cur.base) # {}
\* C03: the finished roll obeys the rule on the input files of the directory it started in
RollObeysRule == [][(pc = "write" /\ pc' = "idle" /\ InDomain) => RollOK(RowsM, fs0, fs', cur.root, cur.base, Cols)]_vars
\* C09: ... and the same outputs come out of the clean directory (the tool's own earlier files removed); tie free here
LeftoversNeverMatter ==
   [][(pc = "write" /\ pc' = "idle" /\ InDomain) =>
        \A l \in LevelsPromised(cur.base, Cols) :
           /\ Nm(cur.root, "t", l, Sfx) \in DOMAIN fs'
           /\ fs'[Nm(cur.root, "t", l, Sfx)] \cup fs'[Nm(cur.root, "d", l, Sfx)]
                 = UniqueLevel(RowsM, InputRows(Clean(fs0, cur.root), cur.root, cur.base), LvIdx(l))]_vars
\* the tool never modifies a file that is not its own
InputsNeverTouched == [][pc # "idle" => InputsUntouched(fs, fs', cur.root)]_vars
\* OBSERVATION (a config TLC must reject, RollupTool_obs1.cfg): the refusal can be caused by the tool's own earlier files alone --
\* e.g. a roll over Parquet collections, the collections replaced by text ones, the next roll refuses although its inputs are fine
RefusalNeverByLeftovers == [][(pc = "glob" /\ pc' = "idle") => Refuses(Clean(fs, cur.root), cur.base)]_vars
TypeOK == pc \in {"idle", "glob", "filter", "levels", "merge", "write"}
\* behaviour generation: every history of MaxOps operations that ends with a roll
EmitCase == (pc = "idle" /\ Len(hist) = MaxOps /\ hist[MaxOps].op = "roll") => PrintT(<<"CASE", hist>>)
FairSpec == Spec /\ WF_vars(Next)
Halts == <>[](~ENABLED Next)
=============================================================================
