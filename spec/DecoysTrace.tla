----------------------------- MODULE DecoysTrace -----------------------------
(* Property-level acceptor for C18 on calls of the real mokapot.make_decoys recorded by drivers/c18.py.

   trace = [tid,
            targets : [[name, [code..]] ..]   the records the driver wrote into the input FASTA file(s), in order
            written : [[name, [code..]] ..]   the output file parsed by the driver's own minimal reader
            reread  : [[name, [code..]] ..]   the output file parsed by mokapot's reader
                                              (_parse_fasta_files + _parse_protein)
            prefix : STRING, concat, reverse : BOOLEAN, enzyme : "KR" | "K" | "KRnoP",
            raised : STRING                   only if make_decoys or the reader raised                ]
   names are strings (TLC concatenates them: prefix \o name), sequences are tuples of ASCII codes so
   that TLC can look at single residues.  The relation is Decoys!ValidDecoy / ValidFile, clause by clause:
   any permutation the RNG may have produced is accepted, nothing else. *)
EXTENDS Integers, Sequences, FiniteSets, TLC, TLCExt, Json, IOUtils
\* the declarative layer of Decoys.tla; its model constants and state variables play no role here
D == INSTANCE Decoys WITH MaxLen <- 0, MaxLen2 <- 0, Alphabet <- {}, Enzymes <- {}, Reverses <- {}, Concats <- {},
        Renderings <- {}, Width <- 70, LemmaMaxLen <- 0,
        Mut_MoveLast <- FALSE, Mut_JoinNoNewline <- FALSE, Mut_NameWithDesc <- FALSE,
        inp <- 0, pc <- 0, prots <- 0, pi <- 0, k <- 0, sites <- 0, perms <- 0, cur <- 0, decoys <- 0, text <- 0, back <- 0,
        napply <- 0
Traces == JsonDeserialize(IOEnv.TRACES_FILE)
VARIABLE tid
T == Traces[tid]
n == Len(T.targets)
off == IF T.concat THEN n ELSE 0
Tgt(i) == T.targets[i][2]
Dec(i) == T.written[off + i][2]
Shape == Len(T.written) = off + n
Aligned == Shape /\ \A i \in 1..n : D!SameLength(Tgt(i), Dec(i))
Clauses ==
   [NoException     |-> "raised" \notin DOMAIN T,
    KnownEnzyme     |-> T.enzyme \in D!EnzymeNames,
    RecordCount     |-> Shape,
    TargetsFirst    |-> T.concat => (Shape /\ \A i \in 1..n : T.written[i] = T.targets[i]),
    DecoyNames      |-> Shape /\ \A i \in 1..n : T.written[off + i][1] = T.prefix \o T.targets[i][1],
    SameLength      |-> Aligned,
    SameComposition |-> Shape /\ \A i \in 1..n : D!SameComposition(Tgt(i), Dec(i)),
    TerminiFixed    |-> Aligned /\ \A i \in 1..n : D!TerminiFixed(Tgt(i), Dec(i), T.enzyme),
    SameSites       |-> D!ResidueClass(T.enzyme) => (Aligned /\ \A i \in 1..n : D!SameSites(Tgt(i), Dec(i), T.enzyme)),
    Reversed        |-> T.reverse => (Aligned /\ \A i \in 1..n : D!InteriorReversed(Tgt(i), Dec(i), T.enzyme)),
    \* the conjunction of the clauses above, as the single relation model-checked in Decoys.tla
    ValidFile       |-> Aligned /\ D!ValidFile(T.targets, T.written, T.prefix, T.concat, T.enzyme, T.reverse),
    ReRead          |-> T.reread = T.written]
Failed == LET cl == Clauses IN {c \in DOMAIN cl : ~cl[c]}
Init == tid \in 1..Len(Traces)
Spec == Init /\ [][UNCHANGED tid]_tid
Verdict == LET f == Failed IN PrintT(<<"VERDICT", T.tid, IF f = {} THEN "accept" ELSE "reject", f>>)
=============================================================================
