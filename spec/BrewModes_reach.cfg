SPECIFICATION Spec
CONSTANTS Folds = 2 Mut_ScoreWithUntrained = FALSE
INVARIANT ZerosWithOverrideUnreachable
CHECK_DEADLOCK FALSE
