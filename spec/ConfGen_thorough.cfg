SPECIFICATION Spec
CONSTANTS MaxRows = 4 NSpec = 3 NKey = 2 NLev = 2 MaxRank = 3
INVARIANT EmitCase
CHECK_DEADLOCK FALSE
