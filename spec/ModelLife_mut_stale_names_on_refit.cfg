SPECIFICATION Spec
CONSTANTS NData = 2 NOrders = 2 NPaths = 2 MaxOps = 5 Mut = "stale_names_on_refit"
INVARIANT AnswersByLastFit
CHECK_DEADLOCK FALSE
