SPECIFICATION Spec
CONSTANTS NProt = 3 NPep = 3 AllNamings = FALSE
  Mut_SmallestFirst = FALSE Mut_FirstMatchOnly = TRUE Mut_NoUnpatch = FALSE Mut_SplitByProteins = FALSE Mut_PairEveryName = FALSE
INVARIANT WellFormed
INVARIANT EveryProteinGrouped
INVARIANT SetOfAMember
INVARIANT NoGroupInsideAnother
INVARIANT UniqueToSingleGroup
INVARIANT SharedExactly
INVARIANT PairingByName
INVARIANT EqualsCanonical
INVARIANT RemoveSafe
INVARIANT MapAgreesWithGroups
INVARIANT HasDecoysFlag
CHECK_DEADLOCK FALSE
