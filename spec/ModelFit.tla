----------------------------- MODULE ModelFit -----------------------------
(* Property C12: training feeds the estimator rows and labels of the same PSM, in any order.

   Implementation-shaped model of the index bookkeeping of mokapot.Model.fit (model.py:278-345) and of
   Model.predict (model.py:210-238), against a declarative layer that does not mention positions, the
   shuffle switch or the permutation drawn from the rng.

   Rows (PSMs) are 1..n, listed in input order.  A row has a target flag tgt[r], the value a[r] of the feature
   named by Model(direction=...) and the value r of a second feature (an injective estimator feature can be
   taken to be the row number without loss of generality: renaming the rows conjugates `perm`, and every
   permutation is explored).  Labels are the C01 rule of TdcDef at the threshold thr (dataset.py:446-449,
   702-731 delegate to qvalues.tdc, which C01 verifies): +1 target with q <= thr, 0 other target, -1 decoy.

   The estimator is deterministic, row-wise and it LEARNS, so that feeding a row with the label of another
   row changes what it predicts:
       Est(k, mem, r) = 3 * (r if k is odd, a[r] if k is even) + mem[r]
   where k counts its fit() calls and mem[r] = 2 / 0 / 1 when r was fed to that fit as positive / as
   negative / not at all.  drivers/c12.py:IntEst is this function on the real feature matrix.

   AsIs_UnconditionalUnshuffle reproduces the current code: the un-shuffle `scores[original_idx]` (model.py:312)
   and the re-shuffle `target[shuffled_idx]` (model.py:316) are applied although nothing was shuffled.
   Mut_* are seeded design faults (sensitivity of the model).

   Configs: _quick (n<=4, thr {1/2, 1}), _mid (n<=4, + 0.3701), _thorough (n<=5, strict direction feature, thr
   {1/4, 1/2}), _cov; _asis / _asis_fed / _asis_abort / _asis_pred (AsIs = TRUE: each names one invariant TLC must
   refute), _asis_shuffled / _asis_shuffled4 (AsIs = TRUE restricted to shuffle = TRUE: everything holds),
   _mut1.._mut3; _gen3 / _gen4 (every run as a CASE line), _gen4s / _gen5s (hash sample GenMod). *)
EXTENDS TdcDef, TLC

CONSTANTS MaxN,                          \* rows 2..MaxN
          MaxIter,                       \* Model(max_iter=..) ranges over 1..MaxIter
          Thresholds,                    \* train_fdr values, as <<num, den>>
          ShuffleVals,                   \* values of Model(shuffle=..) explored
          StrictA,                       \* TRUE: the direction feature has no ties (reduced configs)
          AsIs_UnconditionalUnshuffle,
          Mut_NoReshuffle,               \* fault: updated labels are not brought into the shuffled order
          Mut_FeedUnlabeled,             \* fault: rows with label 0 are handed to the estimator too
          Mut_InverseMixup,              \* fault: scores un-shuffled with shuffled_idx instead of argsort(shuffled_idx)
          GenMod                         \* behaviour generation: 1 = every run; m > 1 = the runs whose input hashes to 0 mod m

ThrSmall == {<<1, 2>>, <<1, 1>>}
ThrMid   == {<<1, 2>>, <<3701, 10000>>, <<1, 1>>}
ThrAll   == {<<1, 4>>, <<3701, 10000>>, <<1, 2>>, <<1, 1>>}
ThrLow   == {<<1, 4>>, <<1, 2>>}
BothB == BOOLEAN
OnlyTrue == {TRUE}
OnlyFalse == {FALSE}

VARIABLES n, tgt, a, thr, shuffle, perm,        \* the input, the configuration and the rng's permutation
          pc, it,
          rowAt, labelAt,                       \* training matrix: row and label held at position j
          mem,                                  \* state of the estimator after its last fit
          scores,                               \* what is handed to psms._update_labels
          fedLog, scoLog,                       \* history: per iteration the <<row, y>> pairs fed / the estimator's score of every row
          pred                                  \* Model.predict(psms), by row
vars == <<n, tgt, a, thr, shuffle, perm, pc, it, rowAt, labelAt, mem, scores, fedLog, scoLog, pred>>

Perms(m) == {p \in [1..m -> 1..m] : \A i, j \in 1..m : i # j => p[i] # p[j]}
Inv(p) == [i \in 1..n |-> CHOOSE j \in 1..n : p[j] = i]                       \* np.argsort(perm)
Canonical(f, m) == \E top \in 1..m : {f[i] : i \in 1..m} = 1..top
Ident == [j \in 1..n |-> j]

(* ------------------------------- shared vocabulary ------------------------------- *)
LabelsUnder(rank) == LET qm == QMap(rank, tgt, n) IN [r \in 1..n |-> LabelOf(tgt[r], qm[rank[r]], thr)]
NPos(L) == Cardinality({r \in 1..n : L[r] = 1})
Rev(rank) == [r \in 1..n |-> n + 1 - rank[r]]                                   \* "lower is better" as ranks
\* initial direction (model.py:585-600): the better orientation of the named feature, descending on a draw
StartLabels == LET D == LabelsUnder(a)  A == LabelsUnder(Rev(a)) IN IF NPos(D) >= NPos(A) THEN D ELSE A
MemoOf(fed) == [r \in 1..n |-> IF <<r, 1>> \in fed THEN 2 ELSE IF <<r, 0>> \in fed THEN 0 ELSE 1]
Est(k, m, r) == 3 * (IF k % 2 = 1 THEN r ELSE a[r]) + m[r]

(* ------------------------------- implementation-shaped layer ------------------------------- *)
Init == /\ pc = "pick1" /\ n = 0 /\ tgt = <<>> /\ a = <<>> /\ thr = One /\ shuffle = TRUE /\ perm = <<>>
        /\ it = 0 /\ rowAt = <<>> /\ labelAt = <<>> /\ mem = <<>> /\ scores = <<>>
        /\ fedLog = <<>> /\ scoLog = <<>> /\ pred = <<>>

\* the dataset: both classes present (model.py:265-269 reject anything else)
Pick1 == /\ pc = "pick1"
         /\ \E m \in 2..MaxN : \E t \in [1..m -> BOOLEAN] : \E f \in [1..m -> 1..m] :
               /\ \E i, j \in 1..m : t[i] /\ ~t[j]
               /\ IF StrictA THEN f \in Perms(m) ELSE Canonical(f, m)
               /\ n' = m /\ tgt' = t /\ a' = f
         /\ pc' = "pick2"
         /\ UNCHANGED <<thr, shuffle, perm, it, rowAt, labelAt, mem, scores, fedLog, scoLog, pred>>
\* the configuration, and the permutation the rng will return (model.py:291; drawn whether or not shuffle is set)
Pick2 == /\ pc = "pick2"
         /\ thr' \in Thresholds /\ shuffle' \in ShuffleVals /\ perm' \in Perms(n)
         /\ pc' = "start"
         /\ UNCHANGED <<n, tgt, a, it, rowAt, labelAt, mem, scores, fedLog, scoLog, pred>>
\* model.py:279-301  starting labels in row order; features and labels shuffled iff the switch is on
Start == /\ pc = "start"
         /\ LET st == StartLabels IN
            IF NPos(st) = 0 THEN pc' = "nostart" /\ UNCHANGED <<rowAt, labelAt>>       \* model.py:609 RuntimeError
            ELSE /\ rowAt'   = IF shuffle THEN perm ELSE Ident                          \* norm_feat[shuffled_idx, :]
                 /\ labelAt' = IF shuffle THEN [j \in 1..n |-> st[perm[j]]] ELSE st     \* start_labels[shuffled_idx]
                 /\ pc' = "fit"
         /\ UNCHANGED <<n, tgt, a, thr, shuffle, perm, it, mem, scores, fedLog, scoLog, pred>>
\* model.py:306-308  samples = norm_feat[target.astype(bool)], iter_targ = (target[...] + 1) / 2, model.fit
Fit == /\ pc = "fit"
       /\ LET P == IF Mut_FeedUnlabeled THEN 1..n ELSE {j \in 1..n : labelAt[j] # 0}
              fed == {<<rowAt[j], (labelAt[j] + 1) \div 2>> : j \in P}
          IN /\ mem' = MemoOf(fed) /\ fedLog' = Append(fedLog, fed)
       /\ it' = it + 1 /\ pc' = "score"
       /\ UNCHANGED <<n, tgt, a, thr, shuffle, perm, rowAt, labelAt, scores, scoLog, pred>>
\* model.py:311-312  scores = _get_scores(model, norm_feat); scores = scores[original_idx]
Score == /\ pc = "score"
         /\ LET scorePos == [j \in 1..n |-> Est(it, mem, rowAt[j])]
                idx == IF Mut_InverseMixup THEN perm ELSE Inv(perm)
            IN scores' = IF shuffle \/ AsIs_UnconditionalUnshuffle
                           THEN [i \in 1..n |-> scorePos[idx[i]]] ELSE scorePos
         /\ scoLog' = Append(scoLog, [r \in 1..n |-> Est(it, mem, r)])
         /\ pc' = "update"
         /\ UNCHANGED <<n, tgt, a, thr, shuffle, perm, it, rowAt, labelAt, mem, fedLog, pred>>
\* model.py:315-324  target = psms._update_labels(scores, train_fdr)  -- pairs scores[i] with targets[i] of ROW i;
\*                   target = target[shuffled_idx]; num_passed == 0 -> RuntimeError
Update == /\ pc = "update"
          /\ LET lab  == LabelsUnder(scores)
                 resh == IF (shuffle \/ AsIs_UnconditionalUnshuffle) /\ ~Mut_NoReshuffle
                           THEN [j \in 1..n |-> lab[perm[j]]] ELSE lab
             IN /\ labelAt' = resh
                /\ pc' = IF NPos(resh) = 0 THEN "abort" ELSE "iterdone"
          /\ UNCHANGED <<n, tgt, a, thr, shuffle, perm, it, rowAt, mem, scores, fedLog, scoLog, pred>>
\* next round of `for i in range(self.max_iter)`
More == /\ pc = "iterdone" /\ it < MaxIter /\ pc' = "fit"
        /\ UNCHANGED <<n, tgt, a, thr, shuffle, perm, it, rowAt, labelAt, mem, scores, fedLog, scoLog, pred>>
\* max_iter = it: the loop ends (override=True: model.py:326-334 only warns), then Model.predict on the same
\* PSMs (model.py:227-238: features selected by the stored names, rows in input order)
Predict == /\ pc = "iterdone"
           /\ pred' = [r \in 1..n |-> Est(it, mem, r)]
           /\ pc' = "done"
           /\ UNCHANGED <<n, tgt, a, thr, shuffle, perm, it, rowAt, labelAt, mem, scores, fedLog, scoLog>>
Next == Pick1 \/ Pick2 \/ Start \/ Fit \/ Score \/ Update \/ More \/ Predict
Spec == Init /\ [][Next]_vars

(* ------------------------------- declarative layer ------------------------------- *)
\* labels in force in iteration k: from the initial direction, then from the estimator's scores of the
\* previous iteration (the scores it really gave to each ROW, whatever position the row was at)
ExpLabels(k) == IF k = 1 THEN StartLabels ELSE LabelsUnder(scoLog[k - 1])
DeclFed(L) == {<<r, 1>> : r \in {r \in 1..n : L[r] = 1}} \cup {<<r, 0>> : r \in {r \in 1..n : L[r] = -1}}
FedRows(fed) == {e[1] : e \in fed}

\* checked once per iteration, right after the estimator was fitted
NoUnlabeledFed == pc = "score" => LET L == ExpLabels(it) IN \A e \in fedLog[it] : L[e[1]] # 0
SamePsm        == pc = "score" => LET L == ExpLabels(it) IN \A e \in fedLog[it] :
                     /\ e[2] = 1 <=> L[e[1]] = 1                           \* positive iff target with q <= train_fdr
                     /\ ~tgt[e[1]] => e[2] = 0                              \* decoys are the negatives
AllLabelledFed == pc = "score" => LET L == ExpLabels(it) IN {r \in 1..n : L[r] # 0} \subseteq FedRows(fedLog[it])
FedExact       == pc = "score" => fedLog[it] = DeclFed(ExpLabels(it))       \* the three together
\* the labels held for the next iteration belong to the rows they sit next to
LabelsAligned  == (pc = "iterdone" \/ (pc = "fit" /\ it = 0)) =>
                     LET L == ExpLabels(it + 1) IN \A j \in 1..n : labelAt[j] = L[rowAt[j]]
\* the fit only gives up when really no target passes under the estimator's scores
AbortLegit     == pc = "abort" => NPos(LabelsUnder(scoLog[it])) = 0

\* the whole run as a function of the input alone: no position, no perm, no shuffle
RECURSIVE DeclLab(_), DeclMem(_)
DeclMem(k) == MemoOf(DeclFed(DeclLab(k)))
DeclLab(k) == IF k = 1 THEN StartLabels
              ELSE LET m == DeclMem(k - 1) IN LabelsUnder([r \in 1..n |-> Est(k - 1, m, r)])
DeclPred(k) == LET m == DeclMem(k) IN [r \in 1..n |-> Est(k, m, r)]
\* final predictions (and whether training gives up) do not depend on the row positions, the rng or the switch
PredInvariant  == /\ pc = "done"  => pred = DeclPred(it)
                  /\ pc = "abort" => NPos(DeclLab(it + 1)) = 0

(* ------------------------------- behaviour generation ------------------------------- *)
\* one line per explored run: input, configuration, max_iter (= it), predicted outcome and predictions
\* a fixed pseudo-random 1/GenMod sample of the inputs (dataset, thr, perm), both switches and all max_iter of a kept input
Code(f, m) == LET S[i \in 0..m] == IF i = 0 THEN 0 ELSE S[i - 1] * 5 + f[i] IN S[m]
GenHash == 31 * Code(a, n) + 17 * Code(perm, n) + 7 * Code([i \in 1..n |-> IF tgt[i] THEN 1 ELSE 0], n) + thr[1] + 3 * thr[2]
GenKeep == (GenMod > 1 /\ pc = "start") => GenHash % GenMod = 0
EmitCase == pc \in {"done", "abort"} => PrintT(<<"CASE", n, tgt, a, thr, shuffle, perm, it, pc, pred>>)
\* ---- liveness (checked by ModelFit_live.cfg): under weak fairness of the next-state action every behaviour comes to rest
\* in a state without successor -- the modelled procedure terminates for every input, schedule and fault inside the bounds
FairSpec == Spec /\ WF_vars(Next)
Halts == <>[](~ENABLED Next)
=============================================================================
