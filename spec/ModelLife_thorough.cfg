SPECIFICATION Spec
CONSTANTS NData = 2 NOrders = 3 NPaths = 2 MaxOps = 6 Mut = "none"
INVARIANT AnswersByLastFit
INVARIANT TrainedIffFitted
INVARIANT NamesFollowEstimator
CHECK_DEADLOCK FALSE
