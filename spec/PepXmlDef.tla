----------------------------- MODULE PepXmlDef -----------------------------
(* PepXML parsing turns every search hit into one faithful PSM (property C20): the defining layer.

   A call of read_pepxml(files, decoy_prefix = prefix, to_df = TRUE) is described by

     files    : Seq(File)
     File     == [kind : {"pepxml", "nonxml", "otherxml"}, runs : Seq(Run)]        (runs = <<>> unless "pepxml")
     Run      == [stem : STRING, ext : STRING, full : BOOLEAN, spectra : Seq(Spectrum)]
                 -- base_name = stem (\o ext iff full), raw_data = ext; the data-file name is stem \o ext
     Spectrum == [scan, charge : Int, rt, mass : Int (1/1000 s, 1/1000 Da), hits : Seq(Hit)]
     Hit      == [pep    : Seq(1-char STRING)                     -- residues
                  mods   : Seq(<<position (1-based), Seq(1-char STRING) (mass text)>>)  -- ascending positions
                  prots  : Seq([decoy : BOOLEAN, acc : STRING])   -- [1] primary, rest alternative;
                                                                  -- accession = (prefix iff decoy) \o acc
                  scores : Seq(<<name, value in 1/1000>>)         -- search_score elements
                  mc, ntt, nmp : Int                              -- optional attributes num_missed_cleavages,
                                                                  -- num_tol_term, num_matched_peptides = 10^nmp;
                                                                  -- -1 = attribute absent
                  layout : {0, 1}]                                -- order of the child elements (rendering only)

   RowsDef(prefix, files) is the expected PSM table: one row per hit, in document order, files concatenated.
   ErrDef(files) says that the call must raise instead.  Nothing here depends on `layout`. *)
EXTENDS Integers, Sequences, FiniteSets

RECURSIVE FlatSeq(_)
FlatSeq(ss) == IF ss = <<>> THEN <<>> ELSE Head(ss) \o FlatSeq(Tail(ss))
RECURSIVE Cat(_)        \* concatenation of a sequence of strings (TLC: \o on strings)
Cat(s) == IF s = <<>> THEN "" ELSE Head(s) \o Cat(Tail(s))

PercolatorNames == {"Percolator q-Value", "Percolator PEP", "Percolator SVMScore"}
ReservedNames == {"ms_data_file", "scan", "charge", "ret_time", "exp_mass", "calc_mass", "peptide", "proteins",
                  "label", "missed_cleavages", "ntt", "num_matched_peptides", "mass_diff", "abs_mz_diff"}

(* ---- one hit ---- *)
\* the modified peptide: every residue, directly followed by "[mass]" for each modification listed at its position
ModTok(m) == <<"[">> \o m[2] \o <<"]">>
ModPepDef(h) ==
   FlatSeq([i \in 1..Len(h.pep) |->
              LET at == SelectSeq(h.mods, LAMBDA m : m[1] = i)
              IN <<h.pep[i]>> \o FlatSeq([k \in 1..Len(at) |-> ModTok(at[k])])])
AccOf(p, prefix) == IF p.decoy THEN prefix \o p.acc ELSE p.acc
ProtsDef(h, prefix) == [k \in 1..Len(h.prots) |-> AccOf(h.prots[k], prefix)]
\* a decoy iff every protein carries the decoy prefix
TargetDef(h) == \E k \in 1..Len(h.prots) : ~h.prots[k].decoy
\* numeric features demanded by the statement (name, value in 1/1000): every search score; the optional
\* attributes when present (num_matched_peptides is stored as log10, i.e. the exponent)
FeatsDef(h) == {<<h.scores[k][1], h.scores[k][2]>> : k \in 1..Len(h.scores)}
               \cup (IF h.mc  >= 0 THEN {<<"missed_cleavages", 1000 * h.mc>>} ELSE {})
               \cup (IF h.ntt >= 0 THEN {<<"ntt", 1000 * h.ntt>>} ELSE {})
               \cup (IF h.nmp >= 0 THEN {<<"num_matched_peptides", 1000 * h.nmp>>} ELSE {})

(* ---- the table ---- *)
RowDef(prefix, run, sp, h) ==
   [file |-> run.stem \o run.ext, scan |-> sp.scan, charge |-> sp.charge, rt |-> sp.rt, mass |-> sp.mass,
    pep |-> ModPepDef(h), prots |-> ProtsDef(h, prefix), target |-> TargetDef(h), feats |-> FeatsDef(h)]
SpecRows(prefix, run, sp) == [j \in 1..Len(sp.hits) |-> RowDef(prefix, run, sp, sp.hits[j])]
RunRows(prefix, run) == FlatSeq([s \in 1..Len(run.spectra) |-> SpecRows(prefix, run, run.spectra[s])])
FileRows(prefix, f) == FlatSeq([r \in 1..Len(f.runs) |-> RunRows(prefix, f.runs[r])])
RowsDef(prefix, files) == FlatSeq([i \in 1..Len(files) |-> FileRows(prefix, files[i])])

(* ---- error path ---- *)
HitsOfFile(f) == FlatSeq([r \in 1..Len(f.runs) |->
                   FlatSeq([s \in 1..Len(f.runs[r].spectra) |-> f.runs[r].spectra[s].hits])])
HitMarked(h) == \E k \in 1..Len(h.scores) : h.scores[k][1] \in PercolatorNames
Marked(files) == \E i \in 1..Len(files) : LET hs == HitsOfFile(files[i]) IN \E j \in 1..Len(hs) : HitMarked(hs[j])
ErrDef(files) == (\E i \in 1..Len(files) : files[i].kind # "pepxml") \/ Marked(files)

(* ---- the stated domain ---- *)
HitOK(h) == /\ Len(h.pep) >= 1 /\ Len(h.prots) >= 1
            /\ \A k \in 1..Len(h.mods) : h.mods[k][1] \in 1..Len(h.pep) /\ Len(h.mods[k][2]) >= 1
            /\ \A k \in 1..(Len(h.mods) - 1) : h.mods[k][1] < h.mods[k + 1][1]          \* ascending positions
            /\ \A k, l \in 1..Len(h.scores) : k # l => h.scores[k][1] # h.scores[l][1]
            /\ \A k \in 1..Len(h.scores) : h.scores[k][1] \notin ReservedNames
\* at least one file; every PepXML file holds at least one run and one search hit (a file without any hit is
\* outside the quantifier "1..k runs, spectra, hits")
DocOK(files) == /\ Len(files) >= 1
                /\ \A i \in 1..Len(files) :
                      files[i].kind = "pepxml" =>
                         LET hs == HitsOfFile(files[i]) IN Len(hs) >= 1 /\ \A j \in 1..Len(hs) : HitOK(hs[j])
=============================================================================
