----------------------------- MODULE ThreadPool -----------------------------
(* joblib.Parallel(n_jobs=W, require="sharedmem") as used by brew / assign_confidence / read_pin: tasks 1..T are
   dispatched in order to W threads; a task's effect on shared state happens when it finishes; results are
   returned in task order.  Safety (AtMostW, NoLostTask), termination under weak fairness, and -- for the
   drivers -- the set of completion orders that are feasible for (T, W): the schedules they enforce on the
   real pool. *)
EXTENDS Integers, Sequences, FiniteSets, TLC
CONSTANTS MaxT, MaxW
VARIABLES T, W, next, running, done
vars == <<T, W, next, running, done>>
Terminated == next = T + 1 /\ running = {}
Init == T \in 1..MaxT /\ W \in 1..MaxW /\ next = 1 /\ running = {} /\ done = <<>>
Start == /\ next <= T /\ Cardinality(running) < W
         /\ running' = running \cup {next} /\ next' = next + 1 /\ UNCHANGED <<T, W, done>>
Finish(t) == /\ t \in running /\ running' = running \ {t} /\ done' = Append(done, t) /\ UNCHANGED <<T, W, next>>
Idle == Terminated /\ UNCHANGED vars
Next == Start \/ (\E t \in 1..MaxT : Finish(t)) \/ Idle
Spec == Init /\ [][Next]_vars /\ WF_vars(Start) /\ \A t \in 1..MaxT : WF_vars(Finish(t))
AtMostW == Cardinality(running) <= W
NoLostTask == Terminated => {done[i] : i \in 1..Len(done)} = 1..T /\ Len(done) = T
\* a task can only finish after it was dispatched: at most W - 1 earlier-dispatched tasks are still unfinished
FeasibleOnly == \A i \in 1..Len(done) : Cardinality({t \in 1..(done[i] - 1) : \A j \in 1..i : done[j] # t}) <= W - 1
EmitOrder == Terminated => PrintT(<<"ORDER", T, W, done>>)
Terminates == <>Terminated
=============================================================================
