SPECIFICATION Spec
CONSTANTS Stems <- StemsDef Roots <- RootsDef Cols <- Cols3 BaseSet <- BasesAll MaxOps = 4 Exts <- ExtsCsv NRows = 6
 Mut_NoDot = FALSE Mut_ReadUnfiltered = TRUE Mut_SharedSeen = FALSE Mut_BreakOnSeen = FALSE Mut_KeyWithDecoy = FALSE Mut_TempAppend = FALSE AsIs_BaseNames = FALSE
PROPERTY LeftoversNeverMatter
CHECK_DEADLOCK FALSE
