----------------------------- MODULE ModelLife -----------------------------
(* The life cycle of one mokapot.Model object through its public API (model.py): fit / predict / save / load_model in ANY
   order, on datasets whose feature columns stand in different orders -- the multi-step part of property C12 ("prediction
   matches features by name, not by column position; a saved and re-loaded model predicts identically").

   Implementation-shaped state (what the object really holds, model.py:135-136, 289, 368-374, 226-238, 207-208, 540-565):
     trained     Model.is_trained
     names       Model.features: the column ORDER recorded at the last fit (0 = none)
     est         what the estimator (+ scaler) was trained on: [d |-> dataset, o |-> the column order its weights are aligned to]
     disk        path -> pickled snapshot of (trained, names, est), or NoFile
     hist        the calls made so far with their outcomes (history variable; the generator prints it)

   Actions (one per public call):
     Fit(d, o)      fit on dataset d whose columns stand in order o: is_trained, features := o, estimator aligned to o
     Predict(d, o)  untrained -> NotFittedError; otherwise the columns are picked BY NAME in the order `names` and handed to
                    the estimator: the result is "the last fit's model applied to the right columns" iff names = est.o
     Save(p)        pickles the object (trained or not)
     Load(p)        load_model(p): a NEW object in the pickled state

   Declarative layer: Ref(hist) -- the abstract state a user expects from the documentation alone: which dataset the model
   was last fitted on (0 = never), per object and per saved file; every Predict must answer with that fit's model (by name),
   or NotFitted iff there was none.  Mut selects one realistic slip; TLC must reject each.

   The behaviours of this module (every call sequence up to MaxOps) are printed by ModelLife_gen.cfg and replayed into the
   real object by drivers/c12.py (family "lifecycle"); ModelLifeTrace.tla walks what the real object answered. *)
EXTENDS Integers, Sequences, FiniteSets, TLC
CONSTANTS NData, NOrders, NPaths, MaxOps, Mut
VARIABLES trained, names, est, disk, hist
vars == <<trained, names, est, disk, hist>>
Data == 1..NData
Orders == 1..NOrders
Paths == 1..NPaths
NoEst == [d |-> 0, o |-> 0]
Snap == [trained |-> trained, names |-> names, est |-> est]
NoFile == [trained |-> FALSE, names |-> -1, est |-> NoEst]          \* (records and strings cannot be compared: "no file" is a record too)
Init == trained = FALSE /\ names = 0 /\ est = NoEst /\ disk = [p \in Paths |-> NoFile] /\ hist = <<>>
More == Len(hist) < MaxOps
Fit(d, o) == /\ More
             /\ trained' = TRUE
             /\ names' = IF Mut = "stale_names_on_refit" /\ trained THEN names ELSE o      \* (seeded change C12k)
             /\ est' = [d |-> d, o |-> o]
             /\ hist' = Append(hist, [op |-> "fit", d |-> d, o |-> o, p |-> 0, res |-> "ok", by |-> d])
             /\ UNCHANGED disk
PredictResult(d, o) == IF ~trained THEN [res |-> "NotFitted", by |-> 0]
                       ELSE IF Mut = "by_position" /\ o # est.o THEN [res |-> "misaligned", by |-> est.d]
                       ELSE IF names # est.o THEN [res |-> "misaligned", by |-> est.d]
                       ELSE [res |-> "ok", by |-> est.d]
Predict(d, o) == /\ More
                 /\ LET r == PredictResult(d, o) IN
                    hist' = Append(hist, [op |-> "predict", d |-> d, o |-> o, p |-> 0, res |-> r.res, by |-> r.by])
                 /\ UNCHANGED <<trained, names, est, disk>>
Save(p) == /\ More
           /\ disk' = [disk EXCEPT ![p] = IF Mut = "save_drops_trained_flag" THEN [Snap EXCEPT !.trained = FALSE] ELSE Snap]
           /\ hist' = Append(hist, [op |-> "save", d |-> 0, o |-> 0, p |-> p, res |-> "ok", by |-> est.d])
           /\ UNCHANGED <<trained, names, est>>
Load(p) == /\ More /\ disk[p] # NoFile
           /\ trained' = disk[p].trained /\ names' = disk[p].names /\ est' = disk[p].est
           /\ hist' = Append(hist, [op |-> "load", d |-> 0, o |-> 0, p |-> p, res |-> "ok", by |-> disk[p].est.d])
           /\ UNCHANGED disk
Next == \/ \E d \in Data, o \in Orders : Fit(d, o) \/ Predict(d, o)
        \/ \E p \in Paths : Save(p) \/ Load(p)
Spec == Init /\ [][Next]_vars
---------------------------------------------------------------------------
\* ---- declarative layer: the state a user expects, computed from the calls alone ----
RECURSIVE RefAfter(_, _)
\* <<fitted dataset of the object (0 = never fitted), [path -> fitted dataset of the saved file, -1 = no file]>> after the first k calls
RefAfter(h, k) == IF k = 0 THEN <<0, [p \in Paths |-> -1]>>
                  ELSE LET prev == RefAfter(h, k - 1)  c == h[k] IN
                       CASE c.op = "fit" -> <<c.d, prev[2]>>
                         [] c.op = "predict" -> prev
                         [] c.op = "save" -> <<prev[1], [prev[2] EXCEPT ![c.p] = prev[1]]>>
                         [] c.op = "load" -> <<prev[2][c.p], prev[2]>>
ExpectedAt(h, k) == LET before == RefAfter(h, k - 1)  c == h[k] IN
                    CASE c.op = "predict" -> (IF before[1] = 0 THEN c.res = "NotFitted" ELSE c.res = "ok" /\ c.by = before[1])
                      [] c.op = "load" -> before[2][c.p] >= 0 /\ c.by = before[2][c.p]
                      [] OTHER -> c.res = "ok"
\* ---- invariants ----
AnswersByLastFit == \A k \in 1..Len(hist) : ExpectedAt(hist, k)
TrainedIffFitted == trained = (RefAfter(hist, Len(hist))[1] > 0)
NamesFollowEstimator == trained => names = est.o
\* ---- generation: every maximal behaviour ----
EmitCase == (Len(hist) = MaxOps) => PrintT(<<"CASE", hist>>)
=============================================================================
