--------------------------- MODULE CliFlowTrace ---------------------------
(* Acceptor for command-line runs recorded from the real mokapot.mokapot.main() (drivers/cliflow.py): the stages
   (read_pin, read_fasta, load_model, PercolatorModel, brew, assign_confidence, model.save, np.random.seed) are replaced by
   recording stand-ins, so one run costs milliseconds and the trace is exactly "which stage received what, in which order".

   trace = [tid, opt: the option vector given on the command line (fields of CliFlow!Default),
            calls: <<[st, ...received values projected to the vocabulary of CliFlow.tla]>>,
            repeat_equal: the same command line run twice gave the same calls]

   The recorded calls are substituted for the variables of CliFlow.tla (INSTANCE ... WITH calls <- T.calls, opt <- T.opt,
   pc <- "done"): CliFlow's own invariants Dataflow / Order / Complete are evaluated on the real run.  They are
   model-conformance clauses ("D:", reported as DRIFT, never as a violation: an option may legitimately be re-plumbed).
   The clauses marked "P:<id>" are the places where a listed property is stated in terms of what the USER asked for, so
   that a run which does not hand the request on breaks the property as observed at the command line:
     C02  exactly the requested number of folds; ensemble mode off unless requested
     C03  every PSM kept when de-duplication is switched off; decoys written when requested; separate collections get
          distinct prefixes (distinct stems; equal stems are the open finding F-03d and are not generated here)
     C07  confidence assignment gets the scores AND the direction that brew returned; the model is not forced unless
          the user forces it
     C08  every random source is seeded (brew, the model), and the same command line gives the same plan twice *)
EXTENDS Naturals, Sequences, FiniteSets, TLC, TLCExt, Json, IOUtils
Traces == JsonDeserialize(IOEnv.TRACES_FILE)
VARIABLE tid
T == Traces[tid]
O == T.opt
CF == INSTANCE CliFlow WITH MaxDev <- 0, Mut <- "none", opt <- T.opt, pc <- "done", calls <- T.calls
Calls(st) == {T.calls[i] : i \in {j \in 1..Len(T.calls) : T.calls[j].st = st}}
Injective(s) == \A i, j \in 1..Len(s) : i # j => s[i] # s[j]
Clauses == [
   D_Dataflow |-> CF!Dataflow,
   D_Order |-> CF!Order,
   D_Complete |-> CF!Complete,
   P_C02_requested_folds |-> \A b \in Calls("Brew") : b.folds = O.folds,
   P_C02_ensemble_only_on_request |-> \A b \in Calls("Brew") : ~O.ensemble => ~b.ensemble,
   P_C03_dedup_switch |-> \A c \in Calls("Confidence") : c.dedup = ~O.skip_dedup,
   P_C03_decoys_written_on_request |-> \A c \in Calls("Confidence") : O.keep_decoys => c.decoys,
   P_C03_separate_collections |-> \A c \in Calls("Confidence") :
                                     (~O.aggregate /\ O.nfiles > 1) => (Len(c.prefixes) = O.nfiles /\ Injective(c.prefixes)),
   P_C07_scores_and_direction_from_brew |-> \A c \in Calls("Confidence") : c.from_brew,
   P_C07_not_forced_unless_requested |-> \A m \in Calls("MakeModel") : ~O.override => ~m.override,
   P_C08_random_sources_seeded |-> (\A b \in Calls("Brew") : b.seeded) /\ (\A m \in Calls("MakeModel") : m.seeded),
   P_C08_same_command_same_plan |-> T.repeat_equal]
Name(c) == CASE c = "D_Dataflow" -> "D:Dataflow" [] c = "D_Order" -> "D:Order" [] c = "D_Complete" -> "D:Complete"
             [] c = "P_C02_requested_folds" -> "P:C02.requested_folds"
             [] c = "P_C02_ensemble_only_on_request" -> "P:C02.ensemble_only_on_request"
             [] c = "P_C03_dedup_switch" -> "P:C03.dedup_switch"
             [] c = "P_C03_decoys_written_on_request" -> "P:C03.decoys_written_on_request"
             [] c = "P_C03_separate_collections" -> "P:C03.separate_collections"
             [] c = "P_C07_scores_and_direction_from_brew" -> "P:C07.scores_and_direction_from_brew"
             [] c = "P_C07_not_forced_unless_requested" -> "P:C07.not_forced_unless_requested"
             [] c = "P_C08_random_sources_seeded" -> "P:C08.random_sources_seeded"
             [] c = "P_C08_same_command_same_plan" -> "P:C08.same_command_same_plan"
Failed == {Name(c) : c \in {d \in DOMAIN Clauses : ~Clauses[d]}}
Init == tid \in 1..Len(Traces)
Spec == Init /\ [][UNCHANGED tid]_tid
Verdict == PrintT(<<"VERDICT", T.tid, IF Failed = {} THEN "accept" ELSE "reject", Failed>>)
=============================================================================
