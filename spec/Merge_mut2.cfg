SPECIFICATION Spec
CONSTANTS MaxInputs = 2 MaxLen = 3 MaxRank = 3 Impls = {"table"} TieAny = FALSE
          Mut_DropLast = FALSE Mut_NoGuard = TRUE Mut_StrictGuard = FALSE
INVARIANT EveryRowOnce
INVARIANT GloballySorted
INVARIANT UnsortedRejected
INVARIANT SortedAccepted
CHECK_DEADLOCK FALSE
