SPECIFICATION Spec
CONSTANTS MaxRows = 3 NPair = 2 WithUnmapped = FALSE
  Kinds = {"single"}
  AsIs_AllSharedKeyError = FALSE AsIs_PairByFirstName = FALSE Mut_NoStrip = FALSE Mut_SharedContribute = TRUE Mut_NoCollapse = FALSE Mut_KeepWorst = FALSE
INVARIANT SharedNever
CHECK_DEADLOCK FALSE
