SPECIFICATION Spec
CONSTANTS MaxDev = 2 Mut = "model_unseeded"
INVARIANT Dataflow
CHECK_DEADLOCK FALSE
