SPECIFICATION Spec
CONSTANTS MaxT = 4 MaxW = 4
INVARIANT AtMostW
INVARIANT NoLostTask
INVARIANT FeasibleOnly
INVARIANT EmitOrder
PROPERTY Terminates
