SPECIFICATION Spec
CONSTANTS Folds = 3 NMembers = 3 MaxRuns = 2 Mut_NoSortByFold = FALSE Mut_NameFromIteration = FALSE
INVARIANT SameDigests
INVARIANT RefeedReproduces
CHECK_DEADLOCK FALSE
