--------------------------- MODULE RollupToolTrace ---------------------------
(* Acceptor for HISTORIES of the real stand-alone rollup tool in one directory (drivers/rolltool.py): the histories that
   RollupTool.tla generates (put / drop / roll) are replayed into a real directory with the real mokapot.brew_rollup; the
   acceptor walks the recorded events, keeps the directory state of RollupDef (the logged files of a roll are bound to the
   state, as trace validation does with logged variables) and demands of every roll the relation RollOK of the model.

   trace = [tid, rows: <<[key: <<precursor, modified_peptide, peptide, peptide_group>>, tgt, rank]>>   (row id = position),
            cols: <<internal level words present as columns>>,
            events: << [op: "put", stem: <<chars>>, files: <<[td, lvl, ids]>>]  |  [op: "drop", stem]  |
                       [op: "roll", root: <<chars>>, base, raised,
                        own:   <<[td ("t"|"d"|"temp"), lvl, ids: <<in file order>>, q: <<[num, den, ok]>>]>>   every <root>.* file afterwards
                        others_same: BOOLEAN                                                                    the other files byte-identical
                        clean_raised, clean: <<like own>>]                                                      same roll, inputs only, fresh directory
                    >>]
   Clause owners:  C03: KnownIds Completed LevelsWritten Winners Split Order QValues     C09: InputsUntouched SameAsClean *)
EXTENDS RollupDef, TLCExt, Json, IOUtils
Traces == JsonDeserialize(IOEnv.TRACES_FILE)
VARIABLE tid
T == Traces[tid]
NE == Len(T.events)
ColSet == {T.cols[i] : i \in 1..Len(T.cols)}
FilesFs(stem, files, tds) ==
   LET I == {i \in 1..Len(files) : files[i].td \in tds} IN
   \* (the driven histories use text files only: ext = "csv")
   [n \in {Nm(stem, files[i].td, files[i].lvl, "csv") : i \in I} |-> SeqSet(files[CHOOSE i \in I : Nm(stem, files[i].td, files[i].lvl, "csv") = n].ids)]
Apply(f, e) ==
   CASE e.op = "put"  -> Del(f, {n \in DOMAIN f : n.stem = e.stem /\ n.td \in {"t", "d"}}) @@ FilesFs(e.stem, e.files, {"t", "d"})
     [] e.op = "drop" -> Del(f, {n \in DOMAIN f : n.stem = e.stem /\ n.td \in {"t", "d"}})
     [] e.op = "roll" -> FilesFs(e.root, e.own, {"t", "d", "temp"}) @@ Del(f, {n \in DOMAIN f : n.stem = e.root})
RECURSIVE Run(_, _, _)
Run(k, f, acc) == IF k > NE THEN acc ELSE Run(k + 1, Apply(f, T.events[k]), Append(acc, f))     \* acc[k] = state BEFORE event k
Rolls == {k \in 1..NE : T.events[k].op = "roll"}
FileOf(files, td, l) == {i \in 1..Len(files) : files[i].td = td /\ files[i].lvl = l}
IdsOf(files, td, l) == UNION {SeqSet(files[i].ids) : i \in FileOf(files, td, l)}
Check(R, S) ==
   LET NR == Len(T.rows)
       \* in the domain of this family: some input, and no input file without a row (a result file holding only its header
       \* is finding F-03c, which C03's own rollup cases report)
       Dom == {k \in Rolls : /\ InputRows(S[k], T.events[k].root, T.events[k].base) # {}
                              /\ \A n \in InputNames(S[k], T.events[k].root, T.events[k].base) : S[k][n] # {}}
       Prom(k) == LevelsPromised(T.events[k].base, ColSet)
       Known(k) == \A i \in 1..Len(T.events[k].own) : SeqSet(T.events[k].own[i].ids) \subseteq 1..NR
       Post(k) == Apply(S[k], T.events[k])
       Done(k) == T.events[k].raised = "" /\ Known(k)
                  /\ \A l \in Prom(k) : FileOf(T.events[k].own, "t", l) # {} /\ FileOf(T.events[k].own, "d", l) # {}
   IN
   [KnownIds |-> \A k \in Dom : Known(k),
    Completed |-> \A k \in Dom : T.events[k].raised = "",
    LevelsWritten |-> \A k \in Dom : T.events[k].raised = "" =>
                         \A l \in Prom(k) : FileOf(T.events[k].own, "t", l) # {} /\ FileOf(T.events[k].own, "d", l) # {},
    Winners |-> \A k \in Dom : Done(k) => LET e == T.events[k]  P == InputRows(S[k], e.root, e.base) IN
                   \A l \in Prom(k) : LevelSetOK(R, P, LvIdx(l), IdsOf(e.own, "t", l) \cup IdsOf(e.own, "d", l)),
    Split |-> \A k \in Dom : Done(k) => LET e == T.events[k] IN
                 \A l \in Prom(k) : (\A x \in IdsOf(e.own, "t", l) : R[x].tgt) /\ (\A x \in IdsOf(e.own, "d", l) : ~R[x].tgt),
    Order |-> \A k \in Dom : Done(k) => LET e == T.events[k] IN
                 \A i \in 1..Len(e.own) : (e.own[i].td \in {"t", "d"} /\ e.own[i].lvl \in Prom(k)) =>
                    NoDup(e.own[i].ids) /\ SortedDesc(R, e.own[i].ids),
    QValues |-> \A k \in Dom : Done(k) => LET e == T.events[k] IN
                 \A l \in Prom(k) : LET O == IdsOf(e.own, "t", l) \cup IdsOf(e.own, "d", l)  qx == QOver(R, O) IN
                    \A i \in 1..Len(e.own) : (e.own[i].td \in {"t", "d"} /\ e.own[i].lvl = l) =>
                       \A j \in 1..Len(e.own[i].ids) : e.own[i].q[j][3] /\ Eq(<<e.own[i].q[j][1], e.own[i].q[j][2]>>, qx[e.own[i].ids[j]]),
    InputsUntouched |-> \A k \in Rolls : T.events[k].others_same,
    SameAsClean |-> \A k \in Dom : LET e == T.events[k]  P == InputRows(S[k], e.root, e.base) IN
                      (e.clean_raised = "" /\ Known(k)) =>
                         /\ e.raised = ""
                         /\ \A l \in Prom(k) : TieFreeLevel(R, P, LvIdx(l)) =>
                               /\ IdsOf(e.own, "t", l) = IdsOf(e.clean, "t", l)
                               /\ IdsOf(e.own, "d", l) = IdsOf(e.clean, "d", l)]
Failed == LET R == [x \in 1..Len(T.rows) |-> T.rows[x]]
              S == Run(1, <<>>, <<>>)
              C == Check(R, S) IN {c \in DOMAIN C : ~C[c]}
Init == tid \in 1..Len(Traces)
Spec == Init /\ [][UNCHANGED tid]_tid
Verdict == PrintT(<<"VERDICT", T.tid, IF Failed = {} THEN "accept" ELSE "reject", Failed>>)
=============================================================================
