----------------------------- MODULE BrewModes -----------------------------
(* Control-flow skeleton of mokapot.brew() after the split (brew.py:161-330): WHICH models score the PSMs, by which
   path, and what is handed back.  Brew.tla models the cross-validation path in detail (folds, training sets, chunks);
   BrewDecide.tla the arithmetic of the best-feature decision; this module the mode logic around them, including the
   paths no listed property is about (ensemble, re-use of trained models, reset to a pre-trained model).

     what the caller passes          given = "model"          one untrained Model (the usual case)
                                             "pretrained"     one Model that is already trained (it is re-fitted per fold,
                                                              starting from its own scores)
                                             "list"           a list of models (must be trained, one per fold)
     Check     (brew.py:161-178)  a list: wrong length -> ValueError; an untrained member -> RuntimeError; else no fitting
     Fit(k)    (_fit_model)       outcome "ok" | "worse" ("Model performs worse after training."): a worse fold keeps the
                                  model as it was -- untrained for given = "model", the pre-trained one (reset) otherwise
     Score     (brew.py:213-270)  any reset -> the ORIGINAL model scores everything (ensemble routine with one model)
                                  all fold models trained -> "cv" (each PSM by the model of its fold) or "ensemble"
                                  otherwise -> all scores zero
     Decide    (brew.py:271-315)  unless every model overrides: best feature when it accepts more than the scores
   Invariants: a model that is not trained never scores a PSM; on every path (zero scores included) scores are only
   handed back if they accept at least as many targets as the best feature, unless the user forces use of the model; a list of trained models is never re-fitted; ensemble scoring needs every model trained.
   Mut_ScoreWithUntrained (the zero-score branch dropped: untrained fold models score their folds) must be rejected. *)
EXTENDS Integers, FiniteSets, TLC
CONSTANTS Folds, Mut_ScoreWithUntrained
VARIABLES given, nGiven, trainedIn, ensemble, override, featPass, pc, fitted, trained, reset, path, scoredBy, final, err, predTotal
vars == <<given, nGiven, trainedIn, ensemble, override, featPass, pc, fitted, trained, reset, path, scoredBy, final, err, predTotal>>
K == 1..Folds
Init == /\ given \in {"model", "pretrained", "list"}
        /\ nGiven \in 1..(Folds + 1)
        /\ trainedIn \in [1..nGiven -> BOOLEAN]
        /\ (given = "model" => nGiven = 1 /\ ~trainedIn[1])
        /\ (given = "pretrained" => nGiven = 1 /\ trainedIn[1])
        /\ ensemble \in BOOLEAN /\ override \in BOOLEAN
        /\ featPass \in 1..2               \* targets accepted by the best feature / the pre-trained model when training began
        /\ pc = "check" /\ fitted = {} /\ trained = [k \in K |-> FALSE] /\ reset = [k \in K |-> FALSE]
        /\ path = "none" /\ scoredBy = {} /\ final = "none" /\ err = "none" /\ predTotal = 0
Check == /\ pc = "check"
         /\ IF given = "list"
              THEN IF nGiven # Folds THEN err' = "ValueError" /\ pc' = "failed" /\ UNCHANGED trained
                   ELSE IF \E i \in 1..nGiven : ~trainedIn[i] THEN err' = "RuntimeError" /\ pc' = "failed" /\ UNCHANGED trained
                   ELSE err' = err /\ pc' = "score" /\ trained' = [k \in K |-> TRUE]
              ELSE err' = err /\ pc' = "fit" /\ UNCHANGED trained
         /\ UNCHANGED <<given, nGiven, trainedIn, ensemble, override, featPass, fitted, reset, path, scoredBy, final, predTotal>>
Fit(k) == /\ pc = "fit" /\ k \notin fitted
          /\ \E outcome \in {"ok", "worse"} :
                /\ trained' = [trained EXCEPT ![k] = (outcome = "ok") \/ given = "pretrained"]
                /\ reset' = [reset EXCEPT ![k] = (outcome = "worse") /\ given = "pretrained"]
          /\ fitted' = fitted \cup {k}
          /\ pc' = IF fitted' = K THEN "score" ELSE "fit"
          /\ UNCHANGED <<given, nGiven, trainedIn, ensemble, override, featPass, path, scoredBy, final, err, predTotal>>
Score == /\ pc = "score"
         /\ IF \E k \in K : reset[k] THEN path' = "original_model" /\ scoredBy' = {<<"original", 0>>}
            ELSE IF (\A k \in K : trained[k]) \/ Mut_ScoreWithUntrained
                   THEN path' = (IF ensemble THEN "ensemble" ELSE "cv") /\ scoredBy' = {<<"fold", k>> : k \in K}
            ELSE path' = "zeros" /\ scoredBy' = {}
         /\ pc' = "decide"
         /\ UNCHANGED <<given, nGiven, trainedIn, ensemble, override, featPass, fitted, trained, reset, final, err, predTotal>>
\* pred_total = targets accepted by the scores at test_fdr.  All-zero scores are ONE tie group: they accept every target when
\* (decoys + 1) / targets <= test_fdr and nothing otherwise, so any count is possible on that path too.
Decide == /\ pc = "decide"
          /\ \E pt \in 0..3 :
                LET featTotal == IF override THEN 0 ELSE featPass IN
                /\ predTotal' = pt
                /\ final' = IF featTotal > pt THEN "best_feature" ELSE "scores"
          /\ pc' = "done"
          /\ UNCHANGED <<given, nGiven, trainedIn, ensemble, override, featPass, fitted, trained, reset, path, scoredBy, err>>
Next == Check \/ (\E k \in K : Fit(k)) \/ Score \/ Decide
Spec == Init /\ [][Next]_vars
---------------------------------------------------------------------------
UntrainedNeverScores == \A k \in K : <<"fold", k>> \in scoredBy => trained[k]
OriginalOnlyWhenPretrained == <<"original", 0>> \in scoredBy => given = "pretrained"
\* whatever the path (zero scores included): unless the user forces use of the model, scores are only handed back when they
\* accept at least as many targets as the best feature did
SafetyNetOnEveryPath == (pc = "done" /\ ~override /\ final = "scores") => predTotal >= featPass
ListNeverRefitted == given = "list" => fitted = {}
BadListsRejected == (given = "list" /\ pc \notin {"check", "failed"}) => (nGiven = Folds /\ \A i \in 1..nGiven : trainedIn[i])
\* not an invariant, a documented consequence (checked to be REACHABLE by BrewModes_reach.cfg): with override the zero scores
\* of untrained fold models are handed back
ZerosWithOverrideUnreachable == ~(pc = "done" /\ path = "zeros" /\ override /\ final = "scores")
\* ---- liveness (checked by BrewModes_live.cfg): under weak fairness of the next-state action every behaviour comes to rest
\* in a state without successor -- the modelled procedure terminates for every input, schedule and fault inside the bounds
FairSpec == Spec /\ WF_vars(Next)
Halts == <>[](~ENABLED Next)
=============================================================================
