SPECIFICATION Spec
CONSTANTS Stems <- StemsDef Roots <- RootsDef Cols <- Cols3 BaseSet <- BasesAll MaxOps = 4 Exts <- ExtsCsv NRows = 6
 Mut_NoDot = FALSE Mut_ReadUnfiltered = FALSE Mut_SharedSeen = FALSE Mut_BreakOnSeen = FALSE Mut_KeyWithDecoy = FALSE Mut_TempAppend = FALSE AsIs_BaseNames = FALSE
INVARIANT TypeOK
PROPERTY RollObeysRule
PROPERTY LeftoversNeverMatter
PROPERTY InputsNeverTouched
CHECK_DEADLOCK FALSE
