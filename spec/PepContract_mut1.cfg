SPECIFICATION Spec
CONSTANTS MaxN = 4 MaxV = 3 AnyValues = FALSE AsIs_SortedReturn = FALSE Mut_WrongDirection = TRUE Mut_TieJitter = FALSE Thorough = FALSE
INVARIANT Inv_Monotone
CHECK_DEADLOCK FALSE
