SPECIFICATION Spec
CONSTANTS MaxN = 3 MaxV = 2 AnyValues = FALSE AsIs_SortedReturn = FALSE Mut_WrongDirection = TRUE Mut_TieJitter = FALSE Thorough = FALSE
INVARIANT Inv_Monotone
CHECK_DEADLOCK FALSE
