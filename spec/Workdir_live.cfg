SPECIFICATION FairSpec
CONSTANTS MaxRuns = 2 MaxChunks = 3 Prefixes = {"", "a"} AsIs_GlobTemp = FALSE Mut_NoCleanup = FALSE
PROPERTY Halts
CHECK_DEADLOCK FALSE
