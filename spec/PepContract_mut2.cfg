SPECIFICATION Spec
CONSTANTS MaxN = 3 MaxV = 2 AnyValues = FALSE AsIs_SortedReturn = FALSE Mut_WrongDirection = FALSE Mut_TieJitter = TRUE Thorough = FALSE
INVARIANT Inv_TieEqual
CHECK_DEADLOCK FALSE
