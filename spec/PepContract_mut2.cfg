SPECIFICATION Spec
CONSTANTS MaxN = 4 MaxV = 3 AnyValues = FALSE AsIs_SortedReturn = FALSE Mut_WrongDirection = FALSE Mut_TieJitter = TRUE Thorough = FALSE
INVARIANT Inv_TieEqual
CHECK_DEADLOCK FALSE
