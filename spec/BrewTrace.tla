----------------------------- MODULE BrewTrace -----------------------------
(* Property-level acceptor for C02 (cross-validation integrity) and C11 (per-fold calibration) on events
   recorded from the real brew() through a recording Model subclass / estimator.

   trace = [tid, folds, nfiles, capped, cap, thr: <<num, den>>  (test_fdr),
            rows:  <<[id, file, spec, tgt, hgrp]>>                  -- spec is local to its file; hgrp numbers the values of the
                                                                       first two spectrum-key columns (what _split hashes)
            trainsets: <<<<ids>>>>                                  -- what brew handed to the training-set constructor
            fits:  <<[model, train: <<ids>>]>>                      -- Model.fit(train set): model = its fold number
            trained: BOOLEAN                                        -- every returned fold model is trained
            preds: <<[model, file, ids: <<ids>>, raw: <<ints>>, est_train: <<ids>>, est]>>   -- final Model.predict calls (one per fold
                                                                       per chunk); est_train = the rows the estimator object
                                                                       that scored was last fitted on
            raised: "" | "Type: msg",
            scores: <<[id, num, den, ok, nan]>>                     -- returned calibrated score of every row
            calibrated: BOOLEAN                                     -- the estimator exposes a decision function ]

   C02 clauses: ExactlyFolds, Partition, SpectrumClosed, NoLeak, TrainComplement, Completed.
   C11 clauses: Calibrated (returned = (raw - t)/(t - d) with t = lowest raw score of the targets of the fold
   accepted at thr under the C01 formula, d = median raw score of the fold's decoys), CalibError (no accepted
   target in a fold <=> the run stops with RuntimeError).  Folds where t <= d or without decoys are outside
   C11's stated domain and are skipped. *)
EXTENDS Integers, Sequences, FiniteSets, FiniteSetsExt, SequencesExt, TLC, TLCExt, Json, IOUtils, TdcDef, CalibDef
Traces == JsonDeserialize(IOEnv.TRACES_FILE)
VARIABLE tid
T == Traces[tid]
NR == Len(T.rows)
Ids == {T.rows[i].id : i \in 1..NR}
SeqSet(s) == {s[i] : i \in 1..Len(s)}
Files == 1..T.nfiles
Models == {T.preds[i].model : i \in 1..Len(T.preds)}

Check(R) ==     \* R: id -> row record, bound once
  LET IdsOf(f) == {x \in Ids : R[x].file = f}
      Held(m, f) == UNION {SeqSet(T.preds[i].ids) : i \in {i \in 1..Len(T.preds) : T.preds[i].model = m /\ T.preds[i].file = f}}
      HeldAll(m) == UNION {Held(m, f) : f \in Files}
      Train(m) == UNION {SeqSet(T.fits[i].train) : i \in {i \in 1..Len(T.fits) : T.fits[i].model = m}}
      SpecsOf(S) == {<<R[x].file, R[x].spec>> : x \in S}
      PredCount == FoldSet(LAMBDA i, a : a + Len(T.preds[i].ids), 0, 1..Len(T.preds))
      Fitted == {T.fits[i].model : i \in 1..Len(T.fits)}
      NoTD(S) == {x \in S : R[x].tgt} = {} \/ {x \in S : ~R[x].tgt} = {}
      \* a legitimate training failure: some recorded training set lacks targets or decoys
      LegitTrainError == \/ \E m \in Fitted : NoTD(Train(m))
                         \/ \E i \in 1..Len(T.trainsets) : NoTD(SeqSet(T.trainsets[i]))
      \* the clauses speak about runs that returned cross-validated scores (all fold models trained); a run
      \* that returns the untrained fallback (zero scores / best feature) is C07's business
      Done == T.raised = "" /\ T.trained
      \* ---- C11 ----
      RawOf == [x \in UNION {SeqSet(T.preds[i].ids) : i \in 1..Len(T.preds)} |->
                  LET i == CHOOSE i \in 1..Len(T.preds) : x \in SeqSet(T.preds[i].ids)
                      j == CHOOSE j \in 1..Len(T.preds[i].ids) : T.preds[i].ids[j] = x
                  IN T.preds[i].raw[j]]
      FoldInfo(m, f) ==      \* CalibDef!Info on the rows finally scored by model m in file f
         LET H == Held(m, f)  s == SetToSeq(H)  n == Len(s)
             rk == [i \in 1..n |-> RawOf[s[i]]]
             tg == [i \in 1..n |-> R[s[i]].tgt]
         IN Info(rk, tg, n, <<T.thr[1], T.thr[2]>>)
      ScoreOf == [x \in {T.scores[i].id : i \in 1..Len(T.scores)} |->
                    T.scores[CHOOSE i \in 1..Len(T.scores) : T.scores[i].id = x]]
      FoldCalibOK(m, f) ==
         LET fi == FoldInfo(m, f) IN
         InCalibDomain(fi) =>                                                  \* C11's domain
            \A x \in Held(m, f) : x \in DOMAIN ScoreOf /\
               LET sc == ScoreOf[x] IN
               ~sc.nan /\ sc.ok /\ IsCalibrated(fi, RawOf[x], sc.num, sc.den)
      SomeFoldWithoutAccepted == \E m \in Models, f \in Files : Held(m, f) # {} /\ ~FoldInfo(m, f).hasAcc
  IN
  [ndom |-> Cardinality({mf \in Models \X Files : Held(mf[1], mf[2]) # {} /\ InCalibDomain(FoldInfo(mf[1], mf[2]))}),
   clauses |->
  [\* an explicit calibration error (after the final predictions) is what C11 prescribes when a fold accepts no target; with
   \* integer raw scores CalibError checks that it is raised exactly then, with real-valued learners it is taken as given
   \* ... and so is the explicit refusal to start training when no target passes train_fdr under the initial direction
   \* (Model.fit: "No PSMs accepted at train_fdr=..."), raised before any final prediction
   Completed |-> T.raised = "" \/ LegitTrainError \/ (T.calib_error /\ T.raised_type = "RuntimeError" /\ Len(T.preds) > 0)
                 \/ (T.start_error /\ T.raised_type = "RuntimeError" /\ Len(T.preds) = 0),
   ExactlyFolds |-> Done => (Cardinality(Models) = T.folds /\ \A m \in Models, f \in Files : Held(m, f) # {}),
   Partition |-> Done => /\ \A f \in Files : UNION {Held(m, f) : m \in Models} = IdsOf(f)
                         /\ PredCount = Cardinality(Ids)                                    \* every row scored once
                         /\ \A a, b \in Models : a # b => HeldAll(a) \cap HeldAll(b) = {},
   SpectrumClosed |-> Done => \A a, b \in Models : a # b => SpecsOf(HeldAll(a)) \cap SpecsOf(HeldAll(b)) = {},
   NoLeak |-> Done => \A m \in Models : SpecsOf(Train(m)) \cap SpecsOf(HeldAll(m)) = {},
   \* the same at the level of the estimator OBJECT that produced the scores (fold models that share one estimator object all
   \* score with the state of the last fit): the rows it was last fitted on share no spectrum with the rows it scores
   \* fold models that were fitted in this run do not share one estimator object
   EstimatorsDistinct |-> (Done /\ Len(T.fits) > 0) => \A i, j \in 1..Len(T.preds) :
                             (T.preds[i].model # T.preds[j].model /\ T.preds[i].est # 0) => T.preds[i].est # T.preds[j].est,
   NoLeakEstimator |-> Done => \A i \in 1..Len(T.preds) :
                          SpecsOf(SeqSet(T.preds[i].est_train) \cap Ids) \cap SpecsOf(SeqSet(T.preds[i].ids)) = {},
   TrainComplement |-> Done => \A m \in Models :
                         IF T.capped THEN Train(m) \subseteq (Ids \ HeldAll(m)) /\ Cardinality(Train(m)) <= T.cap
                         ELSE Train(m) = Ids \ HeldAll(m),
   Calibrated |-> (Done /\ T.calibrated) => \A m \in Models, f \in Files : FoldCalibOK(m, f),
   CalibError |-> T.calibrated =>
                    /\ (Done => ~SomeFoldWithoutAccepted)
                    /\ ((T.raised_type = "RuntimeError" /\ Len(T.preds) > 0) => SomeFoldWithoutAccepted)]]
RowsF == [x \in Ids |-> T.rows[CHOOSE i \in 1..NR : T.rows[i].id = x]]
\* domain boundary B-02 of the fold construction: no spectrum has more PSMs than (rows of its file) \div folds
\* The fold construction hashes only the first two spectrum-key columns (hgrp): spectra that agree on them are kept together,
\* so the bound applies to these (possibly coarser) groups as well.
InDomain(R) == \A f \in Files : LET F == {x \in Ids : R[x].file = f} IN
                  /\ Cardinality(F) >= T.folds
                  /\ \A x \in F : Cardinality({y \in F : R[y].spec = R[x].spec}) <= Cardinality(F) \div T.folds
                  /\ \A x \in F : Cardinality({y \in F : R[y].hgrp = R[x].hgrp}) <= Cardinality(F) \div T.folds
\* <<failed clauses, number of (model, file) folds inside C11's domain>>
\* Outside the domain the fold construction may refuse the input or produce fewer / empty folds; but a run that DOES hand back
\* cross-validated scores must still not have scored a PSM with a model that saw its spectrum (info -1 marks these traces).
LeakClauses == {"SpectrumClosed", "NoLeak", "NoLeakEstimator"}
Result == LET R == RowsF IN IF ~InDomain(R) THEN (LET C == Check(R).clauses IN <<{c \in LeakClauses : ~C[c]}, -1>>)
          ELSE LET K == Check(R)  C == K.clauses IN <<{c \in DOMAIN C : ~C[c]}, IF T.calibrated /\ T.raised = "" THEN K.ndom ELSE 0>>
Init == tid \in 1..Len(Traces)
Spec == Init /\ [][UNCHANGED tid]_tid
Verdict == LET r == Result IN PrintT(<<"VERDICT", T.tid, IF r[1] = {} THEN "accept" ELSE "reject", r[1], r[2]>>)
\* evidence only: number of (model, file) folds inside C11's domain (accepted target above the decoy median)

=============================================================================
