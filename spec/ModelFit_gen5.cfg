SPECIFICATION Spec
CONSTANTS MaxN = 5 MaxIter = 3 StrictA = FALSE
  AsIs_UnconditionalUnshuffle = FALSE Mut_NoReshuffle = FALSE Mut_FeedUnlabeled = FALSE Mut_InverseMixup = FALSE
CONSTANT Thresholds <- ThrAll
CONSTANT ShuffleVals <- BothB
INVARIANT EmitCase
CHECK_DEADLOCK FALSE
