SPECIFICATION Spec
CONSTANTS ProtSep = ":" MaxFeat = 1 MaxRows = 2 MaxProt = 2 Mut_EndOffByOne = FALSE Mut_KeepDD = TRUE Mut_ValidSkipsDD = FALSE
INVARIANT OneLinePerPsmInv
CHECK_DEADLOCK FALSE
