SPECIFICATION Spec
CONSTANTS MaxRows = 7 MaxChunk = 8 MaxRg = 8 FullBatches = TRUE AsIs_CsvEmptyCols = FALSE AsIs_ParquetEmptyCols = FALSE
          Mut_IndexRestart = FALSE Mut_NoReorder = FALSE Mut_JoinNoReorder = FALSE
INVARIANT EmitCase
CONSTRAINT GenOnly
CHECK_DEADLOCK FALSE
