SPECIFICATION Spec
CONSTANTS MaxRows = 4 MaxChunk = 3 MaxRg = 2 FullBatches = FALSE AsIs_CsvEmptyCols = FALSE AsIs_ParquetEmptyCols = FALSE
          Mut_IndexRestart = FALSE Mut_NoReorder = FALSE Mut_JoinNoReorder = FALSE
INVARIANT IndexContinues
CHECK_DEADLOCK FALSE
