---------------------------- MODULE PepXmlTrace ----------------------------
(* Property-level acceptor for C20 on calls of mokapot.read_pepxml(files, decoy_prefix, to_df=True) recorded from
   the real code.

   trace = [tid, prefix : STRING, files : document structure of PepXmlDef (what the driver rendered as text),
            kind : "PepXmlRows" | "Raised", raised : exception type ("" if none),
            rows : [ [file : STRING, scan, charge : Int, rt, mass : <<value * 1000, exact>>, peptide : STRING,
                      proteins : [STRING ..] (the "proteins" cell split at tabs), label : "target" | "decoy" | other,
                      feats : [column name |-> <<status, value * 1000>>]  status "ok" = numeric column, finite,
                                                                         value * 1000 is an exact integer ] .. ] ]

   The expected table is recomputed here from `files` (RowsDef); rows must match it one to one, in order.
   Columns that the statement does not mention (calc_mass, mass_diff, abs_mz_diff, charge_<z>, a score of another
   hit that this hit lacks) are ignored. *)
EXTENDS PepXmlDef, TLC, TLCExt, Json, IOUtils
Traces == JsonDeserialize(IOEnv.TRACES_FILE)
VARIABLE tid
T == Traces[tid]

FeatOK(row, x) == x[1] \in DOMAIN row.feats /\ row.feats[x[1]] = <<"ok", x[2]>>
Clauses ==
   IF ~DocOK(T.files) THEN [Domain |-> TRUE]                         \* outside the stated domain: vacuous
   ELSE IF ErrDef(T.files) THEN [ErrorRaised |-> T.kind = "Raised"]  \* Percolator output / not PepXML
   ELSE
   LET exp == RowsDef(T.prefix, T.files)
       rows == T.rows
       n == Len(exp)
       same == T.kind = "PepXmlRows" /\ Len(rows) = n
   IN [NoError      |-> T.kind = "PepXmlRows",
       OnePsmPerHit |-> same,
       Spectrum     |-> same /\ \A i \in 1..n : /\ rows[i].scan = exp[i].scan /\ rows[i].charge = exp[i].charge
                                                /\ rows[i].rt = <<exp[i].rt, TRUE>>
                                                /\ rows[i].mass = <<exp[i].mass, TRUE>>,
       FileName     |-> same /\ \A i \in 1..n : rows[i].file = exp[i].file,
       Peptide      |-> same /\ \A i \in 1..n : rows[i].peptide = Cat(exp[i].pep),
       Proteins     |-> same /\ \A i \in 1..n : rows[i].proteins = exp[i].prots,
       LabelValid   |-> same /\ \A i \in 1..n : rows[i].label \in {"target", "decoy"},
       DecoyOnlyIfAllDecoy |-> same /\ \A i \in 1..n : rows[i].label = "decoy" => ~exp[i].target,
       DecoyIfAllDecoy     |-> same /\ \A i \in 1..n : ~exp[i].target => rows[i].label = "decoy",
       Scores       |-> same /\ \A i \in 1..n : \A x \in exp[i].feats : FeatOK(rows[i], x)]
Failed == LET cl == Clauses IN {c \in DOMAIN cl : ~cl[c]}
Init == tid \in 1..Len(Traces)
Spec == Init /\ [][UNCHANGED tid]_tid
Verdict == LET f == Failed IN PrintT(<<"VERDICT", T.tid, IF f = {} THEN "accept" ELSE "reject", f>>)
=============================================================================
