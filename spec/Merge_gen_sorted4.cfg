SPECIFICATION Spec
CONSTANTS MaxInputs = 4 MaxLen = 2 MaxRank = 3 Impls = {"rowdict"} TieAny = FALSE
          Mut_DropLast = FALSE Mut_NoGuard = FALSE Mut_StrictGuard = FALSE
INVARIANT EmitCase
CONSTRAINT GenOnly
CHECK_DEADLOCK FALSE
