SPECIFICATION Spec
CONSTANTS MaxLen = 2 Alphabet = {"K", "P", "M", "F"}
          Enzymes = {"KR", "KRnoP", "lbKRnoP", "lookK", "FWY"}
          MCs = {0, 1, 2} Bounds <- BoundsGrid Clips = {TRUE, FALSE} Semis = {TRUE, FALSE}
          Mut_NoEndSite = FALSE Mut_McOffByOne = FALSE Mut_ClipAnyStart = FALSE
INVARIANT ImplEqualsDef
INVARIANT AllSubstrings
INVARIANT NonEmpty
INVARIANT MonoMC
INVARIANT MonoMin
INVARIANT MonoMax
INVARIANT MonoSemi
INVARIANT SitesShape
CHECK_DEADLOCK FALSE
