SPECIFICATION Spec
CONSTANTS
  Families = {"single", "pairs", "struct1", "runs2", "files2", "errors"}
  MaxMods = 3 MaxAlts = 2 Rich = TRUE MaxSpec2 = 2
  Mut_NoOffset = FALSE Mut_InsertBefore = FALSE Mut_LabelPrimaryOnly = FALSE Mut_LabelLastWins = FALSE Mut_StaleSpec = FALSE Mut_LastFileOnly = FALSE
INVARIANT DocsInDomain
INVARIANT Refines
INVARIANT OnePsmPerHit
INVARIANT LabelRule
CHECK_DEADLOCK FALSE
