SPECIFICATION Spec
CONSTANTS MaxN = 4 MaxIter = 2 StrictA = TRUE GenMod = 1
  AsIs_UnconditionalUnshuffle = FALSE Mut_NoReshuffle = FALSE Mut_FeedUnlabeled = TRUE Mut_InverseMixup = FALSE
CONSTANT Thresholds <- ThrSmall
CONSTANT ShuffleVals <- BothB
INVARIANT NoUnlabeledFed
CHECK_DEADLOCK FALSE
