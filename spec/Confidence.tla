---------------------------- MODULE Confidence ----------------------------
(* Implementation-shaped model of mokapot.assign_confidence (confidence.py) for ONE collection:

     WriteChunk(i)   create_sorted_file_iterator / _save_sorted_metadata_chunks (795-878): the table is cut
                     into chunks of CONFIDENCE_CHUNK_SIZE rows; each chunk is sorted by descending score
                     (sort_values is not stable: any order among ties), optionally de-duplicated per
                     spectrum (drop_duplicates keeps the first = best), written to its own temp file
     Glob            the merge list: `dest_dir.glob(prefix + "scores_metadata_*")` -- any order
     MergeScan       utils.merge_sort/get_next_row: the FIRST file (in merge-list order) whose head has the
                     strictly largest score; then the seen-set logic of confidence.py:720-746 (a duplicate
                     spectrum `break`s out of the level loop, a duplicate entity `continue`s)
     Finish          level files complete (q-values etc. are functions of these sequences: ConfDef!QOver)

   AsIs_ChunkDedupOnRollup: the code passes `do_rollup` where the chunk writer expects `deduplication`
   (confidence.py:678-685, 871).  Mut_*: seeded design faults. *)
EXTENDS Naturals, Sequences, FiniteSets, TLC, SequencesExt, Functions, ConfDef

CONSTANTS MaxRows, NSpec, NKey, NLev, MaxRank,
          AsIs_ChunkDedupOnRollup,
          Mut_SeenBeforeCompetition,  \* fault: the entity seen-set is updated even for PSMs that lose the spectrum competition
          Mut_MergeSmallestHead       \* fault: merge emits the smallest head

VARIABLES rows, csize, dedup, rollup, pc, files, gorder, heads, seenS, seenK, outPsm, outLev
vars == <<rows, csize, dedup, rollup, pc, files, gorder, heads, seenS, seenK, outPsm, outLev>>

N == Len(rows)
Ids == 1..N
Rank(i) == rows[i].rank
\* canonical tables: spectra and entities named in order of first appearance, targets only matter for q
\* the table is built row by row (canonical: spectra / entities named by first appearance), so that all TLC workers share
\* the enumeration; Begin then picks the configuration
MaxOf(S) == IF S = {} THEN 0 ELSE Max(S)
Init == /\ rows = <<>> /\ csize = 1 /\ dedup = TRUE /\ rollup = TRUE
        /\ pc = "build" /\ files = <<>> /\ gorder = <<>> /\ heads = <<>>
        /\ seenS = {} /\ seenK = [k \in 1..NLev |-> {}] /\ outPsm = <<>> /\ outLev = [k \in 1..NLev |-> <<>>]
AddRow == /\ pc = "build" /\ Len(rows) < MaxRows
          /\ \E sp \in 1..NSpec, rk \in 1..MaxRank, ky \in [1..NLev -> 1..NKey] :
                /\ sp <= 1 + MaxOf({rows[i].spec : i \in 1..Len(rows)})
                /\ \A k \in 1..NLev : ky[k] <= 1 + MaxOf({rows[i].key[k] : i \in 1..Len(rows)})
                /\ rows' = Append(rows, [spec |-> sp, key |-> ky, tgt |-> TRUE, rank |-> rk])   \* labels do not influence retention
          /\ UNCHANGED <<csize, dedup, rollup, pc, files, gorder, heads, seenS, seenK, outPsm, outLev>>
Begin == /\ pc = "build" /\ Len(rows) >= 1
         /\ \E top \in 1..MaxRank : {rows[i].rank : i \in 1..Len(rows)} = 1..top      \* dense ranks
         /\ csize' \in 1..MaxRows /\ dedup' \in BOOLEAN /\ rollup' \in BOOLEAN
         /\ pc' = "chunk"
         /\ UNCHANGED <<rows, files, gorder, heads, seenS, seenK, outPsm, outLev>>

IsSortedPermOf(s, S) == /\ Len(s) = Cardinality(S) /\ SeqSet(s) = S
                        /\ \A i \in 1..(Len(s) - 1) : Rank(s[i]) >= Rank(s[i + 1])
RECURSIVE DropDupSpec(_, _)
DropDupSpec(s, seen) == IF s = <<>> THEN <<>>
   ELSE IF rows[Head(s)].spec \in seen THEN DropDupSpec(Tail(s), seen)
        ELSE <<Head(s)>> \o DropDupSpec(Tail(s), seen \cup {rows[Head(s)].spec})
ChunkDedupFlag == IF AsIs_ChunkDedupOnRollup THEN rollup ELSE dedup

WriteChunk ==
  /\ pc = "chunk"
  /\ LET k == Len(files)
         lo == k * csize + 1
         hi == IF lo + csize - 1 > N THEN N ELSE lo + csize - 1
     IN /\ \E srt \in {s \in [1..(hi - lo + 1) -> lo..hi] : IsSortedPermOf(s, lo..hi)} :
              files' = Append(files, IF ChunkDedupFlag THEN DropDupSpec(srt, {}) ELSE srt)
        /\ pc' = IF hi = N THEN "glob" ELSE "chunk"
  /\ UNCHANGED <<rows, csize, dedup, rollup, gorder, heads, seenS, seenK, outPsm, outLev>>

Glob == /\ pc = "glob"
        /\ gorder' \in {p \in [1..Len(files) -> 1..Len(files)] : \A a, b \in 1..Len(files) : a # b => p[a] # p[b]}
        /\ heads' = [f \in 1..Len(files) |-> 1]
        /\ pc' = "merge"
        /\ UNCHANGED <<rows, csize, dedup, rollup, files, seenS, seenK, outPsm, outLev>>

Live == {g \in 1..Len(files) : heads[gorder[g]] <= Len(files[gorder[g]])}      \* positions in merge-list order
HeadId(g) == files[gorder[g]][heads[gorder[g]]]
Better(a, b) == IF Mut_MergeSmallestHead THEN Rank(a) < Rank(b) ELSE Rank(a) > Rank(b)
PickPos == CHOOSE g \in Live : \A h \in Live : Better(HeadId(g), HeadId(h)) \/ (Rank(HeadId(g)) = Rank(HeadId(h)) /\ g <= h)

RECURSIVE LevelScan(_, _, _, _)
\* the level loop for one row that survived the PSM level: returns <<seenK', outLev'>>
LevelScan(id, k, sk, ol) ==
   IF k > NLev THEN <<sk, ol>>
   ELSE IF rows[id].key[k] \in sk[k] THEN LevelScan(id, k + 1, sk, ol)           \* continue
        ELSE LevelScan(id, k + 1, [sk EXCEPT ![k] = @ \cup {rows[id].key[k]}], [ol EXCEPT ![k] = Append(@, id)])
MarkOnly(id) == [k \in 1..NLev |-> seenK[k] \cup {rows[id].key[k]}]

MergeScan ==
  /\ pc = "merge" /\ Live # {}
  /\ LET g == PickPos  id == HeadId(g)  f == gorder[g]
         dupS == dedup /\ rows[id].spec \in seenS
     IN /\ heads' = [heads EXCEPT ![f] = @ + 1]
        /\ IF dupS
             THEN /\ UNCHANGED <<seenS, outPsm, outLev>>                                  \* break
                  /\ seenK' = IF Mut_SeenBeforeCompetition /\ rollup THEN MarkOnly(id) ELSE seenK
             ELSE /\ seenS' = IF dedup THEN seenS \cup {rows[id].spec} ELSE seenS
                  /\ outPsm' = Append(outPsm, id)
                  /\ IF rollup
                       THEN LET r == LevelScan(id, 1, seenK, outLev) IN seenK' = r[1] /\ outLev' = r[2]
                       ELSE UNCHANGED <<seenK, outLev>>
  /\ UNCHANGED <<rows, csize, dedup, rollup, pc, files, gorder>>

Finish == pc = "merge" /\ Live = {} /\ pc' = "done"
          /\ UNCHANGED <<rows, csize, dedup, rollup, files, gorder, heads, seenS, seenK, outPsm, outLev>>

Next == AddRow \/ Begin \/ WriteChunk \/ Glob \/ MergeScan \/ Finish
Spec == Init /\ [][Next]_vars
---------------------------------------------------------------------------
RowsF == [i \in Ids |-> rows[i]]
PsmLevelOK == pc = "done" => /\ NoDup(outPsm) /\ PsmSetOK(RowsF, Ids, dedup, SeqSet(outPsm))
                             /\ SortedDesc(RowsF, outPsm)
RollupLevelsOK == pc = "done" /\ rollup => \A k \in 1..NLev :
                             /\ NoDup(outLev[k]) /\ LevelSetOK(RowsF, SeqSet(outPsm), k, SeqSet(outLev[k]))
                             /\ SortedDesc(RowsF, outLev[k])
NoRollupNoLevels == pc = "done" /\ ~rollup => \A k \in 1..NLev : outLev[k] = <<>>
\* safety during the scan: what has been emitted so far is duplicate free and sorted
PrefixSorted == SortedDesc(RowsF, outPsm)
\* C05: on tables without ties inside a group the result is a function of the table and the flags only
\* (chunk size, sort order among ties and merge-list order do not appear in it)
OutcomeIsF == pc = "done" /\ TieFreeInGroups(RowsF, Ids, NLev) =>
                 /\ SeqSet(outPsm) = UniquePsm(RowsF, Ids, dedup)
                 /\ rollup => \A k \in 1..NLev : SeqSet(outLev[k]) = UniqueLevel(RowsF, UniquePsm(RowsF, Ids, dedup), k)
\* ---- liveness (checked by Confidence_live.cfg): under weak fairness of the next-state action every behaviour comes to rest
\* in a state without successor -- the modelled procedure terminates for every input, schedule and fault inside the bounds
FairSpec == Spec /\ WF_vars(Next)
Halts == <>[](~ENABLED Next)
=============================================================================
