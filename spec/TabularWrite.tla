----------------------------- MODULE TabularWrite -----------------------------
(* Property C13, writer half: for every writer (delimited text, Parquet, buffered with any buffer size and buffer
   kind) and every sequence of appends, reading back the finalised file returns exactly the appended rows, in order.

   Declarative layer: Final == finalised => file = appended (rows are numbered consecutively 1, 2, ... in the order
   in which the API received them, so sequence equality is "nothing lost, duplicated or reordered").
   Implementation-shaped layer, tabular_data.py:
     Initialize    CSVFileWriter.initialize 591-594 (to_csv, mode "w": header only, truncates) /
                   ParquetFileWriter.initialize 644-647 (ParquetWriter opens = truncates); BufferedWriter.initialize 539
     Append(k)     unbuffered (from_suffix with buffer_size <= 1, 417): CSV to_csv(mode="a") 602 / write_table 656
                   BufferedWriter.append_data 504-531: frame: copy / concat(ignore_index); dicts: buffer += data;
                   records: ONE np.record per call (np.append) -- an append of k rows is k calls
     FlushFull     _write_buffer 493-499: while len(buffer) >= buffer_size: inner.append_data(buffer[:size]);
                   buffer = buffer[size:]
     Finalize      542-544: _write_buffer(force=True): the loop, then the remainder if non-empty (500-502);
                   inner.finalize(): ParquetWriter.close 650 (the footer: the file is readable only afterwards)
   size = 0 stands for the unbuffered writer.  hist is the history variable for behaviour generation. *)
EXTENDS Integers, Sequences, FiniteSets, TLC, SequencesExt

CONSTANTS BufSizes, MaxAppends, MaxRows,
          Mut_FlushLosesRemainder,   \* seeded fault: forced flush does not write the remainder
          Mut_SliceOffByOne,         \* seeded fault: buffer = buffer[size + 1:] after a flush
          Mut_NoTruncate,            \* seeded fault: initialize appends to a stale file
          Mut_NoClose                \* seeded fault: BufferedWriter.finalize forgets inner.finalize()

VARIABLES size, kind, inner, stale,              \* configuration
          pc, buf, todo, file, closed, appended, hist
cfgv == <<size, kind, inner, stale>>
vars == <<size, kind, inner, stale, pc, buf, todo, file, closed, appended, hist>>

Kinds == {"frame", "dicts", "records"}
Init == /\ size \in BufSizes /\ kind \in Kinds /\ (size = 0 => kind = "frame")
        /\ inner \in {"csv", "parquet"} /\ stale \in BOOLEAN
        /\ pc = "new" /\ buf = <<>> /\ todo = <<>> /\ closed = FALSE /\ appended = <<>> /\ hist = <<>>
        /\ file = IF stale THEN <<-1>> ELSE <<>>             \* -1: a row of an older file at the same path

Initialize == /\ pc = "new" /\ pc' = "open"
              /\ file' = IF Mut_NoTruncate THEN file ELSE <<>>
              /\ UNCHANGED <<cfgv, buf, todo, closed, appended, hist>>

NRows == Len(appended) + Len(todo)
NewRows(k) == [i \in 1..k |-> NRows + i]
\* the caller hands k rows to the API
AppendRows(k) ==
   /\ pc = "open" /\ Len(hist) < MaxAppends
   /\ hist' = Append(hist, k)
   /\ IF size = 0
        THEN /\ file' = file \o NewRows(k) /\ appended' = appended \o NewRows(k)       \* straight to the file
             /\ UNCHANGED <<buf, todo, pc>>
        ELSE IF kind = "records"
          THEN /\ todo' = NewRows(k) /\ pc' = IF k = 0 THEN "open" ELSE "rec"           \* k single-record calls
               /\ UNCHANGED <<buf, file, appended>>
          ELSE /\ buf' = buf \o NewRows(k) /\ appended' = appended \o NewRows(k) /\ pc' = "flush"
               /\ UNCHANGED <<todo, file>>
   /\ UNCHANGED <<cfgv, closed>>
AppendRecord == /\ pc = "rec" /\ todo # <<>>
                /\ buf' = Append(buf, Head(todo)) /\ appended' = Append(appended, Head(todo)) /\ todo' = Tail(todo)
                /\ pc' = "flush" /\ UNCHANGED <<cfgv, file, closed, hist>>
FlushFull == /\ pc = "flush" /\ Len(buf) >= size
             /\ file' = file \o SubSeq(buf, 1, size)
             /\ buf' = SubSeq(buf, size + (IF Mut_SliceOffByOne THEN 2 ELSE 1), Len(buf))
             /\ UNCHANGED <<cfgv, pc, todo, closed, appended, hist>>
FlushDone == /\ pc = "flush" /\ Len(buf) < size
             /\ pc' = IF todo # <<>> THEN "rec" ELSE "open"
             /\ UNCHANGED <<cfgv, buf, todo, file, closed, appended, hist>>
Finalize == /\ pc = "open" /\ pc' = "done"
            /\ IF size = 0 THEN closed' = TRUE /\ UNCHANGED <<buf, file>>
               ELSE /\ Len(buf) < size                            \* the loop of the forced flush finds nothing
                    /\ file' = IF Mut_FlushLosesRemainder THEN file ELSE file \o buf
                    /\ buf' = <<>>
                    /\ closed' = ~Mut_NoClose
            /\ UNCHANGED <<cfgv, todo, appended, hist>>
Next == Initialize \/ (\E k \in 0..MaxRows : AppendRows(k)) \/ AppendRecord \/ FlushFull \/ FlushDone \/ Finalize
Spec == Init /\ [][Next]_vars

RECURSIVE Sum(_, _)
Sum(s, i) == IF i > Len(s) THEN 0 ELSE s[i] + Sum(s, i + 1)
Readable == inner = "csv" \/ closed
NoLoss  == pc # "new" => file \o buf = appended
Final   == pc = "done" => /\ Readable /\ file = appended
                          /\ appended = [i \in 1..Sum(hist, 1) |-> i]
Bounded == (pc = "open" /\ size > 0) => Len(buf) < size
EmitCase == pc = "done" => PrintT(<<"CASE", "w", size, kind, inner, stale, hist>>)
\* ---- liveness (checked by TabularWrite_live.cfg): under weak fairness of the next-state action every behaviour comes to rest
\* in a state without successor -- the modelled procedure terminates for every input, schedule and fault inside the bounds
FairSpec == Spec /\ WF_vars(Next)
Halts == <>[](~ENABLED Next)
=============================================================================
