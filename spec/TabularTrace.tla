----------------------------- MODULE TabularTrace -----------------------------
(* Property-level acceptor for C13 on executions recorded from the real readers / writers of
   mokapot.tabular_data and mokapot.streaming.  Rows are identified by the unique row id 0..R-1 the driver put
   into the table; `veq` flags say that every cell of the delivered rows equals the source table's cell of the same
   (row id, column) after conversion to the column's declared dtype (projection done by the driver).

   reader trace  [tid, kind |-> "read", R, c, req (delivered names of the requested columns, in requested order;
                  for columns=None: get_column_names()), raised,
                  whole  |-> [cols, ids, index, veq]                 -- reader.read(columns)
                  chunks |-> <<[cols, ids, index, veq], ...>>,       -- get_chunked_data_iterator(c, columns)
                  events |-> <<>>]
   writer trace  [tid, kind |-> "write", cols (the writer's columns), recorded (BOOLEAN: inner events present), raised,
                  events |-> <<[op, ids, cols, veq], ...>>]   op: "append"   rows handed to append_data, in call order
                                                                  "inner"    rows the (recording) inner writer received
                                                                  "finalize" finalize() / leaving the context manager
                                                                  "readback" get_associated_reader().read()
   The writer acceptor walks the events with cursor l and state (appended, file, fin); it is total (a failed
   obligation is remembered in `failed`, the walk goes on) so every trace reaches its terminal state, where the
   verdict is printed.  Flush sizes are NOT judged: the property speaks about what arrives, not when. *)
EXTENDS Integers, Sequences, FiniteSets, TLC, TLCExt, Json, IOUtils, SequencesExt
Traces == JsonDeserialize(IOEnv.TRACES_FILE)
VARIABLES tid, l, appended, file, fin, nrb, failed
vars == <<tid, l, appended, file, fin, nrb, failed>>
T == Traces[tid]
Iota(n) == [i \in 1..n |-> i - 1]

(* ---------------- readers: one evaluation ---------------- *)
RECURSIVE CatIds(_, _), CatIdx(_, _)
CatIds(cs, k) == IF k > Len(cs) THEN <<>> ELSE cs[k].ids \o CatIds(cs, k + 1)
CatIdx(cs, k) == IF k > Len(cs) THEN <<>> ELSE cs[k].index \o CatIdx(cs, k + 1)
ReadClauses ==
   LET cat == CatIds(T.chunks, 1)  idx == CatIdx(T.chunks, 1) IN
   [NoRaise            |-> T.raised = "",
    WholeIsTable       |-> T.whole.ids = Iota(T.R) /\ T.whole.index = Iota(T.R),
    ConcatEqualsWhole  |-> cat = T.whole.ids,
    ColumnsAsRequested |-> T.whole.cols = T.req /\ \A k \in 1..Len(T.chunks) : T.chunks[k].cols = T.req,
    ValuesUnchanged    |-> T.whole.veq /\ \A k \in 1..Len(T.chunks) : T.chunks[k].veq,
    IndexContinues     |-> idx = Iota(Len(cat)) /\ \A k \in 1..Len(T.chunks) :
                                                       Len(T.chunks[k].index) = Len(T.chunks[k].ids)]
ReadDomain == T.c >= 1 /\ Len(T.req) >= 1          \* outside: accepted vacuously
ReadFailed == IF ReadDomain THEN {n \in DOMAIN ReadClauses : ~ReadClauses[n]} ELSE {}

(* ---------------- writers: event walk ---------------- *)
NEv == Len(T.events)
Ev == T.events[l]
Fail(cond, name) == IF cond THEN {} ELSE {name}
IsEvent(op) == l <= NEv /\ Ev.op = op /\ l' = l + 1 /\ UNCHANGED tid
AppendEv == /\ IsEvent("append")
            /\ appended' = appended \o Ev.ids
            /\ failed' = failed \cup Fail(~fin, "AppendAfterFinalize")
            /\ UNCHANGED <<file, fin, nrb>>
\* the file never contains anything but a prefix of what was appended so far (no loss / duplicate / reordering)
InnerEv == /\ IsEvent("inner")
           /\ file' = file \o Ev.ids
           /\ failed' = failed \cup Fail(IsPrefix(file \o Ev.ids, appended), "FileIsPrefixOfAppended")
           /\ UNCHANGED <<appended, fin, nrb>>
FinalizeEv == /\ IsEvent("finalize") /\ fin' = TRUE
              /\ failed' = failed \cup Fail(~fin, "FinalizedTwice")
              /\ UNCHANGED <<appended, file, nrb>>
ReadBackEv == /\ IsEvent("readback") /\ nrb' = nrb + 1
              /\ failed' = failed \cup Fail(fin, "ReadBackBeforeFinalize")
                                  \cup Fail(Ev.ids = appended, "ReadBackEqualsAppended")
                                  \cup Fail(Ev.cols = T.cols, "ReadBackColumns")
                                  \cup Fail(Ev.veq, "ValuesUnchanged")
                                  \cup Fail(T.recorded => file = appended, "InnerGotEverything")
              /\ UNCHANGED <<appended, file, fin>>
OtherEv == /\ l <= NEv /\ Ev.op \notin {"append", "inner", "finalize", "readback"}
           /\ l' = l + 1 /\ failed' = failed \cup {"UnknownEvent"} /\ UNCHANGED <<tid, appended, file, fin, nrb>>
Next == AppendEv \/ InnerEv \/ FinalizeEv \/ ReadBackEv \/ OtherEv

Init == /\ tid \in 1..Len(Traces) /\ l = 1 /\ appended = <<>> /\ file = <<>> /\ fin = FALSE /\ nrb = 0 /\ failed = {}
Spec == Init /\ [][Next]_vars

WriteFailed == failed \cup Fail(T.raised = "", "NoRaise") \cup Fail(nrb >= 1, "ReadBackPresent")
AllFailed == IF T.kind = "read" THEN ReadFailed ELSE WriteFailed
Terminal == l = NEv + 1
Verdict == Terminal => PrintT(<<"VERDICT", T.tid, IF AllFailed = {} THEN "accept" ELSE "reject", AllFailed>>)
=============================================================================
