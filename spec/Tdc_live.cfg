SPECIFICATION FairSpec
CONSTANTS MaxN = 4 DetSort = FALSE Mut_NoPlusOne = FALSE Mut_GroupFirst = FALSE
PROPERTY Halts
CHECK_DEADLOCK FALSE
