SPECIFICATION Spec
CONSTANTS MaxRows = 4 MaxChunk = 3 MaxRg = 2 FullBatches = TRUE AsIs_CsvEmptyCols = TRUE AsIs_ParquetEmptyCols = FALSE
          Mut_IndexRestart = FALSE Mut_NoReorder = FALSE Mut_JoinNoReorder = FALSE
INVARIANT ChunksEqualWhole
CHECK_DEADLOCK FALSE
