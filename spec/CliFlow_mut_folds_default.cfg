SPECIFICATION Spec
CONSTANTS MaxDev = 2 Mut = "folds_default"
INVARIANT Dataflow
CHECK_DEADLOCK FALSE
