SPECIFICATION FairSpec
CONSTANTS NProt = 3 NPep = 2 AllNamings = FALSE
  Mut_SmallestFirst = FALSE Mut_FirstMatchOnly = FALSE Mut_NoUnpatch = FALSE Mut_SplitByProteins = FALSE Mut_PairEveryName = FALSE
PROPERTY Halts
CHECK_DEADLOCK FALSE
