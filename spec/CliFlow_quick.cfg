SPECIFICATION Spec
CONSTANTS MaxDev = 2 Mut = "none"
INVARIANT Dataflow
INVARIANT Order
INVARIANT Complete
PROPERTY Terminates
CHECK_DEADLOCK FALSE
