SPECIFICATION Spec
CONSTANTS MaxRows = 8 MaxSpec = 5 MaxMult = 3 FoldCounts = {2, 3, 4}
INVARIANT EmitCase
CHECK_DEADLOCK FALSE
