------------------------------ MODULE CliFlow ------------------------------
(* The command-line entry point (mokapot/mokapot.py main, mokapot/config.py) as a DATAFLOW state machine: which stage is
   called, in which order, and which value of which command-line option each stage receives.  Pipeline.tla says what a run
   does to the file system; this module says how the user's options reach the stages whose behaviour the listed
   properties describe (folds -> C02, switches of de-duplication / decoy output / prefixes -> C03, the direction and the
   scores that brew returns -> confidence assignment, C07; the seed -> every random source, C08).

     Seed          np.random.seed(seed)                                                              (mokapot.py:79)
     ReadPin       read_pin(files, max_workers)                                                      (:82)
     Plan          prefixes: "" for every collection when aggregating or for a single file, else the stem  (:83-86)
     ReadFasta     only with --proteins: enzyme, missed cleavages, clipping, lengths, semi, decoy prefix  (:97-110)
     LoadModels    only with --load_models: one load_model per file, in the order given             (:114-116)
     MakeModel     otherwise: PercolatorModel(train_fdr, max_iter, direction, override, rng = seed) (:118-126)
     Brew          brew(datasets, model(s), test_fdr, folds, max_workers, subset_max_train, ensemble, rng = seed)  (:129-138)
     Mkdir         dest_dir.mkdir(exist_ok) -- observed as "the destination exists when Confidence starts"  (:141-142)
     Confidence    assign_confidence(psms, scores and descs AS RETURNED BY BREW, eval_fdr = test_fdr, dest_dir,
                   file_root + ".", prefixes, decoys = keep_decoys, deduplication = not skip_deduplication,
                   do_rollup = not skip_rollup, proteins AS RETURNED BY read_fasta, PEP / q-value algorithms, sqlite) (:149-166)
     SaveModels    only with --save_models: one file <dest>/<root.>mokapot.model_fold-<k>.pkl per returned model (:175-186)

   State: opt (the options given), pc, calls (the stage calls made so far with what they received).  The declarative
   layer is the table Expected(call): what the documentation of each option promises its consumer.  Mut selects one
   realistic plumbing slip; TLC must reject each of them (sensitivity configs).  The generator (GenOnly / EmitCase) prints
   every option vector with at most MaxDev deviations from the defaults; drivers/cliflow.py replays each into the real main()
   with recording stand-ins for the stages and CliFlowTrace.tla walks the recorded calls. *)
EXTENDS Naturals, Sequences, FiniteSets, TLC
CONSTANTS MaxDev, Mut
VARIABLES opt, pc, calls
vars == <<opt, pc, calls>>

Default == [nfiles |-> 1, aggregate |-> FALSE, proteins |-> FALSE, load |-> 0, save |-> FALSE, keep_decoys |-> FALSE,
            skip_dedup |-> FALSE, skip_rollup |-> FALSE, ensemble |-> FALSE, override |-> FALSE, peps_error |-> FALSE,
            clip |-> FALSE, semi |-> FALSE, seed |-> 1, folds |-> 3, workers |-> 1, train_fdr |-> 10, test_fdr |-> 10,
            max_iter |-> 10, direction |-> "", cap |-> 0, file_root |-> "", dest |-> "", enzyme |-> "[KR]", missed |-> 2,
            minlen |-> 6, maxlen |-> 50, decoy_prefix |-> "decoy_", peps_alg |-> "qvality", q_alg |-> "tdc", sqlite |-> FALSE]
Dom == [nfiles |-> {1, 2, 3}, aggregate |-> BOOLEAN, proteins |-> BOOLEAN, load |-> {0, 2, 3}, save |-> BOOLEAN, keep_decoys |-> BOOLEAN,
        skip_dedup |-> BOOLEAN, skip_rollup |-> BOOLEAN, ensemble |-> BOOLEAN, override |-> BOOLEAN, peps_error |-> BOOLEAN,
        clip |-> BOOLEAN, semi |-> BOOLEAN, seed |-> {1, 7, 42}, folds |-> {2, 3, 5}, workers |-> {1, 3}, train_fdr |-> {10, 50, 200},
        test_fdr |-> {10, 30, 300}, max_iter |-> {10, 4}, direction |-> {"", "f1"}, cap |-> {0, 50}, file_root |-> {"", "run"},
        dest |-> {"", "out"}, enzyme |-> {"[KR]", "[FWY]"}, missed |-> {2, 0}, minlen |-> {6, 3}, maxlen |-> {50, 30},
        decoy_prefix |-> {"decoy_", "rev_"}, peps_alg |-> {"qvality", "kde_nnls", "hist_nnls"}, q_alg |-> {"tdc", "from_peps", "from_counts"},
        sqlite |-> BOOLEAN]
Fields == DOMAIN Default
\* option vectors with at most MaxDev deviations from the defaults (built constructively: TLC cannot filter the full product)
RECURSIVE Dev(_)
Dev(n) == IF n = 0 THEN {Default}
          ELSE LET prev == Dev(n - 1) IN prev \cup UNION {{[o EXCEPT ![f] = v] : v \in Dom[f]} : o \in prev, f \in Fields}
Opts == Dev(MaxDev)

N == opt.nfiles
Stem(i) == IF i = 1 THEN "a" ELSE IF i = 2 THEN "b" ELSE "c"
Single == opt.aggregate \/ N = 1
Prefixes == [i \in 1..N |-> IF (IF Mut = "prefix_ignores_aggregate" THEN N = 1 ELSE Single) THEN "" ELSE Stem(i)]
\* ---- what the code hands to each stage (with the seeded slip, if any) ----
RecvSeed == [st |-> "Seed", seed |-> opt.seed]
RecvReadPin == [st |-> "ReadPin", nfiles |-> N, workers |-> opt.workers]
RecvPlan == [st |-> "Plan", prefixes |-> Prefixes]
RecvFasta == [st |-> "ReadFasta", enzyme |-> opt.enzyme, missed |-> opt.missed, clip |-> opt.clip,
              minlen |-> IF Mut = "lengths_swapped" THEN opt.maxlen ELSE opt.minlen,
              maxlen |-> IF Mut = "lengths_swapped" THEN opt.minlen ELSE opt.maxlen, semi |-> opt.semi, decoy_prefix |-> opt.decoy_prefix]
RecvLoad(k) == [st |-> "LoadModel", k |-> k]
RecvMake == [st |-> "MakeModel", train_fdr |-> opt.train_fdr, max_iter |-> opt.max_iter, direction |-> opt.direction,
             override |-> IF Mut = "override_always" THEN TRUE ELSE opt.override,
             seeded |-> Mut # "model_unseeded", seed |-> opt.seed]
RecvBrew == [st |-> "Brew", ndatasets |-> N, model |-> IF opt.load > 0 THEN "loaded" ELSE "made", nmodels |-> opt.load,
             test_fdr |-> IF Mut = "brew_gets_train_fdr" THEN opt.train_fdr ELSE opt.test_fdr,
             folds |-> IF Mut = "folds_default" THEN 3 ELSE opt.folds, workers |-> opt.workers, cap |-> opt.cap,
             ensemble |-> opt.ensemble, seeded |-> Mut # "brew_unseeded", seed |-> opt.seed]
RecvMkdir == [st |-> "Mkdir", dest |-> opt.dest]
RecvConf == [st |-> "Confidence", from_brew |-> Mut # "descs_not_from_brew", workers |-> opt.workers,
             eval_fdr |-> opt.test_fdr, dest |-> opt.dest, file_root |-> IF opt.file_root = "" THEN "" ELSE opt.file_root \o ".",
             prefixes |-> Prefixes, decoys |-> opt.keep_decoys,
             dedup |-> IF Mut = "dedup_not_passed" THEN TRUE ELSE ~opt.skip_dedup,       \* F-03e on the pinned tree
             rollup |-> ~opt.skip_rollup, proteins |-> opt.proteins, peps_error |-> opt.peps_error,
             peps_alg |-> opt.peps_alg, q_alg |-> opt.q_alg, sqlite |-> opt.sqlite]
NModels == IF opt.load > 0 THEN opt.load ELSE opt.folds
RecvSave(k) == [st |-> "SaveModel", k |-> k, dest |-> opt.dest, file_root |-> opt.file_root]

Init == opt \in Opts /\ pc = "start" /\ calls = <<>>
Do(c, next) == calls' = Append(calls, c) /\ pc' = next /\ UNCHANGED opt
Seed == pc = "start" /\ Do(RecvSeed, "seeded")
ReadPin == pc = "seeded" /\ Do(RecvReadPin, "parsed")
Plan == pc = "parsed" /\ pc' = (IF opt.proteins THEN "fasta" ELSE "model") /\ UNCHANGED <<opt, calls>>   \* internal: the prefixes travel to Confidence
ReadFasta == pc = "fasta" /\ Do(RecvFasta, "model")
NLoaded == Cardinality({i \in 1..Len(calls) : calls[i].st = "LoadModel"})
LoadModel == pc = "model" /\ opt.load > 0 /\ NLoaded < opt.load /\ Do(RecvLoad(NLoaded + 1), "model")
MakeModel == pc = "model" /\ opt.load = 0 /\ Do(RecvMake, "brew")
ModelsReady == pc = "model" /\ opt.load > 0 /\ NLoaded = opt.load /\ pc' = "brew" /\ UNCHANGED <<opt, calls>>
Brew == pc = "brew" /\ Do(RecvBrew, IF Mut = "save_before_confidence" /\ opt.save THEN "save" ELSE "mkdir")
Mkdir == pc = "mkdir" /\ Do(RecvMkdir, "conf")          \* the default destination is the working directory: mkdir(exist_ok) all the same
Confidence == pc = "conf" /\ Do(RecvConf, IF Mut = "save_before_confidence" THEN "done" ELSE IF opt.save THEN "save" ELSE "done")
NSaved == Cardinality({i \in 1..Len(calls) : calls[i].st = "SaveModel"})
SaveModel == pc = "save" /\ IF NSaved < NModels THEN Do(RecvSave(NSaved + 1), "save")
                             ELSE pc' = (IF Mut = "save_before_confidence" THEN "mkdir" ELSE "done") /\ UNCHANGED <<opt, calls>>
Next == Seed \/ ReadPin \/ Plan \/ ReadFasta \/ LoadModel \/ MakeModel \/ ModelsReady \/ Brew \/ Mkdir \/ Confidence \/ SaveModel
Spec == Init /\ [][Next]_vars /\ WF_vars(Next)
---------------------------------------------------------------------------
\* ---- declarative layer: what each option promises its consumer (o = the options given) ----
ExpPrefixes(o) == [i \in 1..o.nfiles |-> IF o.aggregate \/ o.nfiles = 1 THEN "" ELSE Stem(i)]
Expected(o, c) ==
   CASE c.st = "Seed" -> c.seed = o.seed
     [] c.st = "ReadPin" -> c.nfiles = o.nfiles /\ c.workers = o.workers
     [] c.st = "Plan" -> c.prefixes = ExpPrefixes(o)
     [] c.st = "ReadFasta" -> /\ o.proteins /\ c.enzyme = o.enzyme /\ c.missed = o.missed /\ c.clip = o.clip /\ c.minlen = o.minlen
                              /\ c.maxlen = o.maxlen /\ c.semi = o.semi /\ c.decoy_prefix = o.decoy_prefix
     [] c.st = "LoadModel" -> o.load > 0 /\ c.k \in 1..o.load
     [] c.st = "MakeModel" -> /\ o.load = 0 /\ c.train_fdr = o.train_fdr /\ c.max_iter = o.max_iter /\ c.direction = o.direction
                              /\ c.override = o.override /\ c.seeded /\ c.seed = o.seed
     [] c.st = "Brew" -> /\ c.ndatasets = o.nfiles /\ c.model = (IF o.load > 0 THEN "loaded" ELSE "made") /\ c.nmodels = o.load
                         /\ c.test_fdr = o.test_fdr /\ c.folds = o.folds /\ c.workers = o.workers /\ c.cap = o.cap
                         /\ c.ensemble = o.ensemble /\ c.seeded /\ c.seed = o.seed
     [] c.st = "Mkdir" -> c.dest = o.dest
     [] c.st = "Confidence" -> /\ c.from_brew /\ c.workers = o.workers /\ c.eval_fdr = o.test_fdr /\ c.dest = o.dest
                               /\ c.file_root = (IF o.file_root = "" THEN "" ELSE o.file_root \o ".")
                               /\ c.prefixes = ExpPrefixes(o) /\ c.decoys = o.keep_decoys /\ c.dedup = ~o.skip_dedup
                               /\ c.rollup = ~o.skip_rollup /\ c.proteins = o.proteins /\ c.peps_error = o.peps_error
                               /\ c.peps_alg = o.peps_alg /\ c.q_alg = o.q_alg /\ c.sqlite = o.sqlite
     [] c.st = "SaveModel" -> o.save /\ c.dest = o.dest /\ c.file_root = o.file_root
     [] OTHER -> FALSE
Pos(st) == {i \in 1..Len(calls) : calls[i].st = st}
Before(a, b) == \A i \in Pos(a), j \in Pos(b) : i < j
Count(st) == Cardinality(Pos(st))
\* ---- invariants ----
Dataflow == \A i \in 1..Len(calls) : Expected(opt, calls[i])
Order == /\ Before("Seed", "ReadPin") /\ Before("ReadPin", "Brew") /\ Before("ReadFasta", "Confidence") /\ Before("LoadModel", "Brew")
         /\ Before("MakeModel", "Brew") /\ Before("Brew", "Confidence") /\ Before("Mkdir", "Confidence") /\ Before("Confidence", "SaveModel")
Complete == pc = "done" =>
   /\ Count("Seed") = 1 /\ Count("ReadPin") = 1 /\ Count("Brew") = 1 /\ Count("Confidence") = 1
   /\ Count("ReadFasta") = (IF opt.proteins THEN 1 ELSE 0)
   /\ Count("LoadModel") = opt.load /\ Count("MakeModel") = (IF opt.load = 0 THEN 1 ELSE 0)
   /\ Count("Mkdir") = 1
   /\ Count("SaveModel") = (IF opt.save THEN NModels ELSE 0)
   /\ {calls[i].k : i \in Pos("SaveModel")} = (IF opt.save THEN 1..NModels ELSE {})
   /\ {calls[i].k : i \in Pos("LoadModel")} = 1..opt.load
Terminates == <>(pc = "done")
\* ---- generation ----
GenOnly == pc = "start"
EmitCase == pc = "start" => PrintT(<<"CASE", opt>>)
=============================================================================
