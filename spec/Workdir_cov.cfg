SPECIFICATION Spec
CONSTANTS MaxRuns = 2 MaxChunks = 3 Prefixes = {"", "a"} AsIs_GlobTemp = FALSE Mut_NoCleanup = FALSE
INVARIANT ResultsOnlyFromOwnInputs
INVARIANT NoIntermediateLeft
CHECK_DEADLOCK FALSE
