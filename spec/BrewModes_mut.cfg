SPECIFICATION Spec
CONSTANTS Folds = 3 Mut_ScoreWithUntrained = TRUE
INVARIANT UntrainedNeverScores
CHECK_DEADLOCK FALSE
