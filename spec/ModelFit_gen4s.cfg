SPECIFICATION Spec
CONSTANTS MaxN = 4 MaxIter = 3 StrictA = FALSE GenMod = 29
  AsIs_UnconditionalUnshuffle = FALSE Mut_NoReshuffle = FALSE Mut_FeedUnlabeled = FALSE Mut_InverseMixup = FALSE
CONSTANT Thresholds <- ThrMid
CONSTANT ShuffleVals <- BothB
INVARIANT EmitCase
CONSTRAINT GenKeep
CHECK_DEADLOCK FALSE
