--------------------------- MODULE PinParseTrace ---------------------------
(* Property-level acceptor for C10 on calls of mokapot.read_pin recorded from the real code.

   trace = [tid,
            -- the schema the driver rendered into a real .pin / .tab / .parquet file
            names : [STRING..]     column names as written (file order)
            kinds : [STRING..]     the kind of every column (PinParse.tla: "specid" ... "feature")
            cs    : STRING         casing class of the reserved names
            nrows : Int            PSM rows
            nan   : [[col, row]..] cells written as missing values (1-based column / row)
            enc   : "pm" | "zo" | "bool",   lab : [Int..]  the label cell of every row (bool: 1 = true, 0 = false)
            keyin : [[STRING..]..] per row, the cells of the available filename, scannr, ret_time, expmass
                                   columns in that order (the scan cell is distinct for every row)
            file  : STRING         name of the file
            cfg   : [fmt, cc, rsize, w, ...]   format, column / row scan chunk sizes, max_workers (information)
            -- what read_pin returned
            out   : [raised   : STRING      "" or the exception type
                     features : [STRING..]  dataset.feature_columns
                     spectrum : [STRING..]  dataset.spectrum_columns
                     sdf_cols : [STRING..]  columns of dataset.spectra_dataframe
                     index    : [Int..]     its index
                     keyout   : [[STRING..]..]  per entry of the frame, the cells of its spectrum columns
                     targets  : [BOOLEAN..] its label column (empty unless of dtype bool), tdtype : STRING
                     meta, levels : [STRING..]  metadata_columns, level_columns
                     filename : STRING      name of dataset.filename]]

   The declarative result is recomputed from the recorded schema with the declarative layer of PinParse.tla
   (MustFail, FeaturesDef, KeyDef, TargetsDef, MetaDef, LevelsDef: Clauses) with nm = names and rid = keyin;
   the trace is accepted iff the recorded dataset equals it.  A schema outside the statement's domain is
   accepted vacuously with the marker {"OutOfDomain"}. *)
EXTENDS Integers, Sequences, FiniteSets, TLC, TLCExt, Json, IOUtils
Traces == JsonDeserialize(IOEnv.TRACES_FILE)
VARIABLE tid
T == Traces[tid]

\* declarative layer only: the model's constants and variables are dummies here
D == INSTANCE PinParse WITH FeatLo <- 0, FeatHi <- 0, OptSets <- {}, LevSets <- {}, Orders <- {}, Casings <- {},
        Encs <- {}, NanCls <- {}, Chunks <- {}, Workers <- {}, RowCls <- {}, Errs <- {}, NRows <- 0,
        Rotate <- FALSE, RotK <- 0, AsIs_Remainder1Only <- FALSE, AsIs_ChargeDefaultName <- TRUE,
        Mut_KeepSingleNaN <- FALSE, Mut_CaseSensitive <- FALSE, Mut_ZeroIsTarget <- FALSE, Mut_KeyFileOrder <- FALSE,
        c <- 0, x <- 0, pc <- 0, cls <- 0, chunks <- 0, nextT <- 0, running <- 0, prog <- 0, mask <- 0, ret <- 0,
        dfl <- 0, out <- 0

SeqRange(s) == {s[i] : i \in 1..Len(s)}
Distinct(s) == Cardinality(SeqRange(s)) = Len(s)
X == [hdr |-> T.kinds, cs |-> T.cs, nrows |-> T.nrows,
      nan |-> {<<T.nan[i][1], T.nan[i][2]>> : i \in 1..Len(T.nan)},
      enc |-> T.enc, lab |-> T.lab, cc |-> T.cfg.cc, rsize |-> T.cfg.rsize, w |-> T.cfg.w]
R == [err |-> T.out.raised, features |-> T.out.features, key |-> T.out.spectrum, rows |-> T.out.keyout,
      targets |-> T.out.targets, meta |-> SeqRange(T.out.meta), levels |-> SeqRange(T.out.levels)]
Domain == /\ Len(T.names) = Len(T.kinds) /\ Distinct(T.names)
          /\ D!WellFormed(X)
          /\ Len(T.keyin) = T.nrows /\ (D!Has(X, "scannr") => Distinct(T.keyin))   \* row order is observable

\* the clauses of PinParse.tla plus what ties the spectra frame and the file name to the input
Clauses ==
   LET x == X  r == R
       live == r.err = "" /\ ~D!MustFail(x)
       keynames == D!MapSeq(T.names, D!KeyDef(x))
   IN D!Clauses(x, r, T.names, T.keyin) @@
      [Frame |-> live => /\ SeqRange(T.out.sdf_cols) = SeqRange(keynames) \cup {T.names[D!Col(x, "label")]}
                         /\ Len(T.out.sdf_cols) = Len(keynames) + 1
                         /\ T.out.tdtype = "bool"
                         /\ T.out.index = [i \in 1..T.nrows |-> i - 1],    \* entry i is input row i
       File  |-> live => T.out.filename = T.file]
Order == <<"Parses", "Rejects", "Features", "Metadata", "Key", "Rows", "Targets", "Levels", "Frame", "File">>
Failed == IF Domain THEN LET cl == Clauses IN {k \in DOMAIN cl : ~cl[k]} ELSE {}
\* printed: the first three failed clauses in Order and "+n" for the n others (line width); the verdict uses Failed
Shown(F) == LET fs == SelectSeq(Order, LAMBDA k : k \in F) IN
            IF Len(fs) <= 3 THEN F ELSE {fs[1], fs[2], fs[3], "+" \o ToString(Len(fs) - 3)}
Init == tid \in 1..Len(Traces)
Spec == Init /\ [][UNCHANGED tid]_tid
Verdict == LET F == Failed IN
           PrintT(<<"VERDICT", T.tid, IF F = {} THEN "accept" ELSE "reject",
                    IF Domain THEN Shown(F) ELSE {"OutOfDomain"}>>)
=============================================================================
