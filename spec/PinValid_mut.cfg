SPECIFICATION Spec
CONSTANTS MaxH = 2 MaxRows = 3 Mut_OnlyWider = TRUE
INVARIANT ResultIsDef
CHECK_DEADLOCK FALSE
