SPECIFICATION Spec
CONSTANTS MaxInputs = 2 MaxLen = 3 MaxRank = 3 Impls = {"table"} TieAny = FALSE
          Mut_DropLast = FALSE Mut_NoGuard = FALSE Mut_StrictGuard = FALSE
INVARIANT EmitCase
CONSTRAINT GenOnly
CHECK_DEADLOCK FALSE
