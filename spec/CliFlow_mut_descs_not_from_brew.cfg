SPECIFICATION Spec
CONSTANTS MaxDev = 2 Mut = "descs_not_from_brew"
INVARIANT Dataflow
CHECK_DEADLOCK FALSE
