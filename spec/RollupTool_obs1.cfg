SPECIFICATION Spec
CONSTANTS Stems <- StemsA Roots <- RootsR Cols <- Cols3 BaseSet <- BasesPep MaxOps = 4 Exts <- ExtsBoth NRows = 6
 Mut_NoDot = FALSE Mut_ReadUnfiltered = FALSE Mut_SharedSeen = FALSE Mut_BreakOnSeen = FALSE Mut_KeyWithDecoy = FALSE Mut_TempAppend = FALSE AsIs_BaseNames = FALSE
PROPERTY RefusalNeverByLeftovers
CHECK_DEADLOCK FALSE
