SPECIFICATION Spec
CONSTANTS NProt = 3 NPep = 3 AllNamings = FALSE
  Mut_SmallestFirst = FALSE Mut_FirstMatchOnly = FALSE Mut_NoUnpatch = FALSE Mut_SplitByProteins = FALSE Mut_PairEveryName = FALSE
INVARIANT EmitCase
CONSTRAINT GenOnly
CHECK_DEADLOCK FALSE
