SPECIFICATION Spec
CONSTANTS MaxRows = 4 NSpec = 3 NKey = 2 NLev = 1 MaxRank = 3
INVARIANT EmitCase
CHECK_DEADLOCK FALSE
