------------------------------- MODULE Digest -------------------------------
(* Implementation-shaped model of mokapot.digest = fasta.py: digest (263-309), _cleavage_sites (419-443),
   _cleave (446-512), against the declarative layer DigestDef!Digest.

     Pick        the input (sequence, enzyme, missed_cleavages, min/max length, clip, semi) -- one initial
                 state, the input is chosen by the first action (TLC computes initial states single-threaded)
     FindSites   sites = [0] + [m.end() for m in finditer] + [len(sequence)]            (437-442)
                 an ascending LIST: a match ending at len(sequence) or a zero-width match at 0 gives a
                 DUPLICATE of the end sites, which the double loop then meets as empty "peptides"
     double loop for start_idx (si), for diff_idx (d) in range(1, missed_cleavages + 2):  (483-484)
       SkipEnd     end_idx >= len(sites): continue                                        (485-487)
       SkipLen     len(peptide) < min_length or > max_length: continue                    (489-492)
       AddPep      add peptide; clip: start_idx == 0 and startswith("M") and len - 1 >= min_length;
                   semi: for idx in 1..len-1 both peptide[idx:] and peptide[:-idx] while
                   len - idx >= min_length (and <= max_length)                            (494-510)
       NextStart   inner range exhausted
     Finish      return peptides                                                          (512)

   Mut_* are seeded design faults (sensitivity of the model); the enzyme "lookM" (zero-width match at
   position 0 in front of an N-terminal M) is outside the checked enzyme list and is used by
   Digest_dup0.cfg only to show that the duplicate-site layer is live. *)
EXTENDS Integers, Sequences, FiniteSets, TLC, SequencesExt

CONSTANTS MaxLen, Alphabet, Enzymes, MCs, Bounds, Clips, Semis,
          Mut_NoEndSite,      \* fault: len(sequence) is not appended to the sites
          Mut_McOffByOne,     \* fault: range(1, missed_cleavages + 1)
          Mut_ClipAnyStart    \* fault: the methionine is clipped from every peptide, not only the N-terminal one

\* sequences and peptides are tuples of one-character strings here (see DigestDef)
ChrT(c) == <<c>>
INSTANCE DigestDef WITH Chr <- ChrT

VARIABLES pc, seq, enz, mc, minL, maxL, clip, semi, sites, si, d, peps
vars == <<pc, seq, enz, mc, minL, maxL, clip, semi, sites, si, d, peps>>
input == <<seq, enz, mc, minL, maxL, clip, semi>>

\* parameter grids (cfg files cannot hold tuple sets)
BoundsGrid  == {b \in (1..3) \X {2, 4, 50} : b[1] <= b[2]}          \* the drivers' grid
BoundsAll4  == {b \in (1..5) \X (1..5) : b[1] <= b[2]}              \* every bound pair that matters for Len <= 4
BoundsAll5  == {b \in (1..6) \X (1..6) : b[1] <= b[2]}
BoundsQuick == {<<1, 2>>, <<1, 50>>, <<2, 4>>, <<3, 50>>}
BoundsOne   == {<<1, 50>>}

RECURSIVE Strs(_)
Strs(n) == IF n = 0 THEN {<<>>} ELSE {Append(s, c) : s \in Strs(n - 1), c \in Alphabet}
AllSeqs == UNION {Strs(n) : n \in 0..MaxLen}

Init == /\ pc = "pick" /\ seq = <<>> /\ enz = "none" /\ mc = 0 /\ minL = 1 /\ maxL = 1
        /\ clip = FALSE /\ semi = FALSE /\ sites = <<>> /\ si = 0 /\ d = 0 /\ peps = {}

Pick == /\ pc = "pick"
        /\ seq' \in AllSeqs /\ enz' \in Enzymes /\ mc' \in MCs
        /\ \E b \in Bounds : minL' = b[1] /\ maxL' = b[2]
        /\ clip' \in Clips /\ semi' \in Semis
        /\ pc' = "sites"
        /\ UNCHANGED <<sites, si, d, peps>>

L == Len(seq)
\* finditer: matches in ascending order of their end; every position is decided independently for the
\* enzyme patterns of DigestDef (single-character or zero-width matches)
Ends == SetToSortSeq(CutSites(seq, enz), <)
FindSites == /\ pc = "sites"
             /\ sites' = <<0>> \o Ends \o (IF Mut_NoEndSite THEN <<>> ELSE <<L>>)
             /\ si' = 1 /\ d' = 1 /\ pc' = "cleave"
             /\ UNCHANGED <<input, peps>>

DMax == IF Mut_McOffByOne THEN mc ELSE mc + 1                  \* diff_idx \in range(1, mc + 2)
InBody == pc = "cleave" /\ si <= Len(sites) /\ d <= DMax
Pep == Sub(seq, sites[si], sites[si + d])
SkipEnd == /\ InBody /\ si + d > Len(sites)
           /\ d' = d + 1 /\ UNCHANGED <<pc, input, sites, si, peps>>
SkipLen == /\ InBody /\ si + d <= Len(sites)
           /\ (Len(Pep) < minL \/ Len(Pep) > maxL)
           /\ d' = d + 1 /\ UNCHANGED <<pc, input, sites, si, peps>>
SemiOf(pep) == UNION {{SubSeq(pep, idx + 1, Len(pep)), SubSeq(pep, 1, Len(pep) - idx)}
                      : idx \in {i \in 1..(Len(pep) - 1) : Len(pep) - i >= minL /\ Len(pep) - i <= maxL}}
AddPep == /\ InBody /\ si + d <= Len(sites)
          /\ Len(Pep) >= minL /\ Len(Pep) <= maxL
          /\ LET pep == Pep
                 clipped == IF /\ clip /\ (si = 1 \/ Mut_ClipAnyStart)
                               /\ At(pep, 1) = ChrT("M") /\ Len(pep) - 1 >= minL
                            THEN {SubSeq(pep, 2, Len(pep))} ELSE {}
             IN peps' = peps \cup {pep} \cup clipped \cup (IF semi THEN SemiOf(pep) ELSE {})
          /\ d' = d + 1 /\ UNCHANGED <<pc, input, sites, si>>
NextStart == /\ pc = "cleave" /\ si <= Len(sites) /\ d > DMax
             /\ si' = si + 1 /\ d' = 1 /\ UNCHANGED <<pc, input, sites, peps>>
Finish == /\ pc = "cleave" /\ si > Len(sites)
          /\ pc' = "done" /\ UNCHANGED <<input, sites, si, d, peps>>
Next == Pick \/ FindSites \/ SkipEnd \/ SkipLen \/ AddPep \/ NextStart \/ Finish
Spec == Init /\ [][Next]_vars
---------------------------------------------------------------------------
Def(m, lo, hi, sm) == Digest(seq, enz, m, lo, hi, clip, sm)
ImplEqualsDef == pc = "done" => peps = Def(mc, minL, maxL, semi)
AllSubstrings == pc = "done" => \A p \in peps : IsSubstring(seq, p)
NonEmpty      == pc = "done" => <<>> \notin peps
\* the result can only grow with more missed cleavages / wider bounds / semi
MonoMC   == pc = "done" => peps \subseteq Def(mc + 1, minL, maxL, semi)
MonoMin  == pc = "done" /\ minL > 1 => peps \subseteq Def(mc, minL - 1, maxL, semi)
MonoMax  == pc = "done" => peps \subseteq Def(mc, minL, maxL + 1, semi)
MonoSemi == pc = "done" => peps \subseteq Def(mc, minL, maxL, TRUE)
SitesShape == pc \in {"cleave", "done"} =>
                 /\ \A i \in 1..(Len(sites) - 1) : sites[i] <= sites[i + 1]
                 /\ {sites[i] : i \in 1..Len(sites)} = SiteSet(seq, enz) \/ Mut_NoEndSite
\* behaviour generation: one CASE per (sequence, enzyme); the drivers take the product with their parameter grid
EmitCase == pc = "sites" => PrintT(<<"CASE", seq, enz>>)
GenOnly == pc \in {"pick", "sites"}
\* ---- liveness (checked by Digest_live.cfg): under weak fairness of the next-state action every behaviour comes to rest
\* in a state without successor -- the modelled procedure terminates for every input, schedule and fault inside the bounds
FairSpec == Spec /\ WF_vars(Next)
Halts == <>[](~ENABLED Next)
=============================================================================
