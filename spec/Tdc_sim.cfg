SPECIFICATION SimSpec
CONSTANTS MaxN = 7 DetSort = TRUE Mut_NoPlusOne = FALSE Mut_GroupFirst = FALSE
INVARIANT OpEqualsDef
INVARIANT InRange
INVARIANT Monotone
INVARIANT TieEqual
INVARIANT LabelRule
CHECK_DEADLOCK FALSE
