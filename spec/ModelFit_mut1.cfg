SPECIFICATION Spec
CONSTANTS MaxN = 3 MaxIter = 3 StrictA = FALSE GenMod = 1
  AsIs_UnconditionalUnshuffle = FALSE Mut_NoReshuffle = TRUE Mut_FeedUnlabeled = FALSE Mut_InverseMixup = FALSE
CONSTANT Thresholds <- ThrSmall
CONSTANT ShuffleVals <- BothB
INVARIANT LabelsAligned
CHECK_DEADLOCK FALSE
