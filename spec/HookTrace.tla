----------------------------- MODULE HookTrace -----------------------------
(* Implementation-level trace validation: events emitted by the guarded hooks of mokapot/_verif_trace.py (at the
   linearization points of brew and assign_confidence) are walked one by one; every event must be an enabled step
   of the implementation-shaped models (Brew.tla: Split / MakeTrain / SortModels / PredictChunk / Decide,
   Confidence.tla + Workdir.tla: WriteChunk / Glob(paths just written) / Finish) given the state built from the
   earlier events.  Trace sources are the repository's own passing tests and the drivers' runs.

   trace = [tid, events: <<[ev, ...fields]>>]   (one process, in emission order)
   A trace is accepted iff the cursor reaches the end; the verdict names the first event that is not enabled and
   the clause that fails.  Clauses that ARE the listed properties (C02: training set disjoint from the held-out
   fold; C09: merge list = files just written) are marked "P:"; the others are model-conformance clauses ("D:",
   reported as DRIFT by the drivers, never as a violation). *)
EXTENDS Integers, Sequences, SequencesExt, FiniteSets, FiniteSetsExt, TLC, TLCExt, Json, IOUtils
Traces == JsonDeserialize(IOEnv.TRACES_FILE)
VARIABLES tid, l, folds, sizes, testIdx, haveIdx, nTrain, predSeen, written, failedAt,
          fit,      \* thread -> state of the Model.fit running on it (ModelFit.tla: Start / FitEstimator / Relabel / Done)
          buf,      \* buffered writer -> [app, wr, size, fin] (TabularWrite.tla: Append / Flush / Finalize)
          stage,    \* command-line run (Pipeline.tla): 0 not started / finished, 1 verifying inputs, 2 inputs parsed and named
          parsed,   \* row counts of the tables parsed since the command-line run began (cross-stage conservation)
          mode      \* BrewModes.tla: "none" before the models are sorted, then "all_trained" | "reset" | "some_untrained"
vars == <<tid, l, folds, sizes, testIdx, haveIdx, nTrain, predSeen, written, failedAt, fit, buf, stage, parsed, mode>>
T == Traces[tid]
E == T.events[l]
SeqSet(s) == {s[i] : i \in 1..Len(s)}
SumSeq(s) == FoldSet(LAMBDA i, a : a + s[i], 0, 1..Len(s))
Init == /\ tid \in 1..Len(Traces) /\ l = 1 /\ folds = 0 /\ sizes = <<>> /\ testIdx = <<>> /\ haveIdx = FALSE /\ nTrain = 0
        /\ predSeen = <<>> /\ written = <<>> /\ failedAt = <<>>
        /\ fit = <<>> /\ buf = <<>> /\ stage = 0 /\ parsed = <<>> /\ mode = "none"
More == l <= Len(T.events) /\ failedAt = <<>>
\* ---- per-event obligations: a set of failed clause names ----
SplitBad ==
   LET nf == Len(E.sizes) IN
   \* inside a command-line run every parsed table goes into the split, with all its rows (no PSM lost between the stages)
   (IF stage # 2 \/ SortSeq(E.sizes, <) = SortSeq(parsed, <) THEN {} ELSE {"P:Split.rows_differ_from_the_parsed_tables"}) \cup
   (IF ~E.has_idx \/ Len(E.idx) = nf THEN {} ELSE {"D:Split.shape"}) \cup
   (IF ~E.has_idx \/ Len(E.idx) # nf THEN {} ELSE
    UNION {LET F == E.idx[f] IN
           (IF Len(F) = E.folds THEN {} ELSE {"P:Split.exactly_folds"}) \cup
           (IF UNION {SeqSet(F[k]) : k \in 1..Len(F)} = 0..(E.sizes[f] - 1) THEN {} ELSE {"P:Split.covers_all_rows"}) \cup
           (IF SumSeq([k \in 1..Len(F) |-> Len(F[k])]) = E.sizes[f] THEN {} ELSE {"P:Split.disjoint"}) \cup
           (IF \A k \in 1..Len(F) : Len(F[k]) > 0 THEN {} ELSE {"P:Split.nonempty"})
           : f \in 1..nf})
TrainBad ==
   LET k == nTrain + 1  nf == Len(sizes) IN
   (IF k <= folds THEN {} ELSE {"D:TrainSet.too_many"}) \cup
   (IF ~E.has_idx \/ ~haveIdx \/ k > folds \/ Len(E.idx) # nf THEN {} ELSE
    UNION {LET tr == SeqSet(E.idx[f])  held == SeqSet(testIdx[f][k])  all == 0..(sizes[f] - 1) IN
           (IF tr \cap held = {} THEN {} ELSE {"P:TrainSet.includes_held_out_fold"}) \cup
           (IF tr \subseteq all THEN {} ELSE {"P:TrainSet.unknown_rows"}) \cup
           (IF E.capped \/ tr = all \ held THEN {} ELSE {"P:TrainSet.not_the_complement"})
           : f \in 1..nf}) \cup
   (IF E.capped /\ SumSeq(E.sizes) > E.cap THEN {"P:TrainSet.larger_than_cap"} ELSE {})
SortedBad ==
   (IF \A i \in 1..(Len(E.folds) - 1) : E.folds[i] < E.folds[i + 1] THEN {} ELSE {"P:ModelsSorted.not_sorted_by_fold"}) \cup
   (IF folds = 0 \/ Len(E.folds) = folds THEN {} ELSE {"D:ModelsSorted.count"})
PredictBad ==
   \* BrewModes.tla: the per-fold prediction path is only taken when every fold model is trained and none was reset
   (IF mode \in {"none", "all_trained"} THEN {} ELSE {"D:PredictChunk.on_the_" \o mode \o "_path"}) \cup
   (IF folds = 0 \/ Len(E.sizes) = folds THEN {} ELSE {"D:PredictChunk.folds"}) \cup
   (IF \A k \in 1..Len(E.sizes) : E.sizes[k] >= 0 THEN {} ELSE {"D:PredictChunk.sizes"})
DecisionBad ==
   (IF E.fallback = (E.feat_total > E.pred_total) THEN {} ELSE {"D:Decision.rule"}) \cup
   \* every row of every file has been predicted exactly once by the model of its fold
   (IF ~haveIdx \/ predSeen = <<>> THEN {}
    ELSE IF \A k \in 1..folds : predSeen[k] = SumSeq([f \in 1..Len(sizes) |-> Len(testIdx[f][k])]) THEN {}
    ELSE {"P:Predict.rows_per_fold"})
ChunkBad ==
   (IF E.rows <= E.read THEN {} ELSE {"D:ChunkWritten.grew"}) \cup
   (IF E.dedup \/ E.rows = E.read THEN {} ELSE {"P:ChunkWritten.dropped_rows_without_dedup"})
MergeBad ==
   LET names == SeqSet(E.names)  w == {written[i].name : i \in 1..Len(written)} IN
   (IF names = w THEN {} ELSE {"P:MergeList.not_the_files_just_written"}) \cup
   (IF Len(E.names) = Cardinality(names) THEN {} ELSE {"D:MergeList.duplicates"}) \cup
   (IF SumSeq([i \in 1..Len(written) |-> written[i].read]) = E.rows THEN {} ELSE {"P:MergeList.rows_lost_before_merge"}) \cup
   (IF Len(written) = (E.rows + E.chunk - 1) \div E.chunk THEN {} ELSE {"D:MergeList.chunk_count"})
LevelBad ==
   (IF E.seen <= E.psms THEN {} ELSE {"D:LevelDone.more_entities_than_psms"})
\* ---- Model.fit (one training per thread at a time) ----
NoFit == [n |-> 0, nt |-> 0, nd |-> 0, pos |-> 0, neg |-> 0, it |-> -1, maxit |-> 0, fed |-> FALSE]
FitOf(th) == IF th \in DOMAIN fit THEN fit[th] ELSE NoFit
FitStartBad ==
   (IF E.n = E.n_target + E.n_decoy THEN {} ELSE {"D:FitStart.counts"}) \cup
   (IF E.start_neg = E.n_decoy THEN {} ELSE {"P:FitStart.negatives_are_not_exactly_the_decoys"}) \cup
   (IF E.start_pos >= 1 /\ E.start_pos <= E.n_target THEN {} ELSE {"P:FitStart.positives_not_among_targets"})
FitIterBad ==
   LET F == FitOf(E.th) IN
   (IF F.maxit > 0 /\ E.it = F.it + 1 /\ E.it < F.maxit /\ ~F.fed THEN {} ELSE {"D:FitIter.order"}) \cup
   (IF E.fed = E.fed_pos + E.fed_neg THEN {} ELSE {"P:FitIter.unlabelled_rows_fed"}) \cup
   (IF F.maxit = 0 \/ E.fed_pos = F.pos THEN {} ELSE {"P:FitIter.positives_not_the_accepted_targets"}) \cup
   (IF F.maxit = 0 \/ E.fed_neg = F.nd THEN {} ELSE {"P:FitIter.negatives_not_the_decoys"})
FitLabelsBad ==
   LET F == FitOf(E.th) IN
   (IF F.maxit > 0 /\ E.it = F.it /\ F.fed THEN {} ELSE {"D:FitLabels.order"}) \cup
   (IF F.maxit = 0 \/ E.pos + E.neg + E.zero = F.n THEN {} ELSE {"P:FitLabels.rows_lost"}) \cup
   (IF F.maxit = 0 \/ E.neg = F.nd THEN {} ELSE {"P:FitLabels.negatives_are_not_exactly_the_decoys"}) \cup
   (IF F.maxit = 0 \/ E.pos <= F.nt THEN {} ELSE {"P:FitLabels.positives_not_among_targets"})
FitDoneBad ==
   LET F == FitOf(E.th) IN
   (IF F.maxit = 0 \/ (E.iters = F.maxit /\ F.it = F.maxit - 1 /\ ~F.fed) THEN {} ELSE {"P:FitDone.before_the_last_iteration"})
\* ---- buffered writer ----
NoBuf == [app |-> 0, wr |-> 0, size |-> 0, fin |-> FALSE]
BufOf(w) == IF w \in DOMAIN buf THEN buf[w] ELSE NoBuf
BufAppendBad ==
   LET B == BufOf(E.w) IN
   (IF ~B.fin THEN {} ELSE {"D:BufAppend.after_finalize"}) \cup
   (IF E.buffered = B.app - B.wr + E.rows THEN {} ELSE {"P:BufAppend.buffer_is_not_old_rows_plus_new_rows"})
BufWriteBad ==
   LET B == BufOf(E.w) IN
   (IF E.buffered = B.app - B.wr THEN {} ELSE {"P:BufWrite.buffer_is_not_the_unwritten_rows"}) \cup
   (IF E.rows >= 1 /\ E.rows <= B.app - B.wr THEN {} ELSE {"P:BufWrite.more_rows_than_buffered"}) \cup
   (IF B.size = 0 \/ E.rows <= B.size THEN {} ELSE {"D:BufWrite.larger_than_buffer_size"})
BufFinalizeBad ==
   LET B == BufOf(E.w) IN
   (IF E.left = 0 /\ B.app = B.wr THEN {} ELSE {"P:BufFinalize.rows_not_written"})
\* ---- PIN parsing: column chunks of the missing-value scan ----
Flat(ss) == FoldLeft(LAMBDA a, c : a \o c, <<>>, ss)
ColumnChunksBad ==
   LET all == Flat(E.chunks)  ids == SeqSet(E.ids) IN
   (IF \A i \in 1..Len(E.features) : \E c \in 1..Len(E.chunks) : E.features[i] \in SeqSet(E.chunks[c])
      THEN {} ELSE {"P:ColumnChunks.feature_never_scanned_for_missing_values"}) \cup
   (IF \E c \in 1..Len(E.chunks) : ids \subseteq SeqSet(E.chunks[c]) THEN {} ELSE {"P:ColumnChunks.identifier_columns_split"}) \cup
   (IF all = E.features \o E.ids THEN {} ELSE {"D:ColumnChunks.order"}) \cup
   (IF \A c \in 1..Len(E.chunks) : Len(E.chunks[c]) >= 1 /\ (Len(E.chunks[c]) <= E.chunk_size \/ E.chunks[c] = E.ids) THEN {} ELSE {"D:ColumnChunks.size"})
PinParsedBad ==
   LET dropped == SeqSet(E.dropped) IN
   (IF E.kept = SelectSeq(E.features, LAMBDA c : c \notin dropped) THEN {} ELSE {"P:PinParsed.features_not_the_columns_without_missing_values"})
CliVerifyBad == IF stage \in {0, 1} THEN {} ELSE {"D:CliVerify.after_the_inputs_were_parsed"}
CliDoneBad ==
   (IF stage = 2 THEN {} ELSE {"D:CliConfidenceDone.without_plan"}) \cup
   (IF E.nscores = E.npsms THEN {} ELSE {"D:CliConfidenceDone.one_score_vector_per_dataset"})
CliPlanBad ==
   LET single == E.aggregate \/ Len(E.stems) = 1 IN
   (IF Len(E.prefixes) = Len(E.stems) THEN {} ELSE {"D:CliPlan.one_prefix_per_file"}) \cup
   (IF Len(E.prefixes) # Len(E.stems) THEN {} ELSE
    IF \A i \in 1..Len(E.stems) : E.prefixes[i] = (IF single THEN "" ELSE E.stems[i]) THEN {} ELSE {"D:CliPlan.prefix_rule"}) \cup
   (IF E.ndatasets = Len(E.stems) THEN {} ELSE {"D:CliPlan.one_dataset_per_file"}) \cup
   (IF stage \in {0, 1} THEN {} ELSE {"D:CliPlan.twice"})
Bad == CASE E.ev = "Split" -> SplitBad [] E.ev = "TrainSet" -> TrainBad [] E.ev = "ModelsSorted" -> SortedBad
         [] E.ev = "PredictChunk" -> PredictBad [] E.ev = "Decision" -> DecisionBad [] E.ev = "ChunkWritten" -> ChunkBad
         [] E.ev = "MergeList" -> MergeBad [] E.ev = "LevelDone" -> LevelBad
         [] E.ev = "FitStart" -> FitStartBad [] E.ev = "FitIter" -> FitIterBad [] E.ev = "FitLabels" -> FitLabelsBad
         [] E.ev = "FitDone" -> FitDoneBad [] E.ev = "BufAppend" -> BufAppendBad [] E.ev = "BufWrite" -> BufWriteBad
         [] E.ev = "BufFinalize" -> BufFinalizeBad [] E.ev = "ColumnChunks" -> ColumnChunksBad
         [] E.ev = "PinParsed" -> PinParsedBad [] E.ev = "CliPlan" -> CliPlanBad
         [] E.ev = "CliVerify" -> CliVerifyBad [] E.ev = "CliConfidenceDone" -> CliDoneBad [] OTHER -> {}
\* ---- one step: consume event l ----
Step ==
  /\ More
  /\ LET b == Bad IN
     /\ failedAt' = IF b = {} THEN <<>> ELSE <<l, E.ev, b>>
     /\ l' = IF b = {} THEN l + 1 ELSE l
  /\ folds' = IF E.ev = "Split" THEN E.folds ELSE folds
  /\ sizes' = IF E.ev = "Split" THEN E.sizes ELSE sizes
  /\ testIdx' = IF E.ev = "Split" THEN E.idx ELSE testIdx
  /\ haveIdx' = IF E.ev = "Split" THEN E.has_idx ELSE haveIdx
  /\ nTrain' = IF E.ev = "Split" THEN 0 ELSE IF E.ev = "TrainSet" THEN nTrain + 1 ELSE nTrain
  /\ predSeen' = IF E.ev = "Split" THEN [k \in 1..E.folds |-> 0]
                 ELSE IF E.ev = "PredictChunk" /\ predSeen # <<>> /\ Len(E.sizes) = Len(predSeen)
                        THEN [k \in 1..Len(predSeen) |-> predSeen[k] + E.sizes[k]]
                 ELSE IF E.ev = "Decision" THEN <<>> ELSE predSeen
  /\ written' = IF E.ev = "ChunkWritten" THEN Append(written, [name |-> E.name, read |-> E.read])
                ELSE IF E.ev = "MergeList" THEN <<>> ELSE written
  /\ fit' = IF E.ev = "FitStart"
               THEN (E.th :> [n |-> E.n, nt |-> E.n_target, nd |-> E.n_decoy, pos |-> E.start_pos, neg |-> E.start_neg,
                              it |-> -1, maxit |-> E.max_iter, fed |-> FALSE]) @@ fit
             ELSE IF E.ev = "FitIter" THEN (E.th :> [FitOf(E.th) EXCEPT !.it = E.it, !.fed = TRUE]) @@ fit
             ELSE IF E.ev = "FitLabels" THEN (E.th :> [FitOf(E.th) EXCEPT !.pos = E.pos, !.neg = E.neg, !.fed = FALSE]) @@ fit
             ELSE IF E.ev = "FitDone" THEN (E.th :> NoFit) @@ fit
             ELSE fit
  /\ buf' = IF E.ev = "BufAppend" THEN (E.w :> [BufOf(E.w) EXCEPT !.app = @ + E.rows, !.size = E.size]) @@ buf
             ELSE IF E.ev = "BufWrite" THEN (E.w :> [BufOf(E.w) EXCEPT !.wr = @ + E.rows]) @@ buf
             ELSE IF E.ev = "BufFinalize" THEN (E.w :> [BufOf(E.w) EXCEPT !.fin = TRUE]) @@ buf
             ELSE buf
  /\ stage' = IF E.ev = "CliVerify" THEN 1 ELSE IF E.ev = "CliPlan" THEN 2 ELSE IF E.ev = "CliConfidenceDone" THEN 0 ELSE stage
  /\ parsed' = IF E.ev = "PinParsed" THEN Append(parsed, E.rows)
                ELSE IF E.ev = "CliConfidenceDone" \/ (E.ev = "CliVerify" /\ stage = 0) THEN <<>> ELSE parsed
  /\ mode' = IF E.ev = "Split" \/ E.ev = "Decision" THEN "none"
              ELSE IF E.ev = "ModelsSorted"
                     THEN (IF \E i \in 1..Len(E.reset) : E.reset[i] THEN "reset"
                           ELSE IF \A i \in 1..Len(E.trained) : E.trained[i] THEN "all_trained" ELSE "some_untrained")
              ELSE mode
  /\ UNCHANGED tid
Spec == Init /\ [][Step]_vars
Terminal == ~More
Verdict == Terminal => PrintT(<<"VERDICT", T.tid, IF failedAt = <<>> THEN "accept" ELSE "reject",
                                IF failedAt = <<>> THEN {} ELSE failedAt[3],
                                IF failedAt = <<>> THEN <<l - 1, "">> ELSE <<failedAt[1], failedAt[2]>>>>)
=============================================================================
