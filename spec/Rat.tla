------------------------------- MODULE Rat -------------------------------
(* Non-negative rationals as <<num, den>> with den > 0 (not normalised).  TLC integers are 32 bit:
   all numerators/denominators used by the specs are small counts. *)
EXTENDS Integers
Leq(a, b) == a[1] * b[2] <= b[1] * a[2]
Lt(a, b)  == a[1] * b[2] <  b[1] * a[2]
Eq(a, b)  == a[1] * b[2] =  b[1] * a[2]
MinR(a, b) == IF Leq(a, b) THEN a ELSE b
One == <<1, 1>>
Zero == <<0, 1>>
=============================================================================
