SPECIFICATION Spec
CONSTANTS MaxN = 3 MaxRank = 3 Overrides = {FALSE} AsIs_NoLabelConversion = FALSE Mut_NeverFallBack = FALSE Mut_ForgetDirection = FALSE
INVARIANT SafetyNet
CHECK_DEADLOCK FALSE
