SPECIFICATION FairSpec
CONSTANTS MaxLen = 2 Alphabet = {"K", "P", "M", "F"}
          Enzymes = {"KR", "KRnoP", "lbKRnoP", "lookK", "FWY"}
          MCs = {0, 1, 2} Bounds <- BoundsGrid Clips = {TRUE, FALSE} Semis = {TRUE, FALSE}
          Mut_NoEndSite = FALSE Mut_McOffByOne = FALSE Mut_ClipAnyStart = FALSE
PROPERTY Halts
CHECK_DEADLOCK FALSE
