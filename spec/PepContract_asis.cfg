SPECIFICATION Spec
CONSTANTS MaxN = 4 MaxV = 3 AnyValues = FALSE AsIs_SortedReturn = TRUE Mut_WrongDirection = FALSE Mut_TieJitter = FALSE Thorough = FALSE
INVARIANT Inv_Aligned
CHECK_DEADLOCK FALSE
