SPECIFICATION Spec
CONSTANTS MaxDev = 2 Mut = "save_before_confidence"
INVARIANT Order
CHECK_DEADLOCK FALSE
