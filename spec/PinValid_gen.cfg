SPECIFICATION Spec
CONSTANTS MaxH = 3 MaxRows = 3 Mut_OnlyWider = FALSE
INVARIANT EmitCase
CONSTRAINT GenOnly
CHECK_DEADLOCK FALSE
