SPECIFICATION Spec
CONSTANTS ProtSep = ":" MaxFeat = 1 MaxRows = 2 MaxProt = 2 Mut_EndOffByOne = FALSE Mut_KeepDD = FALSE Mut_ValidSkipsDD = FALSE
INVARIANT InputsInDomain
INVARIANT ConvertIsDef
INVARIANT SameHeaderInv
INVARIANT OneLinePerPsmInv
INVARIANT NonProteinInv
INVARIANT ProteinsInv
INVARIANT RectangularInv
INVARIANT OutputValid
INVARIANT Idempotent
INVARIANT ValidIffDef
INVARIANT ClausesCharacterise
CHECK_DEADLOCK FALSE
