------------------------------- MODULE PinTsv -------------------------------
(* PIN -> rectangular TSV conversion (property C19): mokapot/parsers/pin_to_tsv.py.

   A text is  [lines |-> <<line_1, ..., line_m>>, nl |-> BOOLEAN, sep |-> the protein separator it is converted with]  where a line is the sequence of its
   tab-separated fields (strings) and nl says whether the last line is newline-terminated.
     line_1           header: column names, exactly one of them "Proteins" (at any position)
     line_2           optionally the DefaultDirection line (first field "DefaultDirection"; any length)
     remaining lines  one per PSM: the row of a header with c columns and protein column p (1-based)
                      that holds k >= 1 proteins has c + k - 1 fields, the proteins in fields p..p+k-1.
   Abstraction: fields contain no tab / newline and the first and last field of a line are non-empty
   without surrounding blanks, so that  line.split("\t")  is the identity on field sequences and
   line.strip()  only removes the line terminator (the statement's domain: no empty fields at line ends).

   DECLARATIVE LAYER   Header, HasDD, Psms, PPos, RowDef, ConvertDef, ValidDef and the named clauses
                       SameHeader / OneLinePerPsm / NonProteinUnchanged / ProteinsJoined / Rectangular.
   IMPLEMENTATION LAYER one action per step of pin_to_valid_tsv (ReadHeader, SecondDD, SecondRow,
                       LoopLine), run twice (Rerun feeds the output back in), ConvertLine with Python
                       slice semantics, IsValidImpl with the early returns of is_valid_tsv.
   Mut_* are seeded design faults which TLC must reject.  PinTsvTrace.tla instantiates this module for
   its declarative layer (constants and variables are then dummies). *)
EXTENDS Integers, Sequences, TLC

CONSTANTS ProtSep,          \* pin_to_valid_tsv(sep_protein=...): ":" as called by mokapot.py:72, any string through the API
          MaxFeat,          \* 0..MaxFeat feature columns
          MaxRows,          \* 1..MaxRows PSM lines
          MaxProt,          \* 1..MaxProt proteins per PSM
          Mut_EndOffByOne,  \* fault: idx_prot_end = idx + n_proteins (last protein not folded)
          Mut_KeepDD,       \* fault: the DefaultDirection line is converted like a PSM line
          Mut_ValidSkipsDD  \* fault: is_valid_tsv without the DefaultDirection test

VARIABLES case,   \* the enumerated structure [nfeat, ppos, dd, nl, prots]     (for generation)
          x,      \* the PIN text built from it
          src,    \* the text being converted in the current pass (pass 1: x, pass 2: Convert(x))
          pass, pc, cur, ncol, idx, out, out1
vars == <<case, x, src, pass, pc, cur, ncol, idx, out, out1>>

ProtCol == "Proteins"     \* parse_pin_header_columns looks the column up by this name
DDTag   == "DefaultDirection"

RECURSIVE JoinStr(_, _)
JoinStr(s, sep) == IF Len(s) = 0 THEN ""
                   ELSE IF Len(s) = 1 THEN s[1]
                   ELSE s[1] \o sep \o JoinStr(Tail(s), sep)

(* ------------------------------ declarative layer ------------------------------ *)
Header(t) == t.lines[1]
NCol(t)   == Len(Header(t))
IsDD(line) == Len(line) >= 1 /\ line[1] = DDTag
HasDD(t)  == Len(t.lines) >= 2 /\ IsDD(t.lines[2])
Psms(t)   == SubSeq(t.lines, IF HasDD(t) THEN 3 ELSE 2, Len(t.lines))
ProtPositions(t) == {j \in 1..NCol(t) : Header(t)[j] = ProtCol}
PPos(t)   == CHOOSE j \in ProtPositions(t) : TRUE
NProt(t, r) == Len(r) - NCol(t) + 1                 \* number of proteins held by PSM line r

\* a PIN text of the statement's domain
InDomain(t) == /\ Len(t.lines) >= 1
               /\ \E j \in 1..NCol(t) : ProtPositions(t) = {j}
               /\ Len(Psms(t)) >= 1
               /\ \A i \in 1..Len(Psms(t)) : NProt(t, Psms(t)[i]) >= 1 /\ ~IsDD(Psms(t)[i])
               /\ \A i \in 1..Len(t.lines) : LET l == t.lines[i] IN
                     Len(l) >= 1 /\ l[1] # "" /\ l[Len(l)] # ""

\* the converted row of PSM line r: proteins folded into field p
RowDef(t, r) == LET p == PPos(t)  k == NProt(t, r) IN
   [j \in 1..NCol(t) |-> IF j < p THEN r[j]
                         ELSE IF j = p THEN JoinStr(SubSeq(r, p, p + k - 1), t.sep)
                         ELSE r[j + k - 1]]
ConvertDef(t) == <<Header(t)>> \o [i \in 1..Len(Psms(t)) |-> RowDef(t, Psms(t)[i])]

Rectangular(t) == \A i \in 2..Len(t.lines) : Len(t.lines[i]) = NCol(t)
ValidDef(t) == Rectangular(t) /\ ~HasDD(t)

\* the clauses of the statement, for a candidate output y (a sequence of lines) of input t
SameHeader(y, t) == Len(y) >= 1 /\ y[1] = Header(t)
OneLinePerPsm(y, t) == Len(y) = 1 + Len(Psms(t))
RectOut(y, t) == \A i \in 2..Len(y) : Len(y[i]) = NCol(t)
NonProteinUnchanged(y, t) ==           \* in the original order: output line i+1 belongs to PSM i
   \A i \in 1..Len(Psms(t)) : i + 1 <= Len(y) =>
      LET r == Psms(t)[i]  o == y[i + 1]  p == PPos(t)  k == NProt(t, r) IN
      /\ \A j \in 1..(p - 1) : j <= Len(o) /\ o[j] = r[j]
      /\ \A j \in (p + 1)..NCol(t) : j <= Len(o) /\ o[j] = r[j + k - 1]
ProteinsJoined(y, t) ==
   \A i \in 1..Len(Psms(t)) : i + 1 <= Len(y) =>
      LET r == Psms(t)[i]  o == y[i + 1]  p == PPos(t)  k == NProt(t, r) IN
      p <= Len(o) /\ o[p] = JoinStr(SubSeq(r, p, p + k - 1), t.sep)

(* ------------------------------ enumerated inputs ------------------------------ *)
DDKinds == {"none", "short", "full"}   \* short: 3 + nfeat fields (Percolator's form); full: as many as the header
Cases == {c \in [nfeat : 0..MaxFeat, ppos : 1..(MaxFeat + 5), dd : DDKinds, nl : BOOLEAN,
                 prots : UNION {[1..m -> 1..MaxProt] : m \in 1..MaxRows}] : c.ppos <= c.nfeat + 5}
Cell(i, j) == "r" \o ToString(i) \o "c" \o ToString(j)
Prot(i, m) == "r" \o ToString(i) \o "p" \o ToString(m)
OtherCols(nf) == <<"SpecId", "Label", "ScanNr">> \o [j \in 1..nf |-> "feat" \o ToString(j)] \o <<"Peptide">>
InsertAt(s, p, ins) == SubSeq(s, 1, p - 1) \o ins \o SubSeq(s, p, Len(s))
MkHeader(c) == InsertAt(OtherCols(c.nfeat), c.ppos, <<ProtCol>>)
MkDD(c) == LET len == IF c.dd = "short" THEN 3 + c.nfeat ELSE 5 + c.nfeat IN
           [j \in 1..len |-> IF j = 1 THEN DDTag ELSE IF j <= 3 THEN "-" ELSE "w" \o ToString(j - 3)]
MkRow(c, i) == InsertAt([j \in 1..(c.nfeat + 4) |-> Cell(i, j)], c.ppos, [m \in 1..c.prots[i] |-> Prot(i, m)])
MkText(c) == [lines |-> <<MkHeader(c)>> \o (IF c.dd = "none" THEN <<>> ELSE <<MkDD(c)>>)
                        \o [i \in 1..Len(c.prots) |-> MkRow(c, i)],
              nl |-> c.nl, sep |-> ProtSep]

(* ------------------------------ implementation-shaped layer ------------------------------ *)
\* s[a:b] of Python on the 1-based sequence s (negative indices count from the end, then clamping)
PyNorm(v, len) == IF v < 0 THEN (IF v + len < 0 THEN 0 ELSE v + len) ELSE IF v > len THEN len ELSE v
PySlice(s, a, b) == LET lo == PyNorm(a, Len(s))  hi == PyNorm(b, Len(s)) IN
                    IF lo >= hi THEN <<>> ELSE SubSeq(s, lo + 1, hi)
PyFrom(s, a) == PySlice(s, a, Len(s))

\* convert_line_pin_to_tsv (pin_to_tsv.py:97-104); i0 = 0-based index of the protein column, nc = n_col
ConvertLine(elements, i0, nc) ==
   LET nProteins == Len(elements) - nc                                         \* :98
       iEnd == IF Mut_EndOffByOne THEN i0 + nProteins ELSE i0 + nProteins + 1   \* :100
       proteins == JoinStr(PySlice(elements, i0, iEnd), ProtSep)                \* :101
   IN PySlice(elements, 0, i0) \o <<proteins>> \o PyFrom(elements, iEnd)        \* :102-103

\* is_valid_tsv (pin_to_tsv.py:136-151).  Field counts are not affected by the line terminator.
IsValidImpl(t) ==
   LET L == t.lines
       nh == Len(L[1])                                                         \* :136
   IN IF ~Mut_ValidSkipsDD /\ IsDD(L[2]) THEN FALSE                            \* :137-141 (startswith)
      ELSE IF Len(L[2]) # nh THEN FALSE                                        \* :142-144
      ELSE \A i \in 3..Len(L) : Len(L[i]) = nh                                 \* :147-151

Init == /\ case \in Cases
        /\ x = MkText(case) /\ src = x
        /\ pass = 1 /\ pc = "header" /\ cur = 1 /\ ncol = 0 /\ idx = 0 /\ out = <<>> /\ out1 = <<>>

\* :192-194  header = next(f_in).strip(); write; n_col, idx_protein_col = parse_pin_header_columns(header)
ReadHeader == /\ pc = "header"
              /\ out' = <<src.lines[1]>>
              /\ ncol' = Len(src.lines[1])
              /\ idx' = (CHOOSE j \in 1..Len(src.lines[1]) :
                           src.lines[1][j] = ProtCol /\ \A h \in 1..(j - 1) : src.lines[1][h] # ProtCol) - 1
              /\ cur' = 2 /\ pc' = "second"
              /\ UNCHANGED <<case, x, src, pass, out1>>
\* :199-201  second line starts with DefaultDirection: nothing is written
SecondDD == /\ pc = "second" /\ IsDD(src.lines[2]) /\ ~Mut_KeepDD
            /\ cur' = 3 /\ pc' = "loop"
            /\ UNCHANGED <<case, x, src, pass, ncol, idx, out, out1>>
\* :201-209  otherwise it is the first PSM line
SecondRow == /\ pc = "second" /\ (~IsDD(src.lines[2]) \/ Mut_KeepDD)
             /\ out' = Append(out, ConvertLine(src.lines[2], idx, ncol))
             /\ cur' = 3 /\ pc' = "loop"
             /\ UNCHANGED <<case, x, src, pass, ncol, idx, out1>>
\* :211-220  for line in f_in: strip, convert, write
LoopLine == /\ pc = "loop" /\ cur <= Len(src.lines)
            /\ out' = Append(out, ConvertLine(src.lines[cur], idx, ncol))
            /\ cur' = cur + 1
            /\ UNCHANGED <<case, x, src, pass, pc, ncol, idx, out1>>
\* end of file in pass 1: the written file (every line newline-terminated) is converted again
Rerun == /\ pc = "loop" /\ cur > Len(src.lines) /\ pass = 1
         /\ out1' = out /\ src' = [lines |-> out, nl |-> TRUE, sep |-> ProtSep]
         /\ pass' = 2 /\ pc' = "header" /\ cur' = 1 /\ out' = <<>>
         /\ UNCHANGED <<case, x, ncol, idx>>
Finish == /\ pc = "loop" /\ cur > Len(src.lines) /\ pass = 2
          /\ pc' = "done"
          /\ UNCHANGED <<case, x, src, pass, cur, ncol, idx, out, out1>>
Next == ReadHeader \/ SecondDD \/ SecondRow \/ LoopLine \/ Rerun \/ Finish
Spec == Init /\ [][Next]_vars

(* ------------------------------ what TLC checks ------------------------------ *)
Converted == pass = 2 /\ pc = "header"          \* src.lines = the output of the first conversion of x
InputsInDomain   == InDomain(x)
ConvertIsDef     == Converted => src.lines = ConvertDef(x)
SameHeaderInv    == Converted => SameHeader(src.lines, x)
OneLinePerPsmInv == Converted => OneLinePerPsm(src.lines, x)
NonProteinInv    == Converted => NonProteinUnchanged(src.lines, x)
ProteinsInv      == Converted => ProteinsJoined(src.lines, x)
RectangularInv   == Converted => RectOut(src.lines, x)
OutputValid      == Converted => IsValidImpl(src) /\ ValidDef(src)
Idempotent       == pc = "done" => out = out1
ValidIffDef      == pc = "header" => (IsValidImpl(src) <=> ValidDef(src))      \* on x and on Convert(x)
\* the declarative clauses determine the output: any y satisfying them is ConvertDef(x)  (checked on the
\* produced output and on two perturbations of it)
ClausesOf(y, t) == SameHeader(y, t) /\ OneLinePerPsm(y, t) /\ RectOut(y, t)
                   /\ NonProteinUnchanged(y, t) /\ ProteinsJoined(y, t)
ClausesCharacterise == Converted =>
   LET good == ConvertDef(x)
       dropped == SubSeq(good, 1, Len(good) - 1)
       swapped == [good EXCEPT ![2] = [good[2] EXCEPT ![1] = good[2][2], ![2] = good[2][1]]]
   IN ClausesOf(good, x) /\ ~ClausesOf(dropped, x) /\ ~ClausesOf(swapped, x)

\* behaviour generation: one case per initial state
EmitCase == (pass = 1 /\ pc = "header") =>
               PrintT(<<"CASE", case.nfeat, case.ppos, case.dd, case.nl, case.prots>>)
GenOnly == pass = 1 /\ pc = "header"
\* ---- liveness (checked by PinTsv_live.cfg): under weak fairness of the next-state action every behaviour comes to rest
\* in a state without successor -- the modelled procedure terminates for every input, schedule and fault inside the bounds
FairSpec == Spec /\ WF_vars(Next)
Halts == <>[](~ENABLED Next)
=============================================================================
