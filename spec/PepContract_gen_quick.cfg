SPECIFICATION GenSpec
CONSTANTS MaxN = 1 MaxV = 1 AnyValues = FALSE AsIs_SortedReturn = FALSE Mut_WrongDirection = FALSE Mut_TieJitter = FALSE Thorough = FALSE
INVARIANT EmitShape
CHECK_DEADLOCK FALSE
