SPECIFICATION Spec
CONSTANTS
  FeatLo = 0 FeatHi = 8 OptSets <- OptWidth LevSets <- LevAll
  Orders = {"std", "rev", "mix", "featfirst"}
  Casings = {"lower", "upper", "mixed"}
  Encs = {"pm", "zo", "bool"}
  NanCls = {"none", "first", "last", "two", "mid", "all"}
  Chunks = {2, 3}
  Workers = {1, 2, 3}
  RowCls = {"one", "two", "three"}
  Errs = {"none"}
  NRows = 3 Rotate = TRUE RotK = 3
  AsIs_Remainder1Only = FALSE AsIs_ChargeDefaultName = TRUE
  Mut_KeepSingleNaN = FALSE Mut_CaseSensitive = FALSE Mut_ZeroIsTarget = FALSE Mut_KeyFileOrder = FALSE
INVARIANT InputsInDomain
INVARIANT AllColumnsOnce
INVARIANT IdsTogether
INVARIANT ChunkBound
INVARIANT FrameInOrder
INVARIANT ResultIsDef
INVARIANT ClausesDiscriminate
CHECK_DEADLOCK FALSE
