------------------------------- MODULE CalibDef -------------------------------
(* Per-fold score calibration (property C11): declarative layer.
   raw : 1..n -> Int (the model's output, higher = better), tgt : 1..n -> BOOLEAN, thr : rational.
     Accepted = targets whose C01 q-value (under raw) is <= thr
     t = lowest raw score among Accepted,  d = median raw score of the decoys (d2 = 2 d, an integer)
     returned(i) = (raw[i] - t) / (t - d) = 2 (raw[i] - t) / (2 t - d2)
   Inside the stated domain (an accepted target exists, a decoy exists, t > d) this is a strictly increasing
   affine map sending t to 0 and d to -1.  Without an accepted target the run must stop with an error. *)
EXTENDS Integers, Sequences, FiniteSets, FiniteSetsExt, SequencesExt, TdcDef
AcceptedSet(raw, tgt, n, thr) ==
   LET qm == QMap(raw, tgt, n) IN {i \in 1..n : tgt[i] /\ Leq(qm[raw[i]], thr)}
DecoyVals(raw, tgt, n) == SortSeq([k \in 1..Cardinality({i \in 1..n : ~tgt[i]}) |->
                                     raw[SetToSortSeq({i \in 1..n : ~tgt[i]}, <)[k]]], <)
Median2(v) == LET m == Len(v) IN IF m % 2 = 1 THEN 2 * v[(m + 1) \div 2] ELSE v[m \div 2] + v[m \div 2 + 1]
Info(raw, tgt, n, thr) ==
   LET acc == AcceptedSet(raw, tgt, n, thr)  dv == DecoyVals(raw, tgt, n) IN
   [hasAcc |-> acc # {}, hasDec |-> Len(dv) > 0,
    t |-> IF acc = {} THEN 0 ELSE Min({raw[i] : i \in acc}),
    d2 |-> IF Len(dv) = 0 THEN 0 ELSE Median2(dv)]
InCalibDomain(fi) == fi.hasAcc /\ fi.hasDec /\ 2 * fi.t > fi.d2
\* the returned value <<num, den>> (den > 0) of a row with raw score r
IsCalibrated(fi, r, num, den) == num * (2 * fi.t - fi.d2) = den * 2 * (r - fi.t)
=============================================================================
