SPECIFICATION Spec
CONSTANTS MaxDev = 2 Mut = "none"
CONSTRAINT GenOnly
INVARIANT EmitCase
CHECK_DEADLOCK FALSE
