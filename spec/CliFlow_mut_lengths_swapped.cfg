SPECIFICATION Spec
CONSTANTS MaxDev = 2 Mut = "lengths_swapped"
INVARIANT Dataflow
CHECK_DEADLOCK FALSE
