----------------------------- MODULE FlipTrace -----------------------------
(* C04 premise (= the behavioural content of C02): held-out scoring is blind to the label of a held-out PSM, even
   for a learner that memorises its training rows.  Two runs of the real brew() on datasets that differ only in
   the label of ONE null PSM x (flipped target <-> decoy).
   trace = [tid, x, a: [preds: <<[model, ids, raw]>>], b: [preds: ...], raised_a, raised_b]
   Accepted iff x is finally scored by the same fold model m in both runs and every raw output of m (on the rows it
   finally scores) is the same in both runs; the other models, which had x in their training data, MAY differ. *)
EXTENDS Integers, Sequences, FiniteSets, TLC, TLCExt, Json, IOUtils
Traces == JsonDeserialize(IOEnv.TRACES_FILE)
VARIABLE tid
T == Traces[tid]
SeqSet(s) == {s[i] : i \in 1..Len(s)}
ModelOf(P, x) == {P[i].model : i \in {i \in 1..Len(P) : x \in SeqSet(P[i].ids)}}
Pairs(P, m) == UNION {{<<P[i].ids[j], P[i].raw[j]>> : j \in 1..Len(P[i].ids)} : i \in {i \in 1..Len(P) : P[i].model = m}}
Clauses ==
   LET A == T.a.preds  B == T.b.preds  ma == ModelOf(A, T.x)  mb == ModelOf(B, T.x) IN
   [BothComplete |-> T.raised_a = "" /\ T.raised_b = "",
    SameFold |-> Cardinality(ma) = 1 /\ ma = mb,
    HeldOutOutputsUnchanged |-> (Cardinality(ma) = 1 /\ ma = mb) =>
                                   LET m == CHOOSE m \in ma : TRUE IN Pairs(A, m) = Pairs(B, m),
    \* evidence that the instrument is sensitive: some other model's outputs did change (not required)
    info |-> \E m \in {A[i].model : i \in 1..Len(A)} : Pairs(A, m) # Pairs(B, m)]
Failed == {c \in {"BothComplete", "SameFold", "HeldOutOutputsUnchanged"} : ~Clauses[c]}
Init == tid \in 1..Len(Traces)
Spec == Init /\ [][UNCHANGED tid]_tid
Verdict == PrintT(<<"VERDICT", T.tid, IF Failed = {} THEN "accept" ELSE "reject", Failed, Clauses.info>>)
=============================================================================
