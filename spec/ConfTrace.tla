----------------------------- MODULE ConfTrace -----------------------------
(* Property-level acceptor for C03 (also used by C05/C07/C09) on the result files written by the real
   assign_confidence / brew_rollup for ONE collection.

   trace = [tid, mode ("assign" | "rollup" = the stand-alone tool), dedup, rollup, decoys, nlev,
            levels: <<"peptides", ...>>        -- names of the rollup levels in key order (<<>> when ~rollup)
            rows:  <<[id, spec, key:<<..>>, tgt, rank, s4, pep, prot, lv:<<strings>>]>>   -- the input table
            files: <<[level, td ("t"|"d"), rows: <<[id, s4, q:<<num,den,ok>>, pep, prot, lv, nf]>>]>>
            raised: "" | "Type: message",  missing: <<names of expected files that do not exist>>]
   rank: HIGHER = BETTER (direction applied by the driver); s4 = 4 * score (the driver uses dyadic scores).
   With decoys = FALSE only target files exist: the retained decoys are unobservable, so such traces are in
   the domain only when the table is tie free inside every group (then the retained sets are unique). *)
EXTENDS ConfDef, TLC, TLCExt, Json, IOUtils
Traces == JsonDeserialize(IOEnv.TRACES_FILE)
VARIABLE tid
T == Traces[tid]
NR == Len(T.rows)
Ids == {T.rows[i].id : i \in 1..NR}
RowsF == [x \in Ids |-> T.rows[CHOOSE i \in 1..NR : T.rows[i].id = x]]
FilesOf(l) == {i \in 1..Len(T.files) : T.files[i].level = l}
OutIdsRaw(l) == UNION {{T.files[i].rows[j].id : j \in 1..Len(T.files[i].rows)} : i \in FilesOf(l)}
OutCount(l) == FoldSet(LAMBDA i, acc : acc + Len(T.files[i].rows), 0, FilesOf(l))
LevelNames == IF T.rollup THEN T.levels ELSE <<>>
AllLevels == IF T.mode = "rollup" THEN LevelNames ELSE <<"psms">> \o LevelNames
Known(l) == OutIdsRaw(l) \subseteq Ids
\* everything below takes the row function R (bound once per trace with LET: a definition that depends on
\* tid would otherwise be re-evaluated at every reference)
Decoys(R, S) == {x \in S : ~R[x].tgt}
RetPsm(R) == IF T.mode = "rollup" THEN Ids       \* the stand-alone tool rolls up every row of its input files
             ELSE IF T.decoys THEN OutIdsRaw("psms") ELSE OutIdsRaw("psms") \cup Decoys(R, UniquePsm(R, Ids, T.dedup))
RetLev(R, k) == IF T.decoys THEN OutIdsRaw(LevelNames[k])
                ELSE OutIdsRaw(LevelNames[k]) \cup Decoys(R, UniqueLevel(R, UniquePsm(R, Ids, T.dedup), k))
Ret(R, l) == IF l = "psms" THEN RetPsm(R) ELSE RetLev(R, CHOOSE k \in 1..Len(LevelNames) : LevelNames[k] = l)

FileOK(R, i) ==
   LET f == T.files[i]  s == f.rows  l == f.level  O == Ret(R, l)  qx == QOver(R, O) IN
   /\ \A j \in 1..(Len(s) - 1) : R[s[j].id].rank >= R[s[j + 1].id].rank            \* non-increasing
   /\ \A j \in 1..Len(s) : LET r == R[s[j].id] IN
        /\ r.tgt = (f.td = "t")                                                      \* target/decoy split
        /\ s[j].s4 = r.s4 /\ s[j].pep = r.pep /\ s[j].prot = r.prot /\ s[j].lv = r.lv \* one and the same PSM
        /\ s[j].q[3] /\ Eq(<<s[j].q[1], s[j].q[2]>>, qx[s[j].id])                    \* C01 over the retained rows

Check(R) ==
   LET P == RetPsm(R) IN
   [Completed |-> T.raised = "" /\ T.missing = <<>>,
    KnownIds  |-> \A k \in 1..Len(AllLevels) : Known(AllLevels[k]),
    NoExtraLevels |-> \A i \in 1..Len(T.files) : \E k \in 1..Len(AllLevels) : AllLevels[k] = T.files[i].level,
    PsmOK     |-> T.mode = "rollup" \/
                  (Known("psms") /\ OutCount("psms") = Cardinality(OutIdsRaw("psms")) /\ PsmSetOK(R, Ids, T.dedup, P)),
    LevelsOK  |-> (T.mode = "rollup" \/ Known("psms")) /\ \A k \in 1..Len(LevelNames) :
                     /\ Known(LevelNames[k]) /\ OutCount(LevelNames[k]) = Cardinality(OutIdsRaw(LevelNames[k]))
                     /\ LevelSetOK(R, P, k, RetLev(R, k)),
    FilesOK   |-> (\A k \in 1..Len(AllLevels) : Known(AllLevels[k])) /\ \A i \in 1..Len(T.files) : FileOK(R, i)]
Failed == LET R == RowsF IN
          IF ~(T.decoys \/ TieFreeInGroups(R, Ids, T.nlev)) THEN {}
          ELSE LET C == Check(R) IN {c \in DOMAIN C : ~C[c]}
Init == tid \in 1..Len(Traces)
Spec == Init /\ [][UNCHANGED tid]_tid
Verdict == PrintT(<<"VERDICT", T.tid, IF Failed = {} THEN "accept" ELSE "reject", Failed>>)
=============================================================================
