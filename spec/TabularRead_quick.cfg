SPECIFICATION Spec
CONSTANTS MaxRows = 5 MaxChunk = 6 MaxRg = 6 FullBatches = TRUE AsIs_CsvEmptyCols = FALSE AsIs_ParquetEmptyCols = FALSE
          Mut_IndexRestart = FALSE Mut_NoReorder = FALSE Mut_JoinNoReorder = FALSE
INVARIANT ChunksEqualWhole
INVARIANT IndexContinues
INVARIANT PrefixAlways
INVARIANT Aligned
CHECK_DEADLOCK FALSE
