----------------------------- MODULE Determinism -----------------------------
(* Property C08: with a fixed seed, every run history gives the same digests.  The sources of nondeterminism of a
   run are explicit free choices; the invariant says no digest depends on them.

     order      completion order of the fold fits in the thread pool (any pool-feasible permutation)
     iter       iteration order of the peptide -> proteins sets while grouping proteins (PYTHONHASHSEED)
     refeed     when the models of a first run are fed back: the order in which the user lists them
   what neutralises them in the code:
     fitted.sort(key=fold)  (brew.py:191-193)            -- Mut_NoSortByFold removes it
     the absorb steps of _group_proteins commute and group names are built from the (deterministic) visiting order;
     Mut_NameFromIteration builds the name from the iteration order instead
   The fold assignment itself is a function of (input, seed): crc32 of the spectrum key, seeded Generator. *)
EXTENDS Integers, Sequences, FiniteSets, TLC, SequencesExt
CONSTANTS Folds, NMembers, MaxRuns, Mut_NoSortByFold, Mut_NameFromIteration
Perms(n) == {p \in [1..n -> 1..n] : \A a, b \in 1..n : a # b => p[a] # p[b]}
VARIABLES hist
\* the digest of one run under the given choices
Models(order) == IF Mut_NoSortByFold THEN order ELSE SortSeq(order, <)       \* position k = model used for fold k
Scores(order) == [k \in 1..Folds |-> <<"scored-by-model-of-fold", Models(order)[k]>>]
GroupName(iter) == IF Mut_NameFromIteration THEN iter ELSE [i \in 1..NMembers |-> i]   \* members in visiting order
Digest(order, iter, refeed) ==
   [scores |-> Scores(order), refed |-> Scores(refeed), group |-> GroupName(iter),
    members |-> {iter[i] : i \in 1..NMembers}]
Init == hist = <<>>
Run == /\ Len(hist) < MaxRuns
       /\ \E order \in Perms(Folds), iter \in Perms(NMembers), refeed \in Perms(Folds) :
             hist' = Append(hist, Digest(order, iter, refeed))
Spec == Init /\ [][Run]_hist
SameDigests == \A a, b \in 1..Len(hist) : hist[a] = hist[b]
RefeedReproduces == \A a \in 1..Len(hist) : hist[a].refed = hist[a].scores
=============================================================================
