SPECIFICATION Spec
CONSTANTS MaxInputs = 3 MaxLen = 3 MaxRank = 3 Impls = {"rowdict"} TieAny = FALSE
          Mut_DropLast = FALSE Mut_NoGuard = FALSE Mut_StrictGuard = FALSE
INVARIANT EveryRowOnce
INVARIANT GloballySorted
INVARIANT UnsortedRejected
INVARIANT SortedAccepted
INVARIANT NoDupAnytime
INVARIANT Conservation
INVARIANT PrefixSorted
CHECK_DEADLOCK FALSE
