--------------------------- MODULE ModelLifeTrace ---------------------------
(* Acceptor for call sequences on a real mokapot.Model object (drivers/c12.py, family "lifecycle"): every behaviour that
   ModelLife.tla generates -- fit / predict / save / load_model in any order, on datasets whose feature columns stand in
   different orders -- is replayed into the real object with a deterministic integer estimator (weights = column sums of the
   targets minus column sums of the decoys, score = row . weights; scaler "as-is", one iteration, train_fdr = 1 so that the
   positives are all targets), and what the object answered is recorded.

   trace = [tid,
            data: <<[X: <<row>>, tgt: <<BOOLEAN>>]>>       -- dataset d: rows in CANONICAL column order (columns are named)
            ops:  <<[op, d, o, p, res, scores: <<Int>>, trained: BOOLEAN]>>   -- in call order; res in "ok" | "NotFitted" | "error"

   TLC recomputes, from the calls alone (ModelLife!RefAfter), on which dataset the object in hand was last fitted, derives
   that fit's weights BY COLUMN NAME from the recorded data and compares every returned score vector with row . weights.
   Clauses (all C12): PredictByName ("prediction matches features by name": also after a re-fit on another column order and
   after any save / load), NotFittedIffNeverFitted, TrainedFlag, ReloadPredictsIdentically (predictions after a load equal
   those of the model that was saved), NoError. *)
EXTENDS Integers, Sequences, FiniteSets, FiniteSetsExt, TLC, TLCExt, Json, IOUtils
Traces == JsonDeserialize(IOEnv.TRACES_FILE)
VARIABLE tid
T == Traces[tid]
NOps == Len(T.ops)
ML == INSTANCE ModelLife WITH NData <- 2, NOrders <- 1, NPaths <- 3, MaxOps <- 9, Mut <- "none",
                              trained <- FALSE, names <- 0, est <- [d |-> 0, o |-> 0], disk <- <<>>, hist <- T.ops
Sum(f, S) == FoldSet(LAMBDA i, a : a + f[i], 0, S)
NCols(d) == Len(T.data[d].X[1])
Weights(d) == LET D == T.data[d]  rows == 1..Len(D.X) IN
              [j \in 1..NCols(d) |-> Sum([i \in rows |-> IF D.tgt[i] THEN D.X[i][j] ELSE 0 - D.X[i][j]], rows)]
Scores(w, d) == LET D == T.data[d] IN [i \in 1..Len(D.X) |-> Sum([j \in 1..Len(w) |-> w[j] * D.X[i][j]], 1..Len(w))]
FitBefore(k) == ML!RefAfter(T.ops, k - 1)[1]       \* dataset of the fit the object in hand carries before call k (0 = none)
FitAfter(k) == ML!RefAfter(T.ops, k)[1]
Predicts == {k \in 1..NOps : T.ops[k].op = "predict"}
AfterLoad(k) == \E l \in 1..(k - 1) : T.ops[l].op = "load" /\ \A m \in (l + 1)..(k - 1) : T.ops[m].op \notin {"fit", "load"}
PredictOk(k) == LET c == T.ops[k]  f == FitBefore(k) IN
                IF f = 0 THEN TRUE ELSE c.res = "ok" /\ c.scores = Scores(Weights(f), c.d)
Clauses == [
   PredictByName |-> \A k \in Predicts : ~AfterLoad(k) => PredictOk(k),
   ReloadPredictsIdentically |-> \A k \in Predicts : AfterLoad(k) => PredictOk(k),
   NotFittedIffNeverFitted |-> \A k \in Predicts : (T.ops[k].res = "NotFitted") = (FitBefore(k) = 0),
   TrainedFlag |-> \A k \in 1..NOps : T.ops[k].trained = (FitAfter(k) > 0),
   NoError |-> \A k \in 1..NOps : T.ops[k].res # "error"]
Failed == {c \in DOMAIN Clauses : ~Clauses[c]}
Init == tid \in 1..Len(Traces)
Spec == Init /\ [][UNCHANGED tid]_tid
Verdict == PrintT(<<"VERDICT", T.tid, IF Failed = {} THEN "accept" ELSE "reject", Failed>>)
=============================================================================
