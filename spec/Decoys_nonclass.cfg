SPECIFICATION Spec
CONSTANTS MaxLen = 4 MaxLen2 = 0 Alphabet <- Alpha5 Enzymes = {"KRnoP"}
          Reverses = {FALSE} Concats = {TRUE} Renderings <- RendOne Width = 2 LemmaMaxLen = 0
          Mut_MoveLast = FALSE Mut_JoinNoNewline = FALSE Mut_NameWithDesc = FALSE
INVARIANT SitesAnyEnzyme
CHECK_DEADLOCK FALSE
