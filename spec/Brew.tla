------------------------------- MODULE Brew -------------------------------
(* Implementation-shaped model of mokapot.brew() (brew.py) for property C02 (and the schedule / chunk
   independence part of C05):

     Split(f)        OnDiskPsmDataset._split (dataset.py:633-687) per file: rows hashed by spectrum, sorted by
                     hash (hashOrder: crc32 order = any permutation of the spectra), nominal cut points
                     n \div folds (+1 for the first n % folds folds), each moved to the next group start with
                     searchsorted, np.split
     MakeTrain       make_train_sets (brew.py:308-361): per fold the complement of the held-out indices of every
                     file; with a cap: per-file cap = cap \div nfiles (last file gets the remainder), rng.choice
                     of that many rows per file -- ANY subset of that size
     ReadChunk       parse_in_chunks (pin.py:358-398): the file is read in chunks by a thread pool, each task
                     appends its rows of every training set; concat + reindex restores the order
     StartFit/FinishFit  joblib thread pool over the fold fits: FIFO dispatch to Workers threads, any running
                     fit may finish next; the model records the fold it was trained for (model.fold)
     SortModels      fitted.sort(key=fold) (brew.py:191-193) and model_to_psm_idx routing in input order
     PredictChunk(f) _predict (brew.py:394-476): rows of a chunk are split by fold, one predict task per
                     fold per chunk; AsIs_EmptySliceRaises: an empty fold slice raised ValueError before the
                     fix: commit for F-05
     Assemble(f)     np.concatenate(scores)[argsort(sum(orig_idx, []))]

   A row is <<f, i>> (file, 0-based position).  The score of row r by the model trained for fold k is the
   token <<k, r>>.  Mut_* are seeded design faults; AsIs_* reproduce defects of the pinned tree. *)
EXTENDS Integers, Sequences, FiniteSets, TLC, SequencesExt, Functions, FiniteSetsExt

CONSTANTS MaxRows,      \* rows per file
          MaxSpec, NFiles, Folds, Workers, MinChunk, MaxChunk, MaxCap,
          AsIs_EmptySliceRaises,
          AsIs_CapLargerThanFile,     \* rng.choice(train_idx[i], cap_i) with cap_i > len raises (F-02b)
          Mut_TrainIncludesHeldOut,   \* fault: training set = all rows
          Mut_NoSortByFold,           \* fault: models used in completion order
          Mut_CutAtNominal            \* fault: folds cut at the nominal positions (splits a spectrum)

VARIABLES specOf, hashOrder, cap, csize, rsize,
          pc, testIdx, trainIdx, got, readLeft,
          pending, running, fitted, models,
          route, chunkNo, foldRows, foldScores, scores, err
vars == <<specOf, hashOrder, cap, csize, rsize, pc, testIdx, trainIdx, got, readLeft, pending, running, fitted,
          models, route, chunkNo, foldRows, foldScores, scores, err>>
conf == <<specOf, hashOrder, cap, csize, rsize>>

Files == 1..NFiles
NOf(f) == Len(specOf[f])
RowsOf(f) == {<<f, i>> : i \in 0..(NOf(f) - 1)}
AllRows == UNION {RowsOf(f) : f \in Files}
SpecR(r) == <<r[1], specOf[r[1]][r[2] + 1]>>            \* a spectrum is local to its file (collection)
SpecsOf(S) == {SpecR(r) : r \in S}
IsRGS(s) == \A i \in 1..Len(s) : s[i] <= 1 + Max({0} \cup {s[j] : j \in 1..(i - 1)})
InB02(s) == \A v \in {s[i] : i \in 1..Len(s)} : Cardinality({i \in 1..Len(s) : s[i] = v}) <= Len(s) \div Folds
Tables == {s \in UNION {[1..n -> 1..MaxSpec] : n \in Folds..MaxRows} : IsRGS(s) /\ InB02(s)}
PermsOf(S) == {p \in [1..Cardinality(S) -> S] : \A a, b \in 1..Cardinality(S) : a # b => p[a] # p[b]}

Init == /\ specOf \in [Files -> Tables]
        /\ hashOrder \in [Files -> UNION {PermsOf(1..m) : m \in 1..MaxSpec}]
        /\ \A f \in Files : {hashOrder[f][g] : g \in 1..Len(hashOrder[f])} = {specOf[f][i] : i \in 1..Len(specOf[f])}
        /\ cap \in 0..MaxCap                      \* 0 = no cap
        /\ csize \in MinChunk..MaxChunk /\ rsize \in MinChunk..MaxChunk
        /\ pc = "split" /\ testIdx = <<>> /\ trainIdx = <<>> /\ got = <<>> /\ readLeft = {}
        /\ pending = <<>> /\ running = {} /\ fitted = <<>> /\ models = <<>>
        /\ route = <<>> /\ chunkNo = [f \in Files |-> 0]
        /\ foldRows = <<>> /\ foldScores = <<>> /\ scores = <<>> /\ err = "none"

RECURSIVE Concat(_)
Concat(ss) == IF ss = <<>> THEN <<>> ELSE Head(ss) \o Concat(Tail(ss))
PosOfSpec(f, s) == SetToSortSeq({i \in 0..(NOf(f) - 1) : specOf[f][i + 1] = s}, <)
SortedPos(f) == Concat([g \in 1..Len(hashOrder[f]) |-> PosOfSpec(f, hashOrder[f][g])])
Starts(f) == [g \in 1..Len(hashOrder[f]) |-> Len(Concat([h \in 1..(g - 1) |-> PosOfSpec(f, hashOrder[f][h])]))]
Cut(f, i) == LET n == NOf(f) fs == n \div Folds r == n % Folds IN i * fs + (IF i < r THEN i ELSE r)
SearchSorted(f, c) == Cardinality({g \in 1..Len(hashOrder[f]) : Starts(f)[g] < c})
FoldsOfFile(f) ==
   LET st == Starts(f)  srt == SortedPos(f)  n == NOf(f)
       b == [i \in 1..(Folds - 1) |-> IF Mut_CutAtNominal THEN Cut(f, i) ELSE st[SearchSorted(f, Cut(f, i)) + 1]]
       lo(i) == IF i = 1 THEN 0 ELSE b[i - 1]
       hi(i) == IF i = Folds THEN n ELSE b[i]
   IN [k \in 1..Folds |-> {<<f, srt[j]>> : j \in (lo(k) + 1)..hi(k)}]
Split == /\ pc = "split"
         /\ testIdx' = [f \in Files |-> FoldsOfFile(f)]
         /\ pc' = "train"
         /\ UNCHANGED <<conf, trainIdx, got, readLeft, pending, running, fitted, models, route, chunkNo, foldRows, foldScores, scores, err>>

CapOf(f) == IF f = NFiles THEN (cap \div NFiles) + (cap - NFiles * (cap \div NFiles)) ELSE cap \div NFiles
FullTrain(k, f) == IF Mut_TrainIncludesHeldOut THEN RowsOf(f) ELSE RowsOf(f) \ testIdx[f][k]
TotalTrain(k) == FoldSet(LAMBDA f, a : a + Cardinality(FullTrain(k, f)), 0, Files)
Subsampled(k) == cap > 0 /\ TotalTrain(k) > cap
NeedsChoice(k, f) == Subsampled(k) /\ CapOf(f) < TotalTrain(k)
MakeTrain ==
  /\ pc = "train"
  /\ IF AsIs_CapLargerThanFile /\ \E k \in 1..Folds, f \in Files : NeedsChoice(k, f) /\ CapOf(f) > Cardinality(FullTrain(k, f))
       THEN /\ err' = "ValueError: Cannot take a larger sample than population" /\ pc' = "failed"
            /\ UNCHANGED <<trainIdx, got, readLeft, pending>>
       ELSE /\ LET PartChoices(k, f) ==
                       LET full == FullTrain(k, f)
                           m == IF CapOf(f) < Cardinality(full) THEN CapOf(f) ELSE Cardinality(full) IN
                       IF NeedsChoice(k, f) THEN {S \in SUBSET full : Cardinality(S) = m} ELSE {full}
                    \* a training set = one admissible part per file
                    RECURSIVE Combine(_, _)
                    Combine(k, f) == IF f = 0 THEN {{}}
                                     ELSE {a \cup b : a \in Combine(k, f - 1), b \in PartChoices(k, f)}
                    C(k) == Combine(k, NFiles)
                IN trainIdx' \in {t \in [1..Folds -> UNION {C(k) : k \in 1..Folds}] : \A k \in 1..Folds : t[k] \in C(k)}
            /\ got' = [k \in 1..Folds |-> {}]
            /\ readLeft' = {<<f, c>> : f \in Files, c \in 0..MaxRows} \cap
                           {<<f, c>> \in Files \X (0..MaxRows) : c * rsize < NOf(f)}
            /\ pending' = [k \in 1..Folds |-> k] /\ pc' = "read" /\ UNCHANGED err
  /\ UNCHANGED <<conf, testIdx, running, fitted, models, route, chunkNo, foldRows, foldScores, scores>>
\* one chunk-read task finishes (any order): its rows are appended to every training set that wants them
ReadChunk == /\ pc = "read" /\ readLeft # {}
             /\ \E t \in readLeft :
                  LET rows == {<<t[1], i>> : i \in (t[2] * rsize)..(t[2] * rsize + rsize - 1)} \cap RowsOf(t[1]) IN
                  /\ got' = [k \in 1..Folds |-> got[k] \cup (rows \cap trainIdx[k])]
                  /\ readLeft' = readLeft \ {t}
                  /\ pc' = IF readLeft = {t} THEN "fit" ELSE "read"
             /\ UNCHANGED <<conf, testIdx, trainIdx, pending, running, fitted, models, route, chunkNo, foldRows, foldScores, scores, err>>
StartFit == /\ pc = "fit" /\ pending # <<>> /\ Cardinality(running) < Workers
            /\ running' = running \cup {Head(pending)} /\ pending' = Tail(pending)
            /\ UNCHANGED <<conf, pc, testIdx, trainIdx, got, readLeft, fitted, models, route, chunkNo, foldRows, foldScores, scores, err>>
FinishFit(k) == /\ pc = "fit" /\ k \in running
                /\ running' = running \ {k} /\ fitted' = Append(fitted, k)
                /\ pc' = IF pending = <<>> /\ running = {k} THEN "sort" ELSE "fit"
                /\ UNCHANGED <<conf, testIdx, trainIdx, got, readLeft, pending, models, route, chunkNo, foldRows, foldScores, scores, err>>
SortModels == /\ pc = "sort"
              /\ models' = IF Mut_NoSortByFold THEN fitted ELSE SortSeq(fitted, <)
              /\ route' = [r \in AllRows |-> CHOOSE k \in 1..Folds : r \in testIdx[r[1]][k]]
              /\ pc' = "predict"
              /\ foldRows' = [f \in Files |-> [k \in 1..Folds |-> <<>>]]
              /\ foldScores' = [f \in Files |-> [k \in 1..Folds |-> <<>>]]
              /\ scores' = [f \in Files |-> <<>>]
              /\ UNCHANGED <<conf, testIdx, trainIdx, got, readLeft, pending, running, fitted, chunkNo, err>>
\* files are predicted one after the other (generator consumed by list(...))
CurFile == CHOOSE f \in Files : scores[f] = <<>> /\ \A g \in 1..(f - 1) : scores[g] # <<>>
PredictChunk ==
  /\ pc = "predict"
  /\ LET f == CurFile  n == NOf(f) IN
     /\ chunkNo[f] * csize < n
     /\ LET lo == chunkNo[f] * csize  hi == IF lo + csize > n THEN n ELSE lo + csize
            slice(k) == SetToSortSeq({i \in lo..(hi - 1) : route[<<f, i>>] = k}, <)
        IN IF AsIs_EmptySliceRaises /\ \E k \in 1..Folds : slice(k) = <<>>
             THEN /\ err' = "ValueError: No PSMs were detected." /\ pc' = "failed"
                  /\ UNCHANGED <<foldRows, foldScores, chunkNo>>
             ELSE /\ foldRows' = [foldRows EXCEPT ![f] = [k \in 1..Folds |-> @[k] \o slice(k)]]
                  /\ foldScores' = [foldScores EXCEPT ![f] =
                        [k \in 1..Folds |-> @[k] \o [j \in 1..Len(slice(k)) |-> <<models[k], <<f, slice(k)[j]>>>>]]]
                  /\ chunkNo' = [chunkNo EXCEPT ![f] = @ + 1] /\ UNCHANGED <<err, pc>>
  /\ UNCHANGED <<conf, testIdx, trainIdx, got, readLeft, pending, running, fitted, models, route, scores>>
Assemble ==
  /\ pc = "predict"
  /\ LET f == CurFile  n == NOf(f) IN
     /\ chunkNo[f] * csize >= n
     /\ LET allPos == Concat(foldRows[f])  allScores == Concat(foldScores[f])
        IN scores' = [scores EXCEPT ![f] = [i \in 1..n |-> allScores[CHOOSE j \in 1..Len(allPos) : allPos[j] = i - 1]]]
     /\ pc' = IF f = NFiles THEN "done" ELSE "predict"
  /\ UNCHANGED <<conf, testIdx, trainIdx, got, readLeft, pending, running, fitted, models, route, chunkNo, foldRows, foldScores, err>>
Next == Split \/ MakeTrain \/ ReadChunk \/ StartFit \/ (\E k \in 1..Folds : FinishFit(k)) \/ SortModels
        \/ PredictChunk \/ Assemble
Spec == Init /\ [][Next]_vars
---------------------------------------------------------------------------
(* Declarative layer (C02) *)
NeverFails == pc # "failed"
PartitionOK == pc \notin {"split"} => \A f \in Files :
                  /\ UNION {testIdx[f][k] : k \in 1..Folds} = RowsOf(f)
                  /\ \A a, b \in 1..Folds : a # b => testIdx[f][a] \cap testIdx[f][b] = {}
                  /\ \A k \in 1..Folds : testIdx[f][k] # {}
SpectrumClosed == pc \notin {"split"} => \A f \in Files : \A a, b \in 1..Folds :
                  a # b => SpecsOf(testIdx[f][a]) \cap SpecsOf(testIdx[f][b]) = {}
TrainFromOtherFolds == pc \notin {"split", "train", "failed"} => \A k \in 1..Folds :
                  /\ trainIdx[k] \cap UNION {testIdx[f][k] : f \in Files} = {}
                  /\ (~Subsampled(k) => trainIdx[k] = AllRows \ UNION {testIdx[f][k] : f \in Files})
                  /\ (Subsampled(k) => Cardinality(trainIdx[k]) <= cap)
ReadComplete == pc \in {"fit", "sort", "predict", "done"} => \A k \in 1..Folds : got[k] = trainIdx[k]
\* the score of every row comes from the model of its fold, which saw no PSM of the row's spectrum
NoLeak == pc = "done" => \A f \in Files : \A i \in 1..NOf(f) :
             LET r == <<f, i - 1>>  k == scores[f][i][1] IN
             /\ r \in testIdx[f][k] /\ scores[f][i][2] = r
             /\ SpecR(r) \notin SpecsOf(got[k])
\* C05: the outcome is a function of the input (rows, spectra, hash order = seed) only: chunk sizes, worker count and
\* completion orders do not appear in it
OutcomeIsF == pc = "done" => \A f \in Files : \A i \in 1..NOf(f) :
                 scores[f][i] = <<CHOOSE k \in 1..Folds : <<f, i - 1>> \in FoldsOfFile(f)[k], <<f, i - 1>>>>
\* ---- liveness (checked by Brew_live.cfg): under weak fairness of the next-state action every behaviour comes to rest
\* in a state without successor -- the modelled procedure terminates for every input, schedule and fault inside the bounds
FairSpec == Spec /\ WF_vars(Next)
Halts == <>[](~ENABLED Next)
=============================================================================
