SPECIFICATION FairSpec
CONSTANTS MaxN = 2 MaxRank = 2 Overrides = {FALSE, TRUE} AsIs_NoLabelConversion = FALSE Mut_NeverFallBack = FALSE Mut_ForgetDirection = FALSE
PROPERTY Halts
CHECK_DEADLOCK FALSE
