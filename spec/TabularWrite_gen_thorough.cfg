SPECIFICATION Spec
CONSTANTS BufSizes = {0, 2, 3, 4, 5, 6} MaxAppends = 4 MaxRows = 3
          Mut_FlushLosesRemainder = FALSE Mut_SliceOffByOne = FALSE Mut_NoTruncate = FALSE Mut_NoClose = FALSE
INVARIANT EmitCase
CHECK_DEADLOCK FALSE
