SPECIFICATION Spec
CONSTANTS MaxLen = 7 MaxLen2 = 3 Alphabet <- Alpha5 Enzymes = {"KR", "KRnoP"}
          Reverses = {TRUE, FALSE} Concats = {TRUE} Renderings <- RendOne Width = 2 LemmaMaxLen = 0
          Mut_MoveLast = FALSE Mut_JoinNoNewline = FALSE Mut_NameWithDesc = FALSE
INVARIANT EmitCase
CONSTRAINT GenOnly
CHECK_DEADLOCK FALSE
