"""C02 -- cross-validation integrity: no PSM is scored by a model that saw its spectrum.

(M) Brew.tla: split (hash order free) -> training sets (+cap as any subset) -> chunked training read and fold
    fits in thread pools (every completion order) -> sort by fold -> routing -> chunked predict -> assembly,
    against PartitionOK / SpectrumClosed / TrainFromOtherFolds / NoLeak; one and two files, 2 and 3 folds.
(G) BrewGen.tla enumerates every dataset shape inside the fold construction's domain for every fold count.
(V) BrewTrace.tla accepts the events recorded from the real brew() (recording Model subclass through the
    public Model API) iff held-out sets form a spectrum-closed partition into exactly `folds` parts and every
    model's training rows avoid the spectra of the rows it finally scores.
"""
from __future__ import annotations

import copy

import numpy as np

from engine.tlc import run_tlc, MachineryError
from drivers.common import pmap
from drivers import brewrun

LEVEL = "model_checking"


def rows_from_shape(spec_of, rng, id0=0, good=True):
    """labels alternate inside a spectrum (so multi-PSM spectra carry both), features: targets mostly above decoys"""
    scans = rng.permutation(9000)[: max(spec_of)] + 1
    seen = {}
    rows = []
    order = rng.permutation(len(spec_of))
    vals = rng.permutation(60)
    for i, s in enumerate(spec_of):
        k = seen.get(s, 0)
        seen[s] = k + 1
        tgt = (k % 2 == 0) if (s % 2 == 1) else (k % 2 == 1)
        base = int(vals[i % 60]) % 30
        f1 = (40 + base) if (tgt and good) else base
        rows.append({"id": id0 + i, "spec": int(scans[s - 1]), "tgt": bool(tgt), "f": [int(f1) + 100 * (i // 60), int(order[i])]})
    return rows


def make_cases(ctx, rng):
    shapes = [(p[1], p[2]) for p in run_tlc("BrewGen", "BrewGen_quick.cfg" if ctx.quick else "BrewGen_thorough.cfg",
                                            workers=1).prints if p and p[0] == "CASE"]
    if len(shapes) < 1000:
        raise MachineryError("shape generation produced only %d shapes" % len(shapes))
    if not ctx.quick and len(shapes) > 40000:
        pick = rng.permutation(len(shapes))[:40000]
        shapes = [shapes[int(i)] for i in sorted(pick)]
    cases = []
    idx = ctx.seed
    for folds, shape in shapes:
        n = len(shape)
        files = [{"rows": rows_from_shape(shape, rng)}]
        if idx % 4 == 3:
            other = [s for f, s in shapes[max(0, idx % len(shapes) - 40): idx % len(shapes) + 1] if f == folds]
            sh2 = other[int(rng.integers(0, len(other)))] if other else shape
            files.append({"rows": rows_from_shape(sh2, rng, id0=100)})
        ntot = sum(len(f["rows"]) for f in files)
        cap = None if idx % 3 else int(rng.integers(1, max(2, ntot)))
        workers = 1 + idx % 4
        c = {"files": files, "folds": int(folds), "workers": workers, "cap": cap, "keyw": 1 + (idx // 2) % 4,
             "fmt": "parquet" if (idx // 5) % 4 == 3 else "pin", "thr": [1, 1], "train_thr": [1, 1],
             "pred_chunk": [1, 2, 3, n, n + 1, 700000][(idx // 3) % 6], "read_chunk": [1, 2, 5, 200000][(idx // 7) % 4],
             "seed": int(idx % 5), "est": "feat", "override": True}
        if workers > 1 and idx % 2:
            c["schedule"] = [int(x) + 1 for x in rng.permutation(int(folds))]
        if idx % 11 == 5:
            c["refeed_seed"] = int(c["seed"] + 1 + idx % 3)      # trained models re-applied under another seed
            c["refeed_reverse"] = bool(idx % 2)                  # ... listed in reverse order
        if c["keyw"] >= 3 and idx % 3 == 0:
            c["share2"] = True      # pairs of distinct spectra that agree on the first two key columns
        if idx % 11 == 8:
            # the same parsed collection was already rescored in this process with ANOTHER fold count (shallow copies of the
            # dataset objects, as a user comparing fold counts would do): the judged run is the second one
            c["prebrew_folds"] = 2 + (int(folds) - 1) % 3 if 2 + (int(folds) - 1) % 3 != int(folds) else 2 + int(folds) % 3
        cases.append(c)
        idx += 1
    # outside the domain boundary B-02: one crowded spectrum with more PSMs than rows div folds.  The fold construction may
    # refuse such a table; if it hands back scores, the leak clauses still apply (BrewTrace: LeakClauses)
    for j in range(80 if ctx.quick else 1500):
        folds = 2 + j % 3
        n = int(rng.integers(2 * folds, 5 * folds + 1))
        k = n // folds + 1 + j % 2
        shape = [1] * min(k, n - 1) + list(range(2, 2 + n - min(k, n - 1)))
        shape = [shape[int(i)] for i in rng.permutation(len(shape))]
        cases.append({"files": [{"rows": rows_from_shape(shape, rng)}], "folds": folds, "workers": 1 + j % 2, "cap": None, "keyw": 1 + j % 4,
                      "fmt": "pin", "thr": [1, 1], "train_thr": [1, 1], "pred_chunk": [2, 700000][j % 2], "read_chunk": 200000,
                      "seed": j % 5, "est": "feat", "override": True, "ood": True})
    # larger random datasets, several estimators incl. real learners
    nbig = 12 if ctx.quick else 200
    for j in range(nbig):
        n = int(rng.choice([240, 300, 420]))
        folds = 2 + j % 5
        spec_of, s = [], 1
        while len(spec_of) < n:
            m = int(rng.integers(1, 4))
            spec_of += [s] * m
            s += 1
        spec_of = spec_of[:n]
        rows = rows_from_shape(spec_of, rng)
        for r in rows:     # continuous-ish integer scores with overlap
            r["f"] = [int(rng.normal(60 if r["tgt"] and rng.random() < 0.6 else 30, 9)), int(rng.integers(0, 100))]
        c = {"files": [{"rows": rows}], "folds": folds, "workers": 1 + j % 4, "cap": None if j % 3 else int(n // 3),
             "keyw": 1 + j % 4, "fmt": "parquet" if j % 4 == 1 else "pin", "thr": [1, 4], "train_thr": [1, 2],
             "pred_chunk": int(rng.choice([7, 50, 100, 700000])), "read_chunk": int(rng.choice([13, 64, 200000])),
             "seed": j, "est": ["feat", "memo", "lr", "tree", "svm"][j % 5], "max_iter": 1 + j % 3, "direction": None, "override": True}
        if j % 5 == 0 and j % 2 == 1:
            c["refeed_seed"] = j + 17
        if j % 3 == 1:
            c["prebrew_folds"] = 2 + (folds - 1) % 4 if 2 + (folds - 1) % 4 != folds else 2 + folds % 4
        if c["keyw"] >= 3 and j % 8 != 7:
            c["share2"] = True
        if j % 2 == 0 or c.get("share2"):
            # file order: the PSMs of a spectrum are not contiguous (rows of different spectra interleave)
            c["files"][0]["rows"] = [c["files"][0]["rows"][int(i)] for i in rng.permutation(len(c["files"][0]["rows"]))]
        if j % 4 == 3:
            rows2 = rows_from_shape(spec_of[: n // 2], rng, id0=1000)
            for r in rows2:
                r["f"] = [int(rng.normal(60 if r["tgt"] and rng.random() < 0.6 else 30, 9)), int(rng.integers(0, 100))]
            c["files"].append({"rows": rows2})
        cases.append(c)
    return cases


def run_case(case):
    c = copy.deepcopy(case)
    try:
        if c.get("est") in ("lr", "tree", "svm"):
            return run_real_learner(c)
        if c.get("hooks"):       # phase 2: the same run with the guarded hooks of mokapot/_verif_trace.py switched on
            from drivers import hooktrace
            (tr, info), evs = hooktrace.traced_call(lambda: brewrun.run_brew(c))
            tr["hook_events"] = evs
        else:
            tr, info = brewrun.run_brew(c)
        tr["enforced"] = bool(info["enforced"])
        return tr
    except Exception as e:
        import traceback
        return {"harness_error": "%s: %s\n%s" % (type(e).__name__, e, traceback.format_exc()[-800:])}


def run_real_learner(c):
    """the same recording Model subclass around real scikit-learn learners / the Percolator SVM grid"""
    import mokapot
    from sklearn.linear_model import LogisticRegression
    from sklearn.tree import DecisionTreeClassifier
    kind = c["est"]
    orig = brewrun.RecEst

    class Wrapped(brewrun.RModel):
        pass
    # build through run_brew's machinery but with a different estimator: temporarily swap RecEst
    if kind == "lr":
        est_factory = lambda **kw: LogisticRegression()
    elif kind == "tree":
        est_factory = lambda **kw: DecisionTreeClassifier(random_state=0)
    else:
        est_factory = lambda **kw: mokapot.PercolatorModel().estimator
    brewrun.RecEst = est_factory
    try:
        c2 = dict(c)
        tr, info = brewrun.run_brew(c2)
    finally:
        brewrun.RecEst = orig
    tr["calibrated"] = False       # real-valued raw scores: C11 arithmetic is checked with the integer estimators
    tr["enforced"] = bool(info["enforced"])
    return tr


def signature(case, tr):
    shape = [[r["spec"] for r in f["rows"]] for f in case["files"]]
    canon = []
    for s in shape:
        m = {}
        canon.append([m.setdefault(v, len(m) + 1) for v in s])
    return {"api": "brew", "folds": case["folds"], "nfiles": len(case["files"]), "capped": case.get("cap") is not None,
            "keyw": case.get("keyw"), "workers": case.get("workers"), "est": case.get("est"), "fmt": case.get("fmt"),
            "raised": tr.get("raised_type", ""), "shape": canon if sum(map(len, canon)) <= 12 else "n=%d" % sum(map(len, canon)),
            "pred_chunk": case.get("pred_chunk"), "read_chunk": case.get("read_chunk"), "seed": case.get("seed")}


def corruptions(tr, rng):
    out = []
    if tr["raised"] or not tr["preds"] or not tr["fits"] or not tr.get("trained"):
        return out          # the clauses speak about runs that returned cross-validated scores

    def mod(fn):
        t = copy.deepcopy(tr)
        fn(t)
        return t
    p = tr["preds"][int(rng.integers(0, len(tr["preds"])))]
    if p["ids"]:
        x = p["ids"][0]
        fi = next((i for i, f in enumerate(tr["fits"]) if f["model"] == p["model"]), None)
        if fi is not None:
            out.append(("heldout_in_train", mod(lambda t: t["fits"][fi]["train"].append(x))))
        others = [i for i, q in enumerate(tr["preds"]) if q["model"] != p["model"] and q["file"] == p["file"]]
        pi = tr["preds"].index(p)
        if others and not tr["capped"]:
            # (with a training-size cap the other model's training set need not contain x: moving a single-PSM spectrum to
            # another fold can then yield a perfectly valid trace, so the control is only built for uncapped runs)
            def move(t):
                t["preds"][pi]["ids"] = t["preds"][pi]["ids"][1:]
                t["preds"][pi]["raw"] = t["preds"][pi]["raw"][1:]
                t["preds"][others[0]]["ids"].append(x)
                t["preds"][others[0]]["raw"].append(0)
            out.append(("scored_by_other_model", mod(move)))

        def drop(t):
            t["preds"][pi]["ids"] = t["preds"][pi]["ids"][1:]
            t["preds"][pi]["raw"] = t["preds"][pi]["raw"][1:]
        out.append(("row_never_scored", mod(drop)))
        out.append(("estimator_saw_the_rows_it_scores", mod(lambda t: t["preds"][pi].update(est_train=list(t["preds"][pi]["ids"])))))
        if others:
            out.append(("fold_models_share_one_estimator", mod(lambda t: t["preds"][others[0]].update(est=t["preds"][pi]["est"]))))
    if not tr["capped"]:
        f0 = next((i for i, f in enumerate(tr["fits"]) if len(f["train"]) > 1), None)
        if f0 is not None:
            out.append(("train_row_missing", mod(lambda t: t["fits"][f0]["train"].pop())))
    return out


def drive(ctx, cases):
    run_case(cases[0])
    res = pmap(lambda i: run_case(cases[i]), len(cases), chunk=20)
    traces = []
    for i, t in enumerate(res):
        if "harness_error" in t:
            raise MachineryError("driver failed on case %d: %s" % (i, t["harness_error"]))
        t["tid"] = i + 1
        traces.append(t)
    return traces


def run(ctx):
    ctx.liveness("Brew", unfair_control=not ctx.quick)      # termination under weak fairness (Brew_live.cfg)
    rng = np.random.default_rng(ctx.seed)
    ctx.phase("model_checking")
    ctx.model_check("Brew", "Brew_quick.cfg", note="1 file, 2 folds, rows<=5, all hash orders, cap 0..2, chunk 1..3, 2 workers")
    ctx.model_check("Brew", "Brew_files2.cfg", note="2 files x rows<=3, cap 0..3")
    ctx.model_check("Brew", "Brew_folds3.cfg", note="3 folds, rows<=6")
    if not ctx.quick:
        ctx.model_check("Brew", "Brew_thorough.cfg", note="rows<=6, 4 spectra", timeout=3000)
    ctx.model_check("Brew", "Brew_asis1.cfg", expect_violation="NeverFails", note="AsIs_EmptySliceRaises (repaired: F-05)")
    ctx.model_check("Brew", "Brew_asis2.cfg", expect_violation="NeverFails", note="AsIs_CapLargerThanFile (repaired: F-02b)")
    ctx.model_check("Brew", "Brew_mut1.cfg", expect_violation="TrainFromOtherFolds", note="seeded fault: training set includes the held-out fold")
    ctx.model_check("Brew", "Brew_mut2.cfg", expect_violation="NoLeak", note="seeded fault: models not sorted by fold")
    ctx.model_check("Brew", "Brew_mut3.cfg", expect_violation="SpectrumClosed", note="seeded fault: folds cut at nominal positions")
    r = ctx.model_check("Brew", "Brew_cov.cfg", coverage=True, note="action coverage")
    ctx.require_actions(r, ["Split", "MakeTrain", "ReadChunk", "StartFit", "FinishFit", "SortModels", "PredictChunk", "Assemble"])
    ctx.phase("generation")
    cases = make_cases(ctx, rng)
    for i, c in enumerate(cases):
        # (outside B-02 an empty fold is no violation; an earlier rescoring of the same collection -- prebrew -- would write its
        # own events into the trace, and that run need not be inside B-02)
        if i % 25 == 0 and c.get("est") == "feat" and not c.get("ood") and not c.get("prebrew_folds"):
            c["hooks"] = True
    ctx.phase("driving")
    traces = drive(ctx, cases)
    hook_sources = [{"source": "driver case %d" % i, "tid": t["tid"], "events": t.pop("hook_events")} for i, t in enumerate(traces) if "hook_events" in t]
    nsched = sum(1 for c, t in zip(cases, traces) if c.get("schedule") and t.get("enforced"))
    ctx.cov["schedules_enforced"] = nsched
    ctx.cov["schedules_requested"] = sum(1 for c in cases if c.get("schedule"))
    for c, t in zip(cases, traces):
        ctx.count((str([[r["spec"] for r in f["rows"]] for f in c["files"]]), c["folds"], c.get("cap"), c["keyw"], c["workers"],
                   c["pred_chunk"], c["read_chunk"], c["fmt"], str(c.get("schedule"))))
    ctx.sample({"case": {k: v for k, v in cases[3].items() if k != "files"}, "rows": cases[3]["files"][0]["rows"][:5],
                "fits": traces[3]["fits"][:2], "preds": traces[3]["preds"][:3]})
    ctx.phase("validation")
    verdicts = ctx.validate("BrewTrace", "Trace.cfg", traces)
    for c, t in zip(cases, traces):
        v = verdicts[t["tid"]]
        if not v["accept"]:
            ctx.reject({"case": c, "trace": t}, v["failed"], signature(c, t))
    ctx.phase("hook_traces")
    from drivers import hooktrace
    tests = hooktrace.REPO_TESTS[:1] if ctx.quick else hooktrace.REPO_TESTS[:4]
    # hook traces of driver cases are only judged inside the domain boundary B-02 (info -1: outside, e.g. spectra that share the
    # first two key columns form a fold group larger than rows div folds; an empty fold is then no violation)
    hook_sources = [h for h in hook_sources if verdicts[h["tid"]].get("info") != -1]
    hooktrace.validate_events(ctx, hook_sources + hooktrace.traced_repo_tests(tests), "C02")
    ctx.phase("negative_controls")
    crng = np.random.default_rng(ctx.seed + 3)
    bad, names = [], {}
    for i in crng.permutation(len(traces))[:120]:
        t = traces[int(i)]
        if not verdicts[t["tid"]]["accept"] or verdicts[t["tid"]].get("info") == -1:      # vacuously accepted: nothing to corrupt
            continue
        for name, b in corruptions(t, crng):
            b["tid"] = len(bad) + 1
            bad.append(b)
            names[name] = names.get(name, 0) + 1
    # only corruptions of in-domain traces are meaningful: the acceptor is vacuous outside B-02
    ctx.negative_controls("BrewTrace", "Trace.cfg", bad, name="event corruptions %s" % names)
    ctx.assume("spectrum identity is (collection, spectrum key); crc32 collisions only coarsen the grouping")
    ctx.assume("domain boundary B-02: no spectrum holds more PSMs than (rows of its file) div folds, each file has >= folds rows")
    # the property as observed at the command line: how the user's options reach the stages (CliFlow.tla, drivers/cliflow.py)
    from drivers import cliflow
    cliflow.family(ctx, "C02", model_check=False, light=True)
    return ctx.finish(
        rule="shapes = every assignment of rows to spectra (<=8 rows, <=5 spectra, multiplicity <=3; thorough <=10/6) inside the "
             "fold construction's domain for folds 2..4 (thorough 2..6), enumerated by TLC from BrewGen.tla; each run through the "
             "real brew() with rotating key width 1..4, files 1..2, cap, workers 1..4 (+ enforced completion orders), prediction / "
             "training-read chunk sizes, format, seed; plus random 240-420 row datasets with recording, memorising and real "
             "learners; distinct = distinct (shape, folds, cap, key width, workers, chunk sizes, format, schedule)",
        exhaustive=ctx.quick)


def replay(ctx, case):
    if isinstance(case.get("case"), dict) and case["case"].get("kind") == "cliflow":
        from drivers import cliflow
        return cliflow.replay(ctx, case, "C02")
    c = case["case"]["case"]
    t = run_case(c)
    t["tid"] = 1
    v = ctx.validate("BrewTrace", "Trace.cfg", [t])[1]
    if not v["accept"]:
        ctx.reject({"case": c, "trace": t}, v["failed"], signature(c, t))
    ctx.count(1)
    ctx.count(2)
    ctx.sample({"fits": t["fits"][:2], "preds": t["preds"][:2], "raised": t["raised"]})
    return ctx.finish(rule="replay of one recorded case")
