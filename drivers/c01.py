"""C01 -- TDC q-values equal the defining formula.

(M) Tdc.tla: the scan of qvalues.py (every argsort order among ties) = TdcDef!QDef for all weak orders x
    labellings, N <= 5 (quick) / N <= 6 + simulation at N = 7 (thorough); seeded faults must be caught.
(G) TLC enumerates every (weak order, labelling) as CASE lines; the driver renders each under both
    directions and rotating dtype / label encoding / monotone rescaling / input permutation / API.
(V) TdcTrace.tla accepts a recorded call iff every returned q-value (reconstructed as an exact rational)
    equals QDef, resp. every training label equals LabelDef.
"""
from __future__ import annotations

import numpy as np
import pandas as pd

from engine.core import rat
from engine.tlc import run_tlc, MachineryError
from drivers.common import pmap

LEVEL = "model_checking"

DTYPES = ["float64", "float32", "int8", "uint8", "int16", "int64"]
ENCS = ["bool", "int", "float"]
SCALES = ["affine", "exp"]
APIS = ["tdc", "qvalues_from_scores", "_update_labels", "Linear._update_labels", "_update_labels(Series)"]
THRS = [(1, 1), (1, 2), (1, 4), (101, 10000), (3701, 10000), (5503, 10000)]


def render_scores(rank, desc, dtype, scale):
    rank = np.asarray(rank, dtype=np.int64)
    n = len(rank)
    base = rank if desc else (int(rank.max()) + 1 - rank)      # lower is better when ~desc
    if dtype in ("int8", "uint8", "int16", "int64"):
        off = 0 if dtype == "uint8" else -3
        v = (base + off).astype(np.int64)
        if dtype != "uint8":
            # any strictly increasing map is allowed: send the lowest value to the dtype's minimum (the one value
            # whose negation wraps around in its own dtype)
            v[v == v.min()] = np.iinfo(dtype).min
        return v.astype(dtype)
    if scale == "tiny" and dtype == "float64":
        x = 0.5 + 1e-9 * base          # distinct doubles closer together than single precision resolves
        return x.astype(dtype)
    if scale == "huge" and dtype == "float64":
        x = 1e9 + base                 # well separated doubles far from 0 (single precision resolves 64 there)
        return x.astype(dtype)
    if scale in ("affine", "tiny", "huge"):
        x = 0.37 * base - 1.5
    else:
        x = np.exp(base / 3.0) if base.max() < 200 else np.log1p(base) * 7.0
    return x.astype(dtype)


def render_targets(tgt, enc):
    t = np.asarray(tgt, dtype=bool)
    if enc == "int":
        return t.astype(np.int64)
    if enc == "float":
        return t.astype(np.float64)
    return t


def call_real(case):
    """Run one case on the real code; returns the trace dict (without tid)."""
    import mokapot.qvalues as Q
    import mokapot.dataset as D
    rank, tgt, desc = case["rank"], case["tgt"], case["desc"]
    n = len(rank)
    perm = case["perm"]
    r_in = [rank[p] for p in perm]
    t_in = [bool(tgt[p]) for p in perm]
    scores = render_scores(r_in, desc, case["dtype"], case["scale"])
    api = case["api"]
    tr = {"n": n, "rank": r_in, "tgt": t_in}
    if api in ("tdc", "qvalues_from_scores"):
        targets = render_targets(t_in, case["enc"])
        if api == "tdc":
            q = Q.tdc(scores, targets, desc=desc)
        else:
            q = Q.qvalues_from_scores(scores, targets, "tdc")
        q = np.asarray(q)
        tr.update(kind="q", q=[rat(x, n) for x in q.tolist()])
        if len(q) != n:
            tr["q"] = tr["q"] + [[0, 1, False]] * (n - len(q))
    else:
        thr = case["thr"]
        f = thr[0] / thr[1]
        sc = scores.astype(float)
        tb = np.asarray(t_in, dtype=bool)
        if api == "_update_labels":
            lab = D._update_labels(sc, tb, f, desc)
        elif api == "_update_labels(Series)":
            # a label COLUMN as the caller has it: booleans, 0/1 integers (int64 / int8 / uint8 by turns) or 0./1. floats
            tcol = render_targets(t_in, case["enc"])
            if case["enc"] == "int":
                tcol = tcol.astype([np.int64, np.int8, np.uint8][(n + thr[0]) % 3])
            lab = D._update_labels(pd.Series(sc), pd.Series(tcol), f, desc)
        else:
            df = pd.DataFrame({"t": tb, "s": np.arange(n), "p": ["P%d" % i for i in range(n)], "f": sc})
            ds = D.LinearPsmDataset(df, target_column="t", spectrum_columns="s", peptide_column="p",
                                    feature_columns="f", copy_data=False, enforce_checks=False)
            if (n + len(perm) + thr[0]) % 2:
                # the dataset object has already labelled OTHER scores under the same column name, threshold and direction
                # (a feature column re-scored, e.g. Series arithmetic keeps the name): the second answer is for the second scores
                ds._update_labels(pd.Series(sc[::-1].copy(), name="f"), f, desc)
                ds._update_labels(ds.data["f"] * -1.0 + 0.5, f, desc)
                lab = ds._update_labels(pd.Series(sc, name="f"), f, desc)
            else:
                lab = ds._update_labels(sc, f, desc)
        tr.update(kind="labels", thr=list(thr), labels=[int(x) for x in np.asarray(lab).tolist()])
    return tr


def tlc_cases(cfg):
    r = run_tlc("Tdc", cfg, workers=4)
    if not r.ok:
        raise MachineryError("generation run failed: %s %s" % (r.violated, r.error))
    cases = [(p[2], p[3]) for p in r.prints if p and p[0] == "CASE"]
    if len(cases) != r.distinct:
        raise MachineryError("generation: %d CASE lines for %d initial states" % (len(cases), r.distinct))
    return cases


def random_cases(rng, count, nmax):
    out = []
    for _ in range(count):
        n = int(rng.integers(1, nmax + 1))
        style = int(rng.integers(0, 6))
        if style == 0:      # heavy ties
            rank = rng.integers(1, max(2, n // 4) + 1, n)
        elif style == 1:    # no ties
            rank = rng.permutation(n) + 1
        elif style == 2:    # all-decoy prefix: best ranks are decoys
            rank = rng.integers(1, n + 1, n)
        else:
            rank = rng.integers(1, max(2, n // 2) + 1, n)
        tgt = rng.random(n) < rng.choice([0.2, 0.5, 0.8])
        if style == 2:
            top = np.argsort(-rank)[: max(1, n // 5)]
            tgt[top] = False
        if style == 3:      # decoy-only tie groups
            for v in np.unique(rank)[::2]:
                tgt[rank == v] = False
        if style == 4:
            tgt[:] = True
        if style == 5:
            tgt[:] = False
        # canonicalise ranks to dense 1..k
        _, dense = np.unique(rank, return_inverse=True)
        out.append(([int(x) + 1 for x in dense], [bool(x) for x in tgt]))
    return out


def make_case(idx, rank, tgt, desc, rng, full=None):
    n = len(rank)
    c = {"rank": list(rank), "tgt": list(tgt), "desc": desc}
    c["dtype"] = DTYPES[idx % 6]
    c["enc"] = ENCS[(idx // 6) % 3]
    c["scale"] = (SCALES + ["tiny", "huge"])[(idx // 18) % 4]
    a = (idx // 2) % 7
    c["api"] = APIS[a] if a < 5 else "tdc"
    if c["api"] == "qvalues_from_scores":
        c["desc"] = True
    if n > 100 and c["dtype"] in ("int8", "uint8", "int16", "int64"):
        c["dtype"] = "float64"
    c["thr"] = list(THRS[(idx // 3) % len(THRS)])
    c["perm"] = [int(x) for x in rng.permutation(n)] if idx % 3 else list(range(n))
    if full:
        c.update(full)
    return c


def signature(c):
    return {"api": c["api"], "dtype": c["dtype"], "enc": c["enc"], "desc": c["desc"],
            "rank": c["rank"], "tgt": c["tgt"], "perm": c["perm"], "thr": c["thr"]}


def corrupt(tr, rng):
    t = {k: (list(v) if isinstance(v, list) else v) for k, v in tr.items()}
    if t["kind"] == "q":
        i = int(rng.integers(0, t["n"]))
        q = list(t["q"][i])
        q[0], q[1] = (q[0] + 1, q[1] + 2) if q[0] * 2 != q[1] else (q[0], q[1] + 1)   # a different value
        t["q"] = list(t["q"])
        t["q"][i] = q
    else:
        i = int(rng.integers(0, t["n"]))
        t["labels"] = list(t["labels"])
        t["labels"][i] = {1: 0, 0: 1, -1: 1}[t["labels"][i]]
    return t


def run(ctx):
    ctx.liveness("Tdc", unfair_control=not ctx.quick)      # termination under weak fairness (Tdc_live.cfg)
    rng = np.random.default_rng(ctx.seed)
    # ---------------- (M) ----------------
    if ctx.quick:
        ctx.model_check("Tdc", "Tdc_quick.cfg", note="N<=5, every argsort order among ties")
    else:
        ctx.model_check("Tdc", "Tdc_quick.cfg", note="N<=5, every argsort order among ties")
        ctx.model_check("Tdc", "Tdc_thorough.cfg", note="N<=6, stable sort", timeout=3000)
        ctx.model_check("Tdc", "Tdc_sim.cfg", note="N=7 simulation under timeout", simulate="num=20000",
                        depth=20, timeout=600, seed=ctx.seed)
    ctx.model_check("Tdc", "Tdc_mut1.cfg", expect_violation="OpEqualsDef", note="seeded fault: +1 omitted")
    ctx.model_check("Tdc", "Tdc_mut2.cfg", expect_violation="OpEqualsDef", note="seeded fault: group FDR at first member")
    r = ctx.model_check("Tdc", "Tdc_cov.cfg", coverage=True, note="action coverage (N<=4)")
    ctx.require_actions(r, ["Sort", "Fwd", "Bwd"])
    # ---------------- (G) ----------------
    base = tlc_cases("Tdc_gen5.cfg" if ctx.quick else "Tdc_gen6.cfg")
    cases = []
    idx = ctx.seed
    for rank, tgt in base:
        for desc in (True, False):
            if ctx.quick or len(rank) == 6:
                cases.append(make_case(idx, rank, tgt, desc, rng))
                idx += 1
            else:   # thorough: full rendering cross product for N <= 5 spread over the index
                for rep in range(4):
                    cases.append(make_case(idx, rank, tgt, desc, rng))
                    idx += 5
    nrand = 600 if ctx.quick else 20000
    for rank, tgt in random_cases(rng, nrand, 60):
        cases.append(make_case(idx, rank, tgt, bool(idx % 2), rng))
        idx += 1
    for rank, tgt in random_cases(rng, 20 if ctx.quick else 200, 400):
        cases.append(make_case(idx, rank, tgt, bool(idx % 2), rng))
        idx += 1
    # ---------------- drive the real code ----------------
    call_real(cases[0])          # warm up imports / numba before forking

    def one(i):
        c = cases[i]
        try:
            tr = call_real(c)
        except Exception as e:      # the property says the call succeeds on every input of the domain
            tr = {"n": len(c["rank"]), "rank": c["rank"], "tgt": c["tgt"], "kind": "q",
                  "q": [[0, 1, False]] * len(c["rank"]), "raised": "%s: %s" % (type(e).__name__, e)}
        tr["tid"] = i + 1
        return tr
    traces = pmap(one, len(cases))
    for tid, c in enumerate(cases, 1):
        tr = traces[tid - 1]
        ctx.count((tuple(c["rank"]), tuple(c["tgt"]), c["desc"]))
        if tid % 9000 == 1:
            ctx.sample({"case": {k: c[k] for k in ("rank", "tgt", "desc", "dtype", "enc", "api", "perm")},
                        "trace": {k: v for k, v in tr.items() if k in ("q", "labels", "thr")}})
    # ---------------- (V) ----------------
    verdicts = ctx.validate("TdcTrace", "Trace.cfg", traces)
    for tid, c in enumerate(cases, 1):
        v = verdicts[tid]
        if not v["accept"]:
            ctx.reject({"case": c, "trace": traces[tid - 1]}, v["failed"], signature(c))
    # negative controls
    crng = np.random.default_rng(ctx.seed + 1)
    pick = [traces[int(i)] for i in crng.integers(0, len(traces), 200)]
    pick = [t for t in pick if verdicts[t["tid"]]["accept"]]
    bad = []
    for j, t in enumerate(pick):
        b = corrupt(t, crng)
        b["tid"] = j + 1
        bad.append(b)
    ctx.negative_controls("TdcTrace", "Trace.cfg", bad, name="one q-value / one label changed")
    ctx.assume("q-values are produced in float32 by the code; a returned float is identified with the unique "
               "fraction of denominator <= n within 2e-6 relative")
    return ctx.finish(
        rule="cases = every (weak order of ranks, labelling) enumerated by TLC from Tdc.tla Init (N<=%d) x both "
             "directions, rendered under rotating dtype/label-encoding/rescaling/permutation/API, plus seeded random "
             "vectors n<=60 and n<=400 (heavy ties, decoy prefixes, decoy-only tie groups); distinct = distinct "
             "(rank vector, label vector, direction)" % (5 if ctx.quick else 6),
        exhaustive=True)


def replay(ctx, case):
    c = case["case"]["case"]
    tr = call_real(c)
    tr["tid"] = 1
    v = ctx.validate("TdcTrace", "Trace.cfg", [tr])[1]
    if not v["accept"]:
        ctx.reject({"case": c, "trace": tr}, v["failed"], signature(c))
    ctx.count(1)
    ctx.count(2)
    ctx.sample(tr)
    return ctx.finish(rule="replay of one recorded case")
