"""The command-line run end to end (mokapot.mokapot.main, in-process) on generated PIN files, projected to ConfTrace traces.

The scores that brew hands to assign_confidence are captured at the stage boundary (the name `brew` in mokapot.mokapot is
wrapped), so the competition / rollup / q-value clauses of ConfTrace.tla (C03) can be evaluated on the files the CLI wrote,
for every naming option of Pipeline.tla (several input files, equal stems in different directories, --aggregate,
--file_root, --keep_decoys, --skip_rollup, --skip_deduplication, ragged PINs that need the verify step)."""
from __future__ import annotations

import os
import shutil
import sys
import tempfile
from pathlib import Path

import numpy as np

from engine.core import rat
from drivers import mk


def gen_rows(rng, n, id0):
    rows = []
    for i in range(n):
        tgt = bool(i % 2 == 0)
        good = tgt and rng.random() < 0.6
        scan = 1 + i // 2 if i % 5 else 1 + i // 3          # some spectra hold 3 PSMs
        rows.append({"id": id0 + i, "scan": scan, "mass": 500 + scan % 9, "tgt": tgt, "pep": id0 + i // 3,
                     "f": [rng.normal(3 if good else 0, 1), rng.normal(1 if good else 0, 1), rng.normal()],
                     "nprot": 1 + (i % 3 == 0)})
    return rows


def write_pin(path, rows, ragged):
    lines = ["SpecId\tLabel\tScanNr\tExpMass\tf1\tf2\tf3\tPeptide\tProteins"]
    for r in rows:
        k = r["nprot"] if ragged else 1
        prots = "\t".join("P%d_%d" % (r["id"], j) for j in range(k))
        lines.append("r%d\t%d\t%d\t%.1f\t%.5f\t%.5f\t%.5f\tK.PEP%dK.A\t%s" % (
            r["id"], 1 if r["tgt"] else -1, r["scan"], float(r["mass"]), r["f"][0], r["f"][1], r["f"][2], r["pep"], prots))
    Path(path).parent.mkdir(parents=True, exist_ok=True)
    Path(path).write_text("\n".join(lines) + "\n")


def run_cli(case):
    """case: {files:[{dir, stem, n, seed, ragged}], aggregate, decoys, rollup, dedup, file_root|None, folds, workers}
    -> (list of ConfTrace traces (one per collection, without tid), info)"""
    MM = sys.modules.get("mokapot.mokapot")
    if MM is None:
        import importlib
        MM = importlib.import_module("mokapot.mokapot")
    wd = Path(tempfile.mkdtemp(prefix="cli_"))
    out = wd / "out"
    out.mkdir()
    captured = {}
    orig_brew = MM.brew

    def brew_capture(*a, **kw):
        ret = orig_brew(*a, **kw)
        captured["scores"] = [np.asarray(s, dtype=float).reshape(-1) for s in ret[2]]
        captured["descs"] = list(ret[3])
        return ret
    try:
        colls, paths = [], []
        for c, f in enumerate(case["files"]):
            rng = np.random.default_rng(f["seed"])
            rows = gen_rows(rng, f["n"], 10000 * c)
            p = wd / f["dir"] / (f["stem"] + ".pin")
            write_pin(p, rows, f.get("ragged", False))
            colls.append(rows)
            paths.append(p)
        argv = [str(p) for p in paths] + ["--dest_dir", str(out), "-v", "0", "--train_fdr", "0.1", "--test_fdr", "0.1",
                                          "--max_iter", "2", "--folds", str(case.get("folds", 3)), "--seed", "1",
                                          "--max_workers", str(case.get("workers", 1))]
        if case.get("aggregate"):
            argv.append("--aggregate")
        if case.get("decoys", True):
            argv.append("--keep_decoys")
        if not case.get("rollup", True):
            argv.append("--skip_rollup")
        if not case.get("dedup", True):
            argv.append("--skip_deduplication")
        if case.get("file_root"):
            argv += ["--file_root", case["file_root"]]
        raised = ""
        MM.brew = brew_capture
        try:
            MM.main(argv)
        except BaseException as e:
            if isinstance(e, KeyboardInterrupt):
                raise
            raised = "%s: %s" % (type(e).__name__, str(e)[:200])
        finally:
            MM.brew = orig_brew
        listing = sorted(os.listdir(out))
        root = (case["file_root"] + ".") if case.get("file_root") else ""
        single = case.get("aggregate") or len(colls) == 1
        levels = ["psms"] + (["peptides"] if case.get("rollup", True) else [])
        owner = {r["id"]: c for c, rows in enumerate(colls) for r in rows}
        traces = []
        leftovers = [n for n in listing if "scores_metadata" in n or n in ("psms.pin", "peptides.pin", root + "psms.pin", root + "peptides.pin")]
        for c, rows in enumerate(colls):
            scores = captured.get("scores", [None] * len(colls))[c] if captured.get("scores") else None
            if scores is None or len(scores) != len(rows):
                scores = np.zeros(len(rows))
            uniq = np.unique(scores)
            rank_of = {float(v): i + 1 for i, v in enumerate(uniq.tolist())}

            def rank_near(v, uniq=uniq):
                """scores travel through text files (pandas' fast float parser is not round-trip exact): nearest
                captured score within 1e-9 relative"""
                j = int(np.searchsorted(uniq, v))
                best = None
                for k in (j - 1, j):
                    if 0 <= k < len(uniq) and abs(uniq[k] - v) <= 1e-9 * max(1.0, abs(v)):
                        if best is None or abs(uniq[k] - v) < abs(uniq[best] - v):
                            best = k
                return -99999 if best is None else best + 1
            specs = {}
            trows = []
            for r, s in zip(rows, scores.tolist()):
                sp = specs.setdefault((r["scan"], r["mass"]), len(specs) + 1)
                k = r["nprot"] if case["files"][c].get("ragged") else 1
                trows.append({"id": r["id"], "spec": sp, "key": [r["pep"]], "tgt": bool(r["tgt"]), "rank": rank_of[float(s)],
                              "s4": rank_of[float(s)], "pep": "K.PEP%dK.A" % r["pep"],
                              "prot": ":".join("P%d_%d" % (r["id"], j) for j in range(k)), "lv": []})
            pfx = "" if single else case["files"][c]["stem"] + "."
            files, missing = [], ["leftover:" + n for n in leftovers] if c == 0 else []
            for lvl in levels:
                for td, name in (("t", "targets"), ("d", "decoys")):
                    if td == "d" and not case.get("decoys", True):
                        continue
                    fn = "%s%s%s.%s" % (root, pfx, name, lvl)
                    if fn not in listing:
                        missing.append(fn)
                        continue
                    hdr, rws = mk.read_result(out / fn)
                    prs = []
                    for x in rws:
                        pid = str(x.get("PSMId", ""))
                        rid = int(pid[1:]) if pid.startswith("r") and pid[1:].isdigit() else -1
                        if single and len(colls) > 1 and owner.get(rid, 0) != c:
                            continue                      # aggregated file: rows of the other collections
                        try:
                            s4 = rank_near(float(x.get("score")))
                            q = rat(float(x.get("q-value")), max(1, len(rows)))
                        except (TypeError, ValueError):
                            s4, q = -99999, [0, 1, False]
                        prs.append({"id": rid, "s4": s4, "q": q, "pep": str(x.get("peptide")), "prot": str(x.get("proteinIds")),
                                    "lv": [], "nf": x["_nf"]})
                    files.append({"level": lvl, "td": td, "rows": prs})
            traces.append({"mode": "assign", "dedup": bool(case.get("dedup", True)), "rollup": bool(case.get("rollup", True)),
                           "decoys": bool(case.get("decoys", True)), "nlev": 1, "levels": ["peptides"], "rows": trows,
                           "files": files, "raised": raised, "missing": missing})
        stems = [f["stem"] for f in case["files"]]
        info = {"listing": listing, "equal_stems": (not single) and len(set(stems)) < len(stems),
                "inputs_after": [p.read_text().split("\n")[:2] for p in paths]}
        return traces, info
    finally:
        shutil.rmtree(wd, ignore_errors=True)
