"""One analysis session for C08: build a deterministic dataset from a data seed, run brew + assign_confidence
(+ proteins) with a fixed analysis seed under the given session parameters, print the digests as JSON.
Run in-process (repeats) and as `python -m drivers.c08_worker '<json>'` in fresh interpreters with other
PYTHONHASHSEED values.  Nothing here iterates over a set or dict of strings to build data."""
from __future__ import annotations

import hashlib
import itertools
import json
import os
import shutil
import sys
import tempfile
from pathlib import Path

import numpy as np


def sha(b):
    return hashlib.sha256(b).hexdigest()[:20]


AA = "ACDEFGHILMNQSTVWY"


def make_fasta(rng, nprot, path, subset_every=5):
    """proteins = concatenations of tryptic peptides (no internal K/R, no P after a site); every 5th protein is a
    sub-protein of its predecessor and every 7th an exact copy of its predecessor under another name (protein grouping
    has something to do, and the order of the members of a group has something to depend on)"""
    peps_of = []
    lines = []
    for i in range(nprot):
        if i % 9 == 7 and peps_of and peps_of[-1]:
            # a paralog: shares the first peptide of its predecessor, the rest is its own
            peps = [peps_of[-1][0]]
            for _ in range(int(rng.integers(2, 4))):
                ln = int(rng.integers(7, 13))
                peps.append("".join(AA[int(j)] for j in rng.integers(0, len(AA), ln)) + "KR"[int(rng.integers(0, 2))])
        elif i % 9 == 8 and len(peps_of) >= 2 and peps_of[-1]:
            peps = [peps_of[-1][0]]          # a fragment contained in BOTH paralogs (two non-nested supersets)
        elif i % 7 == 6 and peps_of:
            peps = list(peps_of[-1])         # indistinguishable proteins: same sequence under another name (isoform entry)
        elif i % subset_every == subset_every - 1 and peps_of:
            peps = peps_of[-1][:2]
        else:
            peps = []
            for _ in range(int(rng.integers(3, 6))):
                ln = int(rng.integers(7, 13))
                peps.append("".join(AA[int(j)] for j in rng.integers(0, len(AA), ln)) + "KR"[int(rng.integers(0, 2))])
        peps_of.append(peps)
        lines.append(">sp|P%05d|PROT%d desc" % (i, i))
        lines.append("".join(peps))
    Path(path).write_text("\n".join(lines) + "\n")
    return peps_of


def build(spec, wd):
    import mokapot
    import pandas as pd
    from drivers import mk
    rng = np.random.default_rng(spec["data_seed"])
    n = spec["n"]
    proteins = None
    tpeps, dpeps = None, None
    if spec.get("proteins"):
        fa = wd / "t.fasta"
        make_fasta(rng, 40, fa)
        both = wd / "td.fasta"
        np.random.seed(spec["data_seed"])
        mokapot.make_decoys(fa, both, enzyme="[KR]", reverse=True, concatenate=True)
        proteins = mokapot.read_fasta(both, missed_cleavages=0, min_length=6, max_length=60)
        allp = sorted(proteins.peptide_map.keys()) + sorted(proteins.shared_peptides.keys())
        tp = [p for p in allp if not str(proteins.peptide_map.get(p, proteins.shared_peptides.get(p))).startswith("decoy_")]
        dp = [p for p in allp if p not in set(tp)]
        tpeps, dpeps = tp, dp
    rows = []
    for i in range(n):
        tgt = bool(i % 2 == 0)
        good = tgt and (rng.random() < 0.6)
        f1 = float(rng.normal(3.0 if good else 0.0, 1.0))
        f2 = float(rng.normal(1.0 if good else 0.0, 1.0))
        f3 = float(rng.normal(0.0, 1.0))
        rows.append((i, tgt, 1 + i // 2 if i % 7 else 1 + i // 3, f1, f2, f3))
    d = {"SpecId": ["r%d" % r[0] for r in rows], "Label": [1 if r[1] else -1 for r in rows], "ScanNr": [r[2] for r in rows],
         "filename": ["run%d.mzML" % (r[2] % 3) for r in rows],      # a string-valued spectrum-key column (its hash() depends on PYTHONHASHSEED)
         "ExpMass": [500.0 + (r[2] % 11) for r in rows], "f1": [r[3] for r in rows],
         # two feature columns with a missing value each: the parser drops them, and the ORDER of the features it keeps
         # (the order of the model coefficients) must not depend on the session (command-line sessions parse the file)
         "g1": [float("nan") if r[0] == 5 else r[4] * 0.5 for r in rows],
         "f2": [r[4] for r in rows],
         "g2": [float("nan") if r[0] in (3, 17) else r[5] + 1.0 for r in rows],
         "f3": [r[5] for r in rows]}
    if tpeps:
        d["Peptide"] = [("K." + (tpeps if r[1] else dpeps)[int(rng.integers(0, len(tpeps if r[1] else dpeps)))] + ".A") for r in rows]
    else:
        d["Peptide"] = ["K.PEP%dK.A" % int(rng.integers(0, n // 3)) for r in rows]
    d["Proteins"] = ["prot_r%d" % r[0] for r in rows]
    df = pd.DataFrame(d)
    ds = mk.make_dataset(df, wd / ("in." + spec.get("fmt", "pin")), feature_cols=["f1", "f2", "f3"],
                         key_cols=("filename", "ScanNr", "ExpMass"))
    return ds, proteins


def session(spec):
    """returns {'digests': [...], 'labels': [...], 'raised': ''}"""
    import mokapot
    from sklearn.svm import LinearSVC
    from drivers import brewrun
    wd = Path(tempfile.mkdtemp(prefix="c08_"))
    out = {"digests": [], "labels": [], "raised": ""}
    try:
        if spec.get("conf_only"):
            # confidence assignment alone, on heavily tied scores, with every random source left at its default: the tie
            # breaking inside the protein level must not depend on how often the function was called before in this process
            import pandas as pd
            ds, proteins = build(spec, wd)
            f1 = pd.read_csv(ds.filename, sep="\t")["f1"].to_numpy(dtype=float)
            dest = wd / "res"
            dest.mkdir()
            mokapot.assign_confidence([ds], max_workers=spec.get("workers", 1), scores=[np.round(f1)], descs=[True], eval_fdr=0.05,
                                      dest_dir=dest, prefixes=[None], decoys=True, proteins=proteins,
                                      peps_algorithm=spec.get("peps", "qvality"))
            for fn in sorted(os.listdir(dest)):
                out["labels"].append("file:" + fn)
                out["digests"].append(sha((dest / fn).read_bytes()))
            return out
        ds, proteins = build(spec, wd)
        tok = brewrun.new_recorder()
        rec = brewrun._REC[tok]
        model = brewrun.RModel(LinearSVC(dual=False, class_weight={0: 1, 1: 1}), train_fdr=0.05, max_iter=3, rng=spec["seed"], token=tok)
        if spec.get("ensemble"):
            model.slow_fold = 1       # the first fold model answers last when several workers predict in parallel
        models_in = model
        first = None
        if spec.get("refeed") is not None:
            # first run to obtain trained models, then feed them back in the requested order
            _, ms, sc0, _ = mokapot.brew([ds], model, test_fdr=0.05, folds=spec["folds"], max_workers=1, rng=spec["seed"],
                                         **({"subset_max_train": int(spec["cap"])} if spec.get("cap") else {}))
            ds, proteins = build(spec, wd)      # brew consumes the spectra dataframe: rebuild the dataset object
            rec.events.clear()
            if all(bool(m.is_trained) for m in ms):
                models_in = [ms[i] for i in spec["refeed"]]
                first = np.asarray(sc0[0], dtype=float)
            else:
                # training failed in some fold ("Model performs worse after training"): brew refuses untrained models,
                # the statement's "models returned by one run" presupposes trained ones -> an ordinary session instead
                models_in = brewrun.RModel(LinearSVC(dual=False, class_weight={0: 1, 1: 1}), train_fdr=0.05, max_iter=3,
                                           rng=spec["seed"], token=tok)
                out["labels"].append("refeed_skipped_untrained_model")
                out["digests"].append("skipped")
        kw = {"subset_max_train": int(spec["cap"])} if spec.get("cap") else {}
        if spec.get("ensemble"):
            kw["ensemble"] = True
        _, ms, scs, descs = mokapot.brew([ds], models_in, test_fdr=0.05, folds=spec["folds"],
                                         max_workers=spec.get("workers", 1), rng=spec["seed"], **kw)
        scores = np.asarray(scs[0], dtype=float)
        folds = sorted((ev[1], tuple(sorted(ev[2]))) for ev in rec.events if ev[0] == "pred")
        merged = {}
        for k, ids in folds:
            merged.setdefault(k, []).extend(ids)
        out["labels"] += ["scores", "coefs", "folds"]
        out["digests"] += [sha(scores.tobytes()),
                           sha(b"".join(np.asarray(m.estimator.coef_, dtype=float).tobytes() + np.asarray(m.estimator.intercept_, dtype=float).tobytes()
                                        for m in sorted(ms, key=lambda m: m.fold))),
                           sha(json.dumps(sorted((k, sorted(v)) for k, v in merged.items())).encode())]
        if first is not None:
            out["labels"].append("refeed_equals_first")
            out["digests"].append("equal" if first.tobytes() == scores.tobytes() else "DIFFERENT:" + sha(first.tobytes()))
        dest = wd / "res"
        dest.mkdir()
        mokapot.assign_confidence([ds], max_workers=spec.get("workers", 1), scores=[scores], descs=list(descs), eval_fdr=0.05,
                                  dest_dir=dest, prefixes=[None], decoys=True, proteins=proteins, rng=spec["seed"],
                                  peps_algorithm=spec.get("peps", "kde_nnls"))
        for fn in sorted(os.listdir(dest)):
            out["labels"].append("file:" + fn)
            out["digests"].append(sha((dest / fn).read_bytes()))
        if proteins is not None:
            pm = sorted((p, tuple(sorted(g.split(", ")))) for p, g in proteins.peptide_map.items())
            sh = sorted((p, tuple(sorted(tuple(sorted(x.split(", "))) for x in g.split("; ")))) for p, g in proteins.shared_peptides.items())
            out["labels"] += ["fasta_peptide_map(as sets)", "fasta_shared(as sets)", "fasta_protein_map"]
            out["digests"] += [sha(json.dumps(pm).encode()), sha(json.dumps(sh).encode()),
                               sha(json.dumps(sorted(proteins.protein_map.items())).encode())]
        brewrun._REC.pop(tok, None)
    except BaseException as e:
        if isinstance(e, KeyboardInterrupt):
            raise
        import traceback
        out["raised"] = "%s: %s | %s" % (type(e).__name__, str(e)[:200], traceback.format_exc()[-400:].replace("\n", " / "))
    finally:
        shutil.rmtree(wd, ignore_errors=True)
    return out


def session_cli(spec):
    """the same analysis through the command line entry point (mokapot.mokapot.main): parse, Percolator model, brew,
    confidence (+ proteins), --save_models; with spec['refeed'] the saved models of a first run are loaded back in the
    given order and the result files must equal the first run's"""
    import importlib
    MM = sys.modules.get("mokapot.mokapot") or importlib.import_module("mokapot.mokapot")
    import mokapot
    wd = Path(tempfile.mkdtemp(prefix="c08cli_"))
    out = {"digests": [], "labels": [], "raised": ""}
    try:
        ds, proteins = build(spec, wd)
        pin = str(ds.filename)

        def run(dest, extra):
            argv = [pin, "--dest_dir", str(dest), "-v", "0", "--seed", str(spec["seed"]), "--folds", str(spec["folds"]),
                    "--max_workers", str(spec.get("workers", 1)), "--max_iter", "3", "--train_fdr", "0.05", "--test_fdr", "0.05",
                    "--keep_decoys", "--peps_algorithm", spec.get("peps", "qvality")] + extra
            if spec.get("cap"):
                argv += ["--subset_max_train", str(int(spec["cap"]))]
            if spec.get("proteins"):
                argv += ["--proteins", str(wd / "td.fasta"), "--missed_cleavages", "0", "--min_length", "6", "--max_length", "60"]
            MM.main(argv)
        dest = wd / "res"
        if spec.get("refeed") is not None:
            first = wd / "first"
            run(first, ["--save_models"])
            pk = sorted(str(p) for p in first.glob("mokapot.model_fold-*.pkl"))
            if len(pk) == spec["folds"] and all(bool(mokapot.load_model(Path(x)).is_trained) for x in pk):
                run(dest, ["--save_models", "--load_models"] + [pk[i] for i in spec["refeed"]])
                same = all((first / fn).read_bytes() == (dest / fn).read_bytes() for fn in sorted(os.listdir(dest)) if not fn.endswith(".pkl"))
                out["labels"].append("refeed_equals_first")
                out["digests"].append("equal" if same else "DIFFERENT")
            else:
                out["labels"].append("refeed_skipped_untrained_model")
                out["digests"].append("skipped")
                run(dest, ["--save_models"])
        else:
            run(dest, ["--save_models"])
        for fn in sorted(os.listdir(dest)):
            if fn.endswith(".pkl"):
                m = mokapot.load_model(dest / fn)
                est = getattr(m.estimator, "best_estimator_", m.estimator)
                out["labels"].append("coefs:" + fn)
                out["digests"].append(sha(np.asarray(est.coef_, dtype=float).tobytes() + np.asarray(est.intercept_, dtype=float).tobytes())
                                      if hasattr(est, "coef_") else "untrained")
            else:
                out["labels"].append("file:" + fn)
                out["digests"].append(sha((dest / fn).read_bytes()))
    except BaseException as e:
        if isinstance(e, KeyboardInterrupt):
            raise
        import traceback
        out["raised"] = "%s: %s | %s" % (type(e).__name__, str(e)[:200], traceback.format_exc()[-400:].replace("\n", " / "))
    finally:
        shutil.rmtree(wd, ignore_errors=True)
    return out


if __name__ == "__main__":
    import logging
    import warnings
    warnings.filterwarnings("ignore")
    logging.disable(logging.CRITICAL)
    _spec = json.loads(sys.argv[1])
    print("C08RESULT " + json.dumps(session_cli(_spec) if _spec.get("cli") else session(_spec)))
