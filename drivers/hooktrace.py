"""Implementation-level trace validation (phase 2): run code with the guarded hooks of mokapot/_verif_trace.py switched
on, collect the NDJSON events per process and have HookTrace.tla walk them.  Trace sources: the repository's own passing
tests (pytest in a sub-process) and any callable run in-process by a driver."""
from __future__ import annotations

import json
import os
import subprocess
import tempfile

from engine.tlc import MachineryError

REPO_TESTS = [
    "tests/unit_tests/test_brew.py::test_brew_simple_parquet",
    "tests/unit_tests/test_brew.py::test_brew_joint_parquet",
    "tests/unit_tests/test_brew.py::test_brew_multiprocess_parquet",
    "tests/unit_tests/test_brew.py::test_brew_seed_parquet",
    "tests/unit_tests/test_confidence.py::test_chunked_assign_confidence",
    "tests/unit_tests/test_confidence.py::test_assign_confidence_parquet",
]


def normalise(ev, names=None):
    """JSON null -> explicit flags (TLC cannot compare values of different types); thread / writer identities ->
    small integers (TLC integers are 32 bit)"""
    e = dict(ev)
    names = names if names is not None else {}
    if e["ev"].startswith("Fit"):
        e["th"] = names.setdefault(("th", e.get("pid"), e.get("thread")), len(names) + 1)
    if e["ev"].startswith("Buf"):
        e["w"] = names.setdefault(("w", e.get("pid"), e.pop("writer", None)), len(names) + 1)
    for k in ("seq", "pid", "thread"):
        e.pop(k, None)
    if e["ev"] in ("Split", "TrainSet"):
        e["has_idx"] = e.get("idx") is not None
        if e.get("idx") is None:
            e["idx"] = []
    if e["ev"] == "TrainSet":
        e["cap"] = int(e["cap"]) if e.get("cap") is not None else 0
    if e["ev"] == "ModelsSorted":
        e["folds"] = [int(f) if f is not None else 0 for f in e["folds"]]
    return e


def load(path):
    by_pid = {}
    if not os.path.exists(path):
        return []
    with open(path) as fh:
        for line in fh:
            if line.strip():
                ev = json.loads(line)
                by_pid.setdefault(ev["pid"], []).append(ev)
    out = []
    names = {}
    for pid in sorted(by_pid):
        evs = sorted(by_pid[pid], key=lambda e: e["seq"])
        out.append([normalise(e, names) for e in evs])
    return out


def traced_repo_tests(tests=None, timeout=900):
    """one trace per test (each test runs in its own pytest process so that events do not interleave)"""
    tests = tests or REPO_TESTS
    traces = []
    for t in tests:
        with tempfile.TemporaryDirectory() as d:
            f = os.path.join(d, "trace.ndjson")
            env = dict(os.environ, MOKAPOT_VERIF="1", MOKAPOT_VERIF_TRACE=f)
            p = subprocess.run(["/venv/bin/python", "-m", "pytest", "-q", "-p", "no:cacheprovider", t], cwd=os.environ.get("VERIF_REPO", "/repo"), env=env,
                               stdout=subprocess.PIPE, stderr=subprocess.STDOUT, text=True, timeout=timeout)
            passed = " passed" in p.stdout and " failed" not in p.stdout and " error" not in p.stdout
            evs = load(f)
            traces.append({"source": t, "passed": passed, "events": [e for proc in evs for e in proc]})
    return traces


def traced_call(fn):
    """run fn() in-process with tracing on; returns (result, events)"""
    with tempfile.TemporaryDirectory() as d:
        f = os.path.join(d, "trace.ndjson")
        old = os.environ.get("MOKAPOT_VERIF_TRACE")
        os.environ["MOKAPOT_VERIF_TRACE"] = f
        os.environ["MOKAPOT_VERIF"] = "1"
        try:
            res = fn()
        finally:
            if old is None:
                os.environ.pop("MOKAPOT_VERIF_TRACE", None)
            else:
                os.environ["MOKAPOT_VERIF_TRACE"] = old
        evs = load(f)
    return res, [e for proc in evs for e in proc]


OWNERS = {"C02": ("P:Split.", "P:TrainSet.", "P:ModelsSorted.", "P:Predict."),
          "C03": ("P:ChunkWritten.",), "C05": ("P:Predict.", "P:ChunkWritten."), "C09": ("P:MergeList.",),
          "C10": ("P:ColumnChunks.", "P:PinParsed."), "C12": ("P:Fit",), "C13": ("P:Buf",)}


def traced_suite(select=None, timeout=1800):
    """the repository's whole test suite in ONE pytest process, one trace file per test (plugin drivers/pytest_hooktrace.py
    points MOKAPOT_VERIF_TRACE at a fresh file before every test's fixtures run).  Only tests that PASS and emitted events
    become sources.  select: optional list of pytest arguments (files / node ids / -k expressions)."""
    import shutil
    d = tempfile.mkdtemp(prefix="hooksuite_")
    try:
        here = os.path.dirname(os.path.dirname(os.path.abspath(__file__)))
        env = dict(os.environ, MOKAPOT_VERIF="1", HOOKTRACE_DIR=d,
                   PYTHONPATH=here + os.pathsep + os.environ.get("PYTHONPATH", ""))
        env.pop("MOKAPOT_VERIF_TRACE", None)
        cmd = ["/venv/bin/python", "-m", "pytest", "-q", "-p", "no:cacheprovider", "-p", "drivers.pytest_hooktrace",
               "--continue-on-collection-errors"] + list(select or [])
        p = subprocess.run(cmd, cwd=os.environ.get("VERIF_REPO", "/repo"), env=env, stdout=subprocess.PIPE,
                           stderr=subprocess.STDOUT, text=True, timeout=timeout)
        outcomes = {}
        op = os.path.join(d, "outcomes.ndjson")
        if os.path.exists(op):
            for line in open(op):
                o = json.loads(line)
                outcomes[o["file"]] = o
        if not outcomes:
            raise MachineryError("pytest with the trace plugin produced no outcomes:\n" + p.stdout[-1500:])
        sources = []
        for fn, o in sorted(outcomes.items()):
            if o["outcome"] != "passed":
                continue
            evs = load(os.path.join(d, fn))
            if evs:
                sources.append({"source": o["nodeid"], "passed": True, "events": [e for proc in evs for e in proc]})
        return sources, {"tests_run": len(outcomes), "tests_passed": sum(1 for o in outcomes.values() if o["outcome"] == "passed")}
    finally:
        shutil.rmtree(d, ignore_errors=True)


def validate_events(ctx, sources, prop):
    """sources: [{'source': str, 'events': [...]}].  Walks every trace with HookTrace.tla.  A failed 'P:' clause that
    belongs to `prop` is a property violation; any other failed clause is DRIFT (the implementation-shaped model no
    longer mirrors the code and must be updated) and is only recorded in the evidence."""
    import copy
    traces = [{"tid": i + 1, "events": s["events"]} for i, s in enumerate(sources) if s["events"]]
    if not traces:
        raise MachineryError("no hook events recorded (are the hooks of mokapot/_verif_trace.py still in place?)")
    v = ctx.validate("HookTrace", "Trace.cfg", traces)
    drift = []
    srcs = [s for s in sources if s["events"]]
    for t, s in zip(traces, srcs):
        r = v[t["tid"]]
        if r["accept"]:
            continue
        mine = [c for c in r["failed"] if c.startswith(OWNERS.get(prop, ()))]
        if mine:
            ctx.reject({"source": s["source"], "event_index": r.get("info"), "events_head": s["events"][:3]}, mine,
                       {"api": "hook trace", "source": s["source"], "at": str(r.get("info"))})
        else:
            drift.append({"source": s["source"], "failed": r["failed"], "at": r.get("info")})
    ctx.cov.setdefault("hook_traces", {"validated": 0, "events": 0, "drift": []})
    ctx.cov["hook_traces"]["validated"] += len(traces)
    ctx.cov["hook_traces"]["events"] += sum(len(t["events"]) for t in traces)
    ctx.cov["hook_traces"]["drift"] += drift
    for d in drift:
        print("DRIFT (model conformance, not a violation): %s %s at %s" % (d["source"], d["failed"], d["at"]))
    # negative controls: the acceptor must reject a training set that contains a held-out row / a foreign merge list
    bad = []
    for t in traces:
        evs = t["events"]
        si = next((i for i, e in enumerate(evs) if e["ev"] == "Split" and e["has_idx"]), None)
        ti = next((i for i, e in enumerate(evs) if e["ev"] == "TrainSet" and e["has_idx"]), None)
        if si is not None and ti is not None and ti > si:
            b = copy.deepcopy(t)
            b["events"][ti]["idx"][0] = b["events"][ti]["idx"][0] + [b["events"][si]["idx"][0][0][0]]
            b["tid"] = len(bad) + 1
            bad.append(b)
        mi = next((i for i, e in enumerate(evs) if e["ev"] == "MergeList"), None)
        if mi is not None:
            b = copy.deepcopy(t)
            b["events"][mi]["names"] = b["events"][mi]["names"] + ["scores_metadata_77.pin"]
            b["tid"] = len(bad) + 1
            bad.append(b)
        if len(bad) >= 12:
            break
    if bad:
        ctx.negative_controls("HookTrace", "Trace.cfg", bad, name="hook traces: held-out row in a training set / stale file in the merge list")
    # ... a positive fed that was not accepted / a buffered row never written / a feature column never scanned
    bad2 = []
    for t in traces:
        evs = t["events"]
        for name, field, delta in (("FitIter", "fed_pos", 1), ("FitLabels", "neg", -1), ("BufFinalize", "left", 1),
                                   ("BufWrite", "rows", 1)):
            i = next((i for i, e in enumerate(evs) if e["ev"] == name and (name != "FitIter" or e["it"] >= 1)), None)
            if i is not None:
                b = copy.deepcopy(t)
                b["events"][i][field] += delta
                if name == "FitIter":
                    b["events"][i]["fed"] += delta
                b["tid"] = len(bad2) + 1
                bad2.append(b)
        if any(e["ev"] == "CliPlan" for e in evs) and any(e["ev"] == "Split" for e in evs):
            i = next((i for i, e in enumerate(evs) if e["ev"] == "PinParsed"), None)
            if i is not None:           # a command-line run in which a parsed row never reaches the split
                b = copy.deepcopy(t)
                b["events"][i]["rows"] += 1
                b["tid"] = len(bad2) + 1
                bad2.append(b)
        i = next((i for i, e in enumerate(evs) if e["ev"] == "ColumnChunks" and len(e["features"]) >= 1), None)
        if i is not None:
            b = copy.deepcopy(t)
            f0 = b["events"][i]["features"][0]
            b["events"][i]["chunks"] = [[c for c in ch if c != f0] for ch in b["events"][i]["chunks"]]
            b["tid"] = len(bad2) + 1
            bad2.append(b)
        if len(bad2) >= 16:
            break
    if bad2:
        ctx.negative_controls("HookTrace", "Trace.cfg", bad2, name="hook traces: unaccepted positive fed / decoy not negative / buffered row not written / feature column never scanned")
    return v


def hook_phase(ctx, prop, calls=(), repo_select=None, whole_suite=False):
    """phase 2 for one property: calls = [(label, fn)] run in-process with the hooks on; repo_select = pytest arguments of
    repository tests to trace (one process, one trace per test); whole_suite = the entire repository suite"""
    ctx.phase("hook_traces")
    sources = []
    for label, fn in calls:
        try:
            _, evs = traced_call(fn)
        except Exception as e:           # the driver's own phase judges what the call does; here only its events matter
            evs = []
        if evs:
            sources.append({"source": label, "events": evs})
    if whole_suite or repo_select:
        srcs, info = traced_suite(None if whole_suite else repo_select)
        sources += srcs
        ctx.cov.setdefault("hook_traces", {"validated": 0, "events": 0, "drift": []})
        ctx.cov["hook_traces"]["repo_tests_run"] = info["tests_run"]
        ctx.cov["hook_traces"]["repo_tests_passed"] = info["tests_passed"]
        ctx.cov["hook_traces"]["repo_tests_with_events"] = len(srcs)
    return validate_events(ctx, sources, prop)
