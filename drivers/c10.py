"""C10 -- Every well-formed PIN/Parquet PSM table parses into a faithful dataset.

(M) PinParse.tla: header classification (pin.py:170-205), identifier-preserving column chunking
    (pin.py:115-143), one NaN-scan task per column chunk in a thread pool (every interleaving / completion
    order), label conversion, against the declarative result, for every feature count x identifier width x
    column chunk size (all residues), schema cross products and the error cases; the chunking before commit
    799639f (AsIs_Remainder1Only) and four seeded faults must be caught.
(G) TLC enumerates the schemas (header as a sequence of column kinds, casing class, label encoding, NaN
    placement, column-scan chunk size, workers, row-chunk class, error class) as CASE lines; the driver renders
    each as a real .pin / .tab / .parquet file with distinct cells and calls the real mokapot.read_pin with the
    column / row scan chunk sizes patched on mokapot.parsers.pin.
(V) PinParseTrace.tla recomputes the declarative result from the recorded schema and accepts a recorded call
    iff the returned dataset (features, spectrum key, entries of the spectra frame in order, targets,
    metadata / level columns, file) equals it, resp. iff an error was raised where one is required.
"""
from __future__ import annotations

import os
import re
import shutil
import tempfile
from concurrent.futures import ThreadPoolExecutor
from pathlib import Path

import numpy as np

from engine.tlc import run_tlc, MachineryError
from drivers.common import pmap
from drivers.mk import patched

LEVEL = "model_checking"

CODE = {"s": "specid", "l": "label", "n": "scannr", "p": "peptide", "q": "proteins", "f": "filename",
        "c": "calcmass", "e": "expmass", "r": "ret_time", "h": "charge", "m": "modifiedpeptide",
        "u": "precursor", "g": "peptidegroup", "x": "feature"}
#              lower              upper              mixed
NAMES = {"specid": ("specid", "SPECID", "SpecId"), "label": ("label", "LABEL", "Label"),
         "scannr": ("scannr", "SCANNR", "ScanNr"), "peptide": ("peptide", "PEPTIDE", "Peptide"),
         "proteins": ("proteins", "PROTEINS", "Proteins"), "filename": ("filename", "FILENAME", "FileName"),
         "calcmass": ("calcmass", "CALCMASS", "CalcMass"), "expmass": ("expmass", "EXPMASS", "ExpMass"),
         "ret_time": ("ret_time", "RET_TIME", "Ret_Time"), "charge": ("charge", "CHARGE", "Charge"),
         "modifiedpeptide": ("modifiedpeptide", "MODIFIEDPEPTIDE", "ModifiedPeptide"),
         "precursor": ("precursor", "PRECURSOR", "Precursor"),
         "peptidegroup": ("peptidegroup", "PEPTIDEGROUP", "PeptideGroup")}
CASING = {"lower": 0, "upper": 1, "mixed": 2}
FEAT_NAMES = ("feat_%d", "FEAT_%d", "Feat_%d")          # feature names keep their case, whatever it is
KEY_KINDS = ("filename", "scannr", "ret_time", "expmass")
NROWS = (3, 4, 5, 6, 8, 12, 20, 40, 7, 33)
NAN_TEXT = ("", "NaN", "NA")
NAN_PARQUET = ("nan", "null")

_RE_CASE = re.compile(r'<<\s*"CASE",\s*"([^"]*)"\s*>>')


# ------------------------------------------------------------------ (G)
def tlc_cases(cfg):
    r = run_tlc("PinParse", cfg, workers=4, parse_prints=False)
    if not r.ok:
        raise MachineryError("generation run %s failed: %s %s\n%s" % (cfg, r.violated, r.error, r.output[-2000:]))
    out = []
    for s in _RE_CASE.findall(r.output):
        f = s.split("|")
        if len(f) != 10:
            raise MachineryError("malformed CASE line: %r" % s)
        cells = [(int(a), b) for a, b in (p.split(":") for p in f[5].split(",") if p)]
        out.append({"hdr": f[0], "ord": f[1], "cs": f[2], "enc": f[3], "nan": f[4], "cells": cells,
                    "cc": int(f[6]), "w": int(f[7]), "rows": f[8], "err": f[9]})
    if len(out) != r.distinct or len({c2s(c) for c in out}) != len(out):
        raise MachineryError("generation %s: %d CASE lines for %d initial states" % (cfg, len(out), r.distinct))
    return out, r


def c2s(c):
    return "|".join(str(c[k]) for k in ("hdr", "ord", "cs", "enc", "nan", "cc", "w", "rows", "err"))


def make_case(idx, base, seed):
    """Everything the rendering needs beyond the TLC case: rows, labels, formats (seeded, rotating)."""
    c = dict(base)
    rng = np.random.default_rng([seed, idx])
    n = NROWS[idx % len(NROWS)]
    c["nrows"] = n
    c["rsize"] = {"one": (n + 5 if idx % 2 else 2000000), "two": (n + 1) // 2, "three": (n + 2) // 3}[c["rows"]]
    if c["enc"] == "bool":
        c["fmt"] = ("parquet", "parquet", "tab")[idx % 3]
    else:
        c["fmt"] = ("pin", "parquet", "tab")[idx % 3]
    style = idx % 7
    tgt = rng.random(n) < (0.5, 0.5, 0.8, 0.2, 0.5, 1.1, -1.0)[style]      # incl. all targets / all decoys
    lab = [(1 if t else (-1 if c["enc"] == "pm" else 0)) for t in tgt]
    # the model's two out-of-range classes (too large / too small) are rendered with values that also alias a legal label
    # in narrow integer types (255, 256, 257, 65537, -255, ...)
    if c["err"] == "lab2":
        lab[int(rng.integers(0, n))] = [2, 255, 256, 257, 511, 65536, 65537, 1000][idx % 8]
    if c["err"] == "lab-3":
        lab[int(rng.integers(0, n))] = [-3, -255, -256, -257, -65535, -2][idx % 6]
    c["lab"] = [int(v) for v in lab]
    cells = []
    for col, rcl in c["cells"]:
        row = 1 if rcl == "first" else n if rcl == "last" else int(rng.integers(1, n + 1))
        cells.append([col, row])
    c["nancells"] = cells
    c["nanrepr"] = (NAN_PARQUET[idx % 2] if c["fmt"] == "parquet" else NAN_TEXT[idx % 3])
    c["rowgroup"] = (0, 2, 0, 5, 3)[idx % 5]                 # Parquet row groups: 0 = one group
    c["idx"] = idx
    return c


def cell_str(v):
    if isinstance(v, (bool, np.bool_)):
        return str(bool(v))
    if isinstance(v, (int, np.integer)):
        return str(int(v))
    if isinstance(v, (float, np.floating)):
        return repr(float(v))
    return str(v)


def schema(c):
    """names / kinds / columns of cell values (python values, distinct per row where it matters)."""
    kinds = [CODE[ch] for ch in c["hdr"]]
    n = c["nrows"]
    ci = CASING[c["cs"]]
    names, cols = [], []
    k = 0
    for kind in kinds:
        R = range(n)
        if kind == "feature":
            k += 1
            names.append(FEAT_NAMES[k % 3] % k)
            vals = [k + ((r * 3 + k) % 41) * 0.125 for r in R]
            if k == 1 and n >= 2 and c.get("idx", 0) % 6 == 4:
                vals[0], vals[1] = float("inf"), float("-inf")      # infinite values are values, not missing ones
            cols.append(vals)
            continue
        names.append(NAMES[kind][ci])
        if kind == "specid":
            cols.append(["r%d" % r for r in R])
        elif kind == "label":
            cols.append([bool(v) for v in c["lab"]] if c["enc"] == "bool" else list(c["lab"]))
        elif kind == "scannr":
            cols.append([1000 + (r * 7) % 41 for r in R])
        elif kind == "filename":
            cols.append(["run%d.mzML" % (r % 3) for r in R])
        elif kind == "ret_time":
            cols.append([10 + ((r * 5) % 41) * 0.25 for r in R])
        elif kind == "expmass":
            # Parquet holds doubles as they are: masses that single precision cannot represent (2^-20 steps); text formats
            # keep halves (the decimal cells must parse exactly)
            fine = 2.0 ** -20 if c.get("fmt") == "parquet" else 0.0
            cols.append([500 + ((r * 11) % 41) * 0.5 + r * fine for r in R])
        elif kind == "calcmass":
            cols.append([400 + ((r * 3) % 41) * 0.5 for r in R])
        elif kind == "charge":
            cols.append([2 + r % 3 for r in R])
        elif kind == "peptide":
            cols.append(["K.PEP%dK.A" % (r % 5) for r in R])
        elif kind == "proteins":
            cols.append(["prot_r%d" % r for r in R])
        else:
            cols.append(["%s%d" % (kind[:3].upper(), r % 4) for r in R])
    return kinds, names, cols


def render(c, directory):
    kinds, names, cols = schema(c)
    n = c["nrows"]
    nan = {(a, b) for a, b in c["nancells"]}
    # file names are RE-USED within a worker process (same path, another header a few cases later): nothing that was
    # learnt about a path may outlive the file
    path = Path(directory) / ("p%d_t%d.%s" % (os.getpid(), c["idx"] % 3, c["fmt"]))
    if c["fmt"] == "parquet":
        import pyarrow as pa
        import pyarrow.parquet as pq
        arrays = []
        for j, col in enumerate(cols, 1):
            holes = [r for r in range(1, n + 1) if (j, r) in nan]
            if holes:
                if c["nanrepr"] == "null":
                    vals = [None if (j, r + 1) in nan else v for r, v in enumerate(col)]
                    arrays.append(pa.array(vals))
                else:
                    vals = [float("nan") if (j, r + 1) in nan else float(v) for r, v in enumerate(col)]
                    arrays.append(pa.array(vals, type=pa.float64()))
            else:
                arrays.append(pa.array(col))
        tbl = pa.Table.from_arrays(arrays, names=names)
        pq.write_table(tbl, path, row_group_size=c["rowgroup"] or n)
    else:
        lines = ["\t".join(names)]
        for r in range(n):
            lines.append("\t".join(c["nanrepr"] if (j, r + 1) in nan else cell_str(col[r])
                                   for j, col in enumerate(cols, 1)))
        with open(path, "w") as fh:
            fh.write("\n".join(lines) + "\n")
    keyin = [[cell_str(cols[kinds.index(k)][r]) for k in KEY_KINDS if k in kinds] for r in range(n)]
    return path, kinds, names, keyin


EMPTY_OUT = {"features": [], "spectrum": [], "sdf_cols": [], "index": [], "keyout": [], "targets": [],
             "tdtype": "", "meta": [], "levels": [], "filename": ""}


def project(ds):
    """Dataset returned by read_pin -> strings / ints / booleans."""
    out = dict(EMPTY_OUT, raised="")
    out["features"] = [str(x) for x in ds.feature_columns]
    out["spectrum"] = [str(x) for x in ds.spectrum_columns]
    sdf = ds.spectra_dataframe
    out["sdf_cols"] = [str(x) for x in sdf.columns]
    out["index"] = [int(i) if isinstance(i, (int, np.integer)) else -1 for i in sdf.index.tolist()]
    kc = [k for k in ds.spectrum_columns if k in sdf.columns]
    colvals = [sdf[k].tolist() for k in kc]
    out["keyout"] = [[cell_str(v[i]) for v in colvals] for i in range(len(sdf))]
    t = ds.target_column
    if t in sdf.columns:
        out["tdtype"] = str(sdf[t].dtype)
        if sdf[t].dtype == bool:
            out["targets"] = [bool(v) for v in sdf[t].tolist()]
    out["meta"] = [str(x) for x in ds.metadata_columns]
    out["levels"] = [str(x) for x in ds.level_columns]
    out["filename"] = os.path.basename(str(ds.filename))
    return out


def call_real(c, directory):
    """Render one case, run the real read_pin on it; returns the trace dict (without tid)."""
    import mokapot
    path, kinds, names, keyin = render(c, directory)
    tr = {"names": names, "kinds": kinds, "cs": c["cs"], "nrows": c["nrows"], "nan": c["nancells"],
          "enc": c["enc"], "lab": c["lab"], "keyin": keyin, "file": path.name,
          "cfg": {"fmt": c["fmt"], "cc": c["cc"], "rsize": c["rsize"], "w": c["w"], "nanrepr": c["nanrepr"],
                  "rowgroup": c["rowgroup"]}}
    try:
        with patched(CHUNK_SIZE_COLUMNS_FOR_DROP_COLUMNS=c["cc"], CHUNK_SIZE_ROWS_FOR_DROP_COLUMNS=c["rsize"]):
            try:
                ds = mokapot.read_pin(path, max_workers=c["w"])
            except Exception as e:        # an event of the trace, not a machinery failure
                tr["out"] = dict(EMPTY_OUT, raised=type(e).__name__)
                tr["message"] = ("%s" % e)[:160]
                return tr
        if not isinstance(ds, list) or len(ds) != 1:
            tr["out"] = dict(EMPTY_OUT, raised="NotOneDataset")
            return tr
        tr["out"] = project(ds[0])
    finally:
        try:
            os.unlink(path)
        except OSError:
            pass
    return tr


def signature(c, tr):
    kinds = [CODE[ch] for ch in c["hdr"]]
    nfeat = kinds.count("feature")
    nscan = nfeat + kinds.count("charge")        # the code scans a column named "charge" as a feature
    nids = sum(1 for k in KEY_KINDS if k in kinds) + (1 if "label" in kinds else 0)
    res = (nscan + nids) % c["cc"]
    return {"api": "read_pin", "fmt": c["fmt"], "nfeat": nfeat, "nscanned": nscan, "nids": nids, "chunk": c["cc"],
            "residue": res, "last_chunk": res or c["cc"], "workers": c["w"], "rowchunks": c["rows"],
            "enc": c["enc"], "nan": c["nan"], "ncells": len(c["nancells"]), "err": c["err"], "ord": c["ord"],
            "cs": c["cs"], "raised": tr["out"]["raised"], "message": tr.get("message", "")[:60]}


# ------------------------------------------------------------------ negative controls
def corruptions(tr):
    """name -> corrupted copy of an accepted trace (None when not applicable)."""
    import copy
    o = tr["out"]
    res = {}

    def mod(fn):
        t = copy.deepcopy(tr)
        fn(t["out"], t)
        return t
    if o["raised"] == "":
        if o["features"]:
            res["drop a feature"] = mod(lambda q, t: q["features"].pop(len(q["features"]) // 2))
        if len(o["keyout"]) >= 2:
            def swap(q, t):
                q["keyout"][0], q["keyout"][-1] = q["keyout"][-1], q["keyout"][0]
            res["reorder rows"] = mod(swap)
            res["drop a row"] = mod(lambda q, t: (q["keyout"].pop(), q["targets"].pop(), q["index"].pop()))
        if o["targets"]:
            def flip(q, t):
                i = len(q["targets"]) // 2
                q["targets"][i] = not q["targets"][i]
            res["flip a target"] = mod(flip)
        if len(o["spectrum"]) >= 2:
            res["wrong spectrum key (column dropped)"] = mod(lambda q, t: q["spectrum"].pop())
            res["wrong spectrum key (order)"] = mod(lambda q, t: q["spectrum"].reverse())
        else:
            lab = tr["names"][tr["kinds"].index("label")]
            res["wrong spectrum key (label added)"] = mod(lambda q, t: q["spectrum"].append(lab))
        nanf = [tr["names"][a - 1] for a, b in tr["nan"] if tr["kinds"][a - 1] == "feature"]
        if nanf:
            res["keep a feature with a missing value"] = mod(lambda q, t: q["features"].append(nanf[0]))
        res["raised instead of parsed"] = mod(lambda q, t: (q.clear(), q.update(dict(EMPTY_OUT, raised="ValueError"))))
    else:
        def parsed(q, t):
            q["raised"] = ""
            q["tdtype"] = "bool"
        res["parsed instead of raised"] = mod(parsed)
    return res


# ------------------------------------------------------------------ run
def drive(ctx, bases, directory):
    cases = [make_case(ctx.seed + i, b, ctx.seed) for i, b in enumerate(bases)]
    # warm up imports before forking
    call_real(cases[0], directory)

    def one(i):
        tr = call_real(cases[i], directory)
        tr["tid"] = i + 1
        return tr
    return cases, pmap(one, len(cases))


def judge(ctx, cases, traces):
    verdicts = ctx.validate("PinParseTrace", "Trace.cfg", traces)
    for c, tr in zip(cases, traces):
        v = verdicts[tr["tid"]]
        if v["accept"] and "OutOfDomain" in v["failed"]:
            ctx.cov["out_of_domain"] += 1
        if not v["accept"]:
            ctx.reject({"case": c, "trace": tr}, v["failed"], signature(c, tr))
    return verdicts


def run(ctx):
    ctx.liveness("PinParse", unfair_control=not ctx.quick)      # termination under weak fairness (PinParse_live.cfg)
    q = ctx.quick
    # ---------------- (M) ----------------
    ctx.phase("model_checking")
    if q:
        runs = [("PinParse_quick.cfg", None, "features 0..45 x 2..5 identifiers x chunk 2..6,19 x workers 1..2", {}),
                ("PinParse_quick_sched.cfg", None, "features 0..8, chunk 2..3, workers 1..3: every interleaving", {}),
                ("PinParse_quick_schema.cfg", None, "schema cross product, features 0..2", {})]
    else:
        runs = [("PinParse_thorough.cfg", None, "features 0..60 x 2..5 identifiers x chunk 2..20 x workers 1..2", {"timeout": 3000}),
                ("PinParse_thorough_sched.cfg", None, "features 0..14, chunk 2..4, workers 1..4: every interleaving", {"timeout": 3000}),
                ("PinParse_thorough_schema.cfg", None, "schema cross product, features 0..3, all optional-column subsets",
                 {"timeout": 3000})]
    runs += [("PinParse_quick_err.cfg", None, "missing required column / label 2, -3", {}),
             ("PinParse_asis.cfg", "IdsTogether", "chunking before 799639f: identifier columns split across column chunks", {}),
             ("PinParse_asis2.cfg", "ResultIsDef",
              "chunking before 799639f: no chunk fills the spectra frame, 'No objects to concatenate'", {}),
             ("PinParse_mut1.cfg", "ResultIsDef", "seeded fault: a single NaN feature is kept", {}),
             ("PinParse_mut2.cfg", "ResultIsDef", "seeded fault: case-sensitive lookup", {}),
             ("PinParse_mut3.cfg", "ResultIsDef", "seeded fault: label 0 is a target", {}),
             ("PinParse_mut4.cfg", "ResultIsDef", "seeded fault: spectrum key in file order", {}),
             ("PinParse_cov.cfg", None, "action coverage", {"coverage": True})]

    def mc(run):
        cfg, viol, note, kw = run
        return ctx.model_check("PinParse", cfg, expect_violation=viol, note=note, workers=4, **kw)
    with ThreadPoolExecutor(max_workers=4) as ex:          # independent TLC runs, 4 workers each
        results = list(ex.map(mc, runs))
    order = [r[0] for r in runs]
    ctx.cov["model_runs"].sort(key=lambda m: order.index(m["cfg"]) if m["cfg"] in order else -1)      # (runs made before this block first)
    ctx.require_actions(results[-1], ["Classify", "MakeChunks", "Start", "ScanAny", "FinishAny", "Join", "Concat", "Build"])
    # ---------------- (G) ----------------
    ctx.phase("generation")
    bases = []
    for cfg in (["PinParse_gen_quick.cfg", "PinParse_gen_quick_schema.cfg"] if q else
                ["PinParse_gen_thorough.cfg", "PinParse_gen_thorough_schema.cfg"]) + ["PinParse_gen_err.cfg"]:
        cs, rr = tlc_cases(cfg)
        ctx.cov["model_runs"].append({"module": "PinParse", "cfg": cfg, "generated": rr.generated, "distinct": rr.distinct,
                                      "wall_s": round(rr.wall_s, 1), "note": "generation: %d cases" % len(cs)})
        bases += cs
    # ---------------- drive the real code ----------------
    ctx.phase("driving")
    directory = tempfile.mkdtemp(prefix="c10_")
    try:
        cases, traces = drive(ctx, bases, directory)
    finally:
        shutil.rmtree(directory, ignore_errors=True)
    for c, tr in zip(cases, traces):
        ctx.count((c["hdr"], c["cs"], c["enc"], c["nan"], c["cc"], c["rows"], c["err"], c["fmt"]))
    for i in (0, len(cases) // 3, (2 * len(cases)) // 3, len(cases) - 1):
        c, tr = cases[i], traces[i]
        ctx.sample({"case": {k: c[k] for k in ("hdr", "cs", "enc", "nan", "cc", "w", "rows", "err", "fmt", "nrows", "rsize")},
                    "out": {k: tr["out"][k] for k in ("raised", "features", "spectrum", "targets")}})
    # ---------------- (V) ----------------
    ctx.phase("validation")
    verdicts = judge(ctx, cases, traces)
    # ---------------- negative controls ----------------
    ctx.phase("negative_controls")
    crng = np.random.default_rng(ctx.seed + 1)
    order = [int(i) for i in crng.permutation(len(traces))]
    by_name = {}
    for i in order:
        tr = traces[i]
        if not verdicts[tr["tid"]]["accept"]:
            continue
        for name, bad in corruptions(tr).items():
            lst = by_name.setdefault(name, [])
            if len(lst) < 40:
                lst.append(bad)
        if len(by_name) >= 10 and all(len(v) >= 40 for v in by_name.values()):
            break
    needed = ["drop a feature", "reorder rows", "flip a target", "wrong spectrum key (column dropped)",
              "raised instead of parsed", "parsed instead of raised"]
    missing = [n for n in needed if not by_name.get(n)]
    if missing and not (ctx.violations or ctx.known_hits):
        raise MachineryError("no accepted trace to build the negative controls %s from" % missing)
    allbad = []
    for name, lst in sorted(by_name.items()):
        allbad += lst
    for j, b in enumerate(allbad, 1):
        b["tid"] = j
    ctx.negative_controls("PinParseTrace", "Trace.cfg", allbad,
                          name="; ".join("%s x%d" % (n, len(v)) for n, v in sorted(by_name.items())))
    # ---------------- phase 2: the parser's own events (guarded hooks) against HookTrace.tla ----------------
    from drivers import hooktrace
    hdir = tempfile.mkdtemp(prefix="c10h_")
    try:
        ok = [c for c, tr in zip(cases, traces) if not tr["out"]["raised"]]
        pick = ok[:: max(1, len(ok) // 40)][:40]
        hooktrace.hook_phase(ctx, "C10", calls=[("parser case %d" % i, (lambda c=c: call_real(c, hdir))) for i, c in enumerate(pick)],
                             repo_select=["tests/unit_tests/test_parser_pin.py", "tests/unit_tests/test_parser_parquet.py"])
    finally:
        shutil.rmtree(hdir, ignore_errors=True)
    ctx.assume("pandas.read_csv parses the rendered decimal cells (multiples of 1/8) exactly and treats '', 'NaN' and 'NA' "
               "as missing; the spectrum-key cells are compared as text")
    ctx.assume("a column literally named 'charge' may be reported as a feature or as metadata (pin.py:192 looks the "
               "default up as 'charge_column'); DefaultDirection rows and ragged protein lists are C19's domain")
    return ctx.finish(
        rule="cases = schemas enumerated by TLC from PinParse.tla Init: (a) every feature count 0..%d x 2..5 identifier "
             "columns x column chunk %s with order / casing / label encoding / NaN placement / level columns / row chunks / "
             "workers 1..4 rotating, (b) the cross product of optional-column sets, level-column sets, 4 column orders, "
             "casings, 3 label encodings and NaN placements for 0..%d features, (c) each required column missing and "
             "labels 2 / -3; each rendered as .pin / .tab / .parquet with 3..40 rows; distinct = distinct "
             "(header, casing, encoding, NaN class, chunk, row-chunk class, error class, format)"
             % ((45, "2..6 and 19", 2) if q else (60, "2..20", 3)),
        exhaustive=True)


def replay(ctx, case):
    c = case["case"]["case"]
    directory = tempfile.mkdtemp(prefix="c10_")
    try:
        tr = call_real(c, directory)
    finally:
        shutil.rmtree(directory, ignore_errors=True)
    tr["tid"] = 1
    judge(ctx, [c], [tr])
    ctx.count(1)
    ctx.count(2)
    ctx.sample(tr)
    return ctx.finish(rule="replay of one recorded case")
