"""Building tiny/medium PSM tables for the pipeline drivers (C02 C03 C05 C07 C09 C11 C08 C04).

Datasets are built with the public OnDiskPsmDataset constructor (as the repository's conftest does), so a
parser defect alarms C10 only.  Row ids travel in SpecId (text "r<k>"), the protein string is row-specific,
peptide / level keys are short strings, scores handed to assign_confidence are dyadic (rank/4 - 2) so that
text round trips are exact and TLC compares integers.
"""
from __future__ import annotations

import os
import sys
from pathlib import Path

import numpy as np
import pandas as pd
import pyarrow as pa
import pyarrow.parquet as pq

LEVEL_COLS = {"mod": "ModifiedPeptide", "prec": "Precursor", "grp": "PeptideGroup"}


def install_stub_pep():
    """Tiny tables cannot be handled by qvality/kde (C06's business); a stub PEP algorithm is registered in
    the public PEP_ALGORITHM dict."""
    import mokapot.peps as P
    if "stub" not in P.PEP_ALGORITHM:
        P.PEP_ALGORITHM["stub"] = lambda scores, targets: np.zeros(len(scores))


def label_value(tgt: bool, enc: str):
    if enc == "1/-1":
        return 1 if tgt else -1
    if enc == "1/0":
        return 1 if tgt else 0
    if enc == "bool":
        return bool(tgt)
    raise ValueError(enc)


def level_string(lv, k):
    """entity name of rollup level `lv`.  'mod' (ModifiedPeptide) uses the same strings as the Peptide column, as for
    unmodified peptides: identifiers then coincide ACROSS levels (the seen-sets of different levels must not mix)."""
    return ("K.PEP%dK.A" % k) if lv == "mod" else "%s%d" % (lv.upper(), k)


def spec_key(spec, with_mass=True):
    """(ScanNr, ExpMass) of spectrum number `spec`.  Spectra 2j-1 and 2j get DIFFERENT keys whose string concatenation
    is the same ("3"+"12.5" and "31"+"2.5"): keys must be compared column by column, not as a concatenation.
    With a scan-only key the scan number is the spectrum number itself."""
    if not with_mass:
        return spec, 500.0 + spec % 7
    j, d = (spec + 1) // 2, ((spec + 1) // 2) % 7
    return (j, 10.0 + d + 0.5) if spec % 2 == 1 else (10 * j + 1, d + 0.5)


def build_table(rows, *, label_enc="1/-1", extra_levels=(), nfeat=2, key_cols=("ScanNr", "ExpMass"), missing_rt=False, share2=False,
                int_mass=False, int_feats=False):
    """rows: list of dicts with id (int), spec (int), pep (int), tgt (bool), feats (list of float, optional),
    lvl (dict level-name -> int, optional), file (int, optional).  Returns a DataFrame in PIN column order."""
    n = len(rows)
    keyed = [spec_key(int(r["spec"]), "ExpMass" in key_cols) for r in rows]
    d = {
        "SpecId": ["r%d" % r["id"] for r in rows],
        "Label": [label_value(r["tgt"], label_enc) for r in rows],
        "ScanNr": [k[0] for k in keyed],
        "ExpMass": [k[1] for k in keyed],
    }
    if share2:
        # the 2j-th and (2j+1)-th spectrum of the table agree on the scan number (and the retention time) and differ only in the mass: distinct spectra
        # that share the first two key columns
        pos = {sp: k for k, sp in enumerate(sorted({int(r["spec"]) for r in rows}))}      # spectra numbered 0, 1, 2, ... within the table
        d["ScanNr"] = [pos[int(r["spec"])] // 2 + 1 for r in rows]
        d["ExpMass"] = [500.0 + pos[int(r["spec"])] for r in rows]
    if int_mass:
        # masses that are whole numbers for two spectra out of three and are WRITTEN as such in a text table ("507", not "507.0"):
        # a chunk of such rows is type-inferred as integers, a chunk holding one fractional mass as floats -- the same spectrum
        # must still be recognised across chunks (the key is the VALUE of the columns, not its rendering)
        d["ScanNr"] = [1 + int(r["spec"]) // 2 for r in rows]
        d["ExpMass"] = [500.0 + int(r["spec"]) + (0.5 if int(r["spec"]) % 3 == 0 else 0.0) for r in rows]
    if "ret_time" in key_cols and share2:
        d["ret_time"] = [10.0 for r in rows]
    elif "ret_time" in key_cols:
        # missing_rt: every third spectrum has no retention time (an empty cell / null in a spectrum-key column)
        d["ret_time"] = [float("nan") if (missing_rt and int(r["spec"]) % 3 == 0) else 10.0 + int(r["spec"]) * 0.5 for r in rows]
    if "filename" in key_cols:
        d["filename"] = ["run%d.mzML" % r.get("file", 0) for r in rows]
    for j in range(nfeat):
        if int_feats and j >= 1:
            # whole-number features stored as integers (a matched-ion count; int64 in a text table and in Parquet)
            # int_feats == "big": the same whole numbers shifted by 2**40 (an intensity-like column): distinct int64 values that are
            # no longer distinct in single precision -- the shift leaves every ranking unchanged
            off = 2 ** 40 if int_feats == "big" else 0
            d["f%d" % j] = np.asarray([off + int(round(float(r.get("feats", [0.0] * nfeat)[j]))) for r in rows], dtype=np.int64)
        else:
            d["f%d" % j] = [float(r.get("feats", [0.0] * nfeat)[j]) for r in rows]
    d["Peptide"] = ["K.PEP%dK.A" % r["pep"] for r in rows]
    for lv in extra_levels:
        d[LEVEL_COLS[lv]] = [level_string(lv, r["lvl"][lv]) for r in rows]
    d["Proteins"] = ["prot_r%d" % r["id"] for r in rows]
    df = pd.DataFrame(d)
    if int_mass:
        df.attrs["int_text"] = ["ExpMass"]
    return df


def write_table(df: pd.DataFrame, path: Path, row_group: int | None = None):
    path = Path(path)
    if path.suffix == ".parquet":
        tbl = pa.Table.from_pandas(df, preserve_index=False)
        pq.write_table(tbl, path, row_group_size=row_group or max(1, len(df)))
    else:
        out = df
        for c in df.attrs.get("int_text", []):
            # whole-number values of these float columns are written without a fractional part
            out = out.copy()
            out[c] = pd.Series([int(v) if float(v).is_integer() else float(v) for v in df[c]], dtype=object, index=df.index)
        out.to_csv(path, sep="\t", index=False)
    return path


def pa_type(series):
    k = getattr(series.dtype, "kind", "O")
    if k == "b":
        return pa.bool_()
    if k in "iu":
        return pa.int64()
    if k == "f":
        return pa.float64()
    return pa.string()


def make_dataset(df: pd.DataFrame, path: Path, *, extra_levels=(), key_cols=("ScanNr", "ExpMass"),
                 row_group=None, feature_cols=None, rename=None):
    """Write df to `path` (.pin / .parquet) and wrap it in an OnDiskPsmDataset (public constructor).
    rename: {canonical column name -> name in the file}, e.g. {"ret_time": "ret-time", "ExpMass": "Exp Mass"}: column names
    that are not Python identifiers (the dataset is told the real names; nothing may depend on them being identifiers)."""
    from mokapot.dataset import OnDiskPsmDataset
    from mokapot.utils import convert_targets_column
    rn = dict(rename or {})
    R = lambda c: rn.get(c, c)      # noqa: E731
    if rn:
        attrs = dict(df.attrs)
        df = df.rename(columns=rn)
        df.attrs.update({k: [R(c) for c in v] if isinstance(v, list) else v for k, v in attrs.items()})
    path = write_table(df, Path(path), row_group)
    cols = list(df.columns)
    feats = feature_cols if feature_cols is not None else [c for c in cols if c.startswith("f") and c[1:].isdigit()]
    level_cols = [R("Peptide")] + [R(LEVEL_COLS[lv]) for lv in extra_levels]
    opt = [R(c) for c in ("filename", "ExpMass", "ret_time") if R(c) in cols]
    meta = ["SpecId", "ScanNr", R("Peptide"), "Proteins", "Label"] + level_cols[1:] + opt
    key = [R(c) for c in key_cols]
    sdf = df[key + ["Label"]].copy()
    sdf = convert_targets_column(sdf, "Label")
    return OnDiskPsmDataset(
        filename=path, columns=cols, target_column="Label", spectrum_columns=key,
        peptide_column=R("Peptide"), protein_column="Proteins", feature_columns=tuple(feats),
        metadata_columns=meta, metadata_column_types=[pa_type(df[c]) for c in meta],
        level_columns=level_cols,
        filename_column=R("filename") if R("filename") in cols else None,
        scan_column="ScanNr", specId_column="SpecId", calcmass_column=None,
        expmass_column=R("ExpMass") if R("ExpMass") in cols else None,
        rt_column=R("ret_time") if R("ret_time") in cols else None, charge_column=None,
        spectra_dataframe=sdf)


def rank_scores(ranks, desc=True):
    """dyadic scores: score*4 is an integer.  desc=False -> lower is better."""
    r = np.asarray(ranks, dtype=float)
    return (r / 4.0 - 2.0) if desc else (-(r / 4.0) + 2.0)


def read_result(path: Path):
    """Independent reader of a tab-separated result file: list of dict rows (strings)."""
    with open(path) as fh:
        lines = fh.read().split("\n")
    if lines and lines[-1] == "":
        lines.pop()
    if not lines:
        return [], []
    hdr = lines[0].split("\t")
    rows = []
    for ln in lines[1:]:
        f = ln.split("\t")
        rows.append({h: (f[i] if i < len(f) else None) for i, h in enumerate(hdr)} | {"_nf": len(f)})
    return hdr, rows


class patched:
    """Context manager patching module-level constants in the consumer modules (constants are imported by
    name, so the consumer's binding is what counts)."""

    def __init__(self, **kw):
        self.kw, self.old = kw, {}

    TARGETS = {
        "CONFIDENCE_CHUNK_SIZE": ["mokapot.confidence"],
        "MERGE_SORT_CHUNK_SIZE": ["mokapot.utils"],
        "CHUNK_SIZE_ROWS_PREDICTION": ["mokapot.brew"],
        "CHUNK_SIZE_READ_ALL_DATA": ["mokapot.brew"],
        "CHUNK_SIZE_COLUMNS_FOR_DROP_COLUMNS": ["mokapot.parsers.pin"],
        "CHUNK_SIZE_ROWS_FOR_DROP_COLUMNS": ["mokapot.parsers.pin"],
    }

    def __enter__(self):
        import mokapot  # noqa
        import mokapot.constants  # noqa
        for k, v in self.kw.items():
            # every loaded mokapot module that binds the constant is patched: the consumer's by-name import (TARGETS), the
            # constants module itself (a consumer may read it as constants.X) and any module the code may have moved to
            mods = [mn for mn in sorted(sys.modules) if (mn == "mokapot" or mn.startswith("mokapot."))
                    and sys.modules[mn] is not None and k in getattr(sys.modules[mn], "__dict__", {})]
            if not mods:
                from engine.tlc import MachineryError
                raise MachineryError("module constant %s not found in any mokapot module (expected in %s)" % (k, self.TARGETS.get(k)))
            for mn in mods:
                m = sys.modules[mn]
                self.old[(mn, k)] = getattr(m, k)
                setattr(m, k, v)
        return self

    def __exit__(self, *a):
        for (mn, k), v in self.old.items():
            setattr(sys.modules[mn], k, v)
        return False
