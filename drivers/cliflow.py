"""Command-line dataflow (CliFlow.tla / CliFlowTrace.tla): every option vector TLC generates is replayed into the real
mokapot.mokapot.main() with recording stand-ins for the stages; the recorded calls are judged by TLC.

The stand-ins replace read_pin / read_fasta / load_model / PercolatorModel / brew / assign_confidence wherever a loaded
mokapot module binds them (by-name imports in mokapot.mokapot, the defining modules, the package namespace), and
numpy.random.seed.  Received arguments are bound to the REAL function's signature (inspect), so positional / keyword
passing and argument order do not matter; each value is then projected to the small vocabulary of CliFlow.tla.

Clauses "P:<id>..." belong to listed properties (see CliFlowTrace.tla); everything else is model conformance (DRIFT)."""
from __future__ import annotations

import copy
import inspect
import os
import shutil
import sys
import tempfile
from pathlib import Path

import numpy as np

from engine.tlc import run_tlc, MachineryError

OWN = {"C02": "P:C02.", "C03": "P:C03.", "C07": "P:C07.", "C08": "P:C08."}
STAGES = {"read_pin": ["mokapot.parsers.pin"], "read_fasta": ["mokapot.parsers.fasta"], "load_model": ["mokapot.model"],
          "PercolatorModel": ["mokapot.model"], "brew": ["mokapot.brew"], "assign_confidence": ["mokapot.confidence"]}
SEEDS = (1, 7, 42)
PIN_TEXT = "SpecId\tLabel\tScanNr\tExpMass\tf1\tPeptide\tProteins\n" + "".join(
    "r%d\t%d\t%d\t%.1f\t%.2f\tK.PEP%dK.A\tp%d\n" % (i, 1 if i % 2 == 0 else -1, 1 + i // 2, 500.5 + i // 2, 10.0 - i, i, i) for i in range(8))


class _Sentinel:
    def __init__(self, kind, k=0):
        self.kind, self.k = kind, k


class _SavedModel:
    """stands for a trained model returned by brew; .save records where it is written"""

    def __init__(self, rec, k):
        self.rec, self.k, self.fold, self.is_trained = rec, k, k, True

    def save(self, out_file):
        p = Path(str(out_file))
        self.rec.calls.append(("SaveModel", {"k": self.k, "path": str(out_file), "dest_rel": self.rec.rel(p.parent)}))
        return out_file


class Recorder:
    def __init__(self, wd, nload):
        self.calls, self.wd, self.nload = [], Path(wd), nload
        self.brew_out = None

    def rel(self, p):
        """a path given on the command line -> its name relative to the working directory ('' = the working directory)"""
        if p is None:
            return "<none>"
        try:
            r = os.path.relpath(os.path.abspath(str(p)), str(self.wd))
        except ValueError:
            return "<abs>"
        return "" if r == "." else r


def _bind(real, args, kwargs):
    try:
        ba = inspect.signature(real).bind(*args, **kwargs)
        ba.apply_defaults()
        return dict(ba.arguments)
    except TypeError:
        return None


def _seed_of(rng):
    """(seeded, seed): an integer seed, or a Generator whose stream is that of default_rng(k) for a driven seed k"""
    if rng is None:
        return False, 0
    if isinstance(rng, (int, np.integer)) and not isinstance(rng, bool):
        return True, int(rng)
    if isinstance(rng, np.random.Generator):
        st = copy.deepcopy(rng.bit_generator.state)
        for k in SEEDS:
            if np.random.default_rng(k).bit_generator.state == st:
                return True, k
        return True, -1
    return True, -1


def permille(x):
    try:
        return int(round(float(x) * 1000))
    except (TypeError, ValueError):
        return -1


def run_main(opt, wd):
    """one run of the real main() for the option vector; returns the projected calls"""
    import importlib
    import mokapot
    MM = sys.modules.get("mokapot.mokapot") or importlib.import_module("mokapot.mokapot")
    wd = Path(wd)
    shutil.rmtree(wd, ignore_errors=True)
    (wd / "in").mkdir(parents=True)
    files = []
    for i in range(opt["nfiles"]):
        f = wd / "in" / ("abc"[i] + ".pin")
        f.write_text(PIN_TEXT)
        files.append(f)
    rec = Recorder(wd, opt["load"])
    argv = [str(f) for f in files] + ["-v", "0"]
    for flag, key in (("--aggregate", "aggregate"), ("--save_models", "save"), ("--keep_decoys", "keep_decoys"),
                      ("--skip_deduplication", "skip_dedup"), ("--skip_rollup", "skip_rollup"), ("--ensemble", "ensemble"),
                      ("--override", "override"), ("--peps_error", "peps_error"), ("--clip_nterm_methionine", "clip"), ("--semi", "semi")):
        if opt[key]:
            argv.append(flag)
    d = {"seed": 1, "folds": 3, "workers": 1, "train_fdr": 10, "test_fdr": 10, "max_iter": 10, "enzyme": "[KR]", "missed": 2,
         "minlen": 6, "maxlen": 50, "decoy_prefix": "decoy_", "peps_alg": "qvality", "q_alg": "tdc"}
    names = {"seed": "--seed", "folds": "--folds", "workers": "--max_workers", "train_fdr": "--train_fdr", "test_fdr": "--test_fdr",
             "max_iter": "--max_iter", "enzyme": "--enzyme", "missed": "--missed_cleavages", "minlen": "--min_length",
             "maxlen": "--max_length", "decoy_prefix": "--decoy_prefix", "peps_alg": "--peps_algorithm", "q_alg": "--qvalue_algorithm"}
    for key, flag in names.items():
        if opt[key] != d[key]:          # defaults are left to the parser (that the default IS the documented one is part of the run)
            argv += [flag, ("%g" % (opt[key] / 1000.0)) if key.endswith("_fdr") else str(opt[key])]
    if opt["direction"]:
        argv += ["--direction", opt["direction"]]
    if opt["cap"]:
        argv += ["--subset_max_train", str(opt["cap"])]
    if opt["file_root"]:
        argv += ["--file_root", opt["file_root"]]
    if opt["dest"]:
        argv += ["--dest_dir", str(wd / opt["dest"])]
    if opt["proteins"]:
        (wd / "in" / "db.fasta").write_text(">sp|P1|A\nMKAAAAAAK\n>decoy_sp|P1|A\nMKAAAAAAK\n")
        argv += ["--proteins", str(wd / "in" / "db.fasta")]
    if opt["sqlite"]:
        argv += ["--sqlite_db_path", str(wd / "in" / "res.db")]
    if opt["load"]:
        argv += ["--load_models"] + [str(wd / "in" / ("m%d.pkl" % (k + 1))) for k in range(opt["load"])]
    fasta_obj = _Sentinel("fasta")
    real = {}
    for name, mods in STAGES.items():
        real[name] = getattr(sys.modules[mods[0]], name, None) if mods[0] in sys.modules else None
        if real[name] is None:
            real[name] = getattr(mokapot, name, None) or getattr(MM, name, None)

    def stage(name, fn):
        def wrapper(*a, **kw):
            b = _bind(real[name], a, kw) if real[name] is not None else None
            return fn(b if b is not None else {"__unbound__": True, **kw})
        wrapper.__name__ = name
        return wrapper

    def s_read_pin(b):
        pf = b.get("pin_files")
        pf = list(pf) if isinstance(pf, (list, tuple)) else [pf]
        rec.calls.append(("ReadPin", {"nfiles": len(pf), "workers": b.get("max_workers"), "paths": [rec.rel(p) for p in pf]}))
        return [_Sentinel("dataset", i + 1) for i in range(len(pf))]

    def s_read_fasta(b):
        rec.calls.append(("ReadFasta", dict(b)))
        return fasta_obj

    def s_load_model(b):
        p = str(b.get("model_file"))
        k = int(Path(p).stem[1:]) if Path(p).stem[1:].isdigit() else 0
        rec.calls.append(("LoadModel", {"k": k}))
        return _Sentinel("loaded", k)

    def s_make(b):
        rec.calls.append(("MakeModel", dict(b)))
        return _Sentinel("made")

    def s_brew(b):
        rec.calls.append(("Brew", dict(b)))
        psms = b.get("psms")
        psms = list(psms) if isinstance(psms, (list, tuple)) else [psms]
        model = b.get("model")
        nm = len(model) if isinstance(model, (list, tuple)) else int(b.get("folds") or 0)
        out = (psms, [_SavedModel(rec, k + 1) for k in range(nm)], [np.arange(3, dtype=float) + i for i in range(len(psms))],
               [bool(i % 2) for i in range(len(psms))])
        rec.brew_out = out
        return out

    def s_conf(b):
        dest = b.get("dest_dir")
        if dest is not None and os.path.isdir(str(dest)):
            rec.calls.append(("Mkdir", {"dest": rec.rel(dest)}))      # observed: the destination exists when this stage starts
        rec.calls.append(("Confidence", dict(b, __dest_rel=rec.rel(dest))))      # paths are resolved while the run's working directory is current
        return None

    stubs = {"read_pin": stage("read_pin", s_read_pin), "read_fasta": stage("read_fasta", s_read_fasta),
             "load_model": stage("load_model", s_load_model), "PercolatorModel": stage("PercolatorModel", s_make),
             "brew": stage("brew", s_brew), "assign_confidence": stage("assign_confidence", s_conf)}
    saved = []
    for mn in sorted(sys.modules):
        m = sys.modules[mn]
        if m is None or not (mn == "mokapot" or mn.startswith("mokapot.")):
            continue
        for name, stub in stubs.items():
            cur = m.__dict__.get(name)
            if cur is not None and (cur is real[name] or getattr(cur, "__name__", None) == name) and not inspect.ismodule(cur):
                saved.append((m, name, cur))
                setattr(m, name, stub)
    orig_seed = np.random.seed

    def rec_seed(seed=None):
        rec.calls.append(("Seed", {"seed": seed}))
        return orig_seed(seed)
    np.random.seed = rec_seed
    cwd = os.getcwd()
    raised = ""
    try:
        os.chdir(wd)
        MM.main(argv)
    except BaseException as e:
        if isinstance(e, KeyboardInterrupt):
            raise
        raised = "%s: %s" % (type(e).__name__, str(e)[:200])
    finally:
        os.chdir(cwd)
        np.random.seed = orig_seed
        for m, name, cur in saved:
            setattr(m, name, cur)
    return project(rec, opt, fasta_obj), raised


def project(rec, opt, fasta_obj):
    """received values -> the vocabulary of CliFlow.tla; a call whose arguments cannot be projected becomes st = 'Unprojectable'
    (fails the conformance clause D:Dataflow only)"""
    out = []
    for st, b in rec.calls:
        try:
            if st == "Seed":
                c = {"seed": int(b["seed"]) if b["seed"] is not None else -1}
            elif st == "ReadPin":
                c = {"nfiles": b["nfiles"], "workers": int(b["workers"])}
            elif st == "ReadFasta":
                c = {"enzyme": str(b["enzyme"]), "missed": int(b["missed_cleavages"]), "clip": bool(b["clip_nterm_methionine"]),
                     "minlen": int(b["min_length"]), "maxlen": int(b["max_length"]), "semi": bool(b["semi"]),
                     "decoy_prefix": str(b["decoy_prefix"])}
            elif st == "LoadModel":
                c = {"k": int(b["k"])}
            elif st == "MakeModel":
                seeded, seed = _seed_of(b.get("rng"))
                c = {"train_fdr": permille(b["train_fdr"]), "max_iter": int(b["max_iter"]), "direction": b["direction"] or "",
                     "override": bool(b["override"]), "seeded": seeded, "seed": seed if seeded else 0}
            elif st == "Brew":
                seeded, seed = _seed_of(b.get("rng"))
                model = b.get("model")
                psms = b.get("psms")
                loaded = isinstance(model, (list, tuple)) and all(getattr(m, "kind", "") == "loaded" for m in model)
                c = {"ndatasets": len(psms) if isinstance(psms, (list, tuple)) else 1,
                     "model": "loaded" if loaded else ("made" if getattr(model, "kind", "") == "made" else "other"),
                     "nmodels": len(model) if isinstance(model, (list, tuple)) else 0,
                     "test_fdr": permille(b["test_fdr"]), "folds": int(b["folds"]), "workers": int(b["max_workers"]),
                     "cap": int(b["subset_max_train"]) if b.get("subset_max_train") is not None else 0,
                     "ensemble": bool(b["ensemble"]), "seeded": seeded, "seed": seed if seeded else 0}
            elif st == "Mkdir":
                c = {"dest": b["dest"]}
            elif st == "Confidence":
                bo = rec.brew_out
                same = lambda x, y: x is y or (isinstance(x, (list, tuple)) and isinstance(y, (list, tuple)) and len(x) == len(y)      # noqa: E731
                                                and all((p is q) or (isinstance(p, np.ndarray) and isinstance(q, np.ndarray) and np.array_equal(p, q))
                                                        or (isinstance(p, bool) and isinstance(q, bool) and p == q) for p, q in zip(x, y)))
                from_brew = bo is not None and same(b.get("psms"), bo[0]) and same(b.get("scores"), bo[2]) and same(b.get("descs"), bo[3])
                pf = b.get("prefixes")
                c = {"from_brew": bool(from_brew), "workers": int(b["max_workers"]), "eval_fdr": permille(b["eval_fdr"]),
                     "dest": b["__dest_rel"], "file_root": str(b.get("file_root") or ""),
                     "prefixes": [str(p or "") for p in (pf if pf is not None else [])],
                     "decoys": bool(b["decoys"]), "dedup": bool(b["deduplication"]), "rollup": bool(b["do_rollup"]),
                     "proteins": b.get("proteins") is fasta_obj, "peps_error": bool(b["peps_error"]),
                     "peps_alg": str(b["peps_algorithm"]), "q_alg": str(b["qvalue_algorithm"]),
                     "sqlite": b.get("sqlite_path") is not None}
            elif st == "SaveModel":
                p = Path(b["path"])
                name = p.name
                tail = "mokapot.model_fold-%d.pkl" % b["k"]
                root = name[:-len(tail)].rstrip(".") if name.endswith(tail) else "<unexpected name>"
                c = {"k": int(b["k"]), "dest": b["dest_rel"], "file_root": root}
            else:
                c = {}
            c["st"] = st
        except Exception as e:      # an argument the projection does not know (a re-plumbed signature)
            c = {"st": "Unprojectable", "stage": st, "why": "%s: %s" % (type(e).__name__, str(e)[:80])}
        out.append(c)
    return out


def generate(ctx):
    r = run_tlc("CliFlow", "CliFlow_gen.cfg", workers=1)
    if not r.ok:
        raise MachineryError("CliFlow generation failed: %s %s" % (r.violated, r.error))
    opts = [p[1] for p in r.prints if p and p[0] == "CASE"]
    if len(opts) < 300:
        raise MachineryError("CliFlow generation produced only %d option vectors" % len(opts))
    return opts


MUTS = ["prefix_ignores_aggregate", "lengths_swapped", "override_always", "model_unseeded", "brew_gets_train_fdr", "folds_default",
        "brew_unseeded", "descs_not_from_brew", "dedup_not_passed"]


def family(ctx, prop, model_check=True, light=False):
    """the command-line dataflow family for one property: (M) CliFlow.tla + its sensitivity configs, (G) option vectors,
    replay into the real main(), (V) CliFlowTrace.tla.  Failed 'P:<prop>.' clauses are violations, all others DRIFT."""
    ctx.phase("cli_dataflow")
    if model_check:
        ctx.model_check("CliFlow", "CliFlow_quick.cfg", note="command-line dataflow: every option vector with <= 2 deviations from the defaults; Dataflow, Order, Complete, termination")
        for m in MUTS:
            ctx.model_check("CliFlow", "CliFlow_mut_%s.cfg" % m, expect_violation="Dataflow")
        ctx.model_check("CliFlow", "CliFlow_mut_save_before_confidence.cfg", expect_violation="Order")
    opts = generate(ctx)
    rng = np.random.default_rng(ctx.seed + 77)
    # beyond two deviations: seeded random vectors over the same domains (TLC's Dom, read back from a generated record)
    dom = {}
    for o in opts:
        for k, v in o.items():
            dom.setdefault(k, set()).add(v if not isinstance(v, list) else tuple(v))
    extra = []
    for _ in range(0 if light else (200 if ctx.quick else 3000)):
        o = dict(opts[0])
        for k in rng.permutation(sorted(dom))[: int(rng.integers(3, 9))]:
            vals = sorted(dom[k], key=repr)
            o[k] = vals[int(rng.integers(0, len(vals)))]
        extra.append(o)
    allopts = opts + extra
    base = tempfile.mkdtemp(prefix="cliflow_")
    traces = []
    try:
        for i, o in enumerate(allopts):
            wd = os.path.join(base, "w")
            calls, raised = run_main(o, wd)
            calls2, raised2 = run_main(o, wd) if (prop == "C08" or not light) else (calls, raised)
            traces.append({"tid": i + 1, "opt": o, "calls": calls, "repeat_equal": calls == calls2 and raised == raised2, "raised": raised})
            ctx.count(("cliflow", i))
    finally:
        shutil.rmtree(base, ignore_errors=True)
    v = ctx.validate("CliFlowTrace", "Trace.cfg", traces)
    own = OWN.get(prop, "P:%s." % prop)
    drift = {}
    nviol = 0
    for t in traces:
        r = v[t["tid"]]
        if r["accept"]:
            continue
        mine = [c for c in r["failed"] if c.startswith(own)]
        if mine:
            nviol += 1
            ctx.reject({"kind": "cliflow", "opt": t["opt"], "calls": t["calls"], "raised": t["raised"]}, mine,
                       {"api": "command line", "clauses": mine})
        for c in r["failed"]:
            if not c.startswith("P:"):
                drift[c] = drift.get(c, 0) + 1
    ctx.cov.setdefault("cli_dataflow", {})
    ctx.cov["cli_dataflow"].update({"runs_of_main": 2 * len(traces), "option_vectors_from_tlc": len(opts), "random_vectors": len(extra),
                                    "drift": drift, "rejected_for_this_property": nviol,
                                    "raised": sorted({t["raised"][:80] for t in traces if t["raised"]})[:5]})
    for c, n in sorted(drift.items()):
        print("DRIFT (model conformance, not a violation): command-line dataflow %s in %d runs" % (c, n))
    # negative controls: the real traces with one received value changed must be rejected by the matching clause
    acc = [t for t in traces if v[t["tid"]]["accept"]]
    bad = []

    def corrupt(t, st, field, val, clause):
        b = copy.deepcopy(t)
        for c in b["calls"]:
            if c["st"] == st:
                c[field] = val(c[field]) if callable(val) else val
                b["tid"] = len(bad) + 1
                b["expect"] = clause
                bad.append(b)
                return
    for t in acc[:40]:
        corrupt(t, "Confidence", "dedup", lambda x: not x, "P:C03.dedup_switch")
        corrupt(t, "Confidence", "from_brew", False, "P:C07.scores_and_direction_from_brew")
        corrupt(t, "Brew", "folds", lambda x: x + 1, "P:C02.requested_folds")
        corrupt(t, "Brew", "seeded", False, "P:C08.random_sources_seeded")
        corrupt(t, "Brew", "test_fdr", lambda x: x + 1, "D:Dataflow")
    if bad:
        vb = ctx.validate("CliFlowTrace", "Trace.cfg", bad)
        ctx.cov["traces_validated_against_impl"] -= len(bad)
        wrong = [b["tid"] for b in bad if b["expect"] not in vb[b["tid"]]["failed"]]
        ctx.cov["negative_controls"]["command-line dataflow: one received value changed"] = {"supplied": len(bad), "rejected": len(bad) - len(wrong)}
        if wrong and not ctx.violations:
            raise MachineryError("CliFlowTrace accepted corrupted traces (tids %s)" % wrong[:5])
    elif not ctx.violations:
        raise MachineryError("no accepted command-line run to build negative controls from")
    return v


def replay(ctx, case, prop):
    """re-run one recorded command-line case (replay file written by family)"""
    o = case["case"]["opt"]
    base = tempfile.mkdtemp(prefix="cliflow_")
    try:
        calls, raised = run_main(o, os.path.join(base, "w"))
        calls2, raised2 = run_main(o, os.path.join(base, "w"))
    finally:
        shutil.rmtree(base, ignore_errors=True)
    t = {"tid": 1, "opt": o, "calls": calls, "repeat_equal": calls == calls2 and raised == raised2, "raised": raised}
    r = ctx.validate("CliFlowTrace", "Trace.cfg", [t])[1]
    mine = [c for c in r["failed"] if c.startswith(OWN.get(prop, "P:%s." % prop))]
    if mine:
        ctx.reject({"kind": "cliflow", "opt": o, "calls": calls, "raised": raised}, mine, {"api": "command line", "clauses": mine})
    ctx.count(1)
    ctx.sample({"calls": calls[:3]})
    return ctx.finish(rule="replay of one recorded command-line case")
