"""C04 -- reported q-values control the FDR end to end, whatever the model capacity.

This is a statement about an expectation; TLC decides no probabilities.  It is decided compositionally:
 1. (M) FdrControl.tla: the exact finite-sample theorem instance -- for every weak order of n <= 5 (6) PSMs, every set of
    correct targets and every alpha the FDP averaged over all labellings of the null PSMs is <= alpha (with the +1;
    without it TLC finds the counterexample).
 2. The theorem's premises are bound to the code: the estimator is QDef (TdcTrace on the simulated score vectors), held-out
    scoring is blind to held-out labels even for a memorising learner (FlipTrace: two runs differing in one label),
    competition precedes estimation (ConfTrace on the simulated result files).
 3. End-to-end exploration: simulated mixtures with ground truth through brew + assign_confidence, learners from a linear
    SVM to a fully grown tree and a memorising estimator; FdrTrace rejects only if mean FDP > 1.5 alpha + 4 SE.
"""
from __future__ import annotations

import copy
import os
import shutil
import tempfile
from pathlib import Path

import numpy as np

from engine.core import rat
from engine.tlc import MachineryError
from drivers.common import pmap
from drivers import brewrun, mk, conf
from drivers.c02 import run_real_learner

LEVEL = "other"
ALPHAS = [(50, 0.05), (100, 0.1)]


def simulate_paired(spec):
    """every spectrum has a target PSM and a decoy PSM with COARSE scores (exact ties are frequent); in a null spectrum
    the two are exchangeable.  Rows are shuffled so that file order carries no information."""
    rng = np.random.default_rng(spec["seed"])
    ns = spec["n"] // 2
    rows = []
    for sp in range(ns):
        correct = bool(rng.random() >= spec["pi0"])
        st = rng.normal(spec["sep"] if correct else 0.0, 1.0)
        sd = rng.normal(0.0, 1.0)
        for tgt, sc in ((True, st), (False, sd)):
            rows.append({"spec": sp + 1, "tgt": tgt, "correct": bool(correct and tgt),
                         "f": [int(round(2 * sc)), int(rng.integers(0, 5)), int(round(sc))]})
    order = rng.permutation(len(rows))
    rows = [rows[int(i)] for i in order]
    if spec.get("target_first"):
        # file order correlated with the label: all target PSMs before all decoy PSMs (a target result file followed by the
        # decoy file).  The competition must still be decided by the score, never by the position in the file.
        rows = [r for r in rows if r["tgt"]] + [r for r in rows if not r["tgt"]]
    for i, r in enumerate(rows):
        r["id"] = i
        r["pep"] = i
    return rows


def simulate(spec):
    if spec.get("family") == "paired":
        return simulate_paired(spec)
    rng = np.random.default_rng(spec["seed"])
    n = spec["n"]
    rows = []
    for i in range(n):
        correct = bool(rng.random() >= spec["pi0"])
        if correct:
            tgt, score = True, rng.normal(spec["sep"], 1.0)
        else:
            tgt, score = bool(rng.random() < 0.5), rng.normal(0.0, 1.0)
        rows.append({"id": i, "spec": i + 1, "tgt": tgt, "correct": correct,
                     "f": [int(round(100 * score)), int(rng.integers(0, 100)), int(round(100 * (0.5 * score + rng.normal(0, 1))))]})
    # peptides: a fifth of the correct targets share a peptide with another correct target; nulls share among nulls
    cor = [r for r in rows if r["correct"]]
    nul = [r for r in rows if not r["correct"]]
    for grp in (cor, nul):
        for k, r in enumerate(grp):
            r["pep"] = r["id"]
            if k % 5 == 4:
                r["pep"] = grp[k - 1]["id"]
    return rows


def one_replicate(spec):
    """-> {level: {alpha_pm: (V, R)}, 'raised': str, 'psm_trace': ConfTrace-style trace or None}"""
    import mokapot
    mk.install_stub_pep()
    wd = Path(tempfile.mkdtemp(prefix="c04_"))
    try:
        rows = simulate(spec)
        nfiles = int(spec.get("nfiles", 1))
        if nfiles > 1:
            # jointly modelled files with EXACTLY the same number of rows (different PSMs)
            per = len(rows) // nfiles
            files = [{"rows": rows[k * per:(k + 1) * per]} for k in range(nfiles)]
            rows = [r for f in files for r in f["rows"]]
        else:
            files = [{"rows": rows}]
        case = {"files": files, "refeed_seed": spec.get("refeed_seed"), "refeed_reverse": bool(spec.get("refeed_reverse")), "pred_chunk": int(spec.get("pred_chunk", 700000)), "folds": spec["folds"], "workers": 1, "cap": spec.get("cap"), "keyw": 2, "fmt": "pin",
                "thr": [1, 20], "train_thr": [1, 20], "seed": spec["seed"], "est": spec["est"], "col": 1, "override": True,
                "max_iter": 3, "direction": "f1" if spec["est"] in ("memo", "feat") else None, "leak": spec.get("leak", False)}
        if spec.get("leak"):
            # negative-control instrument (never on the checked path): the memoriser also knows the labels of the rows it is NOT
            # trained on -- exactly what training sets that include the held-out fold would give it.  (The side channel is in the
            # driver's estimator, not in mokapot: the instrument does not depend on any private name of brew.py.)
            case["leak_labels"] = {int(r["id"]): (1.0 if r["tgt"] else -1.0) for fl in files for r in fl["rows"]}
        try:
            if spec["est"] in ("svm", "tree", "lr"):
                # run_real_learner builds through run_brew; keep the files for assign_confidence
                orig_run = brewrun.run_brew
                holder = {}

                def run_keep(c, workdir=None, keep=False):
                    tr, info = orig_run(c, workdir=wd, keep=True)
                    holder["info"] = info
                    return tr, info
                brewrun.run_brew = run_keep
                try:
                    tr = run_real_learner(case)
                finally:
                    brewrun.run_brew = orig_run
                info = holder["info"]
            else:
                tr, info = brewrun.run_brew(case, workdir=wd, keep=True)
        finally:
            pass
        if tr["raised"] or info["ret"] is None:
            return {"raised": tr["raised"] or "no return", "levels": {}}
        _, models, scs, descs = info["ret"]
        dest = wd / "res"
        dest.mkdir()
        pfx = [None] if nfiles == 1 else ["c%d" % k for k in range(nfiles)]
        mokapot.assign_confidence(info["datasets"], max_workers=1, scores=[np.asarray(x, dtype=float) for x in scs], descs=list(descs),
                                  eval_fdr=0.05, dest_dir=dest, prefixes=pfx, decoys=False, peps_algorithm="stub")
        truth = {r["id"]: r["correct"] for r in rows}
        out = {"raised": "", "levels": {}}
        for lvl in ("psms", "peptides"):
            rws = []
            for px in pfx:
                rws += mk.read_result(dest / ((px + "." if px else "") + "targets." + lvl))[1]
            lv = {}
            for apm, a in ALPHAS:
                acc = [r for r in rws if float(r["q-value"]) <= a]
                v = sum(1 for r in acc if not truth[int(r["PSMId"][1:])])
                lv[str(apm)] = [v, len(acc)]
            out["levels"][lvl] = lv
        return out
    except Exception as e:
        import traceback
        return {"harness_error": "%s: %s %s" % (type(e).__name__, e, traceback.format_exc()[-600:])}
    finally:
        shutil.rmtree(wd, ignore_errors=True)


def flip_pair(spec):
    """two runs of brew with the memorising estimator on datasets differing in the label of one PSM"""
    rng = np.random.default_rng(spec["seed"])
    n = spec["n"]
    rows = []
    for i in range(n):
        tgt = bool(rng.random() < 0.5)
        rows.append({"id": i, "spec": i + 1, "tgt": tgt, "f": [int(rng.integers(0, 60)) + (30 if tgt and rng.random() < 0.5 else 0), int(rng.integers(0, 50))]})
    x = int(rng.integers(0, n))
    nfiles = int(spec.get("nfiles", 1))
    per = n // nfiles
    files = [{"rows": rows[k * per:(k + 1) * per]} for k in range(nfiles)]      # equal row counts
    x = min(x, per * nfiles - 1)
    base = {"files": files, "refeed_seed": spec.get("refeed_seed"), "folds": spec["folds"], "workers": 1, "cap": None, "keyw": 2, "fmt": "pin", "thr": [1, 1],
            "train_thr": [1, 1], "seed": spec["seed"], "est": spec.get("est", "memo"), "col": 1, "override": True, "max_iter": 2}
    try:
        ta, _ = brewrun.run_brew(copy.deepcopy(base))
        b = copy.deepcopy(base)
        rx = next(r for f in b["files"] for r in f["rows"] if r["id"] == x)
        rx["tgt"] = not rx["tgt"]
        tb, _ = brewrun.run_brew(b)
    except Exception as e:
        return {"harness_error": "%s: %s" % (type(e).__name__, e)}
    strip = lambda t: {"preds": [{"model": p["model"], "ids": p["ids"], "raw": p["raw"]} for p in t["preds"]]}
    return {"x": x, "a": strip(ta), "b": strip(tb), "raised_a": ta["raised"], "raised_b": tb["raised"]}


def run(ctx):
    ctx.phase("model_checking")
    ctx.model_check("FdrControl", "FdrControl_quick.cfg" if ctx.quick else "FdrControl_thorough.cfg",
                    note="theorem instance: every weak order x set of correct targets x alpha in {1/2,1/3,1/4,1/5,1/10}", timeout=6000)
    ctx.model_check("FdrControl", "FdrControl_noplus.cfg", expect_violation="Controlled", note="without the +1 the expectation exceeds alpha")
    ctx.phase("generation")
    reps = 20 if ctx.quick else 200
    learners = ["memo", "tree"] if ctx.quick else ["memo", "tree", "svm", "lr"]
    specs, groups = [], {}
    for est in learners:
        for r in range(reps):
            s = {"seed": ctx.seed * 100000 + 1000 * learners.index(est) + r, "n": 1500 if ctx.quick else 2500, "pi0": [0.5, 0.8][r % 2],
                 "sep": [2.0, 3.0, 1.5][r % 3], "folds": 2 + r % 4, "est": est}
            if s["pi0"] > 0.7:
                s["sep"] = max(s["sep"], 2.5)      # otherwise nothing is accepted at 5 % and brew stops with an explicit error
            specs.append(s)
    # capped training sets (memoriser) and paired target/decoy PSMs with coarse, tie-rich scores (feature scoring, tree)
    extra = []
    for r in range(reps):
        extra.append({"seed": ctx.seed * 100000 + 500000 + r, "n": 1500, "pi0": 0.5, "sep": [2.0, 3.0][r % 2], "folds": 2 + r % 3,
                      "est": "memo", "cap": 500 + 100 * (r % 3), "group": "memo+cap"})
        extra.append({"seed": ctx.seed * 100000 + 600000 + r, "n": 1600, "pi0": 0.5, "sep": [2.5, 3.0][r % 2], "folds": 2 + r % 3,
                      "est": ["feat", "tree"][r % 2], "family": "paired", "group": "paired-ties/" + ["feat", "tree"][r % 2]})
        extra.append({"seed": ctx.seed * 100000 + 650000 + r, "n": 1600, "pi0": 0.5, "sep": [2.5, 3.0][r % 2], "folds": 2 + r % 3,
                      "est": "feat", "family": "paired", "target_first": True, "group": "paired-target-first"})
    # jointly modelled files of equal size, and trained fold models re-applied under another seed (both with the memoriser)
    for r in range(reps):
        extra.append({"seed": ctx.seed * 100000 + 700000 + r, "n": 1600, "pi0": 0.5, "sep": [2.0, 3.0][r % 2], "folds": 2 + r % 3,
                      "est": "memo", "nfiles": 2, "group": "memo+2files"})
        extra.append({"seed": ctx.seed * 100000 + 800000 + r, "n": 1500, "pi0": 0.5, "sep": [2.0, 3.0][r % 2], "folds": 2 + r % 3,
                      "est": "memo", "refeed_seed": 1 + r, "group": "memo+reseed"})
        extra.append({"seed": ctx.seed * 100000 + 820000 + r, "n": 1500, "pi0": 0.5, "sep": [2.0, 3.0][r % 2], "folds": 3 + r % 3,
                      "est": "memo", "refeed_seed": ctx.seed * 100000 + 820000 + r, "refeed_reverse": True, "group": "memo+reversed"})
        # held-out scoring in several prediction chunks (the default chunk holds 700000 rows)
        extra.append({"seed": ctx.seed * 100000 + 850000 + r, "n": 1500, "pi0": 0.5, "sep": [2.0, 3.0][r % 2], "folds": 2 + r % 3,
                      "est": "memo", "pred_chunk": [170, 333, 700][r % 3], "group": "memo+chunks"})
        # ... and in tiny chunks, most of which hold no PSM of some fold (the model of a fold is found by fold, not by position)
        extra.append({"seed": ctx.seed * 100000 + 870000 + r, "n": 900, "pi0": 0.5, "sep": [2.0, 3.0][r % 2], "folds": 3 + r % 2,
                      "est": "memo", "pred_chunk": [2, 3][r % 2], "group": "memo+tinychunks"})
    specs += extra
    nleak = 6
    for r in range(nleak):     # instrument check: with leaky training sets the memoriser must break the bound
        specs.append({"seed": ctx.seed * 100000 + 900000 + r, "n": 1500, "pi0": 0.6, "sep": 2.0, "folds": 3, "est": "memo", "leak": True})
    flips = [{"seed": ctx.seed * 1000 + j, "n": 150, "folds": 2 + j % 4, "est": ["memo", "feat"][j % 5 == 4],
              "nfiles": 2 if j % 3 == 1 else 1, "refeed_seed": (j + 11) if j % 3 == 2 else None} for j in range(30 if ctx.quick else 300)]
    ctx.phase("driving")
    res = pmap(lambda i: one_replicate(specs[i]), len(specs), chunk=1)
    fres = pmap(lambda i: flip_pair(flips[i]), len(flips), chunk=2)
    for r in res + fres:
        if "harness_error" in r:
            raise MachineryError("driver failed: " + r["harness_error"])
    # ---- FdrTrace groups: (learner, level, alpha) over replicates
    traces, meta = [], []
    failed_runs = sum(1 for s, r in zip(specs, res) if r["raised"])
    for est in learners + ["memo+cap", "paired-ties/feat", "paired-ties/tree", "paired-target-first", "memo+2files", "memo+reseed", "memo+reversed", "memo+chunks", "memo+tinychunks", "memo+leak"]:      # one group per learner: a mixture of learners would inflate the SE
        sel = [r for s, r in zip(specs, res) if (s.get("group") or (s["est"] + ("+leak" if s.get("leak") else ""))) == est and not r["raised"]]
        if len(sel) < 2:
            continue
        for lvl in ("psms", "peptides"):
            for apm, _ in ALPHAS:
                traces.append({"tid": len(traces) + 1, "alpha_pm": apm, "runs": [r["levels"][lvl][str(apm)] for r in sel]})
                meta.append({"learner": est, "level": lvl, "alpha_pm": apm, "replicates": len(sel)})
    for s in specs:
        ctx.count(("sim", s["seed"], s["est"], bool(s.get("leak"))))
    for f in flips:
        ctx.count(("flip", f["seed"]))
    ctx.cov["replicates_stopped_with_explicit_error"] = failed_runs
    ctx.cov["explicit_errors"] = sorted({r["raised"][:70] for r in res if r["raised"]})
    ctx.phase("validation")
    verdicts = ctx.validate("FdrTrace", "Trace.cfg", traces)
    summary = []
    leak_rejected = 0
    for t, m in zip(traces, meta):
        v = verdicts[t["tid"]]
        info = v.get("info") or [0, 0, 0]
        summary.append({**m, "mean_fdp_permille": info[0], "var": info[1], "accepted": v["accept"]})
        if m["learner"] == "memo+leak":
            leak_rejected += 0 if v["accept"] else 1
            continue
        if not v["accept"]:
            ctx.reject({"group": m, "runs": t["runs"]}, v["failed"], {"api": "brew+assign_confidence", **m, "mean_fdp_permille": info[0]})
    nleakgroups = sum(1 for m in meta if m["learner"] == "memo+leak")
    ctx.cov["negative_controls"]["leaky training sets (memoriser) must break the bound"] = {"supplied": nleakgroups, "rejected": leak_rejected}
    if nleakgroups == 0 or leak_rejected < nleakgroups:
        raise MachineryError("the leak instrument was not rejected (%d of %d): the exploration has no detection power" % (leak_rejected, nleakgroups))
    ctx.cov["fdp_summary"] = summary
    ftr = []
    for j, t in enumerate(fres):
        t["tid"] = j + 1
        ftr.append(t)
    fv = ctx.validate("FlipTrace", "Trace.cfg", ftr)
    sens = 0
    for f, t in zip(flips, ftr):
        v = fv[t["tid"]]
        sens += 1 if v.get("info") else 0
        if not v["accept"]:
            ctx.reject({"flip": f, "trace": {"x": t["x"], "raised_a": t["raised_a"], "raised_b": t["raised_b"]}}, v["failed"],
                       {"api": "brew(label flip)", "seed": f["seed"], "folds": f["folds"], "est": f["est"]})
    ctx.phase("negative_controls")
    bad = []
    for t in ftr[:40]:
        if not fv[t["tid"]]["accept"]:
            continue
        b = copy.deepcopy(t)
        # the held-out model's output on x changes with x's label: what a leak looks like
        for p in b["b"]["preds"]:
            if b["x"] in p["ids"]:
                p["raw"][p["ids"].index(b["x"])] += 1000
        b["tid"] = len(bad) + 1
        bad.append(b)
    ctx.negative_controls("FlipTrace", "Trace.cfg", bad, name="held-out output depends on the held-out label")
    ctx.sample({"simulation": specs[0], "V,R per level": res[0].get("levels")})
    ctx.sample({"fdp_summary": summary[:4]})
    ctx.assume("ground truth: a target PSM is incorrect iff it was drawn from the null; null targets and decoys are exchangeable by construction")
    ctx.assume("acceptance threshold: mean FDP <= 1.5 alpha + 4 SE over the replicates (correct code: ~0.9 alpha; leaky training sets: ~pi0)")
    return ctx.finish(
        rule="theorem instance model-checked exhaustively; end to end: %d replicates per learner (%s) of simulated mixtures (n=%d, pi0 in "
             "{0.5, 0.8}, separation 1.5-3 sigma, folds 2..5) through brew + assign_confidence at PSM and peptide level, alpha in {0.05, 0.1}; "
             "label-flip pairs with the memorising estimator; distinct = distinct simulation seed / flip seed" % (reps, ", ".join(learners), specs[0]["n"]),
        explanation="C04 is about an expectation over a distribution, which TLC cannot decide. The check is compositional: (1) the "
                    "finite-sample theorem E[FDP] <= alpha is model-checked exhaustively for all small instances, ties included, and shown to "
                    "fail without the +1; (2) its premises are bound to the code by trace validation (C01: the estimator is the formula; "
                    "C02 + FlipTrace: held-out outputs do not depend on held-out labels even for a memorising learner; C03: competition "
                    "precedes estimation); (3) the expectation itself is explored on simulated data through the real pipeline and TLC rejects "
                    "only a mean FDP above 1.5 alpha + 4 SE; the same exploration with deliberately leaky training sets must be rejected "
                    "(instrument check), otherwise the run is a machinery failure.",
        exhaustive=False)


def replay(ctx, case):
    c = case["case"]
    if "flip" in c:
        t = flip_pair(c["flip"])
        t["tid"] = 1
        v = ctx.validate("FlipTrace", "Trace.cfg", [t])[1]
        if not v["accept"]:
            ctx.reject(c, v["failed"], {"api": "brew(label flip)", "replay": True})
    else:
        t = {"tid": 1, "alpha_pm": c["group"]["alpha_pm"], "runs": c["runs"]}
        v = ctx.validate("FdrTrace", "Trace.cfg", [t])[1]
        if not v["accept"]:
            ctx.reject(c, v["failed"], {"api": "replay of recorded (V, R) counts"})
    ctx.count(1)
    ctx.count(2)
    ctx.sample({"replayed": True})
    return ctx.finish(rule="replay", explanation="replay of one recorded group / flip pair")
