"""C05 -- results do not depend on chunk sizes, worker count, thread timing or file format.

(M) Brew.tla and Confidence.tla carry the configuration (chunk sizes, workers, completion orders, sort order among
    ties, merge-list order) as free choices; invariant OutcomeIsF says the outcome is a function of the input only.
    ThreadPool.tla gives the completion orders feasible for (tasks, workers): the schedules enforced on the real pool.
(G) inputs are random datasets; for each the driver runs the real brew / assign_confidence / read_pin under a
    family of configurations (every prediction / confidence chunk size 1..n+1, training-read / merge-sort / column
    and row scan chunk sizes, workers 1..4 with TLC-generated completion orders, text vs Parquet with several
    row-group sizes).
(V) RunsTrace.tla accepts a group iff no run fails and all runs of one input have the same outcome.
"""
from __future__ import annotations

import copy
import tempfile
from fractions import Fraction
from pathlib import Path

import numpy as np

from engine.tlc import run_tlc, MachineryError
from drivers.common import pmap
from drivers import brewrun, conf, mk
from drivers.c02 import rows_from_shape, run_real_learner
from drivers.c03 import random_table, tie_free

LEVEL = "model_checking"


def feasible_orders():
    r = run_tlc("ThreadPool", "ThreadPool.cfg", workers=1, deadlock=True)
    if not r.ok:
        raise MachineryError("ThreadPool model failed: %s %s" % (r.violated, r.error))
    out = {}
    for p in r.prints:
        if p and p[0] == "ORDER":
            out.setdefault((p[1], p[2]), []).append(p[3])
    return out, r


# ---------------------------------------------------------------- brew
def brew_input(rng, j):
    n = int(rng.choice([24, 36, 50]))
    folds = 2 + j % 3
    spec_of, s = [], 1
    while len(spec_of) < n:
        m = int(rng.integers(1, 4))
        spec_of += [s] * m
        s += 1
    rows = rows_from_shape(spec_of[:n], rng)
    for r in rows:
        r["f"] = [int(rng.normal(70, 8)) if (r["tgt"] and rng.random() < 0.75) else int(rng.normal(30, 8)), int(rng.integers(0, 50))]
    files = [{"rows": rows}]
    if j % 3 == 2:
        rows2 = rows_from_shape(spec_of[: n // 2 + 3], rng, id0=500)
        for r in rows2:
            r["f"] = [int(rng.normal(70, 8)) if (r["tgt"] and rng.random() < 0.75) else int(rng.normal(30, 8)), int(rng.integers(0, 50))]
        files.append({"rows": rows2})
    return {"files": files, "folds": folds, "thr": [1, 2] if len(files) == 1 else [1, 1], "train_thr": [1, 1], "seed": j, "est": "feat", "override": True,
            "keyw": 2, "cap": None}


def brew_configs(inp, orders, rng, quick):
    n = max(len(f["rows"]) for f in inp["files"])
    folds = inp["folds"]
    cfgs = [{"pred_chunk": 700000, "read_chunk": 200000, "workers": 1, "fmt": "pin"}]          # reference
    for c in range(1, n + 2):                                                                     # every prediction chunk size
        cfgs.append({"pred_chunk": c, "read_chunk": [1, 5, n + 1, 200000][c % 4], "workers": 1 + c % 4,
                     "fmt": "parquet" if c % 5 == 0 else "pin", "row_group": [1, 7, n][c % 3]})
    for w in (2, 3, 4):                                                                           # completion orders
        for o in orders.get((folds, min(w, 4)), []):
            cfgs.append({"pred_chunk": [3, 700000][len(cfgs) % 2], "read_chunk": 200000, "workers": w, "fmt": "pin", "schedule": o})
    for rg in (1, 2, 7, n, n + 5):                                                                # row-group layouts
        cfgs.append({"pred_chunk": 5, "read_chunk": 7, "workers": 2, "fmt": "parquet", "row_group": rg})
    if quick:
        keep = [0] + sorted(int(i) for i in rng.permutation(len(cfgs) - 1)[:45] + 1)
        cfgs = [cfgs[i] for i in keep]
    return cfgs


def run_brew_cfg(inp, cfg, learner=None):
    c = copy.deepcopy(inp)
    c.update(cfg)
    if learner:
        c["est"] = learner
        c["direction"] = None
        tr = run_real_learner(c)
        vals = [int(round(s["num"] / s["den"] * 10 ** 6)) if not s["nan"] else -10 ** 9 for s in tr["scores"]]
        # real-valued scores were reconstructed as rationals only approximately: use the floats kept in info instead
        return {"cfg": str(cfg), "raised": tr["raised"], "vals": vals, "files": [], "digests": []}
    tr, info = brewrun.run_brew(c)
    if c.get("est") == "proba" and info["ret"] is not None:
        # probabilities are not small rationals: scaled integers (the group is compared within 2 units of 1e-6)
        vals = [int(round(float(v) * 10 ** 6)) if np.isfinite(v) else -10 ** 9
                for sc in info["ret"][2] for v in np.asarray(sc, dtype=float).reshape(-1)]
        return {"cfg": str(cfg), "raised": tr["raised"], "vals": vals, "files": [], "digests": [], "enforced": bool(info["enforced"])}
    vals = []
    for s in tr["scores"]:
        if s["nan"] or not s["ok"]:
            vals += [0, 0]
        else:
            f = Fraction(s["num"], s["den"])
            vals += [f.numerator, f.denominator]
    return {"cfg": str(cfg), "raised": tr["raised"], "vals": vals, "files": [], "digests": [],
            "enforced": bool(info["enforced"])}


# ---------------------------------------------------------------- assign_confidence
def conf_input(rng, j):
    n = int(rng.choice([12, 20, 30]))
    rows = random_table(rng, n)
    # tie free inside every group -> the retained sets are unique
    used = set()
    for r in rows:
        r["rank"] = int(rng.integers(1, 13))
    ranks = rng.permutation(12 * 4)[:n] + 1
    for r, k in zip(rows, ranks):
        r["rank"] = int(k) % 24 + 1
    while not tie_free(rows, 2):
        for r in rows:
            r["rank"] = int(rng.integers(1, 25))
    dedup, rollup = [(True, True), (False, True), (True, False), (False, False)][j % 4]
    if j % 3 == 2:
        # exact ties inside spectra / entities: which of the tied PSMs is kept must not depend on the chunking either
        # (on the pinned tree it does: known finding F-05c)
        rows = rows[:14]
        for r in rows:
            r["rank"] = int(rng.integers(1, 5))
    # a three-column spectrum key whose retention time is missing for every third spectrum (empty cell / Parquet null)
    return {"kind": "assign", "colls": [{"rows": rows}], "extra_levels": ["prec"], "dedup": dedup, "rollup": rollup,
            "decoys": True, "ties": bool(j % 3 == 2), "key_rt": ["missing", "full", None, "missing"][j % 4] if j % 3 != 2 else None,
            # whole-number masses written as integers in the text rendering (chunks are type-inferred one by one)
            "int_mass": j % 4 == 2 and j % 3 != 2}


def conf_configs(inp, rng, quick):
    n = len(inp["colls"][0]["rows"])
    cfgs = [{"chunk": 10 ** 6, "merge_chunk": 20000, "workers": 1, "fmt": "pin"}]
    for c in range(1, n + 2):
        cfgs.append({"chunk": c, "merge_chunk": [1, 2, 20000][c % 3], "workers": 1 + c % 4,
                     "fmt": "parquet" if c % 4 == 0 else "pin", "row_group": [1, 3, n][c % 3]})
    if quick:
        keep = [0] + sorted(int(i) for i in rng.permutation(len(cfgs) - 1)[:20] + 1)
        cfgs = [cfgs[i] for i in keep]
    return cfgs


def run_conf_cfg(inp, cfg):
    c = copy.deepcopy(inp)
    c.update(cfg)
    trs, _ = conf.run_assign(c)
    t = trs[0]
    files = []
    for f in sorted(t["files"], key=lambda f: (f["level"], f["td"])):
        rows = []
        for x in f["rows"]:
            q = Fraction(x["q"][0], x["q"][1]) if x["q"][2] else Fraction(-1, 1)
            rows.append([x["id"], x["s4"], q.numerator, q.denominator])
        files.append({"name": f["level"] + "." + f["td"], "rows": rows})
    return {"cfg": str(cfg), "raised": t["raised"] + ("" if not t["missing"] else " missing:%s" % t["missing"]),
            "vals": [], "files": files, "digests": []}


# ---------------------------------------------------------------- read_pin
def pin_input(rng, j):
    n = int(rng.choice([7, 15, 30]))
    nfeat = [1, 5, 16, 17, 18, 19, 20, 36, 37, 38, 40, 45][j % 12]
    rows = [{"id": i, "spec": 1 + i // 2, "pep": i, "tgt": bool(rng.random() < 0.5),
             "feats": [float(rng.integers(0, 50)) for _ in range(nfeat)]} for i in range(n)]
    nan_cols = [int(c) for c in rng.permutation(nfeat)[: j % 3]]
    return {"rows": rows, "nfeat": nfeat, "nan": nan_cols}


def pin_configs(inp, rng, quick):
    n = len(inp["rows"])
    cfgs = [{"col": 19, "row": 2000000, "workers": 1, "fmt": "pin"}]
    for col in range(2, 21):
        cfgs.append({"col": col, "row": [1, 3, n + 1][col % 3], "workers": 1 + col % 4, "fmt": "parquet" if col % 6 == 0 else "pin"})
    return cfgs


def run_pin_cfg(inp, cfg):
    import mokapot
    with tempfile.TemporaryDirectory() as d:
        df = mk.build_table(inp["rows"], nfeat=inp["nfeat"])
        for c in inp["nan"]:
            df.loc[df.index[len(df) // 2], "f%d" % c] = np.nan
        path = mk.write_table(df, Path(d) / ("x." + cfg["fmt"]))
        raised, vals, dig = "", [], []
        try:
            with mk.patched(CHUNK_SIZE_COLUMNS_FOR_DROP_COLUMNS=cfg["col"], CHUNK_SIZE_ROWS_FOR_DROP_COLUMNS=cfg["row"]):
                ds = mokapot.read_pin(path, max_workers=cfg["workers"])[0]
            sd = ds.spectra_dataframe
            vals = [len(sd)] + [int(bool(v)) for v in sd[ds.target_column].tolist()] + [int(v) for v in sd["ScanNr"].tolist()]
            dig = [",".join(ds.feature_columns), ",".join(ds.spectrum_columns), ",".join(ds.metadata_columns)]
        except Exception as e:
            raised = "%s: %s" % (type(e).__name__, str(e)[:120])
    return {"cfg": str(cfg), "raised": raised, "vals": vals, "files": [], "digests": dig}


def run(ctx):
    rng = np.random.default_rng(ctx.seed)
    ctx.phase("model_checking")
    ctx.model_check("Brew", "Brew_quick.cfg", note="OutcomeIsF over chunk sizes 1..3, 2 workers (all completion orders), cap subsets")
    ctx.model_check("Brew", "Brew_folds3.cfg", note="OutcomeIsF, 3 folds")
    ctx.model_check("Confidence", "Confidence_quick.cfg", note="OutcomeIsF over chunk sizes, tie orders, merge-list orders")
    ctx.model_check("Brew", "Brew_asis1.cfg", expect_violation="NeverFails", note="a chunk without a PSM of some fold (repaired: F-05)")
    ctx.model_check("Confidence", "Confidence_asis.cfg", expect_violation="PsmLevelOK", note="duplicates in the same vs different chunks (repaired: F-03)")
    orders, tp = feasible_orders()
    ctx.cov["states"] += tp.distinct
    ctx.cov["transitions"] += tp.generated
    ctx.cov["model_runs"].append({"module": "ThreadPool", "cfg": "ThreadPool.cfg", "distinct": tp.distinct,
                                  "note": "safety + termination for T<=4, W<=4; %d feasible completion orders emitted" % sum(len(v) for v in orders.values())})
    ctx.phase("generation")
    jobs = []      # (group id, kind, input, cfg, learner)
    groups = []
    nb, nc, npn = (8, 8, 12) if ctx.quick else (40, 40, 36)
    for j in range(nb):
        inp = brew_input(rng, j)
        if j % 4 == 2:
            inp["ensemble"] = True        # ensemble mode: every fold model scores every chunk, the scores are averaged
        if j % 4 == 1:
            inp["est"] = "proba"          # an estimator without decision_function (predict_proba only, no calibration)
        if j % 4 == 3:
            # a learner that is sensitive to the order of its training rows, with a training cap (the capped index list
            # is in rng.choice order): the training matrix must not depend on how the file was read
            inp["est"] = "order"
            inp["cap"] = sum(len(f["rows"]) for f in inp["files"]) // 2
        for learner in ((None,) if j % 3 else (None, "lr")):
            g = len(groups)
            groups.append({"kind": "brew", "input": inp, "learner": learner, "tol": 2 if (learner or inp.get("est") == "proba") else 0})
            cfgs = brew_configs(inp, orders, rng, ctx.quick)
            if learner:
                cfgs = cfgs[:12]
            for cfg in cfgs:
                jobs.append((g, cfg))
    for j in range(1 if ctx.quick else 4):
        # two jointly modelled files of very different size, an order-sensitive learner, no cap: the training table of a fold is the
        # per-file tables in FILE order, however long each file takes to read (with several workers the small file is done first)
        big = rows_from_shape([1 + k // 2 for k in range(700 + 100 * j)], rng)
        small = rows_from_shape([1 + k // 2 for k in range(14)], rng, id0=5000)
        for r in big + small:
            r["f"] = [int(rng.normal(70, 8)) if (r["tgt"] and rng.random() < 0.75) else int(rng.normal(30, 8)), int(rng.integers(0, 50))]
        inp = {"files": [{"rows": big}, {"rows": small}], "folds": 2 + j % 2, "thr": [1, 1], "train_thr": [1, 1], "seed": 40 + j, "est": "order",
               "override": True, "keyw": 2, "cap": None}
        g = len(groups)
        groups.append({"kind": "brew", "input": inp, "learner": None, "tol": 0})
        jobs.append((g, {"pred_chunk": 700000, "read_chunk": 200000, "workers": 1, "fmt": "pin"}))
        for w, rc in ((2, 200000), (3, 50), (4, 200000), (4, 311), (2, 97), (3, 200000)):
            jobs.append((g, {"pred_chunk": 700000, "read_chunk": rc, "workers": w, "fmt": "pin"}))
    for j in range(nc):
        inp = conf_input(rng, j)
        g = len(groups)
        groups.append({"kind": "conf", "input": inp, "learner": None, "tol": 0})
        for cfg in conf_configs(inp, rng, ctx.quick):
            jobs.append((g, cfg))
    for j in range(npn):
        inp = pin_input(rng, j)
        g = len(groups)
        groups.append({"kind": "pin", "input": inp, "learner": None, "tol": 0})
        for cfg in pin_configs(inp, rng, ctx.quick):
            jobs.append((g, cfg))
    ctx.phase("driving")

    def one(i):
        g, cfg = jobs[i]
        G = groups[g]
        try:
            if G["kind"] == "brew":
                return run_brew_cfg(G["input"], cfg, G["learner"])
            if G["kind"] == "conf":
                return run_conf_cfg(G["input"], cfg)
            return run_pin_cfg(G["input"], cfg)
        except Exception as e:
            import traceback
            return {"harness_error": "%s: %s %s" % (type(e).__name__, e, traceback.format_exc()[-600:])}
    one(0)
    res = pmap(one, len(jobs), chunk=8)
    traces = []
    for g, G in enumerate(groups):
        runs = []
        for (gg, cfg), r in zip(jobs, res):
            if gg != g:
                continue
            if "harness_error" in r:
                raise MachineryError("driver failed: " + r["harness_error"])
            r = dict(r)
            r.pop("enforced", None)
            r["raised_type"] = r["raised"].split(":")[0]
            runs.append(r)
            ctx.count((G["kind"], g, r["cfg"]))
        traces.append({"tid": g + 1, "tol": G["tol"], "runs": runs})
    ctx.cov["groups"] = {k: sum(1 for G in groups if G["kind"] == k) for k in ("brew", "conf", "pin")}
    ctx.cov["groups_whose_reference_run_fails"] = sum(1 for t in traces if t["runs"][0]["raised"])
    ctx.cov["schedules_enforced"] = sum(1 for r in res if r.get("enforced") is True and "schedule" in r.get("cfg", ""))
    ctx.sample({"group": "brew", "folds": groups[0]["input"]["folds"], "configs": [r["cfg"] for r in traces[0]["runs"][:4]],
                "scores_of_first_rows": traces[0]["runs"][0]["vals"][:8]})
    ci = next(i for i, G in enumerate(groups) if G["kind"] == "conf")
    ctx.sample({"group": "conf", "configs": [r["cfg"] for r in traces[ci]["runs"][:3]], "files": traces[ci]["runs"][0]["files"][:2]})
    ctx.phase("validation")
    verdicts = ctx.validate("RunsTrace", "Trace.cfg", traces, shards=16, max_per_shard=8)
    for t, G in zip(traces, groups):
        v = verdicts[t["tid"]]
        if not v["accept"]:
            bad = [t["runs"][i - 1] for i in (v.get("info") or []) if isinstance(i, int)][:3]
            ctx.reject({"group": G, "runs": [t["runs"][0]] + bad}, v["failed"],
                       {"api": {"brew": "brew", "conf": "assign_confidence", "pin": "read_pin"}[G["kind"]], "learner": G["learner"],
                        "differing_cfgs": [b["cfg"] for b in bad], "raised": sorted({b["raised"].split(":")[0] for b in bad if b["raised"]}),
                        "input_seed": G["input"].get("seed"), "nfeat": G["input"].get("nfeat"), "ties": bool(G["input"].get("ties", False)),
                        "flags": [G["input"].get("dedup"), G["input"].get("rollup")]})
    ctx.phase("negative_controls")
    bad = []
    crng = np.random.default_rng(ctx.seed + 11)
    for t in traces:
        if not verdicts[t["tid"]]["accept"] or len(t["runs"]) < 3:
            continue
        b = copy.deepcopy(t)
        r = b["runs"][int(crng.integers(1, len(b["runs"])))]
        if r["vals"]:
            r["vals"][int(crng.integers(0, len(r["vals"])))] += 3
        elif r["files"] and any(f["rows"] for f in r["files"]):
            f = next(f for f in r["files"] if f["rows"])
            f["rows"][0] = [f["rows"][0][0], f["rows"][0][1], f["rows"][0][2] + 1, f["rows"][0][3] + 1]
        else:
            r["raised"], r["raised_type"] = "ValueError: injected", "Injected"
        b["tid"] = len(bad) + 1
        bad.append(b)
        b2 = copy.deepcopy(t)
        b2["runs"][-1]["raised"] = "ValueError: No PSMs were detected."
        b2["runs"][-1]["raised_type"] = "ValueError" if b2["runs"][0]["raised_type"] != "ValueError" else "KeyError"
        b2["tid"] = len(bad) + 1
        bad.append(b2)
    ctx.negative_controls("RunsTrace", "Trace.cfg", bad, name="one run's outcome changed / one run fails", shards=16, max_per_shard=8)
    ctx.assume("conf inputs are tie free inside every group so that the retained sets are unique; rows of equal score may be "
               "ordered differently between runs, files are compared as sets of rows")
    ctx.assume("real-learner scores are compared as round(score*1e6) within 2 units (floating-point summation error)")
    ctx.assume("pyarrow's iter_batches delivers full batches regardless of row groups (TabularRead.tla ASSUME; exercised with row groups 1..n+5)")
    return ctx.finish(
        rule="a case = (input, configuration): for every input the real code is run under a reference configuration and under every "
             "prediction / confidence chunk size 1..n+1 (quick: a seeded sample of 45 resp. 20), rotating training-read / merge-sort "
             "chunk sizes, workers 1..4, every pool-feasible completion order of the fold fits (from ThreadPool.tla), text vs Parquet "
             "with row groups 1..n+5; read_pin under every column-scan chunk size 2..20 x row-scan chunk x workers; distinct = distinct "
             "(input, configuration)", exhaustive=not ctx.quick)


def replay(ctx, case):
    G = case["case"]["group"]
    runs = case["case"]["runs"]
    out = []
    for r in runs:
        cfg = eval(r["cfg"], {"__builtins__": {}}, {})
        if G["kind"] == "brew":
            out.append(run_brew_cfg(G["input"], cfg, G["learner"]))
        elif G["kind"] == "conf":
            out.append(run_conf_cfg(G["input"], cfg))
        else:
            out.append(run_pin_cfg(G["input"], cfg))
        out[-1].pop("enforced", None)
        out[-1]["raised_type"] = out[-1]["raised"].split(":")[0]
        ctx.count(r["cfg"])
    t = {"tid": 1, "tol": G["tol"], "runs": out}
    v = ctx.validate("RunsTrace", "Trace.cfg", [t])[1]
    if not v["accept"]:
        ctx.reject({"group": G, "runs": out}, v["failed"], {"api": G["kind"], "replay": True})
    ctx.sample({"cfgs": [r["cfg"] for r in out]})
    return ctx.finish(rule="replay of one recorded group")
