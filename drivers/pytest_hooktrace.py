"""pytest plugin (loaded with -p drivers.pytest_hooktrace): every test of the repository's own suite writes the events of
the guarded hooks (mokapot/_verif_trace.py) to its own NDJSON file under $HOOKTRACE_DIR; outcomes go to outcomes.ndjson."""
import json
import os
import re

import pytest

_D = os.environ.get("HOOKTRACE_DIR")
_STATE = {}


def _file(nodeid):
    return re.sub(r"[^A-Za-z0-9_.-]", "_", nodeid)[-180:] + ".ndjson"


@pytest.hookimpl(tryfirst=True)
def pytest_runtest_setup(item):
    if _D:
        os.environ["MOKAPOT_VERIF_TRACE"] = os.path.join(_D, _file(item.nodeid))
        _STATE[item.nodeid] = "passed"


def pytest_runtest_logreport(report):
    if not _D:
        return
    if report.outcome != "passed":
        _STATE[report.nodeid] = report.outcome
    if report.when == "teardown":
        with open(os.path.join(_D, "outcomes.ndjson"), "a") as fh:
            fh.write(json.dumps({"nodeid": report.nodeid, "file": _file(report.nodeid),
                                 "outcome": _STATE.get(report.nodeid, "passed")}) + "\n")
        os.environ.pop("MOKAPOT_VERIF_TRACE", None)
