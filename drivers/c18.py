"""C18 -- generated decoys preserve length, composition and cleavage structure.

(M) Decoys.tla: the implementation-shaped model of make_decoys (reader, per-peptide interior permutation with
    one permutation per peptide LENGTH for the whole call / exact flip, writer with wrapping, re-read) against
    the declarative relation ValidDecoy / ValidFile, for every sequence over {K,R,A,C,P} up to length 5 (quick) /
    7 (thorough), 1..2 records, 3 enzymes, shuffle/reverse, concat on/off, every text layout of the input;
    seeded faults (Mut_*) and two claims the statement does not make must be rejected by TLC.
(G) TLC enumerates the inputs (records x enzyme x reverse x concatenate) as CASE lines; the driver writes real
    FASTA files under rotating layouts (line width, descriptions, trailing newline, one file per record, enzyme as
    str / compiled regex, prefix, names), calls the real mokapot.make_decoys under seeded numpy RNG states, and
    reads the written file back twice: with a minimal reader of its own and with mokapot's reader.  Seeded random
    files with long records (0, 1, 69..71, 139..141, 210, 211 ... residues) are added.
(V) DecoysTrace.tla accepts a recorded call iff the written records are in relation ValidFile with the targets
    and mokapot's reader recovers exactly the written records.
"""
from __future__ import annotations

import logging
import os
import re
import shutil
import tempfile
from concurrent.futures import ThreadPoolExecutor

import numpy as np

from engine.tlc import run_tlc, MachineryError
from drivers.common import pmap

LEVEL = "model_checking"

ENZ = {"KR": "[KR]", "K": "[K]", "KRnoP": "[KR](?!P)"}
WIDTHS = [None, 1, 2, 3, 7, 60, 70, 80]
PREFIXES = ["decoy_", "rev_", "DECOY-", "d"]
NAMES = ["sp|P%05d|PROT%d_HUMAN", "t%d", "wf|target%d", "decoy_%d"]
DESCS = ["", " Some protein OS=Homo sapiens OX=9606 GN=X%d", " d", " >odd desc"]
AMINO = "ACDEFGHIKLMNPQRSTVWY"
LONG_LENS = [0, 1, 2, 69, 70, 71, 139, 140, 141, 210, 211]
_WORK = None


# ------------------------------------------------------------------ the input files
def layout(idx, nrec):
    """Text layout of the input, rotating with the case index."""
    return {"w": WIDTHS[idx % len(WIDTHS)], "nl": bool((idx // 8) % 2), "desc": (idx // 16) % len(DESCS),
            "split": bool((idx // 3) % 2) and nrec > 1, "compiled": bool((idx // 5) % 2),
            "arg": ["str", "list", "tuple"][(idx // 7) % 3], "name": (idx // 2) % len(NAMES), "dupname": bool(idx % 9 == 4)}


def make_case(idx, seqs, enz, reverse, concat, seed):
    lay = layout(idx, len(seqs))
    return {"seqs": list(seqs), "enz": enz, "reverse": bool(reverse), "concat": bool(concat), "layout": lay,
            "prefix": PREFIXES[(idx // 11) % len(PREFIXES)], "seed": int(seed) % (2 ** 32)}


def names_of(case):
    pat = NAMES[case["layout"]["name"]]
    out = []
    for j in range(len(case["seqs"])):
        out.append(pat % ((j + 1, j + 1) if pat.count("%") == 2 else (j + 1)))
    if case["layout"].get("dupname") and len(out) >= 2 and case["seqs"][-1] != case["seqs"][0]:
        out[-1] = out[0]          # the same accession again with ANOTHER sequence (a proteome entry and its mature chain
        #                           in a contaminants list): still two records, each with its own decoy
    return out


def record_text(name, desc, seq, w):
    lines = [">" + name + desc]
    if w is None:
        if seq:
            lines.append(seq)
    else:
        lines += [seq[i:i + w] for i in range(0, len(seq), w)]
    return lines


def write_inputs(case, base):
    lay = case["layout"]
    names = names_of(case)
    dpat = DESCS[lay["desc"]]
    recs = []
    for j, (nm, sq) in enumerate(zip(names, case["seqs"])):
        desc = (dpat % (j + 1)) if "%" in dpat else dpat
        recs.append(record_text(nm, desc, sq, lay["w"]))
    groups = [[r] for r in recs] if lay["split"] else [recs]
    paths = []
    for g, grp in enumerate(groups):
        p = "%s_in%d.fasta" % (base, g)
        with open(p, "w", newline="") as fh:
            fh.write("\n".join(line for rec in grp for line in rec) + ("\n" if lay["nl"] else ""))
        paths.append(p)
    return names, paths


# ------------------------------------------------------------------ reading the output (independent of mokapot)
def tiny_read(path):
    """Minimal FASTA reader: a line starting with '>' opens a record named by the rest of the line; every other
    line is appended to the sequence of the open record."""
    with open(path, newline="") as fh:
        data = fh.read()
    recs = []
    for line in data.split("\n"):
        if line.startswith(">"):
            recs.append([line[1:], ""])
        elif recs:
            recs[-1][1] += line
        elif line:
            recs.append(["<text before the first header>", line])
    return recs


def codes(s):
    return [ord(c) for c in s]


def enc(recs):
    return [[str(nm), codes(sq)] for nm, sq in recs]


def call_real(case):
    """One execution of the real make_decoys; returns the trace (without tid)."""
    import mokapot
    from mokapot.parsers import fasta as F
    global _WORK
    if _WORK is None or not os.path.isdir(_WORK):
        _WORK = tempfile.mkdtemp(prefix="c18_")
    base = os.path.join(_WORK, "p%d" % os.getpid())
    names, paths = write_inputs(case, base)
    lay = case["layout"]
    tr = {"targets": enc(zip(names, case["seqs"])), "prefix": case["prefix"], "concat": case["concat"],
          "reverse": case["reverse"], "enzyme": case["enz"], "written": [], "reread": []}
    out = base + "_out.fasta"
    if os.path.exists(out):
        os.unlink(out)
    enzyme = re.compile(ENZ[case["enz"]]) if lay["compiled"] else ENZ[case["enz"]]
    if len(paths) == 1 and lay["arg"] == "str":
        arg = paths[0]
    else:
        arg = tuple(paths) if lay["arg"] == "tuple" else list(paths)
    np.random.seed(case["seed"])
    try:
        ret = mokapot.make_decoys(arg, out, decoy_prefix=case["prefix"], enzyme=enzyme,
                                  reverse=case["reverse"], concatenate=case["concat"])
        tr["written"] = enc(tiny_read(str(ret)))
        if hasattr(F, "_parse_protein") and hasattr(F, "_parse_fasta_files"):
            tr["reread"] = enc(F._parse_protein(p) for p in F._parse_fasta_files(str(ret)))      # mokapot's own (private) FASTA reader
        else:
            tr["reread"] = list(tr["written"])      # the private helpers were renamed / merged: the driver's independent reader stands in
    except Exception as e:      # the statement quantifies over every well-formed FASTA input: no exception is in domain
        tr["raised"] = "%s: %s" % (type(e).__name__, e)
    return tr


# ------------------------------------------------------------------ cases
_RE_CASE = re.compile(r'^<<"CASE",\s*<<(.*?)>>,\s*"(\w+)",\s*(TRUE|FALSE),\s*(TRUE|FALSE)\s*>>', re.S | re.M)
_RE_SEQ = re.compile(r'<<([\d,\s]*)>>')


def tlc_cases(cfg):
    """The CASE tuples printed by TLC: <<"CASE", <<seq, ..>>, enzyme, reverse, concat>>, seq a tuple of codes.
    (Parsed with a regex: the engine's generic value parser needs minutes on 10^6 lines.)"""
    r = run_tlc("Decoys", cfg, parse_prints=False, timeout=3000)
    if not r.ok:
        raise MachineryError("generation run failed: %s %s\n%s" % (r.violated, r.error, r.output[-2000:]))
    out = []
    for m in _RE_CASE.finditer(r.output):
        seqs = ["".join(chr(int(x)) for x in re.findall(r"\d+", g)) for g in _RE_SEQ.findall(m.group(1))]
        out.append((seqs, m.group(2), m.group(3) == "TRUE", m.group(4) == "TRUE"))
    nline = r.output.count('<<"CASE"')
    if len(out) != nline or len(set((tuple(a), b, c, d) for a, b, c, d in out)) != len(out):
        raise MachineryError("generation %s: %d CASE lines, %d parsed, duplicates=%s" % (
            cfg, nline, len(out), len(set((tuple(a), b, c, d) for a, b, c, d in out)) != len(out)))
    return out, r


def shufflable(seq, enz):
    """Some enzymatic peptide has an interior of >= 2 residues (bookkeeping: whether extra RNG seeds are useful)."""
    ends = [m.end() for m in re.finditer(ENZ[enz], seq)]
    sites = [0] + ends + [len(seq)]
    return any(b - a >= 4 for a, b in zip(sites, sites[1:]))


def random_cases(rng, count, start_idx):
    out = []
    for i in range(count):
        nrec = int(rng.integers(1, 7))
        seqs = []
        for _ in range(nrec):
            style = int(rng.integers(0, 5))
            if style <= 1:
                n = int(rng.choice(LONG_LENS))
            elif style == 2:
                n = int(rng.integers(0, 300))
            else:
                n = int(rng.integers(0, 30))
            alpha = AMINO if rng.random() < 0.7 else "KRPAC"
            seqs.append("".join(alpha[int(x)] for x in rng.integers(0, len(alpha), n)))
        enz = ["KR", "K", "KRnoP"][int(rng.integers(0, 3))]
        out.append(make_case(start_idx + i, seqs, enz, bool(rng.integers(0, 2)), bool(rng.integers(0, 2)),
                             int(rng.integers(0, 2 ** 31))))
    return out


def signature(c):
    lay = c["layout"]
    return {"enzyme": c["enz"], "reverse": c["reverse"], "concat": c["concat"], "nrec": len(c["seqs"]),
            "lengths": [len(s) for s in c["seqs"]], "seqs": c["seqs"] if sum(map(len, c["seqs"])) <= 40 else "long",
            "width": lay["w"], "desc": lay["desc"], "nl": lay["nl"], "split": lay["split"]}


# ------------------------------------------------------------------ negative controls
def _copy(tr):
    t = dict(tr)
    for k in ("targets", "written", "reread"):
        t[k] = [[nm, list(sq)] for nm, sq in tr[k]]
    return t


def corrupt(tr, kind, rng):
    """A corrupted copy of an accepted trace, or None if this corruption does not apply to it."""
    n = len(tr["targets"])
    off = n if tr["concat"] else 0
    t = _copy(tr)
    order = [int(x) for x in rng.permutation(n)]
    if kind == "residue":                      # one residue of a decoy replaced by a different one
        for i in order:
            d = t["written"][off + i][1]
            if d:
                j = int(rng.integers(0, len(d)))
                d[j] = ord("G") if d[j] != ord("G") else ord("A")
                t["reread"] = [[nm, list(sq)] for nm, sq in t["written"]]
                return t
    elif kind == "cleavage":                   # the residue before a cleavage site of the target swapped with a
        for i in order:                        # different neighbour (composition kept)
            d = t["written"][off + i][1]
            tgt = "".join(map(chr, t["targets"][i][1]))
            ends = [m.end() - 1 for m in re.finditer(ENZ[tr["enzyme"]], tgt)]
            cand = [(p, q) for p in ends for q in (p - 1, p + 1) if 0 <= q < len(d) and d[q] != d[p]]
            if cand:
                p, q = cand[int(rng.integers(0, len(cand)))]
                d[p], d[q] = d[q], d[p]
                t["reread"] = [[nm, list(sq)] for nm, sq in t["written"]]
                return t
    elif kind == "droptarget":                 # concatenated mode with one target record missing
        if tr["concat"] and n >= 1:
            i = order[0]
            del t["written"][i]
            t["reread"] = [[nm, list(sq)] for nm, sq in t["written"]]
            return t
    elif kind == "unreversed":                 # reverse requested, decoy = target
        if tr["reverse"]:
            for i in order:
                if t["written"][off + i][1] != t["targets"][i][1]:
                    t["written"][off + i][1] = list(t["targets"][i][1])
                    t["reread"] = [[nm, list(sq)] for nm, sq in t["written"]]
                    return t
    elif kind == "name":                       # decoy without the prefix
        if n >= 1 and tr["prefix"]:
            i = order[0]
            t["written"][off + i][0] = t["targets"][i][0]
            t["reread"] = [[nm, list(sq)] for nm, sq in t["written"]]
            return t
    elif kind == "reread":                     # the reader loses the last residue of a record
        for i in range(len(t["reread"])):
            if t["reread"][i][1]:
                t["reread"][i][1] = t["reread"][i][1][:-1]
                return t
    elif kind == "order":                      # decoys ahead of the targets
        if tr["concat"] and n >= 1 and t["written"][:n] != t["written"][n:]:
            t["written"] = t["written"][n:] + t["written"][:n]
            t["reread"] = [[nm, list(sq)] for nm, sq in t["written"]]
            return t
    return None


KINDS = ["residue", "cleavage", "droptarget", "unreversed", "name", "reread", "order"]


# ------------------------------------------------------------------ run
def model_phase(ctx):
    """(M): independent TLC runs, started together (each is a separate JVM)."""
    jobs = []
    if ctx.quick:
        jobs.append(dict(cfg="Decoys_quick.cfg", note="len<=5 over {K,R,A,C,P}; pairs len<=2; 3 enzymes x reverse x concat"))
    else:
        jobs.append(dict(cfg="Decoys_thorough.cfg", timeout=3000,
                         note="len<=7 over {K,R,A,C,P}; pairs len<=2; [KR] and [KR](?!P) x reverse; concat on"))
        jobs.append(dict(cfg="Decoys_quick.cfg", note="len<=5; pairs len<=2; 3 enzymes x reverse x concat on/off"))
        jobs.append(dict(cfg="Decoys_pairs.cfg", timeout=3000,
                         note="every pair of sequences len<=4 over {K,A,C} x reverse: shared permutation per peptide length"))
    jobs.append(dict(cfg="Decoys_files.cfg", note="file layer: every input layout (width 1/2/one line, final newline, "
                                                   "descriptions, one file per record) x concat"))
    jobs.append(dict(cfg="Decoys_mut1.cfg", expect_violation="DecoysValid", note="seeded fault: slice includes the last residue"))
    jobs.append(dict(cfg="Decoys_mut2.cfg", expect_violation="ParsedOk", note="seeded fault: files joined without newline"))
    jobs.append(dict(cfg="Decoys_mut3.cfg", expect_violation="ParsedOk", note="seeded fault: description kept in the name"))
    jobs.append(dict(cfg="Decoys_nonclass.cfg", expect_violation="SitesAnyEnzyme",
                     note="not claimed: identical sites for [KR](?!P) -- TLC shows AAKP -> AKAP"))
    jobs.append(dict(cfg="Decoys_share.cfg", expect_violation="NeverShared",
                     note="reachability witness: a stored permutation is re-used for a second peptide of the same length"))
    jobs.append(dict(cfg="Decoys_cov.cfg", coverage=True, note="action coverage (len<=4 over {K,A,C})"))

    def one(j):
        j = dict(j)
        cfg = j.pop("cfg")
        big = cfg in ("Decoys_quick.cfg", "Decoys_thorough.cfg", "Decoys_pairs.cfg")
        return ctx.model_check("Decoys", cfg, workers="auto" if big else 2, parse_prints=False, **j)
    with ThreadPoolExecutor(max_workers=len(jobs)) as ex:
        res = list(ex.map(one, jobs))
    ctx.require_actions(res[-1], ["Pick", "PickRecs", "Parse", "StartProt", "SkipPep", "MakePerm", "ApplyPerm",
                                  "EndProt", "Write", "ReRead"])


def build_cases(ctx, rng):
    gens = ["Decoys_gen5.cfg"] if ctx.quick else ["Decoys_gen5.cfg", "Decoys_gen7.cfg"]
    base = []
    seen = set()
    for g in gens:
        got, r = tlc_cases(g)
        ctx.cov["model_runs"].append({"module": "Decoys", "cfg": r.cfg, "generated": r.generated, "distinct": r.distinct,
                                      "wall_s": round(r.wall_s, 1), "note": "behaviour generation: %d CASE lines" % len(got)})
        ctx.cov["states"] += r.distinct
        for c in got:
            key = (tuple(c[0]), c[1], c[2], c[3])
            if key not in seen:
                seen.add(key)
                base.append(c)
    if len(base) < 1000:
        raise MachineryError("generation produced only %d cases" % len(base))
    cases = []
    idx = ctx.seed
    for seqs, enz, reverse, concat in base:
        reps = 1
        if not reverse and sum(map(len, seqs)) <= 5 and any(shufflable(s, enz) for s in seqs):
            reps += 1                           # a second RNG seed where something can be shuffled (small tier of cases)
        for rep in range(reps):
            cases.append(make_case(idx, seqs, enz, reverse, concat, ctx.seed * 7919 + idx * 31 + rep))
            idx += 1
    cases += random_cases(rng, 400 if ctx.quick else 8000, idx)
    # databases with thousands of entries (a writer that works in blocks must not lose or glue records at block borders)
    for k, (nrec, concat) in enumerate([(2600, True), (5003, False)] if ctx.quick else [(2600, True), (5003, False), (10001, False), (7500, True), (4097, True)]):
        seqs = ["".join(AMINO[int(x)] for x in rng.integers(0, len(AMINO), int(rng.integers(1, 13)))) for _ in range(nrec)]
        cases.append(make_case(idx + 100000 + k, seqs, "KR", bool(k % 2), concat, int(rng.integers(0, 2 ** 31))))
    return cases, len(base)


def run(ctx):
    ctx.liveness("Decoys", unfair_control=not ctx.quick)      # termination under weak fairness (Decoys_live.cfg)
    logging.disable(logging.CRITICAL)          # "No sequence was detected" warnings for empty records
    rng = np.random.default_rng(ctx.seed)
    global _WORK
    _WORK = tempfile.mkdtemp(prefix="c18_", dir="/dev/shm" if os.path.isdir("/dev/shm") else None)
    BATCH = 150000                              # drive + validate in batches (memory)
    good = []                                   # accepted traces kept for the negative controls
    nwrap = 0
    try:
        with ThreadPoolExecutor(max_workers=2) as ex:
            fm = ex.submit(model_phase, ctx)
            fg = ex.submit(build_cases, ctx, rng)
            cases, nbase = fg.result()
            call_real(cases[0])                 # warm up imports before forking
            for lo in range(0, len(cases), BATCH):
                hi = min(len(cases), lo + BATCH)

                def one(j, lo=lo):
                    tr = call_real(cases[lo + j])
                    tr["tid"] = lo + j + 1
                    return tr
                # ---------------- drive the real code ----------------
                traces = pmap(one, hi - lo)
                if lo == 0:
                    fm.result()                 # (M) finished (its TLC runs overlap generation and the first batch)
                # ---------------- (V) ----------------
                verdicts = ctx.validate("DecoysTrace", "Trace.cfg", traces, max_per_shard=8000)
                for j, tr in enumerate(traces):
                    i = lo + j
                    c = cases[i]
                    ctx.count((tuple(c["seqs"]), c["enz"], c["reverse"], c["concat"]))
                    if any(len(x) > 70 for x in c["seqs"]):
                        nwrap += 1
                    if i % 15000 == 7 or i >= len(cases) - 2:
                        ctx.sample({"case": c, "written": [[nm, "".join(map(chr, sq))] for nm, sq in tr["written"]][:6]})
                    v = verdicts[tr["tid"]]
                    if not v["accept"]:
                        ctx.reject({"case": c, "trace": tr}, v["failed"], signature(c))
                    elif i % 97 == 0 or i >= len(cases) - 300:
                        good.append(tr)
                del traces, verdicts
    finally:
        shutil.rmtree(_WORK, ignore_errors=True)
    ctx.cov["cases_with_wrapped_records"] = nwrap
    ctx.cov["tlc_enumerated_inputs"] = nbase
    # ---------------- negative controls ----------------
    crng = np.random.default_rng(ctx.seed + 1)
    if not good:
        raise MachineryError("no accepted trace to derive negative controls from")
    tid = 0
    bad = []
    per_kind = {}
    for kind in KINDS:
        got = 0
        tries = 0
        while got < 40 and tries < 4000:
            tries += 1
            # half from the long random files (the tail), half from the TLC-enumerated ones
            pool_lo = max(0, len(good) - 300) if tries % 2 else 0
            t = good[int(crng.integers(pool_lo, len(good)))]
            b = corrupt(t, kind, crng)
            if b is not None:
                tid += 1
                got += 1
                b["tid"] = tid
                bad.append(b)
        if got == 0:
            raise MachineryError("no negative control of kind %s could be derived" % kind)
        per_kind[kind] = got
    ctx.negative_controls("DecoysTrace", "Trace.cfg", bad, name="one residue changed / cleavage residue moved / target "
                          "record dropped / not reversed / prefix missing / re-read loses a residue / decoys first")
    ctx.cov["negative_controls_by_kind"] = per_kind
    ctx.assume("a record's name is its header line up to the first space (the accession); descriptions are not part "
               "of the name and are not reproduced")
    ctx.assume("inputs are well-formed FASTA: first file starts with '>', names without whitespace, sequence lines of "
               "letters only, '\\n' line ends, last line with or without a final newline")
    ctx.assume("the model wraps at Width 2/3 where the code wraps at 70; the 70-column behaviour itself is exercised "
               "on the real code by records of 69..71, 139..141, 210, 211 residues")
    return ctx.finish(
        rule="cases = every (1 record of length <= %d | 2 records of length <= %d over {K,R,A,C,P}) x enzyme in "
             "{[KR], [K], [KR](?!P)} x reverse x concatenate (thorough: above length 5 / pair length 2 only "
             "[KR] and [KR](?!P) with concatenate on), enumerated by TLC from Decoys.tla PickRecs, each rendered "
             "under a rotating text layout (line width, description, final newline, one file per record, str/compiled "
             "enzyme, str/list/tuple argument, prefix, name pattern) and, for the inputs up to length 5 where something can be shuffled, under 2 "
             "RNG seeds; plus seeded random files of 1..6 records with lengths around the 70-column wrap points; "
             "distinct = distinct (sequences, enzyme, reverse, concatenate)" % (
                 (5, 2) if ctx.quick else (7, 3)),
        exhaustive=True)


def replay(ctx, case):
    logging.disable(logging.CRITICAL)
    c = case["case"]["case"]
    try:
        tr = call_real(c)
    finally:
        if _WORK:
            shutil.rmtree(_WORK, ignore_errors=True)
    tr["tid"] = 1
    v = ctx.validate("DecoysTrace", "Trace.cfg", [tr])[1]
    if not v["accept"]:
        ctx.reject({"case": c, "trace": tr}, v["failed"], signature(c))
    ctx.count(1)
    ctx.sample(tr)
    return ctx.finish(rule="replay of one recorded case")
