"""C12 -- training feeds the estimator rows and labels of the same PSM, in any order.

(M) ModelFit.tla: the index bookkeeping of Model.fit (shuffle / un-shuffle / re-shuffle, label update, feeding,
    predict) against a declarative layer that knows no positions, no rng and no shuffle switch; every dataset with
    n <= 4 (5) rows x every permutation the rng can return x both switches x train_fdr x 1..3 iterations.
    AsIs_UnconditionalUnshuffle = TRUE (the code as it stands) is refuted by TLC, and holds again when restricted
    to shuffle = TRUE; three seeded faults must be caught.
(G) TLC prints every explored run as a CASE line (dataset, train_fdr, shuffle, rng permutation, max_iter, predicted
    outcome and predictions).  The driver builds the LinearPsmDataset (feature 0 = row id), runs the real Model.fit
    with a recording deterministic estimator (IntEst = ModelFit!Est on the real matrix; the rng is a Generator whose
    permutation() returns the CASE's permutation) and records EstFit / EstScore / Predict.  Variants of one case:
    shuffle on, shuffle off, rows of the dataset permuted; prediction with permuted feature columns and after
    save / load_model.  Seeded random datasets (50-300 rows, 1..10 iterations, train_fdr in {1, 1/2, 1/4, 0.3701},
    decision_function / predict_proba-only estimators, real LogisticRegression / LinearSVC) go the same way.
(V) ModelFitTrace.tla decides every recorded run (labels recomputed by TLC with TdcDef!QMap from the recorded
    integer scores; predictions of the variants compared row by row).
"""
from __future__ import annotations

import re
import shutil
import tempfile
from concurrent.futures import ThreadPoolExecutor
from pathlib import Path

import numpy as np
import pandas as pd
from sklearn.base import BaseEstimator, ClassifierMixin, clone

from engine.tlc import run_tlc, MachineryError
from drivers.common import pmap

LEVEL = "model_checking"

SCALE = 10 ** 6            # predictions of real estimators are recorded as round(SCALE * score)
EPS_REAL = 100             # = 1e-4 in score units (observed: 1e-6): tolerance between two fits of a real estimator on the same pairs
PROBA_DEN = float(2 ** 22)
THRS = [(1, 1), (1, 2), (1, 4), (3701, 10000)]
_REC = {}
_NEXT = [0]


def new_token():
    _NEXT[0] += 1
    _REC[_NEXT[0]] = []
    return _NEXT[0]


# ------------------------------------------------------------------ estimators (module level: they are pickled)
class IntEst(BaseEstimator, ClassifierMixin):
    """ModelFit!Est on the real matrix.  Column 0 of X is the row id.  After its k-th fit the score of a row is
           3 * X[row, cols[(k - 1) % len(cols)]] + memo(row)
       memo = 2 / 0 / 1 if the row was handed to that fit as positive / as negative / not at all (it learns: a row
       fed with the label of another row is scored differently).  proba: "" -> decision_function; "2col" / "1col" /
       "flat" -> predict_proba only (strictly increasing exact image 1/2 + score / 2^22 of the integer score)."""

    def __init__(self, cols=(2, 1), proba="", token=0, offset=0):
        self.cols, self.proba, self.token, self.offset = cols, proba, token, offset

    def fit(self, X, y):
        self.k_ = getattr(self, "k_", 0) + 1
        self.classes_ = np.array([0, 1])
        ids = [int(round(v)) for v in X[:, 0]]
        y2 = [float(v) * 2 for v in y]
        self.seen_ = {i: int(round(v)) for i, v in zip(ids, y2)}
        rec = _REC.get(self.token)
        if rec is not None:
            rec.append(("fit", self.k_, ids, [int(round(v)) for v in y2], all(float(v).is_integer() for v in y2)))
        return self

    def _raw(self, X):
        k = self.__dict__.get("k_", 0)
        col = self.cols[(k - 1) % len(self.cols)]
        ids = [int(round(v)) for v in X[:, 0]]
        seen = self.__dict__.get("seen_", {})
        s = 3.0 * X[:, col].astype(float) + np.array([float(seen.get(i, 1)) for i in ids]) + float(self.__dict__.get("offset", 0))
        rec = _REC.get(self.token)
        if rec is not None:
            rec.append(("score", k, ids, [float(v) for v in s]))
        return s

    def __getattr__(self, name):
        if name == "decision_function" and self.__dict__.get("proba", "") == "":
            return self._raw
        raise AttributeError(name)

    def predict_proba(self, X):
        p = 0.5 + self._raw(X) / PROBA_DEN
        how = self.proba or "2col"
        if how == "2col":
            return np.column_stack([1.0 - p, p])
        if how == "1col":
            return p.reshape(-1, 1)
        return p


class SearchEst(BaseEstimator, ClassifierMixin):
    """Recording estimator used INSIDE a GridSearchCV: every fit records the (row id, label) pairs it receives."""

    def __init__(self, c=1.0, token=0):
        self.c, self.token = c, token

    def fit(self, X, y):
        self.classes_ = np.array([0, 1])
        rec = _REC.get(self.token)
        if rec is not None:
            rec.append(("sfit", [int(round(v)) for v in X[:, 0]], [int(round(float(v) * 2)) for v in y]))
        return self

    def decision_function(self, X):
        return self.c * X[:, 1].astype(float)

    def predict(self, X):
        d = self.decision_function(X)
        return (d > np.median(d)).astype(int)


class RealEst(BaseEstimator, ClassifierMixin):
    """A real scikit-learn learner behind a recorder; the row-id column is stripped before the learner sees X."""

    def __init__(self, inner=None, proba=False, token=0):
        self.inner, self.proba, self.token = inner, proba, token

    def fit(self, X, y):
        self.k_ = getattr(self, "k_", 0) + 1
        self.classes_ = np.array([0, 1])
        y2 = [float(v) * 2 for v in y]
        rec = _REC.get(self.token)
        if rec is not None:
            rec.append(("fit", self.k_, [int(round(v)) for v in X[:, 0]], [int(round(v)) for v in y2],
                        all(float(v).is_integer() for v in y2)))
        self.inner_ = clone(self.inner).fit(X[:, 1:], np.asarray(y))
        return self

    def _raw(self, X):
        if self.proba:
            s = self.inner_.predict_proba(X[:, 1:])[:, 1]
        else:
            s = self.inner_.decision_function(X[:, 1:])
        rec = _REC.get(self.token)
        if rec is not None:
            rec.append(("score", self.__dict__.get("k_", 0), [int(round(v)) for v in X[:, 0]], [float(v) for v in s]))
        return s

    def __getattr__(self, name):
        if name == "decision_function" and not self.__dict__.get("proba", False):
            return self._raw
        raise AttributeError(name)

    def predict_proba(self, X):
        p = self._raw(X)
        return np.column_stack([1.0 - p, p])


class FixedPerm(np.random.Generator):
    """A numpy Generator (public `rng` argument of Model) whose permutation() returns a prescribed permutation:
    the rng is environment nondeterminism, TLC enumerates what it may return."""

    def __init__(self, perm):
        super().__init__(np.random.PCG64(0))
        self._perm = [int(p) for p in perm]

    def permutation(self, x, axis=0):
        n = x if isinstance(x, (int, np.integer)) else len(x)
        if n != len(self._perm):
            # the code asks for a permutation of something else than all rows (e.g. only of the rows it trains on): any
            # permutation is a legitimate answer of the environment -- the property does not depend on which one
            return super().permutation(x, axis=axis)
        if not isinstance(x, (int, np.integer)):
            return np.asarray(x)[np.asarray(self._perm, dtype=np.int64)]
        return np.asarray(self._perm, dtype=np.int64)


def make_estimator(spec, token):
    kind = spec["kind"]
    if kind == "int":
        return IntEst(cols=tuple(spec["cols"]), proba=spec.get("proba", ""), token=token, offset=int(spec.get("offset", 0)))
    from sklearn.linear_model import LogisticRegression
    from sklearn.svm import LinearSVC
    if kind == "lr":
        return RealEst(LogisticRegression(C=1.0, tol=1e-10, max_iter=5000), proba=False, token=token)
    if kind == "lr_proba":
        return RealEst(LogisticRegression(C=0.05, tol=1e-10, max_iter=5000), proba=True, token=token)
    if kind == "svc":
        return RealEst(LinearSVC(dual=False, C=0.5, tol=1e-10, max_iter=20000), proba=False, token=token)
    raise ValueError(kind)


# ------------------------------------------------------------------ running the real code
def build_dataset(case, order, colorder=None):
    """rows in `order` (list of ids 1..n); feature columns `id` + case['names'] (in colorder, if given)"""
    import mokapot
    idx = [i - 1 for i in order]
    cols = {"id": [float(i) for i in order]}
    for name in case["names"]:
        cols[name] = [float(case["feats"][name][i]) for i in idx]
    feat_names = ["id"] + list(case["names"])
    if colorder is not None:
        feat_names = [feat_names[j] for j in colorder]
    d = {"tgt": [bool(case["tgt"][i]) for i in idx], "spec": [int(i) for i in order],
         "pep": ["PEP%d" % i for i in order]}
    # frame_rot: the columns stand in the table in ANOTHER order than the declared feature list (the declared order is the
    # order of the feature matrix)
    frame_names = (feat_names[1:] + feat_names[:1]) if case.get("frame_rot") else feat_names
    for nme in frame_names:
        d[nme] = cols[nme]
    df = pd.DataFrame(d)
    if case.get("frame_idx"):
        # the caller's frame as it looks after df.iloc[perm] / sort_values / sample WITHOUT reset_index: row labels are a permutation
        # of 0..n-1, not the positions; and the label column holds 1/0 integers, as a caller may hold it
        df["tgt"] = df["tgt"].astype(np.int64)
        df.index = [int(x) for x in np.random.default_rng(len(df) + 11).permutation(len(df))]
    return mokapot.dataset.LinearPsmDataset(df, target_column="tgt", spectrum_columns="spec", peptide_column="pep",
                                            feature_columns=feat_names, copy_data=True)


def _ints(vals, scale):
    out, ok = [], True
    for v in vals:
        x = float(v) * scale
        if not np.isfinite(x) or abs(x) >= 2 ** 31 - 1:
            out.append(0)
            ok = False
            continue
        r = int(round(x))
        if scale == 1 and abs(x - r) > 1e-9:
            ok = False
        out.append(r)
    return out, ok


def _pred_event(name, case, order, raw):
    real = case["est"]["kind"] != "int"
    raw = np.asarray(raw, dtype=float).reshape(-1)
    if not real and case["est"].get("proba"):
        raw = (raw - 0.5) * PROBA_DEN
    s, ok = _ints(raw.tolist(), SCALE if real else 1)
    return {"name": name, "ids": [int(i) for i in order], "s": s, "ok": bool(ok and len(s) == len(order))}


def run_variant(case, v, extra=False):
    """One Model.fit on the real code.  v = {order: [ids], shuffle, perm: [0-based] | None, seed}.
    Returns {raised, fits, scores, preds}."""
    import mokapot
    tok = new_token()
    events = _REC[tok]
    real = case["est"]["kind"] != "int"
    out = {"raised": "", "fits": [], "scores": [], "preds": []}
    wd = None
    try:
        ds = build_dataset(case, v["order"])
        est = make_estimator(case["est"], tok)
        rng = FixedPerm(v["perm"]) if v.get("perm") is not None else int(v.get("seed", 0))
        thr = case["thr"]
        model = mokapot.Model(est, scaler="as-is", train_fdr=thr[0] / thr[1], max_iter=int(case["maxit"]),
                              direction=case["direction"], override=True, shuffle=bool(v["shuffle"]), rng=rng)
        try:
            model.fit(ds)
        except MachineryError:
            raise
        except Exception as e:                     # an exception of mokapot is an observation, not a machinery failure
            out["raised"] = "%s: %s" % (type(e).__name__, str(e)[:200])
        train_events = list(events)
        if not out["raised"]:
            try:
                out["preds"].append(_pred_event("same", case, v["order"], model.predict(ds)))
                if extra:
                    nfeat = 1 + len(case["names"])
                    colorder = [(j + 1) % nfeat for j in range(nfeat)] if nfeat > 1 else [0]
                    if extra == "rev":
                        colorder = list(range(nfeat))[::-1]
                    ds2 = build_dataset(case, v["order"], colorder=colorder)
                    out["preds"].append(_pred_event("colperm", case, v["order"], model.predict(ds2)))
                    wd = tempfile.mkdtemp(prefix="c12_")
                    path = Path(wd) / "model.pkl"
                    model.save(path)
                    loaded = mokapot.load_model(path)
                    out["preds"].append(_pred_event("reload", case, v["order"], loaded.predict(ds)))
                    if case["n"] >= 20:
                        # the same with a STATEFUL scaler (the default StandardScaler): its per-column statistics must
                        # follow the feature names, not the column positions, at prediction time
                        from sklearn.linear_model import LogisticRegression
                        try:
                            m2 = mokapot.Model(LogisticRegression(), train_fdr=thr[0] / thr[1], max_iter=2,
                                               direction=case["direction"], override=True, shuffle=bool(v["shuffle"]), rng=7)
                            m2.fit(ds)
                            evs = []
                            for nm, dd in (("same", ds), ("colperm", ds2)):
                                raw = np.asarray(m2.predict(dd), dtype=float).reshape(-1)
                                ss, ok = _ints(raw.tolist(), SCALE)
                                evs.append({"name": nm, "ids": [int(i) for i in v["order"]], "s": ss, "ok": bool(ok)})
                            p2 = Path(wd) / "model2.pkl"
                            m2.save(p2)
                            raw = np.asarray(mokapot.load_model(p2).predict(ds2), dtype=float).reshape(-1)
                            ss, ok = _ints(raw.tolist(), SCALE)
                            evs.append({"name": "reload+colperm", "ids": [int(i) for i in v["order"]], "s": ss, "ok": bool(ok)})
                            out["preds_scaled"] = evs
                        except Exception as e:
                            out["preds_scaled_skipped"] = "%s: %s" % (type(e).__name__, str(e)[:80])
                        # and with a hyper-parameter search wrapped around a recording estimator
                        from sklearn.model_selection import GridSearchCV
                        tok3 = new_token()
                        try:
                            m3 = mokapot.Model(GridSearchCV(SearchEst(token=tok3), {"c": [1.0, 2.0]}, cv=2, refit=False),
                                               scaler="as-is", train_fdr=thr[0] / thr[1], max_iter=1, direction=case["direction"],
                                               override=True, shuffle=bool(v["shuffle"]), rng=11)
                            try:
                                m3.fit(ds)
                            except Exception:
                                pass            # only what the search was fed matters here
                            out["search_fits"] = [{"ids": e[1], "y2": e[2]} for e in _REC[tok3] if e[0] == "sfit"][:8]
                        finally:
                            _REC.pop(tok3, None)
            except MachineryError:
                raise
            except Exception as e:
                out["raised"] = "predict %s: %s" % (type(e).__name__, str(e)[:200])
        for ev in train_events:
            if ev[0] == "fit":
                out["fits"].append({"iter": ev[1], "ids": ev[2], "y2": ev[3], "yok": bool(ev[4])})
            else:
                if real:                           # exact floats -> dense ranks (what the label rule depends on)
                    _, dense = np.unique(np.asarray(ev[3], dtype=float), return_inverse=True)
                    s, ok = [int(x) + 1 for x in dense], bool(np.all(np.isfinite(ev[3])))
                else:
                    s, ok = _ints(ev[3], 1)
                out["scores"].append({"iter": ev[1], "ids": ev[2], "s": s, "ok": bool(ok)})
        return out
    finally:
        _REC.pop(tok, None)
        if wd:
            shutil.rmtree(wd, ignore_errors=True)


def direction_ints(case):
    vals = case["feats"][case["direction"]]
    if case["est"]["kind"] == "int":
        return [int(v) for v in vals]
    _, dense = np.unique(np.asarray(vals, dtype=float), return_inverse=True)
    return [int(x) + 1 for x in dense]


def run_case(case):
    """All variants of a case on the real code -> traces (without tid).  Variant 0 is the reference."""
    runs = []
    for i, v in enumerate(case["variants"]):
        runs.append(run_variant(case, v, extra=v.get("extra", False)))
    real = case["est"]["kind"] != "int"
    ref = runs[0]
    traces = []
    for i, (v, r) in enumerate(zip(case["variants"], runs)):
        t = {"n": case["n"], "thr": list(case["thr"]), "maxit": int(case["maxit"]), "shuffle": bool(v["shuffle"]),
             "kind": "real" if real else "int", "eps": EPS_REAL if real else 0,
             "tgt": [bool(x) for x in case["tgt"]], "dir": direction_ints(case),
             "raised": r["raised"], "fits": r["fits"], "scores": r["scores"], "preds": r["preds"],
             "preds_scaled": r.get("preds_scaled", []), "search_fits": r.get("search_fits", []),
             "ref_status": "none", "ref_ids": [], "ref_s": [], "ref_fits": [],
             "model_outcome": "", "model_pred": []}
        if i > 0:
            if ref["raised"] == "" and ref["preds"]:
                t["ref_status"] = "done"
                t["ref_ids"], t["ref_s"] = ref["preds"][0]["ids"], ref["preds"][0]["s"]
                if real:
                    t["ref_fits"] = [{"ids": f["ids"], "y2": f["y2"]} for f in ref["fits"]]
            else:
                t["ref_status"] = "abort"
        if case.get("model"):
            t["model_outcome"] = case["model"]["outcome"]
            t["model_pred"] = [int(x) for x in case["model"]["pred"]]
        traces.append(t)
    return traces


# ------------------------------------------------------------------ (G) cases
_RE_CASE = re.compile(r'<<\s*"CASE",\s*(\d+),\s*<<([A-Z,\s]*)>>,\s*<<([\d,\s]*)>>,\s*<<\s*(\d+),\s*(\d+)\s*>>,\s*'
                      r'(TRUE|FALSE),\s*<<([\d,\s]*)>>,\s*(\d+),\s*"(\w+)",\s*<<([\d,\s]*)>>\s*>>', re.S)


def _nums(s):
    return [int(x) for x in re.findall(r"-?\d+", s)]


def tlc_runs(cfg, **kw):
    """The CASE tuples printed by TLC: <<"CASE", n, tgt, a, thr, shuffle, perm, it, outcome, pred>>."""
    r = run_tlc("ModelFit", cfg, parse_prints=False, timeout=3000, **kw)
    if not r.ok:
        raise MachineryError("generation run %s failed: %s %s\n%s" % (cfg, r.violated, r.error, r.output[-2000:]))
    out = []
    for m in _RE_CASE.finditer(r.output):
        out.append({"n": int(m.group(1)), "tgt": [x == "TRUE" for x in re.findall(r"TRUE|FALSE", m.group(2))],
                    "a": _nums(m.group(3)), "thr": [int(m.group(4)), int(m.group(5))], "shuffle": m.group(6) == "TRUE",
                    "perm": _nums(m.group(7)), "it": int(m.group(8)), "outcome": m.group(9), "pred": _nums(m.group(10))})
    nline = len(re.findall(r'<<\s*"CASE"', r.output))
    if nline != len(out) or not out:
        raise MachineryError("generation %s: %d CASE lines, %d parsed" % (cfg, nline, len(out)))
    for c in out:
        if len(c["tgt"]) != c["n"] or len(c["a"]) != c["n"] or len(c["perm"]) != c["n"]:
            raise MachineryError("generation %s: malformed CASE %r" % (cfg, c))
    return out, r


def group_runs(lines):
    """TLC explores shuffle on and off as separate runs of the same (dataset, thr, perm, max_iter): one case, whose
    variants are exactly those runs (+ a row-permuted dataset)."""
    groups = {}
    for c in lines:
        key = (c["n"], tuple(c["tgt"]), tuple(c["a"]), tuple(c["thr"]), tuple(c["perm"]), c["it"])
        groups.setdefault(key, {})[c["shuffle"]] = c
    return groups


def case_from_group(key, g, idx):
    n, tgt, a, thr, perm, it = key
    any_run = g.get(True) or g.get(False)
    ident = list(range(1, n + 1))
    p0 = [p - 1 for p in perm]
    case = {"src": "tlc", "n": n, "tgt": list(tgt), "names": ["fa", "fb"],
            "feats": {"fa": list(a), "fb": ident}, "direction": "fa", "thr": list(thr), "maxit": it,
            "est": {"kind": "int", "cols": [2, 1], "proba": ["", "", "2col", "1col", "flat"][idx % 5]},
            "model": {"outcome": any_run["outcome"], "pred": any_run["pred"]}, "variants": [], "frame_rot": bool(idx % 3 == 1), "frame_idx": bool(idx % 4 == 2)}
    # the runs TLC explored: rows in id order, the rng returns `perm`
    case["variants"].append({"order": ident, "shuffle": True, "perm": p0, "extra": "rot" if idx % 2 else "rev",
                             "in_tlc": True in g})
    case["variants"].append({"order": ident, "shuffle": False, "perm": p0, "in_tlc": False in g})
    # the same PSMs handed over in another row order (the order TLC's permutation describes), rng seeded
    if list(perm) != ident:
        case["variants"].append({"order": [int(p) for p in perm], "shuffle": bool(idx % 2), "perm": None,
                                 "seed": idx, "extra": "rot" if idx % 4 == 1 else False})
    return case


def random_case(rng, idx, real_kind=None):
    n = int(rng.integers(50, 301))
    maxit = int(rng.integers(1, 11))
    thr = THRS[int(rng.integers(0, len(THRS)))]
    frac_decoy = float(rng.choice([0.3, 0.45, 0.5]))
    tgt = rng.random(n) >= frac_decoy
    if tgt.all() or not tgt.any():
        tgt[0], tgt[1] = True, False
    true = tgt & (rng.random(n) < float(rng.choice([0.4, 0.7])))
    nfeat = int(rng.integers(2, 5))
    names = ["f%s" % chr(ord("a") + j) for j in range(nfeat)]
    shift = float(rng.choice([1.5, 2.5, 4.0]))
    ident = list(range(1, n + 1))
    if real_kind is None:
        feats = {}
        for nm in names:
            x = rng.normal(0, 1, n) + shift * true * float(rng.choice([1.0, 1.0, 0.5, -0.3]))
            feats[nm] = [int(v) for v in np.round(6 * x)]
        feats[names[0]] = [int(v) for v in np.round(6 * (rng.normal(0, 1, n) + shift * true))]
        ncols = int(rng.integers(1, nfeat + 1))
        cols = [int(c) + 1 for c in rng.permutation(nfeat)[:ncols]]
        est = {"kind": "int", "cols": cols, "proba": ["", "2col", "", "1col", "", "flat"][idx % 6]}
        if idx % 6 in (0, 4):
            # decision values with a large common offset: distinct as doubles, NOT all distinct in single precision (spacing 4
            # near 4e7) -- the labels of the next iteration are those under the scores as returned
            est["offset"] = 40000000
    else:
        feats = {}
        for nm in names:
            x = rng.normal(0, 1, n) + shift * true * float(rng.choice([1.0, 0.6, 0.3]))
            feats[nm] = [float(v) for v in np.round(x, 6)]
        est = {"kind": real_kind}
    case = {"src": "random", "n": n, "tgt": [bool(x) for x in tgt], "names": names, "feats": feats,
            "direction": names[0], "thr": list(thr), "maxit": maxit, "est": est, "variants": []}
    order = [int(x) + 1 for x in rng.permutation(n)]
    case["variants"].append({"order": ident, "shuffle": True, "perm": None, "seed": int(rng.integers(0, 2 ** 31)),
                             "extra": "rot" if idx % 2 else "rev"})
    case["variants"].append({"order": ident, "shuffle": False, "perm": None, "seed": int(rng.integers(0, 2 ** 31))})
    case["variants"].append({"order": order, "shuffle": True, "perm": None, "seed": int(rng.integers(0, 2 ** 31)),
                             "extra": "rot" if idx % 3 == 0 else False})
    case["variants"].append({"order": order, "shuffle": False, "perm": None, "seed": int(rng.integers(0, 2 ** 31))})
    case["frame_rot"] = bool(idx % 3 == 1)
    case["frame_idx"] = bool(idx % 4 == 2)
    return case


# ------------------------------------------------------------------ signatures, controls
def signature(case, v):
    return {"shuffle": bool(v["shuffle"]), "max_iter": int(case["maxit"]),
            "kind": "real" if case["est"]["kind"] != "int" else "int"}


def _copy(t):
    import json
    return json.loads(json.dumps(t))


def corrupt_swap(t):
    """two labels of one fit event exchanged (a positive and a negative)"""
    for k, f in enumerate(t["fits"]):
        if 2 in f["y2"] and 0 in f["y2"]:
            b = _copy(t)
            i, j = f["y2"].index(2), f["y2"].index(0)
            b["fits"][k]["y2"][i], b["fits"][k]["y2"][j] = 0, 2
            return b
    return None


def corrupt_drop(t, which):
    """one row (with its label) removed from a fit event"""
    if not t["fits"]:
        return None
    k = which % len(t["fits"])
    f = t["fits"][k]
    if len(f["ids"]) < 2:
        return None
    b = _copy(t)
    j = which % len(f["ids"])
    del b["fits"][k]["ids"][j]
    del b["fits"][k]["y2"][j]
    return b


def corrupt_shift(t):
    """predictions shifted by one row"""
    if t["raised"] or not t["preds"]:
        return None
    s = t["preds"][0]["s"]
    if len(set(s)) < 2 or not (len(t["preds"]) > 1 or t["ref_status"] == "done" or t["model_outcome"] == "done"):
        return None
    b = _copy(t)
    b["preds"][0]["s"] = s[1:] + s[:1]
    if b["preds"][0]["s"] == s:
        return None
    if t["kind"] == "real":                     # a shift must exceed the tolerance to be a corruption at all
        if max(abs(x - y) for x, y in zip(s, b["preds"][0]["s"])) <= t["eps"]:
            return None
    return b


# ------------------------------------------------------------------ run
def model_phase(ctx):
    jobs = []
    if ctx.quick:
        jobs.append(dict(cfg="ModelFit_quick.cfg", note="n<=4 rows, weak orders of the direction feature, all perms, "
                                                        "both switches, thr {1/2, 1}, 1..3 iterations"))
    else:
        jobs.append(dict(cfg="ModelFit_thorough.cfg", timeout=3300,
                         note="n<=5 rows, strict orders of the direction feature, all perms, both switches, "
                              "thr {1/4, 1/2}, 1..3 iterations"))
        jobs.append(dict(cfg="ModelFit_mid.cfg", note="n<=4 rows, weak orders, thr {1/2, 0.3701, 1}"))
        jobs.append(dict(cfg="ModelFit_asis_shuffled4.cfg", note="code as it stands restricted to shuffle=TRUE, n<=4"))
    jobs.append(dict(cfg="ModelFit_asis.cfg", expect_violation="LabelsAligned",
                     note="AsIs_UnconditionalUnshuffle (model.py:312,316 as they stand): held labels misaligned"))
    jobs.append(dict(cfg="ModelFit_asis_fed.cfg", expect_violation="SamePsm",
                     note="AsIs: the estimator is fed a row with the label of another PSM"))
    jobs.append(dict(cfg="ModelFit_asis_abort.cfg", expect_violation="AbortLegit",
                     note="AsIs: 'Model performs worse after training' although targets pass"))
    jobs.append(dict(cfg="ModelFit_asis_pred.cfg", expect_violation="PredInvariant",
                     note="AsIs: predictions depend on the shuffle switch / the rng"))
    jobs.append(dict(cfg="ModelFit_asis_shuffled.cfg",
                     note="AsIs restricted to shuffle=TRUE: every invariant holds (the defect is confined to shuffle=False)"))
    jobs.append(dict(cfg="ModelFit_mut1.cfg", expect_violation="LabelsAligned", note="seeded fault: no re-shuffle of the updated labels"))
    jobs.append(dict(cfg="ModelFit_mut2.cfg", expect_violation="NoUnlabeledFed", note="seeded fault: label-0 rows are fed"))
    jobs.append(dict(cfg="ModelFit_mut3.cfg", expect_violation="SamePsm", note="seeded fault: un-shuffle with the wrong index"))
    jobs.append(dict(cfg="ModelFit_cov.cfg", coverage=True, note="action coverage (n<=3, 2 iterations)"))

    def one(j):
        j = dict(j)
        cfg = j.pop("cfg")
        big = cfg in ("ModelFit_quick.cfg", "ModelFit_mid.cfg", "ModelFit_thorough.cfg", "ModelFit_asis_shuffled4.cfg")
        return ctx.model_check("ModelFit", cfg, workers="auto" if big else 2, parse_prints=False, **j)
    with ThreadPoolExecutor(max_workers=len(jobs)) as ex:
        res = list(ex.map(one, jobs))
    ctx.require_actions(res[-1], ["Pick1", "Pick2", "Start", "Fit", "Score", "Update", "More", "Predict"])


def build_cases(ctx, rng):
    cases = []
    gen_states = 0
    plan = [("ModelFit_gen3.cfg", {}, None)]            # n <= 3: every run
    if ctx.quick:
        plan.append(("ModelFit_gen4s.cfg", {}, 1800))     # n = 4: TLC's fixed 1/29 hash sample of the inputs
    else:
        plan.append(("ModelFit_gen4.cfg", {}, 30000))     # n = 4: every run explored, a seeded sample driven
        plan.append(("ModelFit_gen5s.cfg", {}, 8000))     # n = 5 (strict direction feature): 1/149 hash sample
    idx = ctx.seed
    for cfg, kw, cap in plan:
        lines, r = tlc_runs(cfg, workers=8, **kw)
        groups = group_runs(lines)
        keys = sorted(groups)
        if cfg != "ModelFit_gen3.cfg":
            keys = [k for k in keys if k[0] > 3]        # n <= 3 is taken exhaustively from gen3
        total = len(keys)
        if cap is not None and len(keys) > cap:
            pick = rng.choice(len(keys), size=cap, replace=False)
            keys = [keys[int(i)] for i in sorted(pick)]
        ctx.cov["model_runs"].append({"module": "ModelFit", "cfg": cfg, "generated": r.generated, "distinct": r.distinct,
                                      "wall_s": round(r.wall_s, 1),
                                      "note": "behaviour generation: %d CASE lines = %d (dataset, thr, perm, max_iter) "
                                              "groups, %d driven%s" % (len(lines), total, len(keys),
                                                                        "" if len(keys) == total else " (seeded sample)")})
        gen_states += r.distinct
        for k in keys:
            cases.append(case_from_group(k, groups[k], idx))
            idx += 1
    if len(cases) < 1000:
        raise MachineryError("generation produced only %d cases" % len(cases))
    nint, nreal = (30, 15) if ctx.quick else (200, 100)
    big = []
    for j in range(nint):
        big.append(random_case(rng, idx))
        idx += 1
    for j in range(nreal):
        big.append(random_case(rng, idx, real_kind=["lr", "svc", "lr_proba"][j % 3]))
        idx += 1
    # the large cases cost ~100x a small one: spread them evenly over the list (load balance of the fork pool)
    step = max(1, len(cases) // len(big))
    out = []
    for j, c in enumerate(cases):
        if j % step == 0 and big:
            out.append(big.pop())
        out.append(c)
    return out + big, gen_states


def case_key(c):
    return (c["n"], tuple(c["tgt"]), tuple(tuple(c["feats"][k]) for k in c["names"]), tuple(c["thr"]), c["maxit"],
            c["est"]["kind"], c["est"].get("proba", ""), tuple(c["est"].get("cols", ())))


def small(case):
    return {k: case[k] for k in ("src", "n", "tgt", "feats", "direction", "thr", "maxit", "est")}


def run(ctx):
    ctx.liveness("ModelFit", unfair_control=not ctx.quick)      # termination under weak fairness (ModelFit_live.cfg)
    rng = np.random.default_rng(ctx.seed)
    ctx.phase("model_checking+generation")
    with ThreadPoolExecutor(max_workers=1) as bg:
        mfut = bg.submit(model_phase, ctx)              # (M) runs while the cases are generated and driven
        cases, gen_states = build_cases(ctx, rng)
        # ---------------- drive the real code ----------------
        ctx.phase("driving (+ model checking in the background)")
        run_case(cases[0])
        run_case(next(c for c in cases if c["est"]["kind"] != "int"))   # warm up imports / numba / sklearn before forking

        def one(i):
            return run_case(cases[i])
        per_case = pmap(one, len(cases), chunk=4)
        ctx.phase("model_checking (rest)")
        mfut.result()
    ctx.cov["states"] += gen_states
    traces, owner = [], []
    for ci, ts in enumerate(per_case):
        for vi, t in enumerate(ts):
            t["tid"] = len(traces) + 1
            traces.append(t)
            owner.append((ci, vi))
    for ci, c in enumerate(cases):
        ctx.count(case_key(c))
    for ci in (0, len(cases) // 3, len(cases) - 1):
        c = cases[ci]
        t = per_case[ci][0]
        ctx.sample({"case": small(c) if c["n"] <= 6 else {"src": c["src"], "n": c["n"], "thr": c["thr"], "maxit": c["maxit"],
                                                           "est": c["est"]},
                    "variant": {k: v for k, v in c["variants"][0].items() if k != "order"},
                    "trace": {"raised": t["raised"], "fits": t["fits"][:2] if c["n"] <= 6 else len(t["fits"]),
                              "preds": t["preds"] if c["n"] <= 6 else len(t["preds"])}})
    # ---------------- (V) ----------------
    ctx.phase("validation")
    verdicts = ctx.validate("ModelFitTrace", "Trace.cfg", traces, max_per_shard=10000, timeout=3000)
    stats = {"runs": len(traces), "runs_shuffle_on": 0, "runs_shuffle_off": 0, "aborted_runs_accepted": 0,
             "incomparable_real_pairs": 0, "rejected": 0, "rejected_shuffle_off": 0}
    rejected = []
    for t, (ci, vi) in zip(traces, owner):
        v = verdicts[t["tid"]]
        stats["runs_shuffle_on" if t["shuffle"] else "runs_shuffle_off"] += 1
        if v.get("info") == "ood":
            ctx.cov["out_of_domain"] += 1
        if v.get("info") == "incomparable":
            stats["incomparable_real_pairs"] += 1
        if v["accept"] and t["raised"]:
            stats["aborted_runs_accepted"] += 1
        if not v["accept"]:
            rejected.append((cases[ci]["n"], cases[ci]["maxit"], len(str(cases[ci]["feats"])), ci, vi, t["tid"]))
    rejected.sort()                                   # smallest failing inputs first: they become the replay files
    for n, maxit, _, ci, vi, tid in rejected:
        c, var = cases[ci], cases[ci]["variants"][vi]
        stats["rejected"] += 1
        stats["rejected_shuffle_off"] += 0 if var["shuffle"] else 1
        one_case = dict(c)
        one_case["variants"] = [c["variants"][0]] + ([var] if vi else [])
        ctx.reject({"case": one_case, "variant": vi and 1, "trace": traces[tid - 1] if n <= 12 else {"tid": tid}},
                   verdicts[tid]["failed"], signature(c, var))
    if rejected:
        n, maxit, _, ci, vi, tid = rejected[0]
        ctx.cov["smallest_rejected"] = {"case": small(cases[ci]), "variant": cases[ci]["variants"][vi],
                                        "failed": verdicts[tid]["failed"], "raised": traces[tid - 1]["raised"]}
    ctx.cov["c12"] = stats
    # ---------------- negative controls ----------------
    ctx.phase("negative_controls")
    crng = np.random.default_rng(ctx.seed + 1)
    acc = [t for t in traces if verdicts[t["tid"]]["accept"] and verdicts[t["tid"]].get("info") != "ood"]
    if not acc and not (ctx.violations or ctx.known_hits):
        raise MachineryError("no accepted trace to corrupt")
    if not acc:
        return ctx.finish(rule="every trace was rejected; negative controls skipped", exhaustive=False)
    groups = {"two labels of a fit event swapped": [], "a row dropped from a fit event": [],
              "predictions shifted by one row": []}
    big = [t for t in acc if t["n"] > 6]
    pool = [acc[int(i)] for i in crng.integers(0, len(acc), 400)] + [big[int(i)] for i in crng.integers(0, max(1, len(big)), 12) if big]
    for j, t in enumerate(pool):
        for name, b in (("two labels of a fit event swapped", corrupt_swap(t)),
                        ("a row dropped from a fit event", corrupt_drop(t, j)),
                        ("predictions shifted by one row", corrupt_shift(t))):
            if b is not None and len(groups[name]) < 150:
                b["tid"] = len(groups[name]) + 1
                groups[name].append(b)
    for name, bad in groups.items():
        ctx.negative_controls("ModelFitTrace", "Trace.cfg", bad, name=name)
    # ---------------- phase 2: the training loop's own events (guarded hooks) against HookTrace.tla ----------------
    from drivers import hooktrace
    picks = [c for c in cases if c["n"] > 6][:6] + [c for c in cases if c["n"] <= 6][:6]
    hooktrace.hook_phase(ctx, "C12", calls=[("driver case %d" % i, (lambda c=c: run_case(c))) for i, c in enumerate(picks)],
                         repo_select=["tests/unit_tests/test_model.py"] if ctx.quick else None, whole_suite=not ctx.quick)
    ctx.assume("the estimator handed to Model is deterministic and row-wise (IntEst) or a convex scikit-learn learner "
               "run to tol=1e-10 (LogisticRegression, LinearSVC(dual=False)); two fits of a real learner on the same "
               "<<row, label>> pairs in different row orders are compared as round(1e6*score) with epsilon = %d "
               "(= %.0e in score units); real-learner runs whose fed pairs differ are not compared" % (EPS_REAL, EPS_REAL / SCALE))
    ctx.assume("Model(direction=<feature>, scaler='as-is', override=True); the current scores of iteration 1 are that "
               "feature in either orientation; train_fdr in {1, 1/2, 1/4} (dyadic) or 0.3701 (off-lattice)")
    ctx.assume("the rng handed to Model is a numpy Generator; for TLC-generated runs its permutation() returns the "
               "permutation chosen by TLC")
    # the multi-step part of the statement: one Model object through fit / predict / save / load_model in any order
    # (ModelLife.tla behaviours replayed into the real object, judged by ModelLifeTrace.tla)
    from drivers import modellife
    modellife.family(ctx)
    return ctx.finish(
        rule="cases = every (dataset n<=3, train_fdr, rng permutation, max_iter<=3) run explored by TLC from ModelFit.tla "
             "(exhaustive) + a hash / seeded sample of the n=4 runs (thorough: of all n=4 runs and of the n=5 runs with a "
             "strict direction feature), each driven with shuffle on, shuffle off "
             "and the rows permuted, + seeded random datasets of 50-300 rows (1..10 iterations, 4 thresholds, "
             "decision_function / predict_proba-only integer estimators, LogisticRegression / LinearSVC / "
             "LogisticRegression via predict_proba), each in 4 variants; distinct = distinct (dataset, train_fdr, "
             "max_iter, estimator)",
        exhaustive=True)


def replay(ctx, case):
    if isinstance(case.get("case"), dict) and case["case"].get("kind") == "lifecycle":
        from drivers import modellife
        return modellife.replay(ctx, case)
    c = case["case"]["case"]
    traces = run_case(c)
    for i, t in enumerate(traces):
        t["tid"] = i + 1
    verdicts = ctx.validate("ModelFitTrace", "Trace.cfg", traces)
    for i, t in enumerate(traces):
        v = verdicts[t["tid"]]
        ctx.count(i)
        if not v["accept"]:
            ctx.reject({"case": c, "variant": i, "trace": t}, v["failed"], signature(c, c["variants"][i]))
    ctx.sample({"case": small(c), "verdicts": {str(k): v for k, v in verdicts.items() if k != "_states"}})
    return ctx.finish(rule="replay of one recorded case (reference variant + the rejected variant)")
