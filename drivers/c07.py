"""C07 -- best-feature safety net: never silently worse than the best single feature.

(M) BrewDecide.tla: feature count, prediction count (label column read in the file's encoding), decision and
    returned scores/direction against SafetyNet; AsIs_NoLabelConversion reproduces the defect repaired for F-07a.
(G) datasets x estimators {learns, cannot learn, anti-learns} x label encodings {1/-1, 1/0, bool} x best feature
    {higher-better, lower-better} x {text, Parquet} x override on/off; for the direction part every canonical table of
    ConfGen.tla goes through assign_confidence(descs=[False]).
(V) DecideTrace.tla (SafetyNet on the value returned by the real brew) and ConfTrace.tla (direction-normalised
    ranks: low values first for a lower-is-better score).
"""
from __future__ import annotations

import copy
from fractions import Fraction

import numpy as np

from engine.tlc import run_tlc, MachineryError
from drivers.common import pmap
from drivers import brewrun, conf
from drivers.c02 import rows_from_shape
from drivers.c03 import table_from_tlc, FLAGS

LEVEL = "model_checking"


def brew_cases(ctx, rng):
    cases = []
    nb = 96 if ctx.quick else 1440
    for j in range(nb):
        n = int(rng.choice([60, 90, 150]))
        folds = 2 + j % 3
        spec_of, s = [], 1
        while len(spec_of) < n:
            m = int(rng.integers(1, 3))
            spec_of += [s] * m
            s += 1
        rows = rows_from_shape(spec_of[:n], rng)
        lower_better = bool((j // 3) % 2)
        for r in rows:
            good = int(rng.normal(70, 8)) if (r["tgt"] and rng.random() < 0.7) else int(rng.normal(30, 8))
            r["f"] = [(-good if lower_better else good), int(rng.integers(0, 50))]
        thr = [[1, 2], [1, 4]][(j // 6) % 2]
        cases.append({"files": [{"rows": rows}], "folds": folds, "workers": 1 + j % 2, "cap": None, "keyw": 2,
                      "fmt": "parquet" if (j // 12) % 2 else "pin", "thr": thr, "train_thr": thr, "seed": j,
                      "est": ["feat", "const", "anti", "proba"][j % 4], "col": 1, "direction": "f1" if (j // 4) % 3 == 2 else None,
                      "label_enc": ["1/-1", "1/0", "bool"][(j // 24) % 3], "override": bool((j // 72) % 4 == 3),
                      "lower_better": lower_better, "max_iter": 1 + j % 2, "prior": "flip" if j % 5 == 2 else None,
                      # the discriminating feature stored as whole numbers (int64 column), next to a float column without information
                      # (every second time as large whole numbers, 2**40 + value, with a learner that does not score by that column)
                      "int_feats": ("big" if j % 6 == 1 else True) if j % 3 == 1 else False})
        if j % 8 == 7:      # a second collection
            rows2 = rows_from_shape(spec_of[: n // 2], rng, id0=1000)
            for r in rows2:
                good = int(rng.normal(70, 8)) if (r["tgt"] and rng.random() < 0.7) else int(rng.normal(30, 8))
                r["f"] = [(-good if lower_better else good), int(rng.integers(0, 50))]
            cases[-1]["files"].append({"rows": rows2})
    # evaluation FDR stricter than the training FDR and stricter than 0.01 (large collections: a target only passes
    # 0.005 behind at least 200 targets): the learned scores place a few decoys in the middle of the targets, so they accept
    # about half of the targets at test_fdr = 0.005 while the best feature (perfect) accepted 2/3 of them during training
    for j in range(2 if ctx.quick else 8):
        T = 1320 + 60 * j
        rows = []
        for i in range(2 * T):
            tgt = i % 2 == 0
            k = i // 2
            if tgt:
                f1 = (4000 + k) if k < T // 2 else (1000 + k)
                f2 = 6000 + k
            else:
                f1 = (3000 + k) if k < 8 + j % 3 else k
                f2 = k
            rows.append({"id": i, "spec": i + 1, "tgt": bool(tgt), "f": [int(f1), int(f2)]})
        order = rng.permutation(len(rows))
        rows = [rows[int(i)] for i in order]
        cases.append({"files": [{"rows": rows}], "folds": 3, "workers": 1, "cap": None, "keyw": 2, "fmt": "pin", "thr": [1, 200],
                      "train_thr": [1, 100], "seed": 1000 + j, "est": "feat", "col": 1, "direction": "f2", "label_enc": ["1/-1", "1/0", "bool"][j % 3],
                      "override": False, "lower_better": False, "max_iter": 1})
    # two collections of very different quality: the learned scores (probabilities, not calibrated) accept every target of the
    # first and, on its own, none of the second (a decoy before every three targets: FDR never below 1/3) -- pooled with the
    # first they would all pass.  Accepted targets are counted per collection, so the best feature (perfect in both) wins.
    for j in range(2 if ctx.quick else 12):
        ta, tb = 100 + 6 * j, 90 + 3 * j
        rows_a, rows_b = [], []
        for i in range(ta):
            rows_a.append({"id": i, "spec": i + 1, "tgt": True, "f": [400 + i, 900 + i]})
            rows_a.append({"id": ta + i, "spec": ta + i + 1, "tgt": False, "f": [i % 90, i % 50]})
        v = 399
        k = 0
        for b in range(tb // 3):
            rows_b.append({"id": 5000 + k, "spec": k + 1, "tgt": False, "f": [v, k % 50]})
            v, k = v - 1, k + 1
            for _ in range(3):
                rows_b.append({"id": 5000 + k, "spec": k + 1, "tgt": True, "f": [v, 900 + k]})
                v, k = v - 1, k + 1
        rows_a = [rows_a[int(i)] for i in rng.permutation(len(rows_a))]
        rows_b = [rows_b[int(i)] for i in rng.permutation(len(rows_b))]
        cases.append({"files": [{"rows": rows_a}, {"rows": rows_b}], "folds": 3, "workers": 1, "cap": None, "keyw": 2, "fmt": "pin",
                      "thr": [1, 4], "train_thr": [1, 4], "seed": 2000 + j, "est": "proba", "col": 1, "direction": "f2",
                      "label_enc": ["1/-1", "1/0", "bool"][j % 3], "override": False, "lower_better": False, "max_iter": 1})
    return cases


def run_brew_case(case):
    c = copy.deepcopy(case)
    wd = None
    try:
        if c.get("prior") == "flip":
            # a two-step history in one process: the same path first held a table with the same rows but the opposite labels
            # (its analysis is not judged); nothing of it may be remembered
            import shutil
            import tempfile
            wd = tempfile.mkdtemp(prefix="c07h_")
            p = copy.deepcopy(c)
            for fl in p["files"]:
                for r in fl["rows"]:
                    r["tgt"] = not r["tgt"]
            ref_tr, ref_info = brewrun.run_brew(copy.deepcopy(c))        # the same input in a fresh place: the reference
            ref = {"raised_type": ref_tr["raised_type"], "descs": [bool(d) for d in ref_info["ret"][3]] if ref_info["ret"] else [],
                   "scores": {x["id"]: (x["num"], x["den"], x["ok"], x["nan"]) for x in ref_tr["scores"]}}
            try:
                brewrun.run_brew(p, workdir=wd, keep=True)
            except Exception:
                pass
            try:
                tr, info = brewrun.run_brew(c, workdir=wd, keep=True)
            finally:
                shutil.rmtree(wd, ignore_errors=True)
            tr["_ref"] = ref
        else:
            tr, info = brewrun.run_brew(c)
    except Exception as e:
        import traceback
        return {"harness_error": "%s: %s %s" % (type(e).__name__, e, traceback.format_exc()[-500:])}
    ret = info["ret"]
    rows = [{"id": r["id"], "file": fi + 1, "tgt": bool(r["tgt"]), "feats": [int(v) for v in r["f"]]}
            for fi, fl in enumerate(c["files"]) for r in fl["rows"]]
    models, descs, scores = [], [], []
    if ret is not None:
        _, ms, scs, ds = ret
        for m in ms:
            models.append({"fold": int(m.fold or 0), "feat_pass": int(m.feat_pass or 0),
                           "best_feat": m.best_feat if isinstance(m.best_feat, str) else "", "desc": bool(m.desc), "trained": bool(m.is_trained)})
        descs = [bool(d) for d in ds]
        for fi, fl in enumerate(c["files"]):
            v = np.asarray(scs[fi], dtype=float).reshape(-1)
            finite = np.where(np.isfinite(v), v, -1e300)
            _, dense = np.unique(finite, return_inverse=True)
            for r, x, rk in zip(fl["rows"], v.tolist(), dense.tolist()):
                fr = brewrun.frac(x, 10 ** 6)
                scores.append({"id": r["id"], "num": fr[0], "den": fr[1], "ok": fr[2], "nan": fr[3], "rank": int(rk) + 1})
    ref = tr.get("_ref")
    same = True
    if ref is not None:
        # projection only: are the two returns (error type, directions, every score as the rational brewrun recorded) identical?
        mine = {x["id"]: (x["num"], x["den"], x["ok"], x["nan"]) for x in tr["scores"]}
        same = bool(ref["raised_type"] == tr["raised_type"] and ref["descs"] == descs and ref["scores"] == mine)
    return {"has_ref": ref is not None, "same_as_ref": same,
            "fits": tr["fits"], "train_thr": list(c.get("train_thr", c["thr"])), "direction": c.get("direction") or "",
            "thr": list(c["thr"]), "override": bool(c.get("override", False)), "nfiles": len(c["files"]),
            "featnames": ["f1", "f2"], "rows": rows, "models": models, "raised": tr["raised"], "raised_type": tr["raised_type"],
            "calib_error": "Failed to calibrate scores" in tr["raised"], "descs": descs, "scores": scores}


def conf_cases(ctx, rng):
    tables = [p[1] for p in run_tlc("ConfGen", "ConfGen_quick.cfg", workers=1).prints if p and p[0] == "CASE"]
    if ctx.quick:
        tables = [tables[int(i)] for i in sorted(rng.permutation(len(tables))[:1500])]
    cases = []
    for k, t in enumerate(tables):
        rows = table_from_tlc(t, rng)
        dedup, rollup, _ = FLAGS[k % 8]
        cases.append({"kind": "assign", "colls": [{"rows": rows}], "extra_levels": [], "dedup": dedup, "rollup": rollup,
                      "decoys": True, "chunk": 1 + k % (len(rows) + 1), "fmt": "pin", "workers": 1, "desc": bool(k % 4 == 0)})
    return cases


def run_conf_case(case):
    try:
        trs, _ = conf.run_assign(copy.deepcopy(case))
        return trs[0]
    except Exception as e:
        return {"harness_error": "%s: %s" % (type(e).__name__, e)}


def run(ctx):
    ctx.liveness("BrewDecide", unfair_control=not ctx.quick)      # termination under weak fairness (BrewDecide_live.cfg)
    ctx.liveness("BrewModes", unfair_control=not ctx.quick)      # termination under weak fairness (BrewModes_live.cfg)
    rng = np.random.default_rng(ctx.seed)
    ctx.phase("model_checking")
    ctx.model_check("BrewDecide", "BrewDecide_quick.cfg" if ctx.quick else "BrewDecide_thorough.cfg",
                    note="all (labels, feature ranks, learned ranks, trained?, encoding, direction, threshold)", timeout=3000)
    ctx.model_check("BrewDecide", "BrewDecide_asis.cfg", expect_violation="SafetyNet", note="AsIs_NoLabelConversion (repaired: F-07a)")
    ctx.model_check("BrewDecide", "BrewDecide_mut1.cfg", expect_violation="SafetyNet", note="seeded fault: never falls back")
    ctx.model_check("BrewDecide", "BrewDecide_mut2.cfg", expect_violation="SafetyNet", note="seeded fault: direction of the feature forgotten")
    ctx.model_check("BrewModes", "BrewModes.cfg", note="mode logic of brew(): model / pre-trained model / list of models x ensemble x override x "
                    "per-fold training outcome, 3 folds: untrained models never score, safety net on every path, lists never re-fitted")
    ctx.model_check("BrewModes", "BrewModes_mut.cfg", expect_violation="UntrainedNeverScores", note="seeded fault: untrained fold models score their folds")
    ctx.model_check("BrewModes", "BrewModes_reach.cfg", expect_violation="ZerosWithOverrideUnreachable",
                    note="reachability: with override the zero scores of untrained fold models are handed back (documented consequence)")
    r = ctx.model_check("BrewDecide", "BrewDecide_cov.cfg", coverage=True, note="action coverage")
    ctx.require_actions(r, ["CountFeature", "CountPred", "Decide"])
    ctx.phase("generation")
    bcases = brew_cases(ctx, rng)
    ccases = conf_cases(ctx, rng)
    ctx.phase("driving")
    run_brew_case(bcases[0])
    btr = pmap(lambda i: run_brew_case(bcases[i]), len(bcases), chunk=4)
    ctr = pmap(lambda i: run_conf_case(ccases[i]), len(ccases))
    for i, t in enumerate(btr):
        if "harness_error" in t:
            raise MachineryError("driver failed on brew case %d: %s" % (i, t["harness_error"]))
        t["tid"] = i + 1
    for i, t in enumerate(ctr):
        if "harness_error" in t:
            raise MachineryError("driver failed on confidence case %d: %s" % (i, t["harness_error"]))
        t["tid"] = i + 1
    ctx.phase("validation")
    bv = ctx.validate("DecideTrace", "Trace.cfg", btr)
    nfb = nlearn = 0
    for c, t in zip(bcases, btr):
        v = bv[t["tid"]]
        info = v.get("info") or [0, 0, False]
        nfb += 1 if info[2] else 0
        nlearn += 1 if (not info[2] and info[0] >= info[1] and t["raised"] == "") else 0
        ctx.count(("brew", c["seed"], c["est"], c["label_enc"], c["lower_better"], c["fmt"], c["override"]))
        if not v["accept"]:
            ctx.reject({"case": c, "trace": t}, v["failed"],
                       {"api": "brew", "est": c["est"], "label_enc": c["label_enc"], "lower_better": c["lower_better"], "fmt": c["fmt"],
                        "override": c["override"], "folds": c["folds"], "seed": c["seed"], "raised": t["raised"].split(":")[0],
                        "accepted_vs_feature": info[:2]})
    ctx.cov["brew_runs_with_non_finite_scores_not_judged"] = sum(1 for t in btr if any(x["nan"] for x in t["scores"]))
    ctx.cov["brew_runs_returning_best_feature"] = nfb
    ctx.cov["brew_runs_returning_learned_scores_at_least_as_good"] = nlearn
    cv = ctx.validate("ConfTrace", "Trace.cfg", ctr)
    for c, t in zip(ccases, ctr):
        v = cv[t["tid"]]
        ctx.count(("conf", str([(r["spec"], tuple(r["key"]), r["tgt"], r["rank"]) for r in c["colls"][0]["rows"]]), c["desc"], c["dedup"], c["rollup"], c["chunk"]))
        if not v["accept"]:
            ctx.reject({"case": c, "trace": t}, v["failed"],
                       {"api": "assign_confidence", "desc": c["desc"], "dedup": c["dedup"], "rollup": c["rollup"], "chunk": c["chunk"],
                        "table": [(r["spec"], tuple(r["key"]), r["tgt"], r["rank"]) for r in c["colls"][0]["rows"]],
                        "raised": (t.get("raised") or "").split(":")[0]})
    ctx.cov["confidence_runs_lower_is_better"] = sum(1 for c in ccases if not c["desc"])
    ctx.sample({"brew_case": {k: v for k, v in bcases[1].items() if k != "files"}, "models": btr[1]["models"], "descs": btr[1]["descs"],
                "scores": btr[1]["scores"][:3], "info(accepted, feat_total, is_best_feature)": bv[btr[1]["tid"]].get("info")})
    ctx.sample({"conf_case": {k: v for k, v in ccases[1].items() if k != "colls"}, "rows": ccases[1]["colls"][0]["rows"]})
    ctx.phase("negative_controls")
    bad = []
    for t in btr:
        v = bv[t["tid"]]
        info = v.get("info") or [0, 0, False]
        if not v["accept"] or t["raised"] or t["override"] or len(bad) >= 60:
            continue
        if info[2]:        # fell back to the feature: pretend the direction was forgotten / scores zeroed
            b = copy.deepcopy(t)
            for s in b["scores"]:
                s["num"], s["den"], s["rank"] = 0, 1, 1
            b["tid"] = len(bad) + 1
            bad.append(b)
    ctx.negative_controls("DecideTrace", "Trace.cfg", bad, name="fallback replaced by all-zero scores")
    bad = []
    for t in btr:
        if bv[t["tid"]]["accept"] and t.get("has_ref") and len(bad) < 20:
            b = copy.deepcopy(t)
            b["same_as_ref"] = False
            b["tid"] = len(bad) + 1
            bad.append(b)
    ctx.negative_controls("DecideTrace", "Trace.cfg", bad, name="the return depends on what the path held before")
    ctx.assume("feat_total is what the returned fold models report (Model.feat_pass at train_fdr = test_fdr)")
    # the property as observed at the command line: how the user's options reach the stages (CliFlow.tla, drivers/cliflow.py)
    from drivers import cliflow
    cliflow.family(ctx, "C07", model_check=False, light=True)
    return ctx.finish(
        rule="brew: random 60-150 row datasets x estimators {feat, const (cannot learn), anti} x label encodings {1/-1, 1/0, bool} x "
             "best feature {higher, lower}-is-better x {text, Parquet} x override x folds 2..4 (a second collection every 8th; every 5th also "
             "after another table at the same path); 2640-3000 row collections with test_fdr 0.005 < train_fdr 0.01; "
             "confidence: canonical tables from ConfGen.tla with descs=[False] (every 4th with True) x flags x chunk sizes; distinct = "
             "distinct parameter tuple", exhaustive=False)


def replay(ctx, case):
    if isinstance(case.get("case"), dict) and case["case"].get("kind") == "cliflow":
        from drivers import cliflow
        return cliflow.replay(ctx, case, "C07")
    c = case["case"]["case"]
    if "files" in c:
        t = run_brew_case(c)
        t["tid"] = 1
        v = ctx.validate("DecideTrace", "Trace.cfg", [t])[1]
        sig = {"api": "brew", "est": c["est"], "label_enc": c["label_enc"], "lower_better": c["lower_better"], "fmt": c["fmt"],
               "override": c["override"], "folds": c["folds"], "seed": c["seed"], "raised": t["raised"].split(":")[0]}
    else:
        t = run_conf_case(c)
        t["tid"] = 1
        v = ctx.validate("ConfTrace", "Trace.cfg", [t])[1]
        sig = {"api": "assign_confidence", "desc": c["desc"], "dedup": c["dedup"], "rollup": c["rollup"], "chunk": c["chunk"]}
    if not v["accept"]:
        ctx.reject({"case": c, "trace": t}, v["failed"], sig)
    ctx.count(1)
    ctx.count(2)
    ctx.sample({"raised": t.get("raised")})
    return ctx.finish(rule="replay of one recorded case")
