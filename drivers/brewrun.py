"""Running the real mokapot.brew() on a generated case with a recording Model subclass / estimator and
projecting what happened to BrewTrace traces.  Shared by C02, C11, C05, C07, C08, C04."""
from __future__ import annotations

import shutil
import tempfile
import threading
from fractions import Fraction
from pathlib import Path

import numpy as np
from sklearn.base import BaseEstimator, ClassifierMixin

import mokapot
from drivers import mk

_REC = {}
_LOCK = threading.Lock()
_NEXT = [0]


class Recorder:
    def __init__(self, schedule=None, timeout=0.4):
        self.events = []
        self.lock = threading.Lock()
        self.cv = threading.Condition()
        self.schedule = list(schedule) if schedule else None   # fold numbers in the wanted completion order
        self.done = []
        self.timeout = timeout
        self.enforced = True

    def emit(self, *ev):
        with self.lock:
            self.events.append(ev)

    def wait_turn(self, fold):
        """Block the finishing fit of `fold` until every fold scheduled before it has finished (or time out:
        the schedule is then infeasible for the pool and the run is still used)."""
        if not self.schedule or fold not in self.schedule:
            return
        before = self.schedule[: self.schedule.index(fold)]
        with self.cv:
            ok = self.cv.wait_for(lambda: all(b in self.done for b in before), timeout=self.timeout)
            if not ok:
                self.enforced = False
            self.done.append(fold)
            self.cv.notify_all()


def new_recorder(**kw):
    with _LOCK:
        _NEXT[0] += 1
        tok = _NEXT[0]
        _REC[tok] = Recorder(**kw)
    return tok


class RecEst(BaseEstimator, ClassifierMixin):
    """Deterministic estimator whose behaviour is in the spec's vocabulary.  Column 0 of X is the row id.
       kind: feat  -> raw score = X[:, col]                     (learns nothing, ranks by a feature)
             anti  -> raw score = -X[:, col]
             const -> raw score = 0                              (cannot learn)
             memo  -> X[:, col] + big * label for rows seen in fit  (memorises its training rows)
             proba -> predict_proba only (no decision_function)
             order -> 4 * X[:, col] + w * (id mod 2), w a function of the ORDER of the training rows  """

    def __init__(self, kind="feat", col=1, token=0, offset=0, leak=None):
        # leak: {row id: +1 / -1} known to the estimator through a side channel (only the detection-power instrument of C04 uses it:
        # a memoriser that has "seen" the held-out rows as well, which is what leaky training sets would give it)
        self.kind, self.col, self.token, self.offset, self.leak = kind, col, token, offset, leak

    def fit(self, X, y):
        self.classes_ = np.array([0, 1])
        if self.kind == "memo":
            self.seen_ = {int(round(i)): (1.0 if lab > 0.5 else -1.0) for i, lab in zip(X[:, 0], y)}
        if self.kind == "order":      # sensitive to the ORDER in which the training rows arrive
            self.w_ = int(sum((j + 1) * int(round(i)) for j, i in enumerate(X[:, 0]))) % 5
        with _LOCK:
            _NEXT[0] += 1
            self.fit_serial_ = _NEXT[0]          # identifies the state this estimator OBJECT now holds
        rec = _REC.get(self.token)
        if rec is not None:
            rec.emit("est_fit", [int(round(v)) for v in X[:, 0]], [int(round(v)) for v in y], self.fit_serial_)
        return self

    def _raw(self, X):
        r = self._raw0(X)
        return r + float(self.offset) if self.offset else r      # a large intercept: raw scores far from 0, small spread

    def _raw0(self, X):
        if self.kind in ("feat", "proba"):
            return X[:, self.col].astype(float)
        if self.kind == "anti":
            return -X[:, self.col].astype(float)
        if self.kind == "const":
            return np.zeros(X.shape[0])
        if self.kind == "order":
            return 4.0 * X[:, self.col].astype(float) + getattr(self, "w_", 0) * (np.round(X[:, 0]).astype(int) % 2)
        if self.kind == "memo":
            seen = getattr(self, "seen_", {})
            if self.__dict__.get("leak"):
                seen = {**{int(k): float(v) for k, v in self.leak.items()}, **seen}
            return X[:, self.col].astype(float) + np.array([1000.0 * seen.get(int(round(i)), 0.0) for i in X[:, 0]])
        raise ValueError(self.kind)

    def __getattr__(self, name):
        if name == "decision_function":
            if self.__dict__.get("kind") == "proba":
                raise AttributeError(name)
            return self._raw
        raise AttributeError(name)

    def predict_proba(self, X):
        r = self._raw(X)
        p = 1.0 / (1.0 + np.exp(-r / 8.0))
        return np.column_stack([1 - p, p])


class RModel(mokapot.Model):
    """Model subclass recording fit / predict at the public API (copy.deepcopy in brew keeps the subclass)."""

    def __init__(self, *a, token=0, **kw):
        super().__init__(*a, **kw)
        self.token = token

    def _ids(self, psms):
        return [int(str(s)[1:]) for s in psms.data["SpecId"].tolist()]

    def fit(self, psms):
        rec = _REC.get(self.token)
        if rec is not None:
            rec.emit("fit", int(self.fold), self._ids(psms))
        try:
            return super().fit(psms)
        finally:
            if rec is not None:
                rec.wait_turn(int(self.fold))
                rec.emit("fit_end", int(self.fold))

    def predict(self, psms):
        raw = super().predict(psms)
        if getattr(self, "slow_fold", None) is not None and int(self.fold or 0) == int(self.slow_fold):
            import time
            time.sleep(0.05)          # perturbs the completion order of parallel predictions (results must not depend on it)
        rec = _REC.get(self.token)
        if rec is not None:
            # ... and which fitted state the estimator object attached to THIS fold model holds while it scores
            rec.emit("pred", int(self.fold), self._ids(psms), [float(v) for v in np.asarray(raw)],
                     int(getattr(self.estimator, "fit_serial_", 0) or 0), id(self.estimator))
        return raw


def frac(x, maxden):
    """[num, den, ok, nan] for a returned float"""
    x = float(x)
    if not np.isfinite(x):
        return [0, 1, False, True]
    f = Fraction(x).limit_denominator(maxden)
    ok = abs(float(f) - x) <= 1e-9 * max(1.0, abs(x))
    if abs(f.numerator) >= 2 ** 31 or f.denominator >= 2 ** 31:
        return [0, 1, False, False]
    return [f.numerator, f.denominator, bool(ok), False]


KEYS = {1: ("ScanNr",), 2: ("ScanNr", "ExpMass"), 3: ("ScanNr", "ret_time", "ExpMass"),
        4: ("filename", "ScanNr", "ret_time", "ExpMass")}


def build_inputs(case, wd, hkeys=None):
    """files -> OnDiskPsmDatasets; feature 0 is the row id, features 1.. come from the case.  hkeys (a dict, optional) receives
    for every row id the value of the FIRST TWO spectrum-key columns, which is what OnDiskPsmDataset._split hashes: PSMs that
    share it are kept in one fold even if the other key columns differ (the grouping is coarser than the spectrum)."""
    dsets = []
    nfeat = 1 + len(case["files"][0]["rows"][0]["f"])
    for c, fl in enumerate(case["files"]):
        rows = [{"id": r["id"], "spec": r["spec"], "pep": r.get("pep", r["id"]), "tgt": r["tgt"], "file": c,
                 "feats": [float(r["id"])] + [float(v) for v in r["f"]]} for r in fl["rows"]]
        key = KEYS[case.get("keyw", 2)]
        df = mk.build_table(rows, label_enc=case.get("label_enc", "1/-1"), nfeat=nfeat, key_cols=key,
                            share2=bool(case.get("share2")) and len(key) >= 3, int_feats=(case.get("int_feats") if case.get("int_feats") == "big" else bool(case.get("int_feats"))))
        if "ExpMass" not in key:
            df = df.drop(columns=["ExpMass"])
        if hkeys is not None:
            for r, vals in zip(rows, df[list(key)[:2]].astype(str).values.tolist()):
                hkeys[r["id"]] = "|".join(vals)
        ds = mk.make_dataset(df, wd / ("in%d.%s" % (c, case.get("fmt", "pin"))), key_cols=key,
                             row_group=case.get("row_group"))
        dsets.append(ds)
    return dsets


def run_brew(case, workdir=None, keep=False):
    """case: {files:[{rows:[{id, spec, tgt, f:[ints]}]}], folds, workers, cap|None, keyw 1..4, fmt, est, col,
              thr:[num,den] (test_fdr), train_thr:[num,den], max_iter, seed, schedule|None, pred_chunk, read_chunk,
              shuffle, override, model: 'rmodel' (default)}
    Returns (trace without tid, info) ; info has the raw return value pieces for other drivers."""
    own = workdir is None
    wd = Path(workdir or tempfile.mkdtemp(prefix="brew_"))
    tok = new_recorder(schedule=case.get("schedule"))
    rec = _REC[tok]
    raised, rtype = "", ""
    ret = None
    try:
        hkeys = {}
        dsets = build_inputs(case, wd, hkeys)
        thr = case.get("thr", [1, 1])
        tthr = case.get("train_thr", [1, 1])
        est = RecEst(kind=case.get("est", "feat"), col=case.get("col", 1), token=tok, offset=int(case.get("est_offset", 0)),
                     leak=case.get("leak_labels"))
        model = RModel(est, scaler="as-is", train_fdr=tthr[0] / tthr[1], max_iter=case.get("max_iter", 1),
                       direction=case.get("direction", "f1"), override=case.get("override", False),
                       shuffle=case.get("shuffle", True), token=tok)
        kw = dict(folds=case["folds"], max_workers=case.get("workers", 1), rng=case.get("seed", 1),
                  test_fdr=thr[0] / thr[1])
        if case.get("cap") is not None:
            kw["subset_max_train"] = int(case["cap"])
        if case.get("ensemble"):
            kw["ensemble"] = True
        # interposition at the LinearPsmDataset boundary: what brew hands to the training-set constructor
        # (enforce_checks=True) is recorded even when that constructor rejects it (no targets / no decoys)
        import sys
        BM = sys.modules["mokapot.brew"]
        # preferred: a recording subclass of the PUBLIC class LinearPsmDataset as bound in mokapot.brew (survives renamed / inlined
        # private helpers); otherwise the private helper _create_psms; otherwise no interposition (fewer events, never a failure)
        restore = []
        orig_cls = BM.__dict__.get("LinearPsmDataset")
        if isinstance(orig_cls, type):
            class RecLinear(orig_cls):
                def __init__(self, *a, **kw):
                    data = kw.get("psms", a[0] if a else None)
                    if kw.get("enforce_checks", True) and data is not None:
                        try:
                            rec.emit("train_set", [int(str(v)[1:]) for v in data["SpecId"].tolist()])
                        except Exception:
                            pass
                    super().__init__(*a, **kw)
            RecLinear.__name__, RecLinear.__qualname__ = orig_cls.__name__, orig_cls.__qualname__
            BM.LinearPsmDataset = RecLinear
            restore.append(("LinearPsmDataset", orig_cls))
        elif callable(BM.__dict__.get("_create_psms")):
            orig_create = BM._create_psms

            def rec_create(psms, data, enforce_checks=True):
                if enforce_checks:
                    rec.emit("train_set", [int(str(v)[1:]) for v in data["SpecId"].tolist()])
                return orig_create(psms, data, enforce_checks=enforce_checks)
            BM._create_psms = rec_create
            restore.append(("_create_psms", orig_create))
        try:
            with mk.patched(CHUNK_SIZE_ROWS_PREDICTION=case.get("pred_chunk", 700000),
                            CHUNK_SIZE_READ_ALL_DATA=case.get("read_chunk", 200000)):
                if case.get("prebrew_folds"):
                    # an EARLIER rescoring of the same parsed collections in this process, with another fold count, on shallow
                    # copies of the dataset objects (not recorded, its outcome does not matter); the judged run follows
                    import copy as _copy
                    try:
                        pre = RModel(RecEst(kind="feat", col=case.get("col", 1), token=new_recorder()), scaler="as-is", train_fdr=1.0,
                                     max_iter=1, direction="f1", override=True)
                        mokapot.brew([_copy.copy(d) for d in dsets], pre, folds=int(case["prebrew_folds"]), max_workers=1, rng=7, test_fdr=1.0)
                    except Exception:
                        pass
                    dsets = [_copy.copy(d) for d in dsets]
                ret = mokapot.brew(dsets, model, **kw)
                if case.get("refeed_seed") is not None and all(bool(m.is_trained) for m in ret[1]):
                    # the documented reuse flow: the fold models of this run score the same collection again in a second
                    # brew() under ANOTHER seed; fits are those of the first run, predictions those of the second
                    with rec.lock:
                        rec.events[:] = [e for e in rec.events if e[0] != "pred"]
                    dsets = build_inputs(case, wd)
                    kw2 = dict(kw)
                    kw2["rng"] = int(case["refeed_seed"])
                    ms = list(ret[1])
                    if case.get("refeed_reverse"):
                        ms = ms[::-1]             # the user lists the models in another order (brew sorts them by fold)
                    ret = mokapot.brew(dsets, ms, **kw2)
        except Exception as e:
            raised = "%s: %s" % (type(e).__name__, str(e)[:160])
            rtype = type(e).__name__
        finally:
            for nm, obj in restore:
                setattr(BM, nm, obj)
        hnum = {}
        rows = [{"id": r["id"], "file": c + 1, "spec": r["spec"], "tgt": bool(r["tgt"]),
                 "hgrp": hnum.setdefault((c, hkeys[r["id"]]), len(hnum) + 1)}
                for c, fl in enumerate(case["files"]) for r in fl["rows"]]
        file_of = {r["id"]: r["file"] for r in rows}
        fits, preds, trainsets = [], [], []
        est_train = {ev[3]: ev[1] for ev in rec.events if ev[0] == "est_fit" and len(ev) > 3}
        est_no = {}
        for ev in rec.events:
            if ev[0] == "train_set":
                trainsets.append(ev[1])
            elif ev[0] == "fit":
                fits.append({"model": ev[1], "train": ev[2]})
            elif ev[0] == "pred":
                ids = ev[2]
                raw = ev[3]
                ints = [int(round(v)) for v in raw]
                okint = all(abs(v - i) < 1e-9 for v, i in zip(raw, ints))
                preds.append({"model": ev[1], "file": file_of.get(ids[0], 0) if ids else 0, "ids": ids,
                              "raw": ints if okint else [0] * len(ids), "raw_int": bool(okint),
                              # rows the scoring estimator OBJECT was last fitted on (empty: not a recording estimator)
                              "est_train": list(est_train.get(ev[4], [])) if len(ev) > 4 else [],
                              # identity of that estimator object, as a small number
                              "est": est_no.setdefault(ev[5], len(est_no) + 1) if len(ev) > 5 else 0})
        scores = []
        trained = False
        if ret is not None:
            _, models, scs, descs = ret
            trained = all(bool(m.is_trained) for m in models)
            rng_span = 1 + max([abs(v) for p in preds for v in p["raw"]] + [1])
            for c, fl in enumerate(case["files"]):
                s = np.asarray(scs[c]).reshape(-1)
                for r, v in zip(fl["rows"], s.tolist()):
                    fr = frac(v, 8 * rng_span + 8)
                    scores.append({"id": r["id"], "num": fr[0], "den": fr[1], "ok": fr[2], "nan": fr[3]})
        trace = {"folds": case["folds"], "nfiles": len(case["files"]), "capped": case.get("cap") is not None,
                 "cap": int(case.get("cap") or 0), "thr": list(thr), "rows": rows, "fits": fits, "preds": preds,
                 "raised": raised, "raised_type": rtype, "calib_error": "Failed to calibrate scores" in raised,
                 "start_error": "No PSMs accepted at train_fdr" in raised, "scores": scores, "trainsets": trainsets, "trained": bool(trained),
                 "calibrated": case.get("est", "feat") != "proba" and all(p["raw_int"] for p in preds)}
        info = {"ret": ret, "events": rec.events, "enforced": rec.enforced, "datasets": dsets, "wd": wd}
        return trace, info
    finally:
        _REC.pop(tok, None)
        if own and not keep:
            shutil.rmtree(wd, ignore_errors=True)
