"""C17 -- in-silico digestion returns exactly the peptides the enzyme rules allow.

(M) Digest.tla: the site list (with duplicate end sites) and the double loop of fasta.py _cleavage_sites /
    _cleave, one action per code step, equals DigestDef!Digest (set comprehension over DISTINCT sites) for every
    sequence over {K,P,M,F} up to length 4 (quick; thorough: length 5 on the drivers' grid and length 4 with every
    pair of bounds) x 5 enzymes x missed cleavages 0..3 x length bounds x clip x semi; monotone in missed
    cleavages / bounds / semi; every peptide a substring; three seeded faults and the duplicate-site sensitivity
    config must be rejected.
(G) TLC enumerates every (sequence, enzyme) as CASE lines (length <= 5 quick / <= 7 thorough); the driver takes
    the product with the parameter grid GRID (missed cleavages x bounds x clip x semi; half of it per group at
    length 7) and calls the real mokapot.digest once per grid point; plus seeded random sequences of length
    8..60 over the 20 amino acids.
(V) DigestTrace.tla recomputes DigestDef!Digest for the recorded parameters and accepts a group of recorded calls
    on one (sequence, enzyme) iff every returned SET of peptide strings equals it, every peptide is a substring,
    and for every listed pair of calls whose parameters are ordered the smaller result is a subset of the larger.
"""
from __future__ import annotations

import inspect
import re
from concurrent.futures import ThreadPoolExecutor

import numpy as np

from engine.tlc import run_tlc, MachineryError
from drivers.common import pmap

LEVEL = "model_checking"

ENZ = {"KR": "[KR]", "KRnoP": "[KR](?!P)", "lbKRnoP": "(?<=[KR])(?!P)", "lookK": "(?=K)", "FWY": "[FWY]"}
ENZ_NAMES = list(ENZ)
MCS = [0, 1, 2, 3]
BOUNDS = [(a, b) for a in (1, 2, 3) for b in (2, 4, 50) if a <= b]      # = Digest!BoundsGrid
FLAGS = [(c, s) for c in (False, True) for s in (False, True)]
GRID = [[mc, lo, hi, c, s] for mc in MCS for (lo, hi) in BOUNDS for (c, s) in FLAGS]
AA = "ACDEFGHIKLMNPQRSTVWY"
THOROUGH_LEN = 5          # MaxLen of Digest_thorough.cfg


def covering_pairs(params):
    """Index pairs (1-based) i -> j where j differs from i in ONE coordinate by one step towards 'allows more'
    (mc + 1, next smaller min, next larger max, semi off -> on); the transitive closure is the full order.
    Only proposes pairs: DigestTrace!Dominates re-checks each of them."""
    idx = {tuple(p): k + 1 for k, p in enumerate(params)}
    mins = sorted({p[1] for p in params})
    maxs = sorted({p[2] for p in params})
    out = []
    for p in params:
        mc, lo, hi, c, s = p
        cands = [(mc + 1, lo, hi, c, s)]
        if mins.index(lo) > 0:
            cands.append((mc, mins[mins.index(lo) - 1], hi, c, s))
        if maxs.index(hi) + 1 < len(maxs):
            cands.append((mc, lo, maxs[maxs.index(hi) + 1], c, s))
        if not s:
            cands.append((mc, lo, hi, c, True))
        for q in cands:
            if q in idx:
                out.append([idx[tuple(p)], idx[q]])
    return out


GRID_PAIRS = covering_pairs(GRID)
# thorough tier, sequences of length 7 only: half of the grid per group, the clip flag alternating with the group
HALF = {c: [p for p in GRID if p[3] == c] for c in (False, True)}
HALF_PAIRS = {c: covering_pairs(HALF[c]) for c in (False, True)}


def defaults():
    import mokapot
    sig = inspect.signature(mokapot.digest).parameters
    return [int(sig["missed_cleavages"].default), int(sig["min_length"].default), int(sig["max_length"].default),
            bool(sig["clip_nterm_methionine"].default), bool(sig["semi"].default)]


def call_digest(seq, regex, p, style):
    """One call of the public mokapot.digest; p = [mc, minL, maxL, clip, semi] or "default" (keywords omitted)."""
    import mokapot
    if p == "default":
        return mokapot.digest(seq, regex)
    mc, lo, hi, clip, semi = p
    if style == 1:      # compiled pattern, positional arguments
        if (mc + lo) % 2 == 1 and seq == seq.upper():
            # ... compiled WITH a flag: the same enzyme written in lower case and matched case-insensitively
            return mokapot.digest(seq, re.compile(regex.lower(), re.IGNORECASE), mc, clip, lo, hi, semi)
        return mokapot.digest(seq, re.compile(regex), mc, clip, lo, hi, semi)
    return mokapot.digest(seq, enzyme_regex=regex, missed_cleavages=mc, clip_nterm_methionine=clip,
                          min_length=lo, max_length=hi, semi=semi)


def call_real(case):
    """Run one group (all calls on one (sequence, enzyme)); returns the trace dict (without tid)."""
    seq, enz = case["seq"], case["enzyme"]
    tr = {"seq": seq, "enzyme": enz, "raised": "", "runs": [], "pairs": [list(x) for x in case["pairs"]]}
    dflt = None
    for k, p in enumerate(case["params"]):
        if p == "default":
            dflt = dflt or defaults()
            rec = list(dflt)
        else:
            rec = [int(p[0]), int(p[1]), int(p[2]), bool(p[3]), bool(p[4])]
        try:
            res = call_digest(seq, ENZ[enz], p, (case.get("style", 0) + k) % 2)
            if not isinstance(res, (set, frozenset)) or not all(isinstance(x, str) for x in res):
                raise TypeError("digest returned %r, not a set of str" % type(res).__name__)
            peps = sorted(res)
        except Exception as e:          # the property says the call returns a set on every input of the domain
            tr["raised"] = "%s: %s" % (type(e).__name__, e)
            peps = []
        tr["runs"].append(rec + [peps])
    return tr


def tlc_cases(cfg):
    r = run_tlc("Digest", cfg, workers=4)
    if not r.ok:
        raise MachineryError("generation run failed: %s %s" % (r.violated, r.error))
    cases = [("".join(p[1]), p[2]) for p in r.prints if p and p[0] == "CASE"]     # the model holds tuples of residues
    if len(cases) != r.distinct - 1 or len(set(cases)) != len(cases):
        raise MachineryError("generation: %d CASE lines for %d picked states" % (len(cases), r.distinct - 1))
    return sorted(cases, key=lambda c: (len(c[0]), c[0], c[1])), r


def random_seq(rng, n):
    w = np.ones(len(AA))
    for ch, f in (("K", 4), ("R", 3), ("P", 3), ("M", 2), ("F", 2), ("W", 1.5), ("Y", 1.5)):
        w[AA.index(ch)] = f
    s = "".join(rng.choice(list(AA), size=n, p=w / w.sum()))
    style = int(rng.integers(0, 6))
    if style == 0 and n >= 1:
        s = "M" + s[1:]
    elif style == 1 and n >= 2:
        s = "MK"[: min(2, n)] + s[2:]
    elif style == 2 and n >= 1:
        s = s[:-1] + "K"
    elif style == 3 and n >= 3:
        s = "K" + s[1:-2] + "KP"
    elif style == 4 and n >= 4:
        k = int(rng.integers(0, n - 3))
        s = s[:k] + "KKRP"[: 4] + s[k + 4:]
    return s[:n]


def random_cases(rng, count):
    """Seeded random longer sequences; each with a small lattice of parameter settings around a random base
    (base, mc+1, lower min, higher max, semi, everything wider, the defaults of the signature)."""
    out = []
    for i in range(count):
        n = int(rng.integers(8, 61))
        seq = random_seq(rng, n)
        enz = ENZ_NAMES[(i + int(rng.integers(0, 2))) % len(ENZ_NAMES)]
        mc = int(rng.integers(0, 3))
        lo = int(rng.integers(2, 9))
        hi = lo + int(rng.integers(0, 16))
        clip = bool(rng.integers(0, 2))
        lo2 = int(rng.integers(1, lo))
        hi2 = hi + int(rng.integers(1, 12)) if rng.random() < 0.5 else 50
        params = [[mc, lo, hi, clip, False], [mc + 1, lo, hi, clip, False], [mc, lo2, hi, clip, False],
                  [mc, lo, hi2, clip, False], [mc, lo, hi, clip, True], [3, 1, max(hi2, 50), clip, True],
                  [mc + 1, lo2, hi2, clip, True], "default"]
        pairs = [[1, 2], [1, 3], [1, 4], [1, 5], [2, 7], [3, 7], [4, 7], [5, 7], [7, 6], [1, 6]]
        out.append({"seq": seq, "enzyme": enz, "params": params, "pairs": pairs, "style": i % 2})
    return out


def out_of_domain_cases(rng, count):
    """min_length = 0 (the empty string is returned) or max_length < min_length: outside the stated domain."""
    out = []
    for i in range(count):
        seq = random_seq(rng, int(rng.integers(0, 12)))
        p = [int(rng.integers(0, 3)), 0, 50, bool(i % 2), bool((i // 2) % 2)] if i % 3 else [0, 3, 2, False, False]
        out.append({"seq": seq, "enzyme": ENZ_NAMES[i % len(ENZ_NAMES)], "params": [p], "pairs": [], "style": 0})
    return out


def signature(case, run=None):
    sig = {"api": "mokapot.digest", "enzyme": case["enzyme"], "regex": ENZ[case["enzyme"]], "seq": case["seq"],
           "seq_len": len(case["seq"])}
    if run is not None:
        sig.update(mc=run[0], min_length=run[1], max_length=run[2], clip=run[3], semi=run[4])
    return sig


def split_group(case, tr):
    """Single-call and single-pair sub-traces of a rejected group (to name the smallest failing call)."""
    minis = []
    for k, run in enumerate(tr["runs"]):
        c = {"seq": case["seq"], "enzyme": case["enzyme"], "params": [case["params"][k]], "pairs": [],
             "style": (case.get("style", 0) + k) % 2}
        minis.append((c, {"seq": tr["seq"], "enzyme": tr["enzyme"], "raised": tr["raised"], "runs": [run], "pairs": []}))
    for i, j in tr["pairs"]:
        c = {"seq": case["seq"], "enzyme": case["enzyme"], "params": [case["params"][i - 1], case["params"][j - 1]],
             "pairs": [[1, 2]], "style": case.get("style", 0)}
        minis.append((c, {"seq": tr["seq"], "enzyme": tr["enzyme"], "raised": "", "runs": [tr["runs"][i - 1], tr["runs"][j - 1]],
                          "pairs": [[1, 2]]}))
    return minis


def corrupt(tr, rng, how):
    """Negative controls on an accepted trace: keep one call, falsify its recorded result."""
    seq = tr["seq"]
    runs = [r for r in tr["runs"] if r[1] >= 1 and r[2] >= r[1]]
    if how == "remove":
        runs = [r for r in runs if r[5]]
        if not runs:
            return None
        r = list(runs[int(rng.integers(0, len(runs)))])
        peps = list(r[5])
        del peps[int(rng.integers(0, len(peps)))]
        r[5] = peps
        return {"seq": seq, "enzyme": tr["enzyme"], "raised": "", "runs": [r], "pairs": []}
    if how == "add":        # a substring of the protein that the call did not return
        if not runs or not seq:
            return None
        r = list(runs[int(rng.integers(0, len(runs)))])
        have = set(r[5])
        for _ in range(50):
            a = int(rng.integers(0, len(seq)))
            b = int(rng.integers(a + 1, len(seq) + 1))
            if seq[a:b] not in have:
                r[5] = sorted(have | {seq[a:b]})
                return {"seq": seq, "enzyme": tr["enzyme"], "raised": "", "runs": [r], "pairs": []}
        return None
    if how == "foreign":    # a string that is not a substring of the protein
        if not runs:
            return None
        r = list(runs[int(rng.integers(0, len(runs)))])
        r[5] = sorted(set(r[5]) | {seq + "K"})
        return {"seq": seq, "enzyme": tr["enzyme"], "raised": "", "runs": [r], "pairs": []}
    if how == "reversed_pair":      # a monotonicity obligation stated the wrong way round on different results
        for i, j in tr["pairs"]:
            if set(tr["runs"][i - 1][5]) != set(tr["runs"][j - 1][5]):
                return {"seq": seq, "enzyme": tr["enzyme"], "raised": "", "runs": [tr["runs"][j - 1], tr["runs"][i - 1]],
                        "pairs": [[1, 2]]}
        return None
    if how == "raised":
        return dict(tr, raised="ValueError: injected", runs=tr["runs"][:1], pairs=[])
    raise ValueError(how)


def run(ctx):
    ctx.liveness("Digest", unfair_control=not ctx.quick)      # termination under weak fairness (Digest_live.cfg)
    rng = np.random.default_rng(ctx.seed)
    # ---------------- (M) ----------------
    # the sensitivity configs (which only append to the run list) and the generation run go on side threads
    # while the main thread runs the configs that must pass
    maxlen = 5 if ctx.quick else 7
    side = ThreadPoolExecutor(max_workers=5)
    futs = [side.submit(ctx.model_check, "Digest", cfg, expect_violation="ImplEqualsDef", note=note, workers=2) for cfg, note in (
        ("Digest_mut1.cfg", "seeded fault: len(sequence) not a site"),
        ("Digest_mut2.cfg", "seeded fault: range(1, mc + 1)"),
        ("Digest_mut3.cfg", "seeded fault: methionine clipped from inner peptides"),
        ("Digest_dup0.cfg", "duplicate-site sensitivity: with a zero-width pattern matching at 0 in front of M (enzyme "
                            "'(?=M)', not in the checked enzyme list) the duplicate start site hides the N-terminal "
                            "peptide from clipping"))]
    gen = side.submit(tlc_cases, "Digest_gen%d.cfg" % maxlen)
    ctx.model_check("Digest", "Digest_quick.cfg", note="len<=4 over {K,P,M,F} x 5 enzymes x mc 0..3 x 4 bound pairs x clip x semi")
    if not ctx.quick:
        ctx.model_check("Digest", "Digest_bounds.cfg", note="len<=4, every pair of length bounds 1<=min<=max<=5, mc 0..2")
        ctx.model_check("Digest", "Digest_thorough.cfg", note="len<=%d, mc 0..3, the drivers' 8 bound pairs" % THOROUGH_LEN, timeout=3000)
    r = ctx.model_check("Digest", "Digest_cov.cfg", coverage=True, note="action coverage (len<=2)")
    ctx.require_actions(r, ["Pick", "FindSites", "SkipEnd", "SkipLen", "AddPep", "NextStart", "Finish"])
    for f in futs:
        f.result()
    # ---------------- (G) ----------------
    base, gr = gen.result()
    side.shutdown()
    ctx.cov["model_runs"].append({"module": "Digest", "cfg": gr.cfg, "generated": gr.generated, "distinct": gr.distinct,
                                  "wall_s": round(gr.wall_s, 1), "note": "generation: %d CASE lines" % len(base)})
    cases = []
    for k, (seq, enz) in enumerate(base):
        if len(seq) <= 6:
            cases.append({"seq": seq, "enzyme": enz, "params": GRID, "pairs": GRID_PAIRS, "style": k % 2})
        else:
            c = bool(k % 2)
            cases.append({"seq": seq, "enzyme": enz, "params": HALF[c], "pairs": HALF_PAIRS[c], "style": (k // 2) % 2})
    n_enum = len(cases)
    cases += random_cases(rng, 300 if ctx.quick else 4000)
    n_ood0 = len(cases)
    cases += out_of_domain_cases(rng, 60)
    # ---------------- drive the real code, validate chunk by chunk ----------------
    call_real(cases[0])

    def one(i):
        tr = call_real(cases[i])
        tr["tid"] = i + 1
        return tr

    keep = []           # a few accepted traces for the negative controls
    located = 0
    crng = np.random.default_rng(ctx.seed + 1)
    CH = 8000
    for lo in range(0, len(cases), CH):
        hi = min(len(cases), lo + CH)
        traces = pmap(lambda i: one(lo + i), hi - lo)
        verdicts = ctx.validate("DigestTrace", "Trace.cfg", traces, max_per_shard=500)
        for tr in traces:
            i = tr["tid"] - 1
            c = cases[i]
            v = verdicts[tr["tid"]]
            nonempty = any(r[5] for r in tr["runs"])
            if i >= n_ood0:
                ctx.cov["out_of_domain"] += 1
                ctx.cov["evaluations"] += len(tr["runs"])
                if not v["accept"]:
                    raise MachineryError("out-of-domain trace not accepted vacuously: %r" % (c,))
                continue
            ctx.count((c["seq"], c["enzyme"]), nontrivial=nonempty)
            ctx.cov["evaluations"] += len(tr["runs"]) - 1
            if i in (0, 700, n_enum - 1, n_enum, n_enum + 1):
                ctx.sample({"seq": c["seq"], "enzyme": c["enzyme"], "regex": ENZ[c["enzyme"]],
                            "calls": [{"mc": r[0], "min_length": r[1], "max_length": r[2], "clip": r[3], "semi": r[4],
                                       "peptides": r[5][:12]} for r in (tr["runs"][:2] + tr["runs"][-2:])]})
            if v["accept"]:
                if len(keep) < 400 and (i % 37 == 0 or i >= n_enum):
                    keep.append(tr)
                continue
            if "PairShape" in v["failed"]:
                raise MachineryError("driver proposed a pair of calls that is not ordered: %r" % (c,))
            if located < 40:        # name the failing call(s) of the group
                located += 1
                minis = split_group(c, tr)
                for t, (_, m) in enumerate(minis, 1):
                    m["tid"] = t
                mv = ctx.validate("DigestTrace", "Trace.cfg", [m for _, m in minis])
                ctx.cov["traces_validated_against_impl"] -= len(minis)      # re-validation, not new executions
                hit = False
                for t, (mc_, m) in enumerate(minis, 1):
                    if not mv[t]["accept"]:
                        hit = True
                        ctx.reject({"case": mc_, "trace": m}, mv[t]["failed"], signature(mc_, m["runs"][-1 if m["pairs"] else 0]))
                if not hit:
                    ctx.reject({"case": c, "trace": tr}, v["failed"], signature(c))
            else:
                ctx.reject({"case": {k: c[k] for k in ("seq", "enzyme", "params", "pairs", "style")}, "trace": tr},
                           v["failed"], signature(c))
        del traces
    # ---------------- negative controls ----------------
    jobs = []
    for how, label in (("remove", "one returned peptide removed"), ("add", "a substring that was not returned added"),
                       ("foreign", "a non-substring added"), ("reversed_pair", "monotonicity pair reversed"),
                       ("raised", "exception recorded")):
        bad = []
        for t in keep:
            b = corrupt(t, crng, how)
            if b is not None and len(bad) < 100:
                b["tid"] = len(bad) + 1
                bad.append(b)
        jobs.append((bad, label))
    with ThreadPoolExecutor(max_workers=5) as ex:       # distinct result keys, no shared counters
        for f in [ex.submit(ctx.negative_controls, "DigestTrace", "Trace.cfg", bad, name=label) for bad, label in jobs]:
            f.result()
    ctx.assume("domain: min_length >= 1 and max_length >= min_length (with min_length = 0 the empty string is returned "
               "through duplicate end sites; the statement speaks of peptides); %d out-of-domain calls were recorded and "
               "accepted vacuously" % ctx.cov["out_of_domain"])
    ctx.assume("'every proper prefix and suffix of such a peptide' is read as: of every enzymatic peptide within the "
               "length bounds (not of the methionine-clipped forms)")
    ctx.assume("enzymes are the five patterns %s; each decides a position from the residue before and after it, so "
               "re.finditer's non-overlapping scan finds every such position" % sorted(ENZ.values()))
    return ctx.finish(
        rule="groups = every (sequence over {K,P,M,F} of length 0..%d, enzyme of 5) enumerated by TLC from Digest.tla "
             "(Pick) -- the driver, not TLC, takes the product with the parameter grid of %d settings (missed cleavages "
             "0..3 x bounds %s x clip x semi) and calls mokapot.digest once per setting (alternating str / compiled "
             "pattern, keyword / positional); plus seeded random sequences of length 8..60 over the 20 amino acids with 8 "
             "settings each (one with the signature defaults). evaluations = calls of digest; traces = groups of calls on "
             "one (sequence, enzyme), each carrying %d ordered pairs for the monotonicity clause; distinct = distinct "
             "(sequence, enzyme) with at least one non-empty digest%s" % (
                 maxlen, len(GRID), BOUNDS, len(GRID_PAIRS),
                 "" if ctx.quick else "; sequences of length 7 get half of the grid per (sequence, enzyme): all missed "
                 "cleavages x bounds x semi with the clip flag alternating from one group to the next (64 settings, %d "
                 "pairs), lengths 0..6 the full grid" % len(HALF_PAIRS[True])),
        exhaustive=True)


def replay(ctx, case):
    c = case["case"]["case"]
    c = dict(c, params=[("default" if p == "default" else list(p)) for p in c["params"]])
    tr = call_real(c)
    tr["tid"] = 1
    v = ctx.validate("DigestTrace", "Trace.cfg", [tr])[1]
    if not v["accept"]:
        ctx.reject({"case": c, "trace": tr}, v["failed"], signature(c, tr["runs"][-1 if tr["pairs"] else 0]))
    ctx.count(1)
    ctx.count(2)
    ctx.sample(tr)
    return ctx.finish(rule="replay of one recorded case")
