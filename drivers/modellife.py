"""Life cycle of a mokapot.Model object (ModelLife.tla / ModelLifeTrace.tla), family "lifecycle" of C12:
every call sequence TLC generates (fit / predict / save / load_model in any order, datasets whose feature columns stand in
different orders) is replayed into a real Model with a deterministic integer estimator; TLC judges what the object answered."""
from __future__ import annotations

import copy
import os
import shutil
import tempfile
from pathlib import Path

import numpy as np
import pandas as pd
from sklearn.base import BaseEstimator, ClassifierMixin

from engine.tlc import run_tlc, MachineryError
from drivers.common import pmap

NAMES = ["fa", "fb", "fc"]
ORDERS = {1: [0, 1, 2], 2: [2, 0, 1], 3: [1, 2, 0]}


class CentroidEst(BaseEstimator, ClassifierMixin):
    """weights = column sums of the positives minus column sums of the negatives; score = row . weights (exact in integers)"""

    def fit(self, X, y):
        X = np.asarray(X, dtype=float)
        y = np.asarray(y)
        self.classes_ = np.array([0, 1])
        self.w_ = X[y == 1].sum(axis=0) - X[y != 1].sum(axis=0)
        return self

    def decision_function(self, X):
        return np.asarray(X, dtype=float) @ self.w_


def make_data(rng):
    """two tiny datasets with distinct integer columns (so that any column mix-up changes some score)"""
    data = []
    for d in range(2):
        while True:
            n = int(rng.integers(4, 7))
            X = rng.integers(0, 6, size=(n, 3))
            tgt = [bool(i % 2 == 0) for i in range(n)]
            w = X[np.array(tgt)].sum(0) - X[~np.array(tgt)].sum(0)
            # weights pairwise distinct and non-zero, columns pairwise distinct: a permuted use of the weights is visible
            if len(set(int(v) for v in w)) == 3 and all(int(v) != 0 for v in w) and len({tuple(X[:, j]) for j in range(3)}) == 3:
                break
        data.append({"X": [[int(v) for v in row] for row in X], "tgt": tgt})
    return data


def dataset(d, o):
    import mokapot
    X = np.asarray(d["X"], dtype=float)
    cols = {"tgt": list(d["tgt"]), "spec": list(range(1, len(X) + 1)), "pep": ["PEP%d" % i for i in range(len(X))]}
    order = ORDERS[o]
    for j in order:
        cols[NAMES[j]] = X[:, j]
    df = pd.DataFrame(cols)
    return mokapot.dataset.LinearPsmDataset(df, target_column="tgt", spectrum_columns="spec", peptide_column="pep",
                                            feature_columns=[NAMES[j] for j in order], copy_data=True)


def replay_behaviour(job):
    """one behaviour of ModelLife.tla on a real object; returns the trace (without tid)"""
    import mokapot
    from sklearn.exceptions import NotFittedError
    hist, data = job["hist"], job["data"]
    wd = Path(tempfile.mkdtemp(prefix="mlife_"))
    ops = []
    try:
        model = mokapot.Model(CentroidEst(), scaler="as-is", train_fdr=1.0, max_iter=1, shuffle=bool(job.get("shuffle", True)), rng=3)
        for c in hist:
            op = {"op": c["op"], "d": int(c["d"]), "o": int(c["o"]), "p": int(c["p"]), "res": "ok", "scores": []}
            try:
                if c["op"] == "fit":
                    model.fit(dataset(data[c["d"] - 1], c["o"]))
                elif c["op"] == "predict":
                    try:
                        s = model.predict(dataset(data[c["d"] - 1], c["o"]))
                        s = np.asarray(s, dtype=float).reshape(-1)
                        if not np.all(np.isfinite(s)) or np.any(np.abs(s - np.round(s)) > 1e-9):
                            op["res"] = "error"
                        else:
                            op["scores"] = [int(round(v)) for v in s]
                    except NotFittedError:
                        op["res"] = "NotFitted"
                elif c["op"] == "save":
                    f = wd / ("m%d.pkl" % c["p"])
                    if job.get("save_api") == "function":
                        mokapot.save_model(model, f)
                    else:
                        model.save(f)
                elif c["op"] == "load":
                    model = mokapot.load_model(wd / ("m%d.pkl" % c["p"]))
            except Exception as e:
                op["res"] = "error"
                op["why"] = "%s: %s" % (type(e).__name__, str(e)[:120])
            op["trained"] = bool(model.is_trained)
            ops.append(op)
    finally:
        shutil.rmtree(wd, ignore_errors=True)
    return {"data": data, "ops": ops}


def family(ctx, max_quick=2500):
    ctx.phase("model_lifecycle")
    ctx.model_check("ModelLife", "ModelLife_quick.cfg" if ctx.quick else "ModelLife_thorough.cfg",
                    note="every call sequence (fit / predict / save / load) up to 5 calls (6 in thorough), 2 datasets x 2-3 column orders x 2 paths")
    for m in ("stale_names_on_refit", "by_position", "save_drops_trained_flag"):
        ctx.model_check("ModelLife", "ModelLife_mut_%s.cfg" % m, expect_violation="AnswersByLastFit")
    r = run_tlc("ModelLife", "ModelLife_gen.cfg", workers=1)
    if not r.ok:
        raise MachineryError("ModelLife generation failed: %s %s" % (r.violated, r.error))
    hists = [p[1] for p in r.prints if p and p[0] == "CASE"]
    if len(hists) < 1000:
        raise MachineryError("ModelLife generation produced only %d behaviours" % len(hists))
    ctx.cov["lifecycle_behaviours_from_tlc"] = len(hists)
    rng = np.random.default_rng(ctx.seed + 5)
    # only behaviours that exercise something: at least one predict or load
    hists = [h for h in hists if any(c["op"] in ("predict", "load") for c in h)]
    if ctx.quick and len(hists) > max_quick:
        keep = sorted(int(i) for i in rng.permutation(len(hists))[:max_quick])
        hists = [hists[i] for i in keep]
    # longer seeded random sequences over three column orders
    extra = []
    for _ in range(300 if ctx.quick else 5000):
        h, files = [], set()
        for _k in range(int(rng.integers(5, 9))):
            kind = ["fit", "predict", "predict", "save", "load"][int(rng.integers(0, 5))]
            if kind == "load" and not files:
                kind = "predict"
            c = {"op": kind, "d": 0, "o": 0, "p": 0, "res": "ok", "by": 0}
            if kind in ("fit", "predict"):
                c["d"], c["o"] = int(rng.integers(1, 3)), int(rng.integers(1, 4))
            elif kind == "save":
                c["p"] = int(rng.integers(1, 4))
                files.add(c["p"])
            else:
                c["p"] = sorted(files)[int(rng.integers(0, len(files)))]
            h.append(c)
        extra.append(h)
    jobs = [{"hist": h, "data": make_data(rng), "shuffle": bool(i % 2), "save_api": ["method", "function"][i % 2]} for i, h in enumerate(hists + extra)]
    import mokapot  # noqa: F401  (warm imports before forking)
    traces = pmap(lambda i: replay_behaviour(jobs[i]), len(jobs))
    for i, t in enumerate(traces):
        t["tid"] = i + 1
        ctx.count(("lifecycle", str([(c["op"], c["d"], c["o"], c["p"]) for c in jobs[i]["hist"]])))
    v = ctx.validate("ModelLifeTrace", "Trace.cfg", traces)
    for j, t in zip(jobs, traces):
        r = v[t["tid"]]
        if not r["accept"]:
            ctx.reject({"kind": "lifecycle", "job": j, "trace": t}, r["failed"],
                       {"api": "Model life cycle", "ops": [c["op"] for c in j["hist"]], "failed": r["failed"]})
    ctx.sample({"lifecycle": [(c["op"], c["d"], c["o"], c["p"], c["res"]) for c in traces[0]["ops"]]})
    # negative controls: a returned score vector permuted / a NotFitted answer from a fitted object / a wrong trained flag
    bad = []
    for t in traces:
        if not v[t["tid"]]["accept"] or len(bad) >= 60:
            continue
        ks = [k for k, c in enumerate(t["ops"]) if c["op"] == "predict" and c["res"] == "ok" and len(set(c["scores"])) > 1]
        if ks:
            b = copy.deepcopy(t)
            sc = b["ops"][ks[-1]]["scores"]
            b["ops"][ks[-1]]["scores"] = sc[1:] + sc[:1]
            b["tid"] = len(bad) + 1
            bad.append(b)
            b = copy.deepcopy(t)
            b["ops"][ks[0]]["res"], b["ops"][ks[0]]["scores"] = "NotFitted", []
            b["tid"] = len(bad) + 1
            bad.append(b)
        b = copy.deepcopy(t)
        b["ops"][-1]["trained"] = not b["ops"][-1]["trained"]
        b["tid"] = len(bad) + 1
        bad.append(b)
    ctx.negative_controls("ModelLifeTrace", "Trace.cfg", bad, name="life cycle: permuted scores / NotFitted from a fitted object / wrong trained flag")
    return v


def replay(ctx, case):
    j = case["case"]["job"]
    t = replay_behaviour(j)
    t["tid"] = 1
    r = ctx.validate("ModelLifeTrace", "Trace.cfg", [t])[1]
    if not r["accept"]:
        ctx.reject({"kind": "lifecycle", "job": j, "trace": t}, r["failed"], {"api": "Model life cycle", "ops": [c["op"] for c in j["hist"]], "failed": r["failed"]})
    ctx.count(1)
    ctx.sample({"ops": t["ops"][:3]})
    return ctx.finish(rule="replay of one recorded life-cycle behaviour")
