"""C08 -- fixed seed gives bit-identical results across runs and interpreter sessions.

(M) Determinism.tla: run histories with every nondeterminism source as a free choice (completion order of the fold
    fits, set iteration order in protein grouping, order of re-fed models); SameDigests / RefeedReproduces.  The
    mechanisms are modelled in Brew.tla (sort by fold), ProteinGroups.tla (EqualsCanonical).
(G) histories = for each (dataset, seed): repeats in one process, fresh interpreters with other PYTHONHASHSEED values,
    workers 1/2/4, text vs the same history again, every permutation of the fold models fed back.
(V) RunsTrace.tla: all sessions of one (dataset, seed) must have equal digests (sha256 of score bytes, coefficient
    bytes, fold membership, every result file incl. protein level, FASTA maps as sets).
"""
from __future__ import annotations

import copy
import itertools
import json
import os
import subprocess
import sys
from concurrent.futures import ThreadPoolExecutor

import numpy as np

from engine.tlc import MachineryError, VERIF

LEVEL = "exploration"


def sub_session(spec, hashseed):
    env = dict(os.environ)
    env["PYTHONHASHSEED"] = str(hashseed)
    env["PYTHONPATH"] = VERIF + ":" + os.environ.get("VERIF_REPO", "/repo")
    p = subprocess.run(["/venv/bin/python", "-W", "ignore", "-m", "drivers.c08_worker", json.dumps(spec)], cwd=VERIF, env=env,
                       stdout=subprocess.PIPE, stderr=subprocess.PIPE, text=True, timeout=900)
    for line in p.stdout.splitlines():
        if line.startswith("C08RESULT "):
            return json.loads(line[len("C08RESULT "):])
    raise MachineryError("worker produced no result: %s" % (p.stderr[-800:],))


def run(ctx):
    from drivers import c08_worker
    rng = np.random.default_rng(ctx.seed)
    ctx.phase("model_checking")
    ctx.model_check("Determinism", "Determinism.cfg", note="all run histories of 2 runs: 3 folds (6 completion orders x 6 refeed orders), 3 group members (6 iteration orders)")
    ctx.model_check("Determinism", "Determinism_mut1.cfg", expect_violation="RefeedReproduces", note="seeded fault: models not sorted by fold")
    ctx.model_check("Determinism", "Determinism_mut2.cfg", expect_violation="SameDigests", note="seeded fault: group name built from iteration order")
    ctx.model_check("Brew", "Brew_mut2.cfg", expect_violation="NoLeak", note="Brew.tla: without the sort by fold the completion order leaks into the routing")
    ctx.phase("generation")
    ngroups = 2 if ctx.quick else 6
    ncli = 1 if ctx.quick else 3          # the same histories through the command-line entry point (mokapot.mokapot.main)
    groups = []
    for g in range(ngroups + ncli):
        folds = 3 if (ctx.quick or g % 2 == 0) else 4
        base = {"data_seed": int(ctx.seed * 100 + g + 1), "n": 900 if ctx.quick else 1500, "folds": folds, "seed": int(7 + g),
                "workers": 1, "proteins": bool(g % 2 == 0), "peps": "qvality",
                # every other group trains on a random subset of each training set (subset_max_train below its size)
                "cap": (250 if g % 2 == 1 else None)}
        if g >= ngroups:
            base.update(cli=True, proteins=bool((g - ngroups) % 3 == 1), cap=(300 if (g - ngroups) % 3 == 2 else None),
                        peps=["qvality", "kde_nnls", "hist_nnls"][(g - ngroups) % 3])
        sessions = [("inproc", 0, dict(base)), ("inproc-repeat", 0, dict(base))]
        for hs in ([1, 2] if ctx.quick else [1, 2, 3, 4, 5, 6, 7]):
            sessions.append(("fresh", hs, dict(base)))
        for w in (2, 4):
            s = dict(base)
            s["workers"] = w
            sessions.append(("fresh", 3 + w, s))
        perms = list(itertools.permutations(range(folds)))
        if ctx.quick:
            perms = [perms[0], perms[-1], perms[len(perms) // 2]]
        for pm in perms:
            s = dict(base)
            s["refeed"] = list(pm)
            sessions.append(("fresh", 0, s))
        groups.append({"base": base, "sessions": sessions})
    # confidence assignment alone on heavily tied scores, random sources at their defaults: repeated in-process and fresh
    for g in range(1 if ctx.quick else 3):
        base = {"conf_only": True, "data_seed": int(ctx.seed * 100 + 50 + g), "n": 900, "folds": 3, "seed": 0, "workers": 1,
                "proteins": True, "peps": ["qvality", "kde_nnls", "hist_nnls"][g % 3]}
        sessions = [("inproc", 0, dict(base)), ("inproc-repeat", 0, dict(base)), ("inproc-repeat", 0, dict(base))]
        sessions += [("fresh", hs, dict(base)) for hs in (1, 2)]
        sessions.append(("fresh", 5, dict(base, workers=2)))
        groups.append({"base": base, "sessions": sessions})
    # ensemble mode: every fold model scores every PSM, in parallel; one model answers late
    for g in range(1 if ctx.quick else 2):
        base = {"ensemble": True, "data_seed": int(ctx.seed * 100 + 70 + g), "n": 900, "folds": 3 + g, "seed": int(11 + g), "workers": 1,
                "proteins": False, "peps": "qvality", "cap": None}
        sessions = [("inproc", 0, dict(base)), ("fresh", 1, dict(base)), ("fresh", 2, dict(base, workers=2)), ("fresh", 3, dict(base, workers=4)),
                    ("fresh", 4, dict(base, workers=3))]
        groups.append({"base": base, "sessions": sessions})
    ctx.phase("driving")
    traces = []
    for gi, G in enumerate(groups):
        results = [None] * len(G["sessions"])
        for i, (kind, hs, spec) in enumerate(G["sessions"]):
            if kind.startswith("inproc"):
                results[i] = c08_worker.session_cli(spec) if spec.get("cli") else c08_worker.session(spec)
        idx = [i for i, (kind, hs, spec) in enumerate(G["sessions"]) if kind == "fresh"]
        with ThreadPoolExecutor(max_workers=12) as ex:
            for i, r in zip(idx, ex.map(lambda i: sub_session(G["sessions"][i][2], G["sessions"][i][1]), idx)):
                results[i] = r
        runs = []
        for (kind, hs, spec), r in zip(G["sessions"], results):
            lab = dict(zip(r["labels"], r["digests"]))
            refe = lab.pop("refeed_equals_first", "equal")
            if lab.pop("refeed_skipped_untrained_model", None):
                ctx.cov["refeed_sessions_skipped_untrained_model"] = ctx.cov.get("refeed_sessions_skipped_untrained_model", 0) + 1
            cfg = "%s%s hashseed=%s workers=%s refeed=%s" % ("cli " if spec.get("cli") else "", kind, hs, spec.get("workers"), spec.get("refeed"))
            runs.append({"cfg": cfg, "raised": r["raised"] if r["raised"] else ("" if refe == "equal" else "refeed differs: " + refe),
                         "raised_type": (r["raised"].split(":")[0] if r["raised"] else ("" if refe == "equal" else "RefeedDiffers")),
                         "vals": [], "files": [], "digests": [lab[k] for k in sorted(lab)], "labels": sorted(lab)})
            ctx.count((gi, cfg))
        traces.append({"tid": gi + 1, "tol": 0, "runs": runs})
    ctx.sample({"group": groups[0]["base"], "sessions": [r["cfg"] for r in traces[0]["runs"]], "labels": traces[0]["runs"][0]["labels"],
                "digests_of_first_session": traces[0]["runs"][0]["digests"]})
    ctx.phase("validation")
    verdicts = ctx.validate("RunsTrace", "Trace.cfg", traces, shards=4, max_per_shard=2)
    for t, G in zip(traces, groups):
        v = verdicts[t["tid"]]
        if not v["accept"]:
            ref = t["runs"][0]
            diff = []
            for i in (v.get("info") or []):
                r = t["runs"][i - 1]
                diff.append({"cfg": r["cfg"], "raised": r["raised"][:200],
                             "differing": [l for l, a, b in zip(r["labels"], r["digests"], ref["digests"]) if a != b]})
            ctx.reject({"group": G["base"], "differing_sessions": diff}, v["failed"],
                       {"api": "brew+assign_confidence", "base": G["base"], "differing": [(d["cfg"], d["differing"], d["raised"][:60]) for d in diff[:4]]})
    ctx.phase("negative_controls")
    bad = []
    for t in traces:
        if not verdicts[t["tid"]]["accept"]:
            continue
        if len(t["runs"]) < 3 or not t["runs"][-1]["digests"]:
            continue          # (every session of the group stopped with the same explicit error: nothing to corrupt)
        b = copy.deepcopy(t)
        b["runs"][-1]["digests"][0] = "0" * 20
        b["tid"] = len(bad) + 1
        bad.append(b)
        b = copy.deepcopy(t)
        b["runs"][2]["raised"], b["runs"][2]["raised_type"] = "refeed differs", "RefeedDiffers"
        b["tid"] = len(bad) + 1
        bad.append(b)
    ctx.negative_controls("RunsTrace", "Trace.cfg", bad, name="one digest changed / refeed differs", shards=2, max_per_shard=2)
    ctx.assume("FASTA maps are compared as sets of member proteins (the join order of shared_peptides values is not part of the statement)")
    ctx.assume("domain: FASTA with decoys (target-only FASTA uses the global NumPy RNG)")
    # the property as observed at the command line: how the user's options reach the stages (CliFlow.tla, drivers/cliflow.py)
    from drivers import cliflow
    cliflow.family(ctx, "C08", model_check=False, light=True)
    return ctx.finish(
        rule="a case = one analysis session (brew with a LinearSVC model, in every other group with subset_max_train below the training-set "
             "size, + assign_confidence with qvality PEPs, optionally proteins from a FASTA with sub-proteins and same-sequence entries) of a "
             "(dataset, seed), through the Python API and (other groups) through the command line with --save_models / --load_models: two in-process repeats, fresh interpreters with PYTHONHASHSEED 1..%d, workers 2 and 4, and models fed back in "
             "%s; distinct = distinct (dataset, session parameters)" % (2 if ctx.quick else 7, "3 orders" if ctx.quick else "every order"),
        exhaustive=False)


def replay(ctx, case):
    if isinstance(case.get("case"), dict) and case["case"].get("kind") == "cliflow":
        from drivers import cliflow
        return cliflow.replay(ctx, case, "C08")
    from drivers import c08_worker
    base = case["case"]["group"]
    r1 = c08_worker.session(base)
    r2 = sub_session(base, 5)
    runs = []
    for r in (r1, r2):
        runs.append({"cfg": "replay", "raised": r["raised"], "raised_type": r["raised"].split(":")[0], "vals": [], "files": [], "digests": r["digests"]})
    t = {"tid": 1, "tol": 0, "runs": runs}
    v = ctx.validate("RunsTrace", "Trace.cfg", [t])[1]
    if not v["accept"]:
        ctx.reject(case["case"], v["failed"], {"api": "replay"})
    ctx.count(1)
    ctx.count(2)
    ctx.sample(runs[0]["digests"])
    return ctx.finish(rule="replay: one in-process and one fresh-interpreter session of the group's base parameters")
