"""C20 -- PepXML parsing turns every search hit into one faithful PSM.

(M) PepXml.tla: the nested iteration of pepxml.py (runs > spectrum queries > search hits > elements of a hit,
    running-offset insertion of the modification texts, label rule, concatenation of files, Percolator / non-XML
    error paths) produces exactly PepXmlDef!RowsDef / raises exactly when PepXmlDef!ErrDef, for every document of
    the small-scope families; six seeded faults must be caught.
(G) TLC prints every document of those families as a CASE line; the driver renders it as PepXML text (rotating
    namespace / declaration / extra elements / number formats / protein descriptions), calls the real
    mokapot.read_pepxml(files, decoy_prefix, to_df=True) and records the returned table cell by cell, or the
    exception type.  Seeded random larger documents (up to 3 files x 3 runs x 5 spectra x 4 hits, peptides up to 12
    residues, up to 5 modifications, up to 5 alternative proteins) are added.
(V) PepXmlTrace.tla recomputes the expected table from the recorded document structure and accepts iff the rows
    match it one to one, in order (resp. iff the call raised, for Percolator-marked / non-PepXML input).
"""
from __future__ import annotations

import copy
import json
import os
import shutil
import tempfile
from concurrent.futures import ThreadPoolExecutor
from xml.sax.saxutils import quoteattr

import numpy as np
import pandas as pd

from engine.core import stable_hash
from engine.tlc import run_tlc, MachineryError
from drivers.common import pmap

LEVEL = "model_checking"

PERCOLATOR = ["Percolator q-Value", "Percolator PEP", "Percolator SVMScore"]
BASE_COLS = {"ms_data_file", "scan", "charge", "ret_time", "exp_mass", "calc_mass", "peptide", "proteins", "label"}
NONXML = ["Blah\tblah\tblah\nblah\tblah\tblah\n", "", "SpecId\tLabel\tScanNr\n1\t1\t7\n", '{"pepxml": [1, 2, 3]}',
          "\x00\x01\x02 not xml at all <<<"]
OTHERXML = ["<a><b/></a>",
            '<?xml version="1.0"?>\n<MzIdentML xmlns="http://psidev.info/psi/pi/mzIdentML/1.1"><DataCollection/></MzIdentML>',
            "<html><body><p>msms_run_summary</p></body></html>"]
MUTS = [("PepXml_mut1.cfg", "running offset not accumulated"), ("PepXml_mut2.cfg", "modification inserted before its residue"),
        ("PepXml_mut3.cfg", "label from the primary protein only"), ("PepXml_mut4.cfg", "label overwritten by each alternative protein"),
        ("PepXml_mut5.cfg", "spectrum attributes not refreshed"), ("PepXml_mut6.cfg", "files not concatenated")]
ACTIONS = ["OpenFile", "NextRun", "NextSpectrum", "BeginHit", "Elem", "ModStep", "Concat", "Post"]


# ------------------------------------------------------------------ rendering (document structure -> PepXML text)
def milli(m, fmt):
    """Decimal text of m/1000 without exponent notation.  fmt 0: minimal ('1.25', '2'), fmt 1: three decimals."""
    sign = "-" if m < 0 else ""
    a = abs(int(m))
    s = "%d.%03d" % (a // 1000, a % 1000)
    if fmt == 0:
        s = s.rstrip("0").rstrip(".")
    return sign + s


def accession(p, prefix):
    return (prefix if p["decoy"] else "") + p["acc"]


def render_hit(h, rank, sp, prefix, st):
    a = ['hit_rank="%d"' % rank, "peptide=%s" % quoteattr("".join(h["pep"])), 'peptide_prev_aa="K"', 'peptide_next_aa="A"']
    prot = accession(h["prots"][0], prefix)
    if st["desc"]:
        prot += " Some protein OS=Homo sapiens OX=9606 GN=X%d PE=1 SV=1" % rank
    a.append("protein=%s" % quoteattr(prot))
    a.append('num_tot_proteins="%d"' % len(h["prots"]))
    a.append('calc_neutral_pep_mass="%s"' % milli(sp["mass"] - 125 * rank, 1))
    a.append('massdiff="%s"' % milli(125 * rank, 1))
    if h["ntt"] >= 0:
        a.append('num_tol_term="%d"' % h["ntt"])
    if h["mc"] >= 0:
        a.append('num_missed_cleavages="%d"' % h["mc"])
    if h["nmp"] >= 0:
        a.append('num_matched_peptides="%d"' % 10 ** h["nmp"])
    a.append('num_matched_ions="5" tot_num_ions="12" is_rejected="0"')
    alt = []
    for k, p in enumerate(h["prots"][1:], 2):
        acc = accession(p, prefix)
        if st["desc"] and k % 2 == 0:
            alt.append("<alternative_protein protein=%s/>" % quoteattr(acc + " alternative protein description"))
        else:
            alt.append('<alternative_protein protein=%s protein_descr="alt %d" num_tol_term="2"/>' % (quoteattr(acc), k))
    mod = []
    if h["mods"] or h["layout"] == 1:
        mod.append("<modification_info>" if st["fmt"] else '<modification_info modified_peptide="x">')
        for pos, mass in h["mods"]:
            if st["fmt"]:
                mod.append('<mod_aminoacid_mass position="%d" mass="%s"/>' % (pos, "".join(mass)))
            else:
                mod.append('<mod_aminoacid_mass mass="%s" position="%d"/>' % ("".join(mass), pos))
        mod.append("</modification_info>")
    sco = ["<search_score name=%s value=\"%s\"/>" % (quoteattr(n), milli(v, st["fmt"])) for n, v in h["scores"]]
    body = alt + mod + sco if h["layout"] == 0 else mod + sco + alt
    return ["<search_hit %s>" % " ".join(a)] + body + ["</search_hit>"]


def render_pepxml(f, prefix, st):
    ns = ' xmlns="http://regis-web.systemsbiology.net/pepXML"' if st["ns"] else ""
    out = []
    if st["decl"]:
        out.append('<?xml version="1.0" encoding="UTF-8"?>')
        out.append('<?xml-stylesheet type="text/xsl" href="pepXML_std.xsl"?>')
    out.append('<msms_pipeline_analysis date="2018-11-29T15:10:44"%s summary_xml="x.pep.xml">' % ns)
    for run in f["runs"]:
        base = run["stem"] + (run["ext"] if run["full"] else "")
        out.append("<msms_run_summary base_name=%s raw_data_type=\"raw\" raw_data=%s>" % (quoteattr(base), quoteattr(run["ext"])))
        if st["extras"]:
            out.append('<sample_enzyme name="Trypsin"><specificity cut="KR" no_cut="P" sense="C"/></sample_enzyme>')
            out.append("<search_summary base_name=%s search_engine=\"X! Tandem\" precursor_mass_type=\"monoisotopic\" "
                       "fragment_mass_type=\"monoisotopic\" search_id=\"1\">" % quoteattr(base))
            out.append('<search_database local_path="/db/td.fasta" type="AA"/>')
            out.append('<aminoacid_modification aminoacid="C" massdiff="57.0215" mass="160.0307" variable="N"/>')
            out.append("</search_summary>")
        for idx, sp in enumerate(run["spectra"], 1):
            out.append('<spectrum_query spectrum="s.%05d.%05d.%d" start_scan="%d" end_scan="%d" '
                       'precursor_neutral_mass="%s" assumed_charge="%d" index="%d" retention_time_sec="%s">'
                       % (sp["scan"], sp["scan"], sp["charge"], sp["scan"], sp["scan"], milli(sp["mass"], st["fmt"]),
                          sp["charge"], idx, milli(sp["rt"], st["fmt"])))
            if sp["hits"] or st["extras"]:
                cut = (1 + (idx + len(sp["hits"])) % len(sp["hits"])) if (st.get("split") and len(sp["hits"]) >= 1) else None
                out.append("<search_result>" if cut is None else '<search_result search_id="1">')
                for rank, h in enumerate(sp["hits"], 1):
                    out.extend(render_hit(h, rank, sp, prefix, st))
                    if cut is not None and rank == cut:
                        # (cut = number of hits: the second element is empty; an empty FIRST element is rendered for odd indices)
                        out.append("</search_result>")
                        out.append('<search_result search_id="2">')
                out.append("</search_result>")
            out.append("</spectrum_query>")
        out.append("</msms_run_summary>")
    out.append("</msms_pipeline_analysis>")
    return ("\n" if st["decl"] else "").join(out) + "\n"


def render_file(f, prefix, st):
    if f["kind"] == "nonxml":
        return NONXML[st["variant"] % len(NONXML)], ".tsv"
    if f["kind"] == "otherxml":
        return OTHERXML[st["variant"] % len(OTHERXML)], ".xml"
    return render_pepxml(f, prefix, st), ".pep.xml"


# ------------------------------------------------------------------ the real code
def _scaled(v):
    try:
        x = float(v)
    except Exception:
        return [0, False]
    if not np.isfinite(x) or abs(x) > 2e6:
        return [0, False]
    m = x * 1000.0
    return [int(round(m)), bool(m == round(m))]


def _cell(v, numeric):
    if not numeric:
        return ["nonnumeric", 0]
    x = float(v)
    if np.isnan(x):
        return ["nan", 0]
    if np.isinf(x) or abs(x) > 2e6:
        return ["inf", 0]
    m = x * 1000.0
    return ["ok" if m == round(m) else "inexact", int(round(m))]


def project(df):
    """The returned table as ints / strings (no judgement)."""
    cols = [str(c) for c in df.columns]
    numeric = {str(c): bool(pd.api.types.is_numeric_dtype(df[c])) for c in df.columns}
    rows = []
    for rec in df.to_dict("records"):
        rec = {str(k): v for k, v in rec.items()}
        lab = rec.get("label")
        row = {"file": str(rec.get("ms_data_file")),
               "scan": int(rec["scan"]) if isinstance(rec.get("scan"), (int, np.integer)) else -1,
               "charge": int(rec["charge"]) if isinstance(rec.get("charge"), (int, np.integer)) else -1,
               "rt": _scaled(rec.get("ret_time")), "mass": _scaled(rec.get("exp_mass")),
               "peptide": rec.get("peptide") if isinstance(rec.get("peptide"), str) else "<not a string>",
               "proteins": rec.get("proteins").split("\t") if isinstance(rec.get("proteins"), str) else ["<not a string>"],
               "label": ("target" if lab else "decoy") if isinstance(lab, (bool, np.bool_)) else "invalid",
               "feats": {c: _cell(rec[c], numeric[c]) for c in cols if c not in BASE_COLS}}
        rows.append(row)
    return rows


def call_real(case):
    """Render the case, run read_pepxml on it, return the trace dict (without tid)."""
    import mokapot
    # one directory per worker process, the same file names for every case it handles (a result must not depend on what a
    # path held before)
    tmp = os.path.join(tempfile.gettempdir(), "c20_p%d" % os.getpid())
    shutil.rmtree(tmp, ignore_errors=True)
    os.makedirs(tmp)
    tr = {"prefix": case["prefix"], "files": case["files"], "kind": "Raised", "raised": "", "rows": []}
    try:
        paths = []
        for i, f in enumerate(case["files"]):
            text, ext = render_file(f, case["prefix"], case["style"])
            p = os.path.join(tmp, "f%d%s" % (i, ext))
            with open(p, "w", encoding="utf-8") as fh:
                fh.write(text)
            paths.append(p)
        arg = paths[0] if len(paths) == 1 and case["style"]["fmt"] == 0 else (tuple(paths) if case["style"]["ns"] else list(paths))
        try:
            if case["style"].get("variant", 0) % 4 == 1:
                # an earlier call of the same process that excluded a score from the features (its result is not judged):
                # nothing of it may carry over into the next call
                try:
                    names = sorted({n for f in case["files"] for run in f["runs"] for sp in run["spectra"] for h in sp["hits"]
                                    for n, _ in h["scores"]})
                    if names:
                        mokapot.read_pepxml(arg, decoy_prefix=case["prefix"], exclude_features=names[0], to_df=True)
                except Exception:
                    pass
            df = mokapot.read_pepxml(arg, decoy_prefix=case["prefix"], to_df=True)
        except Exception as e:          # an event, judged by the acceptor
            tr["raised"] = type(e).__name__
            return tr
        tr["kind"] = "PepXmlRows"
        tr["rows"] = project(df)
        return tr
    finally:
        shutil.rmtree(tmp, ignore_errors=True)


# ------------------------------------------------------------------ cases
def tlc_docs(cfg):
    r = run_tlc("PepXml", cfg, workers=4)
    if not r.ok:
        raise MachineryError("generation run failed: %s %s\n%s" % (r.violated, r.error, r.output[-2000:]))
    docs = [p[1] for p in r.prints if p and p[0] == "CASE"]
    if len(docs) != r.distinct or not docs:
        raise MachineryError("generation: %d CASE lines for %d initial states" % (len(docs), r.distinct))
    return docs


def style(idx, variant=None):
    # split: the hits of a spectrum stand in two <search_result> elements (the schema allows one per search_id)
    return {"ns": bool(idx & 1), "decl": bool(idx & 2), "extras": bool(idx & 4), "desc": bool(idx & 8),
            "fmt": (idx >> 4) & 1, "variant": (idx // 3) if variant is None else variant, "split": bool((idx // 5) % 3 == 1)}


AA = "ACDEFGHIKLMNPQRSTVWY"
MASSES = ["15.9949", "57.0215", "229.1629", "160.03", "16", "-18.0106", "0.984", "79.96633", "42", "357.2579"]
SCORE_NAMES = ["xcorr", "deltacn", "spscore", "hyperscore", "nextscore", "ions matched", "delta-score"]
PREFIXES = ["decoy_", "rev_", "DECOY_", "##"]


def rand_acc(rng, prefix, decoy, k):
    core = "sp|Q%05d|P%d_HUMAN" % (int(rng.integers(0, 99999)), k)
    if decoy:
        return core                     # rendered as prefix + core
    t = int(rng.integers(0, 6))
    acc = {0: "x" + prefix + core, 1: prefix[:-1] + core, 2: prefix.swapcase() + core, 3: core + prefix}.get(t, core)
    if acc.startswith(prefix):          # a target accession never carries the prefix
        acc = core
    return acc


def rand_hit(rng, prefix, names, marked=False):
    L = int(rng.integers(1, 13))
    pep = [AA[int(i)] for i in rng.integers(0, 20, L)]
    nm = min(L, int(rng.choice([0, 0, 1, 1, 2, 3, 4, 5])))
    pos = sorted(int(p) + 1 for p in rng.choice(L, nm, replace=False))
    mods = [[p, list(MASSES[int(rng.integers(0, len(MASSES)))])] for p in pos]
    na = int(rng.choice([0, 0, 1, 1, 2, 3, 5]))
    pat = int(rng.integers(0, 6))
    dec = [bool(rng.random() < 0.5) for _ in range(na + 1)]
    if pat == 0:
        dec = [True] * (na + 1)
    elif pat == 1:
        dec = [True] * na + [False]         # only the last alternative is a target
    elif pat == 2:
        dec = [False] + [True] * na         # only the primary protein is a target
    prots = [{"decoy": d, "acc": rand_acc(rng, prefix, d, k)} for k, d in enumerate(dec)]
    use = [n for n in names if rng.random() < 0.9] if rng.random() < 0.3 else list(names)
    scores = []
    for n in use:
        v = int(rng.integers(1, 800)) * 125          # 0.125 .. 99.875: max/min < 10^4, no log transform
        if n in ("deltacn", "delta-score") and rng.random() < 0.5:
            v = -v
        if rng.random() < 0.1:
            v = 0
        scores.append([n, v])
    if marked:
        scores.insert(int(rng.integers(0, len(scores) + 1)), [PERCOLATOR[int(rng.integers(0, 3))], 125])
    return {"pep": pep, "mods": mods, "prots": prots, "scores": scores,
            "mc": int(rng.choice([-1, 0, 1, 2])), "ntt": int(rng.choice([-1, 0, 1, 2])),
            "nmp": int(rng.choice([-1, 0, 1, 2, 3, 4])), "layout": int(rng.integers(0, 2))}


def rand_file(rng, prefix, names, fno, mark=False):
    runs = []
    nr = int(rng.integers(1, 4))
    total = 0
    for r in range(nr):
        ext = [".mzML", ".raw", ".mzXML", ".d"][int(rng.integers(0, 4))]
        spectra = []
        for s in range(int(rng.integers(1, 6))):
            nh = int(rng.choice([0, 1, 1, 2, 3, 4]))
            if r == nr - 1 and s == 0 and total == 0:
                nh = max(nh, 1)
            total += nh
            spectra.append({"scan": int(rng.integers(1, 90000)), "charge": int(rng.integers(1, 7)),
                            "rt": int(rng.integers(0, 80000)) * 125, "mass": int(rng.integers(3200, 40000)) * 125,
                            "hits": [rand_hit(rng, prefix, names) for _ in range(nh)]})
        # (dotted names: fraction numbers and dates are common in base names; the data-file name is the base name plus raw_data)
        runs.append({"stem": ["run", "/data/exp 1/run", "C:\\raw\\run", "plasma.rep.", "/data/2021.03.04_run"][int(rng.integers(0, 5))] + "%d_%d" % (fno, r)
                             + ["", ".1", ".2"][int(rng.integers(0, 3))],
                     "ext": ext, "full": bool(rng.random() < 0.4), "spectra": spectra})
    if mark:
        hits = [h for run in runs for sp in run["spectra"] for h in sp["hits"]]
        j = int(rng.integers(0, len(hits)))
        hits[j]["scores"].insert(int(rng.integers(0, len(hits[j]["scores"]) + 1)), [PERCOLATOR[int(rng.integers(0, 3))], 125])
    return {"kind": "pepxml", "runs": runs}


def random_cases(rng, count, start):
    out = []
    for c in range(count):
        prefix = PREFIXES[int(rng.integers(0, len(PREFIXES)))]
        names = [SCORE_NAMES[int(i)] for i in sorted(rng.choice(len(SCORE_NAMES), int(rng.integers(1, 5)), replace=False))]
        nf = int(rng.choice([1, 1, 2, 3]))
        err = int(rng.integers(0, 8))            # 0: Percolator-marked, 1: a non-PepXML file among the inputs
        files = [rand_file(rng, prefix, names, i, mark=(err == 0 and i == nf - 1)) for i in range(nf)]
        if err == 1:
            bad = {"kind": "nonxml" if rng.random() < 0.6 else "otherxml", "runs": []}
            files[int(rng.integers(0, nf))] = bad
        out.append({"files": files, "prefix": prefix, "style": style(start + c, int(rng.integers(0, 30))), "src": "random"})
    return out


def out_of_domain_cases():
    """PepXML files without any search hit: outside the quantifier (accepted vacuously by the Domain clause)."""
    sp = {"scan": 8, "charge": 2, "rt": 61125, "mass": 901375, "hits": []}
    run0 = {"stem": "runA", "ext": ".mzML", "full": False, "spectra": []}
    run1 = {"stem": "runA", "ext": ".mzML", "full": False, "spectra": [sp]}
    return [{"files": [{"kind": "pepxml", "runs": [r]}], "prefix": "decoy_", "style": style(i), "src": "ood"}
            for i, r in enumerate([run0, run1])]


# ------------------------------------------------------------------ bookkeeping
def all_hits(files):
    return [h for f in files for run in f["runs"] for sp in run["spectra"] for h in sp["hits"]]


def signature(c):
    hits = all_hits(c["files"])
    return {"kinds": [f["kind"] for f in c["files"]], "runs": [len(f["runs"]) for f in c["files"]],
            "hits": len(hits), "max_mods": max([len(h["mods"]) for h in hits] + [0]),
            "max_alts": max([len(h["prots"]) - 1 for h in hits] + [0]),
            "marked": any(n in PERCOLATOR for h in hits for n, _ in h["scores"]), "src": c["src"],
            "doc": stable_hash(c["files"])}


def shift_mod(pep):
    """Move the first '[..]' group of a modified peptide by one residue (right if possible, else left)."""
    i = pep.find("[")
    j = pep.find("]", i)
    if i < 1 or j < 0:
        return None
    grp = pep[i:j + 1]
    if j + 1 < len(pep) and pep[j + 1] != "[":
        return pep[:i] + pep[j + 1] + grp + pep[j + 2:]
    if i >= 2 and pep[i - 2] != "]":
        return pep[:i - 1] + grp + pep[i - 1] + pep[j + 1:]
    return None


def corruptions(tr, rng):
    """Corrupted copies of an accepted trace: (name, trace)."""
    out = []
    if tr["kind"] == "Raised":
        t = copy.deepcopy(tr)
        t["kind"], t["raised"] = "PepXmlRows", ""
        out.append(("error path returned a table", t))
        return out
    n = len(tr["rows"])
    i = int(rng.integers(0, n))
    t = copy.deepcopy(tr)
    del t["rows"][i]
    out.append(("row dropped", t))
    t = copy.deepcopy(tr)
    t["rows"][i]["label"] = "decoy" if t["rows"][i]["label"] == "target" else "target"
    out.append(("label flipped", t))
    withmod = [k for k in range(n) if shift_mod(tr["rows"][k]["peptide"])]
    if withmod:
        k = withmod[int(rng.integers(0, len(withmod)))]
        t = copy.deepcopy(tr)
        t["rows"][k]["peptide"] = shift_mod(t["rows"][k]["peptide"])
        out.append(("modification shifted by one residue", t))
    core = lambda r: [r[x] for x in ("file", "scan", "charge", "rt", "mass", "peptide", "proteins", "label")]
    pairs = [k for k in range(n - 1) if core(tr["rows"][k]) != core(tr["rows"][k + 1])]
    if pairs:
        k = pairs[int(rng.integers(0, len(pairs)))]
        t = copy.deepcopy(tr)
        t["rows"][k], t["rows"][k + 1] = t["rows"][k + 1], t["rows"][k]
        out.append(("adjacent rows swapped", t))
    hits = all_hits(tr["files"])
    scored = [k for k in range(n) if hits[k]["scores"]]
    if scored:
        k = scored[int(rng.integers(0, len(scored)))]
        name = hits[k]["scores"][0][0]
        t = copy.deepcopy(tr)
        t["rows"][k]["feats"][name][1] += 125
        out.append(("score value changed", t))
    alts = [k for k in range(n) if len(tr["rows"][k]["proteins"]) > 1]
    if alts:
        k = alts[int(rng.integers(0, len(alts)))]
        t = copy.deepcopy(tr)
        t["rows"][k]["proteins"] = t["rows"][k]["proteins"][:-1]
        out.append(("alternative protein lost", t))
    t = copy.deepcopy(tr)
    t["rows"][i]["scan"] += 1
    out.append(("scan changed", t))
    return out


# ------------------------------------------------------------------ the check
def run(ctx):
    ctx.liveness("PepXml", unfair_control=not ctx.quick)      # termination under weak fairness (PepXml_live.cfg)
    rng = np.random.default_rng(ctx.seed)
    # ---------------- (M) ----------------
    ctx.model_check("PepXml", "PepXml_quick.cfg",
                    note="single hit x (<=2 mods, <=1 alt), hit pairs, 1 run x <=2 spectra x <=2 hits, 2 files, error paths")
    if not ctx.quick:
        ctx.model_check("PepXml", "PepXml_thorough.cfg", timeout=3000,
                        note="single hit x (<=3 mods, <=2 alts, optional attributes), 2 runs, 2 files x <=2 spectra")
    with ThreadPoolExecutor(max_workers=7) as ex:       # independent small TLC runs, side by side
        futs = [ex.submit(ctx.model_check, "PepXml", cfg, expect_violation="Refines", note="seeded fault: " + what, workers=2)
                for cfg, what in MUTS]
        fcov = ex.submit(ctx.model_check, "PepXml", "PepXml_cov.cfg", coverage=True, workers=2,
                         note="action coverage (structure, two files, error paths)")
        for f in futs:
            f.result()
        ctx.require_actions(fcov.result(), ACTIONS)
    # ---------------- (G) ----------------
    docs = tlc_docs("PepXml_gen_quick.cfg" if ctx.quick else "PepXml_gen_thorough.cfg")
    cases = [{"files": d, "prefix": "decoy_", "style": style(ctx.seed + i), "src": "tlc"} for i, d in enumerate(docs)]
    cases += random_cases(rng, 300 if ctx.quick else 4000, ctx.seed + len(cases))
    cases += out_of_domain_cases()
    # ---------------- drive the real code ----------------
    call_real(cases[0])

    def one(i):
        try:
            tr = call_real(cases[i])
        except Exception as e:      # rendering / projection failed: reported as a raised call, judged by the acceptor
            tr = {"prefix": cases[i]["prefix"], "files": cases[i]["files"], "kind": "Raised",
                  "raised": "driver:%s" % type(e).__name__, "rows": []}
        tr["tid"] = i + 1
        return tr
    traces = pmap(one, len(cases))
    broken = [t for t in traces if t["raised"].startswith("driver:")]
    if broken:
        raise MachineryError("driver failed on %d cases, e.g. tid %d: %s" % (len(broken), broken[0]["tid"], broken[0]["raised"]))
    shown = set()
    for c, tr in zip(cases, traces):
        ctx.count(stable_hash([c["files"], c["prefix"]]))
        if c["src"] == "ood":
            ctx.cov["out_of_domain"] += 1
        tag = (c["src"], tr["kind"], len(c["files"]))
        if tag not in shown and len(all_hits(c["files"])) <= 3:
            shown.add(tag)
            ctx.sample({"files": c["files"], "prefix": c["prefix"], "kind": tr["kind"], "raised": tr["raised"],
                        "rows": [{k: r[k] for k in ("file", "scan", "peptide", "proteins", "label")} for r in tr["rows"]]})
    # ---------------- (V) ----------------
    verdicts = ctx.validate("PepXmlTrace", "Trace.cfg", traces)
    for c, tr in zip(cases, traces):
        v = verdicts[tr["tid"]]
        if not v["accept"]:
            ctx.reject({"case": c, "trace": tr}, v["failed"], signature(c))
    # ---------------- negative controls ----------------
    crng = np.random.default_rng(ctx.seed + 1)
    good = [t for c, t in zip(cases, traces) if verdicts[t["tid"]]["accept"] and c["src"] != "ood"]
    tabs = [t for t in good if t["kind"] == "PepXmlRows"]
    errs = [t for t in good if t["kind"] == "Raised"]
    npick = 50 if ctx.quick else 150
    pick = [tabs[int(i)] for i in crng.integers(0, len(tabs), npick)] + [errs[int(i)] for i in crng.integers(0, len(errs), 20)]
    groups = {}
    for t in pick:
        for name, b in corruptions(t, crng):
            groups.setdefault(name, []).append(b)
    for need in ("row dropped", "label flipped", "modification shifted by one residue", "error path returned a table"):
        if need not in groups:
            raise MachineryError("no negative control of kind '%s' could be built" % need)
    for name, bad in sorted(groups.items()):
        for j, b in enumerate(bad):
            b["tid"] = j + 1
        ctx.negative_controls("PepXmlTrace", "Trace.cfg", bad, name=name)
    ctx.assume("a protein accession is the text of the `protein` attribute up to its first blank (a description may follow)")
    ctx.assume("a run's data-file name is base_name, extended by raw_data unless base_name already ends with it; "
               "stems do not themselves end with the extension")
    ctx.assume("retention times, masses and score values are multiples of 0.125 written in plain decimal notation, so "
               "every recorded float is an exact multiple of 0.001 and is compared exactly")
    ctx.assume("a PepXML file without any search hit is outside the quantifier (read_pepxml raises KeyError on it); "
               "spectrum queries without hits are allowed as long as the file holds a hit")
    return ctx.finish(
        rule="cases = every document TLC enumerates from PepXml.tla Init (%s), each rendered once as PepXML text under a "
             "rotating style (namespace, XML declaration, extra elements, protein descriptions, number format, element "
             "order), plus seeded random documents (<=3 files x <=3 runs x <=5 spectra x <=4 hits, peptides <=12 residues, "
             "<=5 modifications with mass texts of 2..8 characters, <=5 alternative proteins, four decoy prefixes, target "
             "accessions that contain the prefix elsewhere, 1/8 Percolator-marked, 1/8 with a non-PepXML file) and 2 "
             "out-of-domain files without hits; distinct = distinct (document structure, prefix).  Compared exactly per "
             "row: scan, charge, retention time, precursor mass, file name, modified peptide, protein list, label, every "
             "search_score value, missed_cleavages, ntt.  Derived: num_matched_peptides is compared with the exact log10 of "
             "a power of ten; score values are chosen outside the log-transform heuristics of _log_features (no exponent "
             "notation, max/min < 10^4 per column).  Not compared (not part of the statement): calc_mass, mass_diff, "
             "abs_mz_diff, charge_<z> one-hot columns, NaN cells of scores a hit does not have."
             % ("single hit x <=2 mods x <=1 alt, hit pairs, 1 run x <=2 spectra x <=2 hits, 2 files x 1 spectrum, error paths"
                if ctx.quick else
                "single hit x <=3 mods x <=2 alts x optional attributes, hit pairs, 1 run x <=2 spectra x <=2 hits, 2 runs, "
                "2 files x <=2 spectra, error paths"),
        exhaustive=True)


def replay(ctx, case):
    c = case["case"]["case"]
    tr = call_real(c)
    tr["tid"] = 1
    v = ctx.validate("PepXmlTrace", "Trace.cfg", [tr])[1]
    if not v["accept"]:
        ctx.reject({"case": c, "trace": tr}, v["failed"], signature(c))
    ctx.count(1)
    ctx.count(2)
    ctx.sample({"kind": tr["kind"], "raised": tr["raised"], "rows": tr["rows"][:3]})
    return ctx.finish(rule="replay of one recorded case")
