"""C14 -- k-way merge returns every row once, globally sorted by score.

(M) Merge.tla: the shape shared by utils.merge_sort/get_next_row and streaming.MergedTabularDataReader
    (first input with the best head; advance / exhaust; sortedness guard of the table merger; asc/desc)
    against the declarative layer (every row exactly once, globally sorted; unsorted input never completes
    in the table merger; sorted input never rejected), for every input family up to 3 inputs x 3 rows x
    ranks 1..3 (thorough: 4 inputs); "any best head" tie rule; three seeded faults must be caught.
(G) TLC enumerates the input families as CASE prints (sorted families for both implementations, arbitrary
    families for the guard); the driver writes every input as a tab-separated text or Parquet file and runs
    the real merge_sort / MergedTabularDataReader / merge_readers on the paths, rotating format, reader
    chunk size 1..N+1, output API and score scale; plus seeded random larger cases (<= 8 inputs, <= 30 rows).
(V) MergeTrace.tla evaluates the declarative invariants of Merge.tla on the recorded final state.
"""
from __future__ import annotations

import re
import shutil
import sys
import tempfile
from concurrent.futures import ThreadPoolExecutor
from pathlib import Path

import numpy as np

from engine.tlc import run_tlc, MachineryError
from drivers.common import pmap

LEVEL = "model_checking"

TABLE_APIS = ["read", "chunked", "merge_readers", "rows_df", "rows_dicts", "rows_records"]
FORMATS = [("csv", ".csv"), ("parquet", ".parquet"), ("csv", ".tab"), ("parquet", ".parquet")]
# strictly increasing, exactly representable (dyadic) scores: text round trips cannot move them
# "mixed": every second score is a whole number, and a text input writes it without a decimal point ("3", not "3.0"): a short read chunk
# of such rows is type-inferred as integers, the next one as floats
SCALES = {"lin": (0.5, -2.25), "big": (1024.0, -4096.0), "small": (1.0 / 1024.0, -1.0 / 512.0), "mixed": (0.5, -2.0)}
SCALE_NAMES = ["lin", "big", "small", "mixed"]
COLUMNS = ["id", "score", "pay", "txt"]
# the same four columns under names that are not Python identifiers (what mokapot's own result files use)
STYLED = ["PSM id", "mokapot score", "pay-load", "mokapot q-value"]
_ID = re.compile(r"^r(\d+)_(\d+)$")
BASE = None         # scratch directory of this run


def score_of(rank, scale):
    if scale == "inf":          # as "lin", but the lowest rank is minus infinity (a legal float score; ties among such rows)
        return float("-inf") if rank == 1 else 0.5 * rank - 2.25
    a, b = SCALES[scale]
    return a * rank + b


def rank_of(x, scale):
    """Inverse of score_of on the returned float; 0 if the value is not one of the written scores."""
    if scale == "inf":
        try:
            if float(x) == float("-inf"):
                return 1
        except Exception:
            return 0
        scale = "lin"
    a, b = SCALES[scale]
    try:
        x = float(x)
        r = int(round((x - b) / a))
    except Exception:
        return 0
    if r < 1 or r > 10 ** 6 or abs(score_of(r, scale) - x) > 1e-9 * max(1.0, abs(x)):
        return 0
    return r


def write_inputs(d: Path, inputs, fmt, ext, scale, names=COLUMNS, tag="in", nullpay=False):
    import pyarrow as pa
    import pyarrow.parquet as pq
    paths = []
    for f, ranks in enumerate(inputs, 1):
        p = d / ("%s%d%s" % (tag, f, ext))
        n = len(ranks)
        ids = ["r%d_%d" % (f, i) for i in range(1, n + 1)]
        sc = [score_of(r, scale) for r in ranks]
        pay = [(None if (nullpay and fmt == "parquet" and i % 5 == 0) else 1000 * f + i) for i in range(1, n + 1)]
        txt = ["t%d/%d" % (f, i) for i in range(1, n + 1)]
        if fmt == "parquet":
            pq.write_table(pa.table({names[0]: ids, names[1]: pa.array(sc, pa.float64()),
                                     names[2]: pa.array(pay, pa.int64()), names[3]: txt}), p)
        else:
            with open(p, "w") as fh:
                fh.write("\t".join(names) + "\n")
                for k in range(n):
                    stxt = ("%d" % sc[k]) if (scale == "mixed" and float(sc[k]).is_integer()) else repr(sc[k])
                    fh.write("%s\t%s\t%d\t%s\n" % (ids[k], stxt, pay[k], txt[k]))
        paths.append(p)
    return paths


def _plain(v):
    return v.item() if hasattr(v, "item") else v


def project(rows, scale, names=COLUMNS, exact_types=False):
    """Returned rows (dicts) -> ints / strings / bools.  No property is decided here."""
    out, rk, pay, txt = [], [], [], []
    ok = True
    back = dict(zip(names, COLUMNS))
    for row in rows:
        ok = ok and sorted(str(k) for k in row.keys()) == sorted(names)
        row = {back.get(k, k): v for k, v in row.items()}
        m = _ID.match(str(row.get("id", "")))
        out.append([int(m.group(1)), int(m.group(2))] if m else [0, 0])
        rk.append(rank_of(row.get("score"), scale))
        try:
            v = _plain(row.get("pay"))
            if v is None or (isinstance(v, float) and v != v):
                pay.append(-2)                                   # NULL
            elif exact_types and not isinstance(v, int):
                pay.append(-3)                                   # the row-dictionary merge hands the file's values on as they are
            else:
                pay.append(int(v) if float(v) == int(v) and abs(int(v)) < 2 ** 30 else -1)
        except Exception:
            pay.append(-1)
        txt.append(str(_plain(row.get("txt"))))
    return out, rk, pay, txt, bool(ok)


def call_real(case):
    """Run one case on the real code; returns the trace dict (without tid)."""
    import mokapot.utils  # noqa: F401
    from mokapot.streaming import MergedTabularDataReader, merge_readers
    from mokapot.tabular_data import TabularDataReader, TableType
    U = sys.modules["mokapot.utils"]
    inputs, desc, impl, scale = case["inputs"], case["desc"], case["impl"], case["scale"]
    d = Path(tempfile.mkdtemp(prefix="c_", dir=BASE))
    rows, raised = [], ""
    names = STYLED if case.get("styled") else COLUMNS
    score_col = names[1]
    try:
        nullpay = bool(case.get("nullpay")) and case["fmt"] == "parquet"
        paths = write_inputs(d, inputs, case["fmt"], case["ext"], scale, names, nullpay=nullpay)
        try:
            if impl == "rowdict":
                from drivers.mk import patched
                with patched(MERGE_SORT_CHUNK_SIZE=case["rchunk"]):      # what MOKAPOT_MERGE_SORT_CHUNK_SIZE configures
                    hist = case.get("history")
                    other = None
                    if hist:
                        # another merge of the same process: abandoned after two rows before this one starts, or consumed in
                        # lock step with it (its rows are not judged; merges must not share state)
                        op = write_inputs(d, [[9, 7, 5, 3, 1], [8, 6, 4, 2], [10, 1]], case["fmt"], case["ext"], scale, names, tag="other")
                        other = U.merge_sort(op, score_col)
                        next(other, None)
                        next(other, None)
                    for row in U.merge_sort(paths, score_col):
                        rows.append(dict(row))
                        if hist == "interleaved":
                            next(other, None)
            else:
                readers = [TabularDataReader.from_path(p) for p in paths]
                api = case["api"]
                kw = {} if (desc and case.get("default_desc")) else {"descending": desc}
                if api == "merge_readers":
                    for chunk in merge_readers(readers, priority_column=score_col,
                                               reader_chunk_size=case["rchunk"], **kw):
                        rows.extend(chunk.to_dict(orient="records"))
                else:
                    m = MergedTabularDataReader(readers, score_col, reader_chunk_size=case["rchunk"], **kw)
                    if api == "read":
                        rows.extend(m.read().to_dict(orient="records"))
                    elif api == "chunked":
                        for chunk in m.get_chunked_data_iterator(chunk_size=case["ochunk"]):
                            rows.extend(chunk.to_dict(orient="records"))
                    elif api == "rows_df":
                        for r in m.get_row_iterator():
                            rows.extend(r.to_dict(orient="records"))
                    elif api == "rows_dicts":
                        for r in m.get_row_iterator(row_type=TableType.Dicts):
                            rows.append(dict(r))
                    elif api == "rows_records":
                        for r in m.get_row_iterator(row_type=TableType.Records):
                            rows.append({nm: _plain(r[nm]) for nm in r.dtype.names})
                    else:
                        raise MachineryError("unknown api %r" % api)
        except MachineryError:
            raise
        except Exception as e:        # mokapot raising is an event, not a machinery failure
            raised = type(e).__name__
    finally:
        shutil.rmtree(d, ignore_errors=True)
    out, rk, pay, txt, ok = project(rows, scale, names, exact_types=(impl == "rowdict" and case["fmt"] == "parquet"))
    return {"nullpay": bool(case.get("nullpay")) and case["fmt"] == "parquet", "impl": impl, "desc": bool(desc), "inputs": [list(map(int, s)) for s in inputs],
            "raised": bool(raised), "rtype": raised, "out": out, "rk": rk, "pay": pay, "txt": txt,
            "payload_ok": ok}


# ---------------------------------------------------------------- case generation
def tlc_cases(cfg):
    r = run_tlc("Merge", cfg, workers=4)
    if not r.ok:
        raise MachineryError("generation run %s failed: %s %s" % (cfg, r.violated, r.error))
    cases = [(p[1], p[2], p[3]) for p in r.prints if p and p[0] == "CASE"]
    if len(cases) != r.distinct:
        raise MachineryError("generation %s: %d CASE lines for %d initial states" % (cfg, len(cases), r.distinct))
    return cases, r


def is_sorted(seq, desc):
    return all((a >= b) if desc else (a <= b) for a, b in zip(seq, seq[1:]))


def mirror(inputs, top):
    return [[top + 1 - r for r in s] for s in inputs]


def make_case(idx, impl, desc, inputs, **fixed):
    nmax = max(len(s) for s in inputs)
    total = sum(len(s) for s in inputs)
    fmt, ext = FORMATS[idx % 4]
    c = {"impl": impl, "desc": bool(desc), "inputs": [list(s) for s in inputs],
         "fmt": fmt, "ext": ext,
         "rchunk": 1 + (idx // 2) % (nmax + 1),
         "api": "merge_sort" if impl == "rowdict" else TABLE_APIS[(idx // 3) % len(TABLE_APIS)],
         "ochunk": 1 + (idx // 5) % (total + 1),
         "scale": (SCALE_NAMES + ["inf"])[(idx // 7) % 5] if desc else SCALE_NAMES[(idx // 7) % 4],
         "default_desc": bool((idx // 11) % 2),
         "styled": bool((idx // 4) % 3 == 1), "nullpay": bool((idx // 9) % 2 == 1),
         "history": [None, None, "abandoned", "interleaved"][(idx // 6) % 4] if impl == "rowdict" else None}
    c.update(fixed)
    return c


def random_inputs(rng, kmax, lmax):
    """Random descending-sorted family with heavy ties; returns (inputs, largest rank used)."""
    k = int(rng.integers(1, kmax + 1))
    top = int(rng.choice([1, 2, 3, 5, 12]))
    inputs = []
    for _ in range(k):
        n = int(rng.integers(1, lmax + 1)) if rng.random() < 0.8 else int(rng.integers(1, 3))
        s = sorted((int(x) for x in rng.integers(1, top + 1, n)), reverse=True)
        inputs.append(s)
    return inputs, top


def break_sortedness(rng, inputs, desc, top):
    """Make one input unsorted w.r.t. the declared direction (inputs are sorted in that direction)."""
    inputs = [list(s) for s in inputs]
    cand = [f for f, s in enumerate(inputs) if len(s) >= 2]
    if not cand:
        inputs[0] = inputs[0] + [inputs[0][-1]]
        cand = [0]
    f = int(rng.choice(cand))
    s = inputs[f]
    style = int(rng.integers(0, 3))
    if len(set(s)) >= 2 and style == 0:          # swap two different values
        i, j = 0, len(s) - 1
        s[i], s[j] = s[j], s[i]
    elif len(set(s)) >= 2 and style == 1:        # one adjacent inversion somewhere
        p = [i for i in range(len(s) - 1) if s[i] != s[i + 1]]
        i = int(rng.choice(p))
        s[i], s[i + 1] = s[i + 1], s[i]
    else:                                         # last row better than its predecessor
        s[-1] = s[-2] + 1 if desc else s[-2] - 1
        if s[-1] < 1:                             # keep ranks >= 1: shift the whole family up
            inputs = [[r + 1 for r in t] for t in inputs]
    return inputs


def signature(c, failed_trace=None):
    # input-side classification: with the "mixed" scale a text input whose first two scores are whole numbers (written without a decimal
    # point) is type-inferred as an integer column, another one as a float column (finding F-14a: the table merger refuses such inputs)
    heads = {all(r % 2 == 0 for r in s[:2]) for s in c["inputs"] if s} if (c["scale"] == "mixed" and c["fmt"] == "csv") else set()
    return {"impl": c["impl"], "api": c["api"], "desc": c["desc"], "fmt": c["fmt"], "ext": c["ext"],
            "rchunk": c["rchunk"], "ochunk": c["ochunk"], "scale": c["scale"], "inputs": c["inputs"],
            "sorted_as_declared": all(is_sorted(s, c["desc"]) for s in c["inputs"]),
            "head_types_differ": len(heads) == 2, "rtype": (failed_trace or {}).get("rtype", "")}


# ---------------------------------------------------------------- negative controls
def corrupt(tr, kind, rng):
    t = {k: ([list(x) if isinstance(x, list) else x for x in v] if isinstance(v, list) else v)
         for k, v in tr.items()}
    n = len(t["out"])

    def drop(i):
        for k in ("out", "rk", "pay", "txt"):
            del t[k][i]

    def dup(i):
        for k in ("out", "rk", "pay", "txt"):
            t[k].insert(i, t[k][i])

    if kind == "drop":
        drop(int(rng.integers(0, n)))
    elif kind == "dup":
        dup(int(rng.integers(0, n)))
    elif kind == "replace":                 # a row replaced by a copy of another: count right, set wrong
        i = int(rng.integers(0, n))
        j = (i + 1) % n
        for k in ("out", "rk", "pay", "txt"):
            t[k][i] = t[k][j]
    elif kind == "swap":                    # two rows with different scores exchanged
        pairs = [(i, j) for i in range(n) for j in range(i + 1, n) if t["rk"][i] != t["rk"][j]]
        i, j = pairs[int(rng.integers(0, len(pairs)))]
        for k in ("out", "rk", "pay", "txt"):
            t[k][i], t[k][j] = t[k][j], t[k][i]
    elif kind == "payload":
        i = int(rng.integers(0, n))
        which = int(rng.integers(0, 3))
        if which == 0:
            t["pay"][i] += 1
        elif which == 1:
            t["txt"][i] = t["txt"][i] + "x"
        else:
            t["rk"][i] += 1
    elif kind == "spurious_raise":          # sorted input, complete output, but the call "raised"
        t["raised"], t["rtype"] = True, "ValueError"
    elif kind == "silent_unsorted":         # unsorted input to the table merger "completed" with all rows
        t["raised"], t["rtype"] = False, ""
        rows = [[f, i] for f, s in enumerate(t["inputs"], 1) for i in range(1, len(s) + 1)]
        rows.sort(key=lambda r: t["inputs"][r[0] - 1][r[1] - 1], reverse=t["desc"])
        t["out"] = rows
        t["rk"] = [t["inputs"][f - 1][i - 1] for f, i in rows]
        t["pay"] = [1000 * f + i for f, i in rows]
        t["txt"] = ["t%d/%d" % (f, i) for f, i in rows]
        t["payload_ok"] = True
    else:
        raise MachineryError("unknown corruption " + kind)
    return t


# ---------------------------------------------------------------- the check
def run(ctx):
    ctx.liveness("Merge", unfair_control=not ctx.quick)      # termination under weak fairness (Merge_live.cfg)
    global BASE
    rng = np.random.default_rng(ctx.seed)
    quick = ctx.quick

    # ---------------- (M) ----------------
    ctx.phase("model_checking")
    jobs = [("Merge_quick.cfg", dict(note="table merger: every family <=3 inputs x <=3 rows x ranks 1..3 "
                                          "(unsorted included) x asc/desc")),
            ("Merge_plain.cfg", dict(note="row-dict merge: every descending-sorted family 3x3x3")),
            ("Merge_plain_any.cfg", dict(note="declarative tie rule (any best head), both implementations, 3x2x3")),
            ("Merge_mut1.cfg", dict(expect_violation="EveryRowOnce", note="seeded fault: last row of an input lost")),
            ("Merge_mut2.cfg", dict(expect_violation="UnsortedRejected", note="seeded fault: no sortedness guard")),
            ("Merge_mut3.cfg", dict(expect_violation="SortedAccepted", note="seeded fault: guard rejects ties")),
            ("Merge_cov.cfg", dict(coverage=True, note="action coverage (2x2x2, both implementations)"))]
    if not quick:
        jobs += [("Merge_thorough.cfg", dict(note="table merger 4 inputs x <=2 rows x ranks 1..3")),
                 ("Merge_thorough2.cfg", dict(note="table merger 2 inputs x <=4 rows x ranks 1..4")),
                 ("Merge_thorough3.cfg", dict(note="table merger 4 inputs x <=3 rows x ranks 1..2")),
                 ("Merge_plain_thorough.cfg", dict(note="row-dict merge: every sorted family 4x3x3"))]

    results = {cfg: ctx.model_check("Merge", cfg, **kw) for cfg, kw in jobs}
    ctx.require_actions(results["Merge_cov.cfg"], ["Advance", "Reject", "Exhaust", "Finish"])

    # ---------------- (G) ----------------
    ctx.phase("generation")
    gens = ["Merge_gen_sorted3.cfg", "Merge_gen_any2.cfg"] + ([] if quick else ["Merge_gen_sorted4.cfg", "Merge_gen_any3.cfg"])
    with ThreadPoolExecutor(max_workers=4) as ex:
        gen = dict(zip(gens, ex.map(lambda g: tlc_cases(g)[0], gens)))
    TOP = 3
    cases = []
    idx = ctx.seed

    def variants_of(inputs):
        return [("rowdict", True, inputs), ("table", True, inputs), ("table", False, mirror(inputs, TOP))]
    # descending-sorted families (TLC: Impls = {"rowdict"}), <= 3 inputs x <= 3 rows x ranks 1..3
    for impl, desc, inputs in gen["Merge_gen_sorted3.cfg"]:
        if impl != "rowdict" or desc is not True:
            raise MachineryError("unexpected CASE from the sorted generator: %r" % ((impl, desc, inputs),))
        nmax = max(len(s) for s in inputs)
        if len(inputs) <= 2:      # every reader chunk size 1..N+1 (thorough: x both formats; quick: alternating)
            for v in variants_of(inputs):
                for rc in range(1, nmax + 2):
                    for fi in ((idx % 2,) if quick else (0, 1)):
                        cases.append(make_case(idx, *v, rchunk=rc, fmt=FORMATS[fi][0], ext=FORMATS[fi][1]))
                        idx += 1
        elif quick:               # 3 inputs, quick: one execution per family, rotating implementation / direction
            cases.append(make_case(idx, *variants_of(inputs)[idx % 3]))
            idx += 1
        else:                     # 3 inputs, thorough: every implementation / direction, twice
            for v in variants_of(inputs):
                for _ in range(2):
                    cases.append(make_case(idx, *v))
                    idx += 1
    # thorough: 4 inputs x <= 2 rows x ranks 1..3, every implementation / direction
    for impl, desc, inputs in gen.get("Merge_gen_sorted4.cfg", []):
        if len(inputs) == 4:
            for v in variants_of(inputs):
                cases.append(make_case(idx, *v))
                idx += 1
    # arbitrary families for the guard (TLC: Impls = {"table"}, both directions)
    for g, reps in (("Merge_gen_any2.cfg", 1 if quick else 2), ("Merge_gen_any3.cfg", 1)):
        for impl, desc, inputs in gen.get(g, []):
            if impl != "table":
                raise MachineryError("unexpected CASE from the guard generator: %r" % ((impl, desc, inputs),))
            if g == "Merge_gen_any3.cfg" and len(inputs) < 3:
                continue
            for _ in range(reps):
                cases.append(make_case(idx, "table", desc, inputs))
                idx += 1
    n_tlc = len(cases)
    rcases = []
    nrand = 200 if quick else 2000
    for j in range(nrand):                            # seeded random larger sorted cases
        inputs, top = random_inputs(rng, 8, 30)
        v = [("rowdict", True, inputs), ("table", True, inputs), ("table", False, mirror(inputs, top))][j % 3]
        rcases.append(make_case(idx, *v))
        idx += 1
    for j in range(nrand // 2):                       # ... and unsorted ones for the guard
        inputs, top = random_inputs(rng, 8, 30)
        desc = bool(j % 2)
        if not desc:
            inputs = mirror(inputs, top)
        inputs = break_sortedness(rng, inputs, desc, top)
        if all(is_sorted(s, desc) for s in inputs):
            raise MachineryError("generator produced a sorted family where an unsorted one was intended")
        rcases.append(make_case(idx, "table", desc, inputs))
        idx += 1
    cases = rcases + cases                            # the long ones first (they take longest to drive)
    n_rand = len(rcases)

    # ---------------- drive the real code ----------------
    ctx.phase("driving")
    BASE = tempfile.mkdtemp(prefix="verif_c14_")
    try:
        call_real(cases[0])
        call_real(next(c for c in cases if c["impl"] == "table" and c["fmt"] == "parquet"))   # warm imports

        def one(i):
            try:
                tr = call_real(cases[i])
            except Exception as e:      # harness failure: reported as machinery error by the parent
                return {"_harness": "%s: %s" % (type(e).__name__, e)}
            tr["tid"] = i + 1
            return tr
        traces = pmap(one, len(cases), chunk=40)
    finally:
        shutil.rmtree(BASE, ignore_errors=True)
    bad = [t for t in traces if "_harness" in t]
    if bad:
        raise MachineryError("driver failed on %d cases, e.g. %s" % (len(bad), bad[0]["_harness"]))

    stats = {"raised": 0, "completed": 0, "unsorted_inputs": 0}
    rtypes = {}
    for tid, c in enumerate(cases, 1):
        tr = traces[tid - 1]
        srt = all(is_sorted(s, c["desc"]) for s in c["inputs"])
        stats["raised" if tr["raised"] else "completed"] += 1
        stats["unsorted_inputs"] += 0 if srt else 1
        if tr["raised"]:
            rtypes[tr["rtype"]] = rtypes.get(tr["rtype"], 0) + 1
        ctx.count((c["impl"], c["desc"], tuple(tuple(s) for s in c["inputs"]), c["fmt"], c["rchunk"],
                   c["api"], c["ochunk"] if c["api"] == "chunked" else 0))
        if tid in (1, n_rand, n_rand + 1, n_rand + n_tlc // 3, n_rand + (2 * n_tlc) // 3, len(cases)):
            short = {k: (v if not isinstance(v, list) or len(v) <= 12 else v[:12] + ["..."]) for k, v in tr.items()}
            ctx.sample({"case": {k: c[k] for k in ("impl", "desc", "fmt", "rchunk", "api", "ochunk", "scale")},
                        "trace": short})
    ctx.cov["c14"] = dict(stats, raised_types=rtypes, tlc_enumerated_cases=n_tlc, random_cases=n_rand)

    # ---------------- (V) ----------------
    ctx.phase("validation")
    verdicts = ctx.validate("MergeTrace", "Trace.cfg", traces)
    for tid, c in enumerate(cases, 1):
        v = verdicts[tid]
        if not v["accept"]:
            ctx.reject({"case": c, "trace": traces[tid - 1]}, v["failed"], signature(c, traces[tid - 1]))

    # ---------------- negative controls ----------------
    ctx.phase("negative_controls")
    crng = np.random.default_rng(ctx.seed + 1)
    acc = [t for t in traces if verdicts[t["tid"]]["accept"]]
    done = [t for t in acc if not t["raised"] and len(t["out"]) >= 2]
    multi = [t for t in done if len(set(t["rk"])) >= 2]
    rej = [t for t in acc if t["raised"]]
    per = 40 if quick else 150
    groups = [("drop", done), ("dup", done), ("replace", done), ("swap", multi), ("payload", done),
              ("spurious_raise", done), ("silent_unsorted", rej)]
    bad, kinds = [], {}
    for g, (kind, pool) in enumerate(groups):
        if not pool:
            if ctx.violations:
                continue
            raise MachineryError("no accepted trace to corrupt for negative control %r" % kind)
        for j, i in enumerate(crng.integers(0, len(pool), per)):
            b = corrupt(pool[int(i)], kind, crng)
            b["tid"] = 1000 * (g + 1) + j          # the kind is recoverable from the tid in an error message
            bad.append(b)
        kinds[kind] = per
    ctx.negative_controls("MergeTrace", "Trace.cfg", bad,
                          name="row dropped / duplicated / replaced by a copy of another / two rows of different score "
                               "swapped / payload or score changed / raise on sorted input / unsorted input not rejected")
    ctx.cov["c14"]["negative_control_kinds"] = kinds
    ctx.phase("finish")

    ctx.assume("scores are rendered from integer ranks by a strictly increasing affine map with dyadic values "
               "(exact in text and Parquet); a returned score is mapped back to its rank within 1e-9 relative")
    ctx.assume("the reader chunk size of merge_sort is varied by setting mokapot.utils.MERGE_SORT_CHUNK_SIZE, the "
               "value that the environment variable MOKAPOT_MERGE_SORT_CHUNK_SIZE configures at import time")
    ctx.assume("merge_sort has neither an ascending mode nor a sortedness check: it is driven with "
               "descending-sorted inputs only (the property's domain for it); any exception type raised by the "
               "table merger on an unsorted input counts as a rejection")
    return ctx.finish(
        rule="cases = every descending-sorted family of 1..3 inputs x 1..3 rows x ranks 1..3%s enumerated by TLC from "
             "Merge.tla Init, run through merge_sort (desc), the table merger desc and (rank-mirrored) asc%s; "
             "families of <= 2 inputs under every reader chunk size 1..N+1%s, the others rotating "
             "format / reader chunk 1..N+1 / API (read, get_chunked_data_iterator, merge_readers, get_row_iterator x 3 "
             "row types) / output chunk / score scale; every family (unsorted included) of <= 2 inputs x <= 3 rows x "
             "ranks 1..3%s x asc/desc through the table merger; seeded random families <= 8 inputs x <= 30 rows "
             "with heavy ties, sorted and unsorted; "
             "distinct = distinct (impl, direction, inputs, format, reader chunk, API, output chunk)"
             % ((" (3-input families: one of the three per family)", "", " (text/Parquet alternating)", "") if quick else
                (" and of 4 inputs x 1..2 rows x ranks 1..3", " (all three for every family)", " x text/Parquet",
                 " and of 3 inputs x <= 3 rows x ranks 1..2")),
        exhaustive=True)


def replay(ctx, case):
    global BASE
    c = case["case"]["case"]
    BASE = tempfile.mkdtemp(prefix="verif_c14_")
    try:
        tr = call_real(c)
    finally:
        shutil.rmtree(BASE, ignore_errors=True)
    tr["tid"] = 1
    v = ctx.validate("MergeTrace", "Trace.cfg", [tr])[1]
    if not v["accept"]:
        ctx.reject({"case": c, "trace": tr}, v["failed"], signature(c, tr))
    ctx.count(1)
    ctx.count(2)
    ctx.sample(tr)
    return ctx.finish(rule="replay of one recorded case")
