"""C06 -- PEPs are probabilities, monotone in score, and aligned with their PSM.

The numeric estimators are not transcribed into TLA+ (DESIGN.md section 2): PepContract.tla states their CONTRACT
(OnePerPsm, InRange, Monotone, TieEqual, Equivariant) and PepContractTrace.tla decides it on recorded estimates.

(M) PepContract.tla sanity layer: an abstract estimator "value = f[rank]" satisfies every clause for all small
    inputs / permutations; "values returned in sorted order" (AsIs_SortedReturn = what the qvality wrapper does)
    satisfies Monotone /\\ TieEqual /\\ Equivariant exactly when sorted order = input order; seeded faults (wrong
    direction, tie jitter) are caught; the O(n log n) formulation used on long vectors equals the pairwise one.
(G) TLC enumerates the case SHAPES (kind, algorithm, mixture class, tie pattern, permutation class, size class);
    inside a shape the numeric vectors come from numpy generators seeded from ctx.seed.  Every case calls the real
    peps_from_scores / qvalues_from_scores on the vector x and on x o perm.  In addition assign_confidence runs on
    medium tables (600-2000 PSMs, qvality and kde_nnls) and the posterior_error_prob column of the result files
    is recorded next to the rank of the row's score.
(V) PepContractTrace.tla accepts iff the contract holds with eps = 1 quantum = 1/scale (1e-9 for PEPs).

Python generates inputs, calls mokapot, projects floats to ints / flags; it does not decide the property.

Rejected estimates are grouped into failure classes (api, algorithm, failed clauses, exception) printed as
FAILURE-CLASS lines and stored in evidence coverage.failure_classes; the signature handed to ctx.reject carries
api / alg / perm / ties / family / raised / raised_type / top_is_decoy / has_ties (+ failed) for known_findings.json.
Expected on the current tree: qvality returns in descending-score order (F-06a); hist_nnls / from_peps raise
TypeError nnls(atol=) (F-06b).
"""
from __future__ import annotations

import copy
import shutil
import tempfile
from pathlib import Path

import numpy as np

from engine.tlc import run_tlc, MachineryError
from drivers.common import pmap
from drivers import mk

LEVEL = "exploration"

SCALE = 10 ** 9
SIZES = {"s100": (100, 160), "s300": (161, 500), "s1000": (501, 1000), "s5000": (1001, 5000)}
REPS = {"quick": {"s100": 1, "s300": 1, "s1000": 1, "s5000": 0},
        "thorough": {"s100": 10, "s300": 8, "s1000": 5, "s5000": 2}}
FAMILIES = ["normal", "normal", "gumbel", "expo"]      # null-score family, drawn per case (normal twice as likely)
AFFINE = [(1.0, 0.0), (1.0, 0.0), (0.05, -7.5), (40.0, 300.0)]
MIX = {"separated": (0.5, 0.7, 5.0), "overlapping": (0.4, 0.6, 1.5), "mostly_null": (0.04, 0.1, 3.0),
       "null": (0.0, 0.0, 0.3)}      # no signal at all: targets and decoys from the same distribution (one target shifted by 0.3)


# ----------------------------------------------------------------------------------------------------------
# numeric generators (inside a shape)
# ----------------------------------------------------------------------------------------------------------
def null_scores(rng, family, k):
    if family == "gumbel":
        return rng.gumbel(0.0, 1.0, k)
    if family == "expo":
        return rng.exponential(1.0, k)
    return rng.normal(0.0, 1.0, k)


def gen_vector(case):
    """scores (float64), targets (bool) in the generated (random) input order; deterministic in case['seed']."""
    rng = np.random.default_rng(case["seed"])
    n = case["n"]
    nt = int(rng.integers(max(50, int(0.4 * n)), min(n - 50, int(0.6 * n)) + 1)) if n >= 100 else n // 2
    nd = n - nt
    lo, hi, mu = MIX[case["mixture"]]
    k = max(1, int(round(rng.uniform(lo, hi) * nt)))            # correct targets
    fam = case["family"]
    shift = {"normal": 0.0, "gumbel": 1.5, "expo": 2.5}[fam]    # longer right tails: keep the class separation
    ts = np.concatenate([rng.normal(mu + shift, 1.0, k), null_scores(rng, fam, nt - k)])
    ds = null_scores(rng, fam, nd)
    s = np.concatenate([ts, ds])
    t = np.concatenate([np.ones(nt, bool), np.zeros(nd, bool)])
    if case["ties"] == "some":
        s = np.where(rng.random(n) < 0.3, np.round(s, 1), s)
    elif case["ties"] == "heavy":
        s = np.round(s, 1)
    a, b = case["affine"]
    s = s * a + b
    o = rng.permutation(n)
    return np.ascontiguousarray(s[o], dtype=np.float64), np.ascontiguousarray(t[o]), rng


def perm_of(case, s, rng):
    """0-based index array p: the permuted call receives x[p]."""
    n = len(s)
    pc = case["perm"]
    if pc == "identity":
        return np.arange(n)
    if pc == "reversal":
        return np.arange(n)[::-1].copy()
    if pc == "sorted_asc":
        return np.argsort(s, kind="stable")
    if pc == "sorted_desc":
        return np.argsort(-s, kind="stable")
    return rng.permutation(n)


def dense_ranks(s):
    _, inv = np.unique(np.asarray(s, dtype=np.float64), return_inverse=True)
    return (inv + 1).astype(int)          # higher score = higher rank


# ----------------------------------------------------------------------------------------------------------
# projection of returned floats
# ----------------------------------------------------------------------------------------------------------
def as_vector(r):
    return np.asarray(r, dtype=np.float64).reshape(-1)


def pick_scale(kind, vectors):
    if kind != "q":
        return SCALE
    m = 0.0
    for v in vectors:
        if v is not None and len(v):
            f = np.abs(v[np.isfinite(v)])
            if len(f):
                m = max(m, float(f.max()))
    sc = SCALE
    while sc > 1 and m * sc > 2.0e9:
        sc //= 10
    return sc


def project(v, scale):
    """-> (values:[int], flags:[str]); nan / inf are recorded with value 0; huge values are clamped (flagged)."""
    vals, flags = [], []
    for x in v.tolist():
        if x != x:
            vals.append(0), flags.append("nan")
        elif x in (float("inf"), float("-inf")):
            vals.append(0), flags.append("inf")
        else:
            q = int(round(x * scale))
            q = max(-2 * 10 ** 9, min(2 * 10 ** 9, q))
            vals.append(q)
            flags.append("neg" if x < 0 else ("gt1" if x > 1 else "ok"))
    return vals, flags


def call_est(kind, alg, s, t):
    import mokapot.peps as P
    import mokapot.qvalues as Q
    try:
        if kind == "pep":
            r = P.peps_from_scores(s.copy(), t.copy(), alg)
        else:
            r = Q.qvalues_from_scores(s.copy(), t.copy(), alg)
        return as_vector(r), ""
    except KeyboardInterrupt:
        raise
    except BaseException as e:          # SystemExit from triqler's qvality included: an event, not a crash
        return None, ("%s: %s" % (type(e).__name__, str(e)))[:120]


def run_est_case(case):
    s, t, rng = gen_vector(case)
    p = perm_of(case, s, rng)
    a, ra = call_est(case["kind"], case["alg"], s, t)
    b, rb = call_est(case["kind"], case["alg"], s[p], t[p])
    scale = pick_scale(case["kind"], [a, b])
    va, fa = project(a, scale) if a is not None else ([], [])
    vb, fb = project(b, scale) if b is not None else ([], [])
    ranks = dense_ranks(s)
    top = ranks == ranks.max()
    ref = []
    if case["kind"] == "pep" and case["alg"] == "qvality" and a is not None:
        # reference for the ALIGNMENT of the qvality estimator: the third-party routine itself (triqler), which reports its
        # PEPs from the best to the worst score; mokapot's wrapper has to hand each PSM the value computed for it
        try:
            from triqler import qvality as TQ
            old_verb, TQ.VERB = TQ.VERB, 0
            try:
                _, rp = TQ.getQvaluesFromScores(s[t], s[~t], includeDecoys=True, includePEPs=True, tdcInput=False)
            finally:
                TQ.VERB = old_verb
            if len(rp) == len(s):
                ref = project(np.asarray(rp, dtype=np.float64), scale)[0]
        except BaseException as e:
            if isinstance(e, KeyboardInterrupt):
                raise
            ref = []
    return {"kind": case["kind"], "alg": case["alg"], "n": int(len(s)), "scale": int(scale), "ref": ref,
            "ranks": [int(x) for x in ranks], "targets": [bool(x) for x in t], "perm": [int(x) + 1 for x in p],
            "values": va, "flags": fa, "values_perm": vb, "flags_perm": fb, "raised": ra, "raised_perm": rb,
            # input features, for the classification of rejected cases only
            "_top_is_decoy": bool((~t[top]).any()), "_has_ties": bool(ranks.max() < len(s))}


# ----------------------------------------------------------------------------------------------------------
# result files of assign_confidence
# ----------------------------------------------------------------------------------------------------------
def run_file_case(case):
    """assign_confidence on one medium table -> one trace per level (rows of targets.<level> + decoys.<level>)."""
    import mokapot
    rng = np.random.default_rng(case["seed"])
    n = case["n"]
    nt = int(rng.integers(int(0.45 * n), int(0.55 * n) + 1))
    lo, hi, mu = MIX[case["mixture"]]
    k = max(1, int(round(rng.uniform(lo, hi) * nt)))
    s = np.concatenate([rng.normal(mu, 1.0, k), rng.normal(0.0, 1.0, nt - k), rng.normal(0.0, 1.0, n - nt)])
    s = np.round(s * 64.0) / 64.0                      # dyadic: the text round trip through the files is exact
    t = np.concatenate([np.ones(nt, bool), np.zeros(n - nt, bool)])
    o = rng.permutation(n)
    s, t = s[o], t[o]
    # every PSM its own spectrum; peptides shared by 1-3 PSMs of the same label
    rows, pep = [], 0
    left = {True: 0, False: 0}
    cur = {True: -1, False: -1}
    for i in range(n):
        lab = bool(t[i])
        if left[lab] == 0:
            pep += 1
            cur[lab] = pep
            left[lab] = int(rng.integers(1, 4))
        left[lab] -= 1
        rows.append({"id": i + 1, "spec": i + 1, "pep": cur[lab], "tgt": lab, "feats": [float(s[i]), 0.0]})
    ranks = dense_ranks(s)
    desc = bool(case.get("desc", True))
    s_in = s if desc else -s                          # a lower-is-better score handed over with descs=[False]
    rank_of = {float(x): int(r) for x, r in zip(s_in.tolist(), ranks.tolist())}
    wd = Path(tempfile.mkdtemp(prefix="c06_"))
    raised = ""
    traces = []
    try:
        out = wd / "out"
        out.mkdir()
        df = mk.build_table(rows)
        ds = mk.make_dataset(df, wd / "in.pin")
        try:
            with mk.patched(CONFIDENCE_CHUNK_SIZE=case["chunk"]):
                mokapot.assign_confidence(psms=[ds], max_workers=1, scores=[s_in.copy()], dest_dir=out, decoys=True,
                                          prefixes=[None], peps_algorithm=case["alg"], **({} if desc else {"descs": [False]}))
        except KeyboardInterrupt:
            raise
        except BaseException as e:
            raised = ("%s: %s" % (type(e).__name__, str(e)))[:120]
        for level in ("psms", "peptides"):
            rk, vals, nrows = [], [], {}
            for name in ("targets", "decoys"):
                f = out / ("%s.%s" % (name, level))
                got = mk.read_result(f)[1] if f.exists() else []
                nrows[name] = len(got)
                for r in got:
                    try:
                        rk.append(rank_of.get(float(r.get("score")), 0))
                    except (TypeError, ValueError):
                        rk.append(0)
                    try:
                        vals.append(float(r.get("posterior_error_prob")))
                    except (TypeError, ValueError):
                        vals.append(float("nan"))
            v, fl = project(np.asarray(vals, dtype=np.float64), SCALE)
            traces.append({"kind": "file", "alg": case["alg"], "level": level, "n": len(rk), "scale": SCALE, "ref": [],
                           "ranks": rk, "targets": [], "values": v, "flags": fl, "raised": raised,
                           "_rows": nrows})
    finally:
        shutil.rmtree(wd, ignore_errors=True)
    return traces


def run_case(case):
    """-> list of traces (without tid); a harness failure surfaces as a machinery error, not as a verdict"""
    try:
        if case["kind"] == "file":
            return run_file_case(case)
        return [run_est_case(case)]
    except Exception as e:
        return [{"harness_error": "%s: %s" % (type(e).__name__, e)}]


# ----------------------------------------------------------------------------------------------------------
# cases
# ----------------------------------------------------------------------------------------------------------
def tlc_shapes(ctx):
    cfg = "PepContract_gen_quick.cfg" if ctx.quick else "PepContract_gen_thorough.cfg"
    r = run_tlc("PepContract", cfg, workers=1)
    if not r.ok:
        raise MachineryError("shape generation failed: %s %s" % (r.violated, r.error))
    shapes = sorted(tuple(p[1:7]) for p in r.prints if p and p[0] == "CASE")
    if len(shapes) != r.distinct or len(set(shapes)) != len(shapes):
        raise MachineryError("shape generation: %d CASE lines for %d states" % (len(shapes), r.distinct))
    return shapes


def make_cases(ctx, shapes):
    cases = []
    reps = REPS["quick" if ctx.quick else "thorough"]
    for si, (kind, alg, mixture, ties, perm, size) in enumerate(shapes):
        for rep in range(reps[size]):
            seed = [int(ctx.seed), 6, si, rep]
            rng = np.random.default_rng(seed)
            lo, hi = SIZES[size]
            cases.append({"kind": kind, "alg": alg, "mixture": mixture, "ties": ties, "perm": perm, "size": size,
                          # the first repetition of the smallest class sits on the domain boundary (50 + 50)
                          "n": lo if (rep == 0 and size == "s100") else int(rng.integers(lo, hi + 1)),
                          "family": FAMILIES[int(rng.integers(0, len(FAMILIES)))],
                          "affine": list(AFFINE[int(rng.integers(0, len(AFFINE)))]), "seed": seed})
    # no signal: a legitimate (non-degenerate) score distribution; PEPs must still not decrease as the score worsens
    for j in range(6 if ctx.quick else 60):
        alg = ["kde_nnls", "hist_nnls", "kde_nnls"][j % 3]
        rng = np.random.default_rng([int(ctx.seed), 67, j])
        cases.append({"kind": "pep", "alg": alg, "mixture": "null", "ties": "none", "perm": "random", "size": "s1000",
                      "n": int(rng.integers(400, 1500)), "family": "normal", "affine": list(AFFINE[j % len(AFFINE)]),
                      "seed": [int(ctx.seed), 67, j]})
    # two deliberately out-of-domain estimates (30 targets + 30 decoys): must be accepted vacuously
    for j, alg in enumerate(["kde_nnls", "tdc"]):
        cases.append({"kind": "pep" if j == 0 else "q", "alg": alg, "mixture": "separated", "ties": "none",
                      "perm": "random", "size": "tiny", "n": 60, "family": "normal", "affine": [1.0, 0.0],
                      "seed": [int(ctx.seed), 66, j]})
    ntab = 3 if ctx.quick else 20
    for j in range(ntab):
        rng = np.random.default_rng([int(ctx.seed), 606, j])
        n = int(rng.integers(600, 2001))
        for alg in ("qvality", "kde_nnls", "hist_nnls"):
            for desc in (True, False):
                if alg == "hist_nnls" and desc:
                    continue
                cases.append({"kind": "file", "alg": alg, "n": n, "mixture": ["separated", "overlapping", "mostly_null"][j % 3],
                              "chunk": [1000000, 400][j % 2], "seed": [int(ctx.seed), 606, j], "desc": desc})
    return cases


def signature(case, tr):
    """parameters that classify a failure (no numeric vectors: they regenerate from case['seed'])"""
    if case["kind"] == "file":
        return {"api": "assign_confidence", "alg": case["alg"], "level": tr.get("level"), "mixture": case["mixture"],
                "chunk": case["chunk"], "n": case["n"], "raised": tr.get("raised", ""), "seed": case["seed"]}
    r = tr.get("raised") or tr.get("raised_perm") or ""
    return {"api": "peps_from_scores" if case["kind"] == "pep" else "qvalues_from_scores", "alg": case["alg"],
            "perm": case["perm"], "ties": case["ties"], "family": case["family"], "raised": r,
            "raised_type": r.split(":")[0], "top_is_decoy": bool(tr.get("_top_is_decoy")),
            "has_ties": bool(tr.get("_has_ties"))}


def strip(tr):
    return {k: v for k, v in tr.items() if not k.startswith("_")}


def brief(tr, k=8):
    """what goes into a replay file / sample: the head of the recorded vectors"""
    out = {}
    for key, v in tr.items():
        out[key] = v[:k] if isinstance(v, list) else v
    return out


# ----------------------------------------------------------------------------------------------------------
# negative controls
# ----------------------------------------------------------------------------------------------------------
def corrupt(tr, how):
    """-> corrupted copy, or None when this corruption does not apply to the trace"""
    t = copy.deepcopy(strip(tr))
    v = t["values"]
    n = len(v)
    if how == "reverse":
        # applicable when the reversal moves some value by more than the tolerance: then either Equivariant
        # (values_perm is untouched) or, for file traces, Monotone / TieEqual must fail
        if not any(abs(a - b) > 1 for a, b in zip(v, v[::-1])):
            return None
        if t["kind"] == "file" and len(set(t["ranks"])) < 2:
            return None
        t["values"] = v[::-1]
    elif how == "gt1":
        i = n // 3
        if t["kind"] == "q":
            t["values"][i], t["flags"][i] = -3, "neg"
        else:
            t["values"][i], t["flags"][i] = t["scale"] + 5, "gt1"
    elif how == "nan":
        i = n // 2
        t["values"][i], t["flags"][i] = 0, "nan"
    elif how == "dense":
        # every PSM gets the reference value at the position of its DISTINCT score (not of its row): still monotone, equal
        # within ties and independent of the row order -- only the comparison with the reference can see it
        ref = t.get("ref") or []
        if len(ref) != n or "values_perm" not in t or len(set(t["ranks"])) == n:
            return None
        distinct = sorted(set(t["ranks"]), reverse=True)
        pos = {r: k for k, r in enumerate(distinct)}
        t["values"] = [ref[pos[r]] for r in t["ranks"]]
        t["values_perm"] = [t["values"][j - 1] for j in t["perm"]]
        if not any(abs(a - b) > 1 for a, b in zip(t["values"], v)):
            return None
    elif how == "tie":
        seen = {}
        pair = None
        for i, r in enumerate(t["ranks"]):
            if r in seen:
                pair = (seen[r], i)
                break
            seen[r] = i
        if pair is None:
            return None
        j = pair[1]
        t["values"][j] = v[j] + 5 if v[j] + 5 <= t["scale"] else v[j] - 5
    return t


# ----------------------------------------------------------------------------------------------------------
def drive_and_validate(ctx, cases):
    from threadpoolctl import threadpool_limits

    def cost(c):                                         # longest first: qvality with >= 500 bins dominates
        return (c["kind"] == "file", c["alg"] == "qvality" and c["n"] >= 500, c["alg"] in ("qvality", "kde_nnls"), c["n"])
    order = sorted(range(len(cases)), key=lambda i: cost(cases[i]), reverse=True)

    def one(j):
        with threadpool_limits(limits=1):                # 16 forked workers: no nested BLAS / OpenMP pools
            return run_case(cases[order[j]])
    done = pmap(one, len(cases), chunk=1)
    results = [None] * len(cases)
    for j, r in enumerate(done):
        results[order[j]] = r
    traces, owner = [], {}
    for ci, trs in enumerate(results):
        for tr in trs:
            if "harness_error" in tr:
                raise MachineryError("driver failure on case %r: %s" % (cases[ci], tr["harness_error"]))
            tr["tid"] = len(traces) + 1
            owner[tr["tid"]] = ci
            traces.append(tr)
    ctx.phase("validate")
    verdicts = {}
    B = 1500                                             # batches keep the JSON shards of long vectors small
    for lo in range(0, len(traces), B):
        verdicts.update(ctx.validate("PepContractTrace", "Trace.cfg", [strip(t) for t in traces[lo:lo + B]]))
    return traces, owner, verdicts


def report_rejected(ctx, rejected):
    """Hand the rejected traces to the findings matcher, one representative of every failure class first (the
    engine prints the first 20 violations), and record the classes = (api, algorithm, failed clauses, exception)
    with the shape classes they were seen on."""
    classes = {}
    for c, tr, v in rejected:
        sig = signature(c, tr)
        key = (sig["api"], sig["alg"], tuple(sorted(v["failed"])), sig.get("raised", ""))
        classes.setdefault(key, []).append((c, tr, v, sig))
    order = []
    depth = 0
    while any(len(m) > depth for m in classes.values()):
        order += [m[depth] for _, m in sorted(classes.items()) if len(m) > depth]
        depth += 1
    for c, tr, v, sig in order:
        ctx.reject({"case": c, "trace_head": brief(strip(tr))}, v["failed"], sig)
    summary = []
    for key, m in sorted(classes.items()):
        seen = {}
        for dim in ("perm", "ties", "mixture", "size", "family", "top_is_decoy", "level"):
            vals = sorted({str({**x[0], **x[3]}[dim]) for x in m if dim in x[3] or dim in x[0]})
            if vals:
                seen[dim] = vals
        summary.append({"api": key[0], "alg": key[1], "failed": list(key[2]), "raised": key[3], "cases": len(m), "seen_on": seen})
        print("FAILURE-CLASS %s(%s) failed=%s raised=%r cases=%d seen_on=%s" % (key[0], key[1], list(key[2]), key[3], len(m), seen))
    ctx.cov["failure_classes"] = summary


def run(ctx):
    # ---------------- (M) sanity layer ----------------
    ctx.phase("model_check")
    ctx.model_check("PepContract", "PepContract_quick.cfg",
                    note="abstract estimator value=f[rank]: every clause, all inputs n<=4, all permutations; "
                         "sorted-order return satisfies the alignment clauses iff it equals the input-order return")
    ctx.model_check("PepContract", "PepContract_fast.cfg", note="O(n log n) Monotone/TieEqual = pairwise definition, every value vector n<=4")
    if not ctx.quick:
        ctx.model_check("PepContract", "PepContract_thorough.cfg", note="n<=5, values 0..2", timeout=3000)
        ctx.model_check("PepContract", "PepContract_fast_thorough.cfg", note="n<=5", timeout=3000)
    ctx.model_check("PepContract", "PepContract_asis.cfg", workers=4, expect_violation="Inv_Aligned",
                    note="AsIs_SortedReturn (qvality wrapper today): values in descending-score order")
    ctx.model_check("PepContract", "PepContract_asis_mono.cfg", workers=4, expect_violation="Inv_Monotone", note="same, Monotone alone")
    ctx.model_check("PepContract", "PepContract_asis_equi.cfg", workers=4, expect_violation="Inv_Equivariant", note="same, Equivariant alone")
    ctx.model_check("PepContract", "PepContract_mut1.cfg", workers=4, expect_violation="Inv_Monotone", note="seeded fault: wrong direction")
    ctx.model_check("PepContract", "PepContract_mut2.cfg", workers=4, expect_violation="Inv_TieEqual", note="seeded fault: tie jitter")
    r = ctx.model_check("PepContract", "PepContract_cov.cfg", coverage=True, note="action coverage (n<=3)")
    ctx.require_actions(r, ["PickInput", "PickPerm", "Call", "CallPerm"])
    # ---------------- (G) ----------------
    ctx.phase("generate")
    shapes = tlc_shapes(ctx)
    cases = make_cases(ctx, shapes)
    # ---------------- drive the real code ----------------
    ctx.phase("drive")
    warm = dict(cases[0], alg="tdc", kind="q")
    run_est_case(warm)                                   # imports / numba before forking
    traces, owner, verdicts = drive_and_validate(ctx, cases)
    # ---------------- (V) ----------------
    accepted, rejected = [], []
    for tr in traces:
        c = cases[owner[tr["tid"]]]
        v = verdicts[tr["tid"]]
        if c["kind"] == "file":
            ctx.count(("file", c["alg"], tr["level"], c["n"], c["mixture"]))
        else:
            ctx.count((c["kind"], c["alg"], c["mixture"], c["ties"], c["perm"], c["size"], c["family"]))
        if v.get("info") == "out_of_domain":
            ctx.cov["out_of_domain"] += 1
            if c.get("size") != "tiny":
                raise MachineryError("generated case outside the stated domain: %r" % c)
        elif c.get("size") == "tiny":
            raise MachineryError("the Domain clause did not fire on a 30+30 estimate")
        if v["accept"]:
            accepted.append(tr)
            if c.get("size") != "tiny":
                ctx.sample({"case": c, "trace": brief(strip(tr))}, limit=4)
        else:
            rejected.append((c, tr, v))
    report_rejected(ctx, rejected)
    if ctx.cov["out_of_domain"] != 2:
        raise MachineryError("expected exactly the 2 out-of-domain controls, got %d" % ctx.cov["out_of_domain"])
    # ---------------- negative controls ----------------
    ctx.phase("negative_controls")
    crng = np.random.default_rng(ctx.seed + 1)
    pool = [t for t in accepted if cases[owner[t["tid"]]].get("size") != "tiny" and t["n"] <= 1200]
    if len(pool) < 20:
        raise MachineryError("only %d accepted traces to corrupt" % len(pool))
    for how, name in (("reverse", "returned vector reversed"), ("gt1", "one value out of range (> 1 / < 0)"),
                      ("nan", "one value NaN"), ("tie", "one tie broken by 5e-9"),
                      ("dense", "qvality values looked up by the rank of the distinct score")):
        bad = []
        for i in crng.permutation(len(pool)):
            b = corrupt(pool[int(i)], how)
            if b is not None:
                b["tid"] = len(bad) + 1
                bad.append(b)
            if len(bad) >= (40 if ctx.quick else 120):
                break
        ctx.negative_controls("PepContractTrace", "Trace.cfg", bad, name=name)
    ctx.assume("returned floats are projected to round(value * scale), scale = 1e9 for PEPs (largest power of ten <= 1e9 "
               "keeping the integers inside 32 bits for the unbounded from_counts q-values); the acceptor allows "
               "eps = 1 quantum in every comparison")
    ctx.assume("domain: >= 50 targets and >= 50 decoys and >= 20 distinct score values; result files also for a lower-is-better "
               "score handed over with descs=[False] (every PSM its own spectrum there, so C07's finding F-07b does not change "
               "which rows are kept)")
    ctx.assume("qvality alignment reference: triqler's getQvaluesFromScores itself (third party), judged only when it gives equal "
               "PEPs to equal scores")
    return ctx.finish(
        rule="cases = every shape enumerated by TLC from PepContract!Shapes (kind x algorithm x mixture class x tie "
             "pattern x permutation class x size class) x seeded repetitions (null family normal/gumbel/expo, affine "
             "rescaling, size inside the class), each = the real estimator on x and on x o perm; plus assign_confidence "
             "on %d medium tables x {qvality, kde_nnls} (PEP column of psms/peptides result files); distinct = distinct "
             "(shape, family) resp. (algorithm, level, table)" % (3 if ctx.quick else 20),
        exhaustive=False)


def replay(ctx, case):
    c = case["case"]["case"]
    trs = run_case(c)
    for i, tr in enumerate(trs):
        if "harness_error" in tr:
            raise MachineryError(tr["harness_error"])
        tr["tid"] = i + 1
    verdicts = ctx.validate("PepContractTrace", "Trace.cfg", [strip(t) for t in trs])
    for tr in trs:
        v = verdicts[tr["tid"]]
        ctx.count((c["kind"], c["alg"], tr.get("level", "")))
        ctx.sample({"case": c, "trace": brief(strip(tr))})
        if not v["accept"]:
            ctx.reject({"case": c, "trace_head": brief(strip(tr))}, v["failed"], signature(c, tr))
    return ctx.finish(rule="replay of one recorded case")
