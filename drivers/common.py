"""Helpers shared by the drivers."""
from __future__ import annotations

import multiprocessing as mp
import os

_FN = None


def _run_chunk(args):
    lo, hi = args
    return [_FN(i) for i in range(lo, hi)]


def pmap(fn, n, procs=None, chunk=None):
    """[fn(0), ..., fn(n-1)] computed in forked worker processes (the parent's warmed-up imports and JIT
    caches are inherited).  fn must return picklable values and must not raise."""
    global _FN
    procs = procs or min(16, os.cpu_count() or 4)
    if n <= 64 or procs == 1:
        return [fn(i) for i in range(n)]
    chunk = chunk or max(1, min(500, n // (procs * 4)))
    _FN = fn
    ctx = mp.get_context("fork")
    jobs = [(lo, min(n, lo + chunk)) for lo in range(0, n, chunk)]
    with ctx.Pool(procs) as pool:
        parts = pool.map(_run_chunk, jobs)
    _FN = None
    return [x for p in parts for x in p]
