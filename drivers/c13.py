"""C13 -- Chunked table reading equals whole reading; writers lose and reorder nothing.

(M) TabularRead.tla: chunk iterators of the six reader kinds (CSV / Parquet / frame, plain / column-mapped / joined /
    computed) against Project(table, requested columns) with a continuing index, for every (R, chunk size, row-group
    size, request); TabularWrite.tla: initialize / append / flush loop / forced flush / close against
    "finalised file = appended rows", for every buffer size, buffer kind and append sequence.  Seeded faults, the
    environment alternative (Parquet batches bounded by row groups) and the as-is CSV empty-sub-request behaviour
    must be caught.
(G) TLC prints every reader configuration and every writer behaviour (history variable) as CASE tuples; the driver
    materialises tables (int / float / str / bool columns + unique row id), files (CSV-like suffixes, Parquet with
    the case's row-group size) and drives the real readers / writers through their public API.  Seeded random larger
    tables (<= 200 rows) go through the same recorder.
(V) TabularTrace.tla decides every recorded execution.
"""
from __future__ import annotations

import os
import shutil
import tempfile
import warnings
from pathlib import Path

import numpy as np
import pandas as pd

from engine.tlc import run_tlc, MachineryError
from drivers.common import pmap

LEVEL = "model_checking"

CSV_SUFFIXES = [".csv", ".tsv", ".txt", ".tab", ".pin", ".psms"]     # .tsv / .txt: "fall back to CSV" branch
COLS = ["id", "iv", "fv", "sv", "bv"]
INJ = ["id", "iv", "fv", "sv"]                                       # injective in the row: identify a row
KCOL, KVAL = "k", 7
_ROOT = None


def _dir():
    d = os.path.join(_ROOT, "p%d" % os.getpid())
    os.makedirs(d, exist_ok=True)
    return Path(d)


# ----------------------------------------------------------------------------------------------- tables
def make_table(n, tseed, comma_ok=True):
    """n rows; every column but `bv` is injective.  Strings start with a letter and end with a digit, so they are
    never numeric, boolean or one of pandas' NA tokens; no tabs or newlines (guard of DESIGN C13); double quotes in a quarter of the tables.  Floats have
    <= 12 significant digits (shortest repr, parsed back exactly)."""
    rng = np.random.default_rng(1000003 * int(tseed) + n)
    style = int(tseed) % 4
    m = rng.permutation(4 * n + 8)[:n].astype(np.int64) - n
    iv = m * (1 if style % 2 == 0 else 1000003) + (10 ** 12 if style == 3 else 0)
    m2 = rng.permutation(4 * n + 8)[:n].astype(np.int64) - 2 * n
    fv = (m2 / 8.0) if style < 2 else np.round(m2 * 0.37 + 0.001, 6)
    alpha = "abcdefghijklmnopqrstuvwxyzABCDEFGHIJKLMNOPQRSTUVWXYZ"
    # (style 2: double quotes inside the strings -- a delimited-text writer quotes such a field and the reader must undo exactly that)
    tail = " abcXYZ.-_;:/()[]+*#%0123456789" + ("," if comma_ok else "") + "éß中" + ('"' if style == 2 else "")
    suf = rng.permutation(10 * n + 10)[:n]
    sv = []
    for i in range(n):
        ln = int(rng.integers(0, 6))
        sv.append(alpha[int(rng.integers(0, len(alpha)))] + "".join(tail[int(j)] for j in rng.integers(0, len(tail), ln))
                  + "_" + str(int(suf[i])))       # "_<unique int>": injective whatever digits the random tail ends with
    bv = rng.random(n) < 0.5
    df = pd.DataFrame({"id": np.arange(n, dtype=np.int64), "iv": iv.astype(np.int64), "fv": fv.astype(np.float64),
                       "sv": pd.Series(sv, dtype=object if style == 1 else "str"), "bv": bv.astype(bool)})
    order = [COLS[int(j)] for j in rng.permutation(len(COLS))]
    return df[order]


def _conv(series, col):
    """Delivered column -> python values after the column's declared dtype."""
    if col in ("id", "iv", KCOL):
        return [int(x) for x in series.astype("int64").tolist()]
    if col == "fv":
        return [("nan" if x != x else float(x)) for x in series.astype("float64").tolist()]
    if col == "sv":
        return [str(x) for x in series.tolist()]
    if series.dtype == bool:
        return [bool(x) for x in series.tolist()]
    out = []
    for x in series.tolist():
        if isinstance(x, (bool, np.bool_)):
            out.append(bool(x))
        elif str(x) in ("True", "False"):
            out.append(str(x) == "True")
        else:
            raise ValueError("not a boolean: %r" % (x,))
    return out


class Source:
    """The generated table, with lookups value -> row id for the injective columns."""

    def __init__(self, df):
        self.df = df
        self.vals = {c: _conv(df[c], c) for c in df.columns}
        self.lookup = {c: {v: i for i, v in enumerate(self.vals[c])} for c in INJ if c in df.columns and "nan" not in self.vals[c]}

    def project(self, fr, src_of):
        """[cols, ids, index, veq] of a delivered frame.  src_of: delivered name -> source column (or KCOL)."""
        cols = [str(c) for c in fr.columns]
        n = len(fr)
        conv = {}
        for c in cols:
            try:
                if cols.count(c) == 1 and src_of.get(c) is not None:
                    conv[c] = _conv(fr[c], src_of[c])
            except Exception:
                pass
        ids = None
        for c in cols:
            s = src_of.get(c)
            if s in self.lookup and c in conv:
                ids = [self.lookup[s].get(v, -1) for v in conv[c]]
                break
        if ids is None:
            ids = [-1] * n
        veq = all(c in conv for c in cols) and all(i >= 0 for i in ids)
        if veq:
            for c in cols:
                s = src_of[c]
                exp = [KVAL] * n if s == KCOL else [self.vals[s][i] for i in ids]
                if exp != conv[c]:
                    veq = False
                    break
        try:
            index = [int(x) if float(x) == int(x) and abs(int(x)) < 2 ** 30 else -1 for x in fr.index.tolist()]
            if getattr(self, "index_pos", None) is not None:
                # the frame carries its own row labels: a label is recorded as its position in the source frame
                index = [self.index_pos.get(x, -1) for x in index]
        except Exception:
            index = [-1] * n
        return {"cols": cols, "ids": ids, "index": index, "veq": bool(veq)}


# ----------------------------------------------------------------------------------------------- readers
def _write_file(df, path, kind, rg, sep):
    import pyarrow as pa
    import pyarrow.parquet as pq
    if kind == "csv":
        if df.attrs.get("int_text"):
            # whole numbers of a float column written without a decimal point ("1000001", not "1000001.0"), as many tools do: a chunk
            # holding only such rows is type-inferred as integers, a later chunk with a fractional value as floats
            df = df.copy()
            for c in df.attrs["int_text"]:
                if c in df.columns:
                    df[c] = pd.Series([int(x) if (x == x and float(x).is_integer()) else x for x in df[c].tolist()], dtype=object, index=df.index)
        df.to_csv(path, sep=sep, index=False)
    else:
        pq.write_table(pa.Table.from_pandas(df, preserve_index=False), path, row_group_size=max(1, int(rg)))


def custom_labels(n):
    """row labels of an in-memory frame that is a piece of a larger / filtered / re-sorted table: not 0..n-1"""
    return [n + 7 + 2 * ((i * 5) % max(1, n)) if n % 5 else n + 7 + 2 * i for i in range(n)] if n else []


def _base_reader(df, kind, rg, suffix, sep, name, column_map=None, custom_index=False):
    from mokapot.tabular_data import TabularDataReader, DataFrameReader, ColumnMappedReader
    if kind == "frame":
        fr = df.reset_index(drop=True)
        if custom_index:
            fr.index = custom_labels(len(fr))
        r = DataFrameReader(fr)
        return ColumnMappedReader(r, column_map) if column_map is not None else r
    path = _dir() / (name + (suffix if kind == "csv" else ".parquet"))
    _write_file(df, path, kind, rg, sep)
    kw = {"sep": sep} if (kind == "csv" and sep != "\t") else {}
    return TabularDataReader.from_path(path, column_map=column_map, **kw)


def read_case_layout(case):
    """Concrete columns for the abstract a, b, c of the model, physical order, request, delivered names."""
    sep = case.get("sep", "\t")
    df = make_table(case["R"], case["tseed"], comma_ok=(sep == "\t"))
    if case.get("nan_fv") and len(df):
        # missing values: every third cell of the float column is empty (text) / null (Parquet); the column then no longer
        # identifies a row, the request holds another identifying column
        df.loc[df.index[::3], "fv"] = np.nan
    if case.get("whole_prefix") and len(df):
        # the leading rows of the float column hold whole numbers (and are written as such in a text table), the later rows fractions
        k = min(len(df), 1 + int(case["tseed"]) % 4)
        df.loc[df.index[:k], "fv"] = 1.0e6 + np.arange(k)
        df.attrs["int_text"] = ["fv"]
    phys = list(df.columns)
    if "abc" in case:
        abc = case["abc"]
    else:                                   # a, b, c = three injective columns in physical (file) order
        inj = [c for c in phys if c in INJ]
        drop = case["tseed"] % 4
        abc = [c for j, c in enumerate(inj) if j != drop]
    return df, phys, abc, sep


def rename_map(case, abc):
    """the column map of the 'mapped' wraps: fresh names, or (mapkind) a SWAP of two names / a SHIFT a->b, b->c, c->new -- maps whose
    new names are old names of other columns (a reader that renames a shared frame in place cannot survive them)"""
    if "mapped" not in case["wrap"]:
        return {}
    mk_ = case.get("mapkind")
    if mk_ == "swap":
        return {abc[0]: abc[2], abc[2]: abc[0]}
    if mk_ == "shift":
        return {abc[0]: abc[1], abc[1]: abc[2], abc[2]: abc[2].upper() + "_m"}
    return {abc[0]: abc[0].upper() + "_m", abc[2]: abc[2].upper() + "_m"}


def run_read(case):
    from mokapot.tabular_data import DataFrameReader
    from mokapot.streaming import JoinedTabularDataReader, ComputedTabularDataReader
    df, phys, abc, sep = read_case_layout(case)
    src = Source(df)
    R, c, rg, base, wrap = case["R"], int(case["c"]), case["rg"], case["base"], case["wrap"]
    suffix = case.get("suffix", ".csv")
    ren = rename_map(case, abc)
    names = [ren.get(x, x) for x in phys]                      # delivered names, reader order
    src_of = {ren.get(x, x): x for x in phys}
    abstract = [ren.get(x, x) for x in abc]
    if "computed" in wrap:
        abstract[2] = KCOL                                       # the model's third column is the computed one
        names = names + [KCOL]
        src_of[KCOL] = KCOL
    if "req" in case:
        req = case["req"]                                        # explicit delivered names (random tier)
    elif case["cols"]:
        req = [abstract[j - 1] for j in case["cols"]]
    else:
        req = None
    tr = {"kind": "read", "R": R, "c": c, "req": list(req) if req is not None else names, "raised": "",
          "whole": {"cols": [], "ids": [], "index": [], "veq": False}, "chunks": [], "events": []}
    info = {"empty_sub": ""}
    try:
        if wrap in ("plain", "mapped", "computed", "computed_mapped"):
            ci = bool(case.get("custom_index")) and base == "frame"
            if ci:
                src.index_pos = {lab: i for i, lab in enumerate(custom_labels(len(df)))}
            reader = _base_reader(df, base, rg, suffix, sep, "t", column_map=ren or None, custom_index=ci)
            if "computed" in wrap:
                reader = ComputedTabularDataReader(reader, KCOL, np.dtype("int64"),
                                                   lambda x: np.full(len(x), KVAL))
        else:                                                    # joined: cut the physical order after abstract #split
            cut = phys.index(abc[case["split"] - 1]) + 1
            lcols, rcols = phys[:cut], phys[cut:]
            left = _base_reader(df[lcols], base, rg, suffix, sep, "l")
            rk = case.get("right", "frame")
            right = _base_reader(df[rcols], rk, case.get("rg2", 1), suffix, sep, "r")
            reader = JoinedTabularDataReader([left, right])
            if req is not None:
                if not set(req) & set(lcols):
                    info["empty_sub"] = base
                elif not set(req) & set(rcols):
                    info["empty_sub"] = rk
        if case.get("preread"):
            # earlier whole reads on the same reader (their results are not judged); the computed-column reader takes an explicit list only
            reader.read(columns=list(names)) if "computed" in wrap else reader.read()
            reader.read(columns=list(names)) if "computed" in wrap else reader.read()
        whole = reader.read(columns=req)
        tr["whole"] = src.project(whole, src_of)
        for ch in reader.get_chunked_data_iterator(chunk_size=c, columns=req):
            tr["chunks"].append(src.project(ch, src_of))
            if len(tr["chunks"]) > R + 5:
                tr["raised"] = "iterator does not terminate"
                break
    except Exception as e:
        tr["raised"] = "%s: %s" % (type(e).__name__, str(e)[:200])
    return tr, info


def observable(case):
    """A request must contain a column that identifies the row (the computed column and `bv` do not)."""
    if case["wrap"] == "computed" and case.get("cols") and all(j == 3 for j in case["cols"]):
        return False
    return True


# ----------------------------------------------------------------------------------------------- writers
def _recording_writers():
    from mokapot.tabular_data import CSVFileWriter, ParquetFileWriter, TabularDataWriter, DataFrameReader

    def ids_of(data):
        try:
            return [int(x) for x in data["id"].tolist()]
        except Exception:
            return [-1] * len(data)

    class RecCSV(CSVFileWriter):
        def append_data(self, data):
            self.log.append({"op": "inner", "ids": ids_of(data)})
            return super().append_data(data)

    class RecParquet(ParquetFileWriter):
        def append_data(self, data):
            self.log.append({"op": "inner", "ids": ids_of(data)})
            return super().append_data(data)

    class RecMem(TabularDataWriter):
        """Pure recording inner writer: the "file" is the list of frames received, closed by finalize."""

        def initialize(self):
            self.frames, self.open = [], True

        def append_data(self, data):
            self.check_valid_data(data)
            self.log.append({"op": "inner", "ids": ids_of(data)})
            self.frames.append(data.copy())

        def finalize(self):
            self.open = False

        def get_associated_reader(self):
            if self.open:
                raise RuntimeError("not finalised")
            fr = [f for f in self.frames]
            df = pd.concat(fr, axis=0, ignore_index=True) if fr else pd.DataFrame({c: [] for c in self.columns})
            return DataFrameReader(df)

    return RecCSV, RecParquet, RecMem


def run_write(case):
    import pyarrow as pa
    from mokapot.tabular_data import TabularDataWriter, BufferedWriter, TableType
    hist = [int(k) for k in case["hist"]]
    n = sum(hist)
    df = make_table(n, case["tseed"])
    src = Source(df)
    cols = list(df.columns)
    inner, size, kind, variant = case["inner"], int(case["size"]), case["kind"], case["variant"]
    pa_types = {"id": pa.int64(), "iv": pa.int64(), "fv": pa.float64(), "sv": pa.string(), "bv": pa.bool_()}
    np_types = {"id": np.dtype("int64"), "iv": np.dtype("int64"), "fv": np.dtype("float64"), "sv": np.dtype("O"),
                "bv": np.dtype("bool")}
    types = None
    if inner == "parquet":
        types = [pa_types[c] for c in cols]
    elif case.get("types"):
        types = [np_types[c] for c in cols]
    btype = {"frame": TableType.DataFrame, "dicts": TableType.Dicts, "records": TableType.Records}[kind]
    events = []
    tr = {"kind": "write", "cols": cols, "recorded": variant != "from_suffix", "raised": "", "events": events}
    src_of = {c: c for c in cols}
    try:
        suffix = ".parquet" if inner == "parquet" else case.get("suffix", ".csv")
        path = _dir() / ("w" + suffix)
        if path.exists():
            path.unlink()
        if case.get("stale") and variant != "mem":
            old = make_table(3, case["tseed"] + 7)[cols]
            old["id"] = old["id"] + 1000
            _write_file(old, path, "csv" if inner != "parquet" else "parquet", 2, "\t")
        if variant == "from_suffix":
            w = TabularDataWriter.from_suffix(path, cols, buffer_size=size, buffer_type=btype, column_types=types)
        else:
            RecCSV, RecParquet, RecMem = _recording_writers()
            if variant == "mem":
                iw = RecMem(cols, types)
            else:
                iw = (RecParquet if inner == "parquet" else RecCSV)(path, cols, types)
            iw.log = events
            w = BufferedWriter(iw, size, btype) if size >= 2 else iw
        buffered = size >= 2

        def feed():
            lo = 0
            for a, k in enumerate(hist):
                sub = df.iloc[lo:lo + k]
                events.append({"op": "append", "ids": [int(x) for x in sub["id"].tolist()]})
                if not buffered or kind == "frame":
                    blk = sub.reset_index(drop=True) if (a + case["tseed"]) % 2 else sub.copy()
                    w.append_data(blk)
                    if (a + case["tseed"]) % 3 == 0 and len(blk):
                        # the producer re-uses its block: after the append the frame is overwritten in place (a writer that
                        # only kept a reference to it would write these values instead of the appended ones)
                        blk.loc[:, "id"] = -7
                        blk.loc[:, "iv"] = -7
                elif kind == "dicts":
                    recs = sub.to_dict(orient="records")
                    w.append_data(recs[0] if (k == 1 and (a + case["tseed"]) % 2) else recs)
                elif (a + case["tseed"]) % 3 == 0 and k > 0:
                    # records built block by block from Python tuples: numpy infers a fixed-width string type per block
                    # (the widest string of THAT block), so successive records carry different dtypes
                    blk = np.rec.fromrecords([tuple(x.item() if hasattr(x, "item") else x for x in row)
                                              for row in sub.itertuples(index=False)], names=list(sub.columns))
                    for r in blk:
                        w.append_data(r)
                else:
                    for r in sub.to_records(index=False):      # one np.record per call (API type)
                        w.append_data(r)
                lo += k

        if case.get("ctx_mgr"):
            with w:
                feed()
                events.append({"op": "finalize"})
        else:
            w.initialize()
            feed()
            events.append({"op": "finalize"})
            w.finalize()
        back = w.get_associated_reader().read()
        p = src.project(back, src_of)
        events.append({"op": "readback", "ids": p["ids"], "cols": p["cols"], "veq": p["veq"]})
    except Exception as e:
        tr["raised"] = "%s: %s" % (type(e).__name__, str(e)[:200])
    for e in events:                       # uniform records for the acceptor
        e.setdefault("ids", [])
        e.setdefault("cols", [])
        e.setdefault("veq", True)
    return tr, {}


def run_case(case):
    with warnings.catch_warnings():
        warnings.simplefilter("ignore")
        return run_read(case) if case["side"] == "read" else run_write(case)


# ----------------------------------------------------------------------------------------------- case generation
def tlc_cases(module, cfg, tag):
    r = run_tlc(module, cfg, workers=4)
    if not r.ok:
        raise MachineryError("generation run %s/%s failed: %s %s\n%s" % (module, cfg, r.violated, r.error, r.output[-2000:]))
    cases = [p for p in r.prints if p and p[0] == "CASE" and p[1] == tag]
    if not cases:
        raise MachineryError("generation run %s/%s printed no cases" % (module, cfg))
    return r, cases


def reader_cases(ctx):
    r, prints = tlc_cases("TabularRead", "TabularRead_gen_%s.cfg" % ctx.tier, "r")
    if len(prints) != r.distinct:
        raise MachineryError("reader generation: %d CASE lines for %d configurations" % (len(prints), r.distinct))
    out = []
    for i, p in enumerate(sorted(prints, key=lambda p: (p[2], p[3], p[4], p[5], p[6], p[7], p[8]))):
        _, _, R, c, rg, base, wrap, split, cols = p
        case = {"side": "read", "R": R, "c": c, "rg": rg, "base": base, "wrap": wrap, "split": split,
                "cols": [] if list(cols) == [0] else list(cols), "tseed": ctx.seed + i,
                "suffix": CSV_SUFFIXES[i % len(CSV_SUFFIXES)], "sep": "," if i % 5 == 4 else "\t"}
        out.append(case)
    return out


def random_reader_cases(rng, count, nmax):
    out = []
    wraps = ["plain", "mapped", "joined", "computed", "computed_mapped"]
    for i in range(count):
        R = int(rng.integers(0, nmax + 1)) if i % 7 else int(rng.integers(0, 4))
        c = int(rng.integers(1, R + 3)) if i % 3 else int(rng.integers(1, 5))
        case = {"side": "read", "R": R, "c": c, "rg": int(rng.integers(1, R + 3)),
                "base": ["csv", "parquet", "frame"][int(rng.integers(0, 3))], "wrap": wraps[int(rng.integers(0, 5))],
                "split": int(rng.integers(1, 3)), "cols": [], "tseed": int(rng.integers(0, 2 ** 20)),
                "suffix": CSV_SUFFIXES[int(rng.integers(0, len(CSV_SUFFIXES)))],
                "sep": "," if rng.random() < 0.2 else "\t",
                "right": ["csv", "parquet", "frame"][int(rng.integers(0, 3))], "rg2": int(rng.integers(1, R + 3)),
                "nan_fv": bool(i % 4 == 1), "custom_index": bool(i % 3 == 2),
                "mapkind": [None, "swap", "shift"][(i // 5) % 3], "preread": bool((i // 2) % 2), "whole_prefix": bool(i % 4 == 3)}
        # request: None or a random ordered subset of the delivered names holding an identifying column
        df, phys, abc, _ = read_case_layout(case)
        ren = rename_map(case, abc)
        names = [ren.get(x, x) for x in phys] + ([KCOL] if "computed" in case["wrap"] else [])
        if rng.random() < 0.25 and "computed" not in case["wrap"]:
            pass                                                    # columns = None
        else:
            k = int(rng.integers(1, len(names) + 1))
            req = [names[int(j)] for j in rng.permutation(len(names))[:k]]
            injn = [ren.get(x, x) for x in INJ if not (case.get("nan_fv") and x == "fv")]
            if not set(req) & set(injn):
                req.insert(int(rng.integers(0, len(req) + 1)), injn[int(rng.integers(0, len(injn)))])
            case["req"] = req
        out.append(case)
    return out


def writer_cases(ctx):
    r, prints = tlc_cases("TabularWrite", "TabularWrite_gen_%s.cfg" % ctx.tier, "w")
    out = []
    for i, p in enumerate(sorted(prints, key=lambda p: (sum(p[6]), len(p[6]), p[2], p[3], p[4], p[5], p[6]))):
        _, _, size, kind, inner, stale, hist = p
        for variant in ("from_suffix", "rec") + (("mem",) if inner == "csv" and not stale else ()):
            out.append({"side": "write", "size": size, "kind": kind, "inner": inner, "stale": stale,
                        "hist": list(hist), "variant": variant, "tseed": ctx.seed + i,
                        "ctx_mgr": (i // 3) % 2 == 0, "types": i % 3 == 0,
                        "suffix": CSV_SUFFIXES[i % len(CSV_SUFFIXES)]})
    return len(prints), out


def random_writer_cases(rng, count, nmax):
    out = []
    for i in range(count):
        n = int(rng.integers(0, nmax + 1))
        na = int(rng.integers(1, 13))
        cuts = sorted(int(x) for x in rng.integers(0, n + 1, na - 1))
        hist = [b - a for a, b in zip([0] + cuts, cuts + [n])]
        if i % 4 == 0:
            hist = [int(x) for x in rng.integers(0, 4, na)]
        size = int(rng.choice([0, 1, 2, 3, 5, 7, 16, 64, 1000])) if i % 2 else int(rng.integers(2, max(3, sum(hist) + 2)))
        inner = ["csv", "parquet"][int(rng.integers(0, 2))]
        out.append({"side": "write", "size": size, "kind": ["frame", "dicts", "records"][int(rng.integers(0, 3))],
                    "inner": inner, "stale": bool(rng.random() < 0.3), "hist": hist,
                    "variant": ["from_suffix", "rec", "mem"][int(rng.integers(0, 3))] if size != 1 else "from_suffix",
                    "tseed": int(rng.integers(0, 2 ** 20)), "ctx_mgr": bool(rng.random() < 0.5),
                    "types": bool(rng.random() < 0.5), "suffix": CSV_SUFFIXES[int(rng.integers(0, len(CSV_SUFFIXES)))]})
    return out


def signature(case, info):
    if case["side"] == "read":
        return {"side": "read", "base": case["base"], "wrap": case["wrap"],
                "right": case.get("right", "frame") if case["wrap"] == "joined" else "",
                "empty_sub": info.get("empty_sub", ""), "columns_none": not (case.get("cols") or case.get("req"))}
    return {"side": "write", "inner": case["inner"], "kind": case["kind"], "variant": case["variant"],
            "buffered": case["size"] >= 2}


def case_key(case):
    if case["side"] == "read":
        return ("r", case["R"], case["c"], case["rg"], case["base"], case["wrap"], case["split"],
                tuple(case.get("cols") or ()), tuple(case.get("req") or ()), case.get("right", ""))
    return ("w", case["size"], case["kind"], case["inner"], case["stale"], tuple(case["hist"]), case["variant"])


# ----------------------------------------------------------------------------------------------- negative controls
def corruptions(tr, rng):
    """Corrupted copies of an accepted trace (each must be rejected)."""
    import copy
    out = []

    def rows_edit(seq_holder, key="ids", also=None):
        ids = seq_holder[key]
        res = []
        if len(ids) >= 1:
            j = int(rng.integers(0, len(ids)))
            res.append(("drop", j))
            res.append(("dup", j))
        if len(ids) >= 2:
            res.append(("swap", int(rng.integers(0, len(ids) - 1))))
        return res

    def apply(holder, op, j, keys):
        for k in keys:
            s = list(holder[k])
            if op == "drop":
                del s[j]
            elif op == "dup":
                s.insert(j, s[j])
            elif k == "ids":
                s[j], s[j + 1] = s[j + 1], s[j]
            holder[k] = s

    if tr["kind"] == "read":
        nonempty = [i for i, ch in enumerate(tr["chunks"]) if ch["ids"]]
        if nonempty:
            ci = nonempty[int(rng.integers(0, len(nonempty)))]
            for op, j in rows_edit(tr["chunks"][ci]):
                t = copy.deepcopy(tr)
                apply(t["chunks"][ci], op, j, ["ids"] if op == "swap" else ["ids", "index"])
                if op != "swap":          # keep the index continuing so that only the row content is wrong
                    pos = 0
                    for ch in t["chunks"]:
                        ch["index"] = list(range(pos, pos + len(ch["ids"])))
                        pos += len(ch["ids"])
                out.append(("chunk-" + op, t))
        if len(nonempty) >= 2:
            t = copy.deepcopy(tr)
            ch = t["chunks"][nonempty[-1]]
            ch["index"] = list(range(len(ch["ids"])))
            out.append(("index-restart", t))
        if len(tr["req"]) >= 2 and tr["chunks"]:
            t = copy.deepcopy(tr)
            ch = t["chunks"][int(rng.integers(0, len(t["chunks"])))]
            ch["cols"] = [ch["cols"][1], ch["cols"][0]] + ch["cols"][2:]
            out.append(("column-order", t))
        if nonempty:
            t = copy.deepcopy(tr)
            t["chunks"][nonempty[0]]["veq"] = False
            out.append(("value-changed", t))
    else:
        ev = tr["events"]
        rb = [i for i, e in enumerate(ev) if e["op"] == "readback"]
        if rb:
            for op, j in rows_edit(ev[rb[0]]):
                t = copy.deepcopy(tr)
                apply(t["events"][rb[0]], op, j, ["ids"])
                out.append(("readback-" + op, t))
            t = copy.deepcopy(tr)
            t["events"] = [e for e in t["events"] if e["op"] != "finalize"]
            out.append(("no-finalize", t))
        inn = [i for i, e in enumerate(ev) if e["op"] == "inner" and e["ids"]]
        if inn:
            t = copy.deepcopy(tr)
            del t["events"][inn[int(rng.integers(0, len(inn)))]]
            out.append(("inner-lost", t))
            t = copy.deepcopy(tr)
            i = inn[int(rng.integers(0, len(inn)))]
            t["events"].insert(i, copy.deepcopy(t["events"][i]))
            out.append(("inner-twice", t))
    return out


# ----------------------------------------------------------------------------------------------- run
def model_checks(ctx):
    """All TLC runs of role (M); independent, so they are started together (ctx.model_check serialises its bookkeeping)."""
    from concurrent.futures import ThreadPoolExecutor
    jobs = []

    class Q:                                   # same call signature as ctx.model_check, deferred
        @staticmethod
        def model_check(*a, **kw):
            jobs.append((a, kw))
    _model_checks(Q, "quick" if ctx.quick else "thorough")
    with ThreadPoolExecutor(max_workers=8) as ex:
        res = list(ex.map(lambda j: ctx.model_check(*j[0], workers=4, **j[1]), jobs))
    for (a, kw), r in zip(jobs, res):
        if a[1] == "TabularRead_cov.cfg":
            ctx.require_actions(r, ["PlainNext", "MappedNext", "ComputedNext", "JoinedNext", "CsvEmptyChunk", "Exhaust"])
        if a[1] == "TabularWrite_cov.cfg":
            ctx.require_actions(r, ["Initialize", "AppendRows", "AppendRecord", "FlushFull", "FlushDone", "Finalize"])
    # unbounded: the buffer's row accounting as an inductive invariant (Apalache; any buffer size, any append sequence)
    from engine import apalache
    apalache.inductive(ctx, "BufferInd", inv="IndInv", ind_init="IndInit", cinit_mut="ConstInitMut", implies="NothingLost",
                       note="BufferInd.tla: Init => IndInv, IndInv /\\ Next => IndInv', IndInv => NothingLost for every buffer size and "
                            "append sequence; the mutant (forced flush forgets the rest) is not inductive")


def _model_checks(ctx, t):
    ctx.model_check("TabularRead", "TabularRead_%s.cfg" % t,
                    note="every (R, chunk, row group, base kind, wrapper, request): chunks = Project(table, cols), index continues")
    ctx.model_check("TabularRead", "TabularRead_mut1.cfg", expect_violation="IndexContinues",
                    note="seeded fault: Parquet index restarts per chunk")
    ctx.model_check("TabularRead", "TabularRead_mut2.cfg", expect_violation="ChunksEqualWhole",
                    note="seeded fault: CSV reader keeps usecols (file) order")
    ctx.model_check("TabularRead", "TabularRead_mut3.cfg", expect_violation="ChunksEqualWhole",
                    note="seeded fault: joined reader omits df[columns]")
    ctx.model_check("TabularRead", "TabularRead_rgb.cfg", expect_violation="IndexContinues",
                    note="environment alternative FullBatches=FALSE: batchNo*chunk_size is wrong")
    ctx.model_check("TabularRead", "TabularRead_asis.cfg", expect_violation="ChunksEqualWhole",
                    note="AsIs_CsvEmptyCols=TRUE: a CSV sub-reader with an empty sub-request stops after one chunk")
    ctx.model_check("TabularRead", "TabularRead_asis2.cfg", expect_violation="Aligned",
                    note="AsIs_ParquetEmptyCols=TRUE: Parquet batches of an empty sub-request follow the row groups")
    ctx.model_check("TabularRead", "TabularRead_cov.cfg", coverage=True, note="action coverage")
    ctx.model_check("TabularWrite", "TabularWrite_%s.cfg" % t,
                    note="every buffer size / kind / inner writer / append sequence: NoLoss, Final, Bounded")
    ctx.model_check("TabularWrite", "TabularWrite_mut1.cfg", expect_violation="Final",
                    note="seeded fault: forced flush loses the remainder")
    ctx.model_check("TabularWrite", "TabularWrite_mut2.cfg", expect_violation="NoLoss",
                    note="seeded fault: buffer slice off by one")
    ctx.model_check("TabularWrite", "TabularWrite_mut3.cfg", expect_violation="Final",
                    note="seeded fault: initialize does not truncate")
    ctx.model_check("TabularWrite", "TabularWrite_mut4.cfg", expect_violation="Final",
                    note="seeded fault: inner writer never closed")
    ctx.model_check("TabularWrite", "TabularWrite_cov.cfg", coverage=True, note="action coverage")


def drive(ctx, cases):
    global _ROOT
    import pyarrow as pa
    pa.set_cpu_count(1)                      # 16 forked drivers: no pyarrow thread pool per process
    pa.set_io_thread_count(1)
    _ROOT = tempfile.mkdtemp(prefix="c13_")
    try:
        for side in ("read", "write"):                               # warm up imports before forking
            w = next((c for c in cases if c["side"] == side), None)
            if w is not None:
                run_case(w)

        def one(i):
            tr, info = run_case(cases[i])
            tr["tid"] = i + 1
            return tr, info
        return pmap(one, len(cases))
    finally:
        shutil.rmtree(_ROOT, ignore_errors=True)
        _ROOT = None


def run(ctx):
    ctx.liveness("TabularWrite", unfair_control=not ctx.quick)      # termination under weak fairness (TabularWrite_live.cfg)
    import time
    rng = np.random.default_rng(ctx.seed)
    phase = ctx.cov.setdefault("phase_s", {})
    t0 = time.time()
    model_checks(ctx)
    phase["model_checking"] = round(time.time() - t0, 1)
    t0 = time.time()
    # ---------------- (G) ----------------
    rcases = reader_cases(ctx)
    n_unobs = sum(1 for c in rcases if not observable(c))
    rcases = [c for c in rcases if observable(c)]
    nbeh, wcases = writer_cases(ctx)
    cases = rcases + wcases
    cases += random_reader_cases(rng, 400 if ctx.quick else 4000, 200)
    cases += random_writer_cases(rng, 300 if ctx.quick else 3000, 200)
    phase["generation"] = round(time.time() - t0, 1)
    t0 = time.time()
    # ---------------- drive the real code ----------------
    results = drive(ctx, cases)
    phase["driving"] = round(time.time() - t0, 1)
    t0 = time.time()
    traces = [r[0] for r in results]
    for i, c in enumerate(cases):
        ctx.count(case_key(c))
        if i % max(1, len(cases) // 5) == 1:
            ctx.sample({"case": c, "trace": traces[i]})
    # ---------------- (V) ----------------
    verdicts = ctx.validate("TabularTrace", "Trace.cfg", traces)
    for i, c in enumerate(cases):
        v = verdicts[i + 1]
        if not v["accept"]:
            ctx.reject({"case": c, "trace": traces[i]}, v["failed"], signature(c, results[i][1]))
    phase["validation"] = round(time.time() - t0, 1)
    t0 = time.time()
    # ---------------- negative controls ----------------
    crng = np.random.default_rng(ctx.seed + 1)
    acc = [t for t in traces if verdicts[t["tid"]]["accept"]]
    pick = [acc[int(i)] for i in crng.integers(0, len(acc), 150)]
    pick += [t for t in acc if t["kind"] == "write" and t["recorded"]][:40:2]
    by_name = {}
    for t in pick:
        for name, b in corruptions(t, crng):
            by_name.setdefault(name, []).append(b)
    tid, bad = 0, []
    for name in sorted(by_name):
        for b in by_name[name]:
            tid += 1
            b["tid"] = tid
            bad.append(b)
    ctx.negative_controls("TabularTrace", "Trace.cfg", bad,
                          name="row dropped / duplicated / swapped in a chunk or in the read-back, index restart, "
                               "column order, value changed, inner write lost / repeated, finalize missing")
    ctx.cov["negative_control_kinds"] = {k: len(v) for k, v in sorted(by_name.items())}
    need = {"chunk-drop", "chunk-dup", "chunk-swap", "index-restart", "readback-drop", "readback-dup",
            "readback-swap", "inner-lost"}
    if need - set(by_name) and not (ctx.violations or ctx.known_hits):
        raise MachineryError("negative control kinds missing: %s" % sorted(need - set(by_name)))
    phase["negative_controls"] = round(time.time() - t0, 1)
    # ---------------- phase 2: the buffered writer's own events (guarded hooks) against HookTrace.tla ----------------
    from drivers import hooktrace
    wall = [c for c in cases if c["side"] == "write" and int(c["size"]) > 0]
    wpick = wall[:: max(1, len(wall) // 40)][:40]
    global _ROOT
    _ROOT = tempfile.mkdtemp(prefix="c13h_")
    try:
        hooktrace.hook_phase(ctx, "C13", calls=[("writer case %d" % i, (lambda c=c: run_case(c))) for i, c in enumerate(wpick)])
    finally:
        shutil.rmtree(_ROOT, ignore_errors=True)
        _ROOT = None
    ctx.cov["unobservable_requests_skipped"] = n_unobs
    ctx.cov["writer_behaviours_generated"] = nbeh
    ctx.assume("pyarrow ParquetFile.iter_batches(n) yields full batches of n rows regardless of row groups "
               "(FullBatches; observed on every (R, chunk, row-group) file the driver writes)")
    ctx.assume("text files carry strings without tabs, quotes, newlines and NA tokens; floats have <= 12 significant "
               "digits; CSV read-back values are compared after conversion to the declared dtype")
    ctx.assume("Records buffers receive single np.record rows; the computed-column reader gets an explicit column "
               "list and a function of the chunk length; every request holds a column that identifies the row")
    return ctx.finish(
        rule="reader cases = every (R, chunk size, row-group size, base kind csv/parquet/frame, wrapper "
             "plain/mapped/joined(split)/computed, ordered column subset or None) printed by TLC from TabularRead Init; "
             "writer cases = every behaviour (buffer size, buffer kind, inner writer, stale file, append sequence) printed "
             "by TLC from TabularWrite at finalize, each run through from_suffix, a recording CSV/Parquet subclass and an "
             "in-memory recording writer; plus seeded random tables <= 200 rows; distinct = distinct configuration tuple",
        exhaustive=True)


def replay(ctx, case):
    global _ROOT
    c = case["case"]["case"]
    _ROOT = tempfile.mkdtemp(prefix="c13_")
    try:
        tr, info = run_case(c)
    finally:
        shutil.rmtree(_ROOT, ignore_errors=True)
        _ROOT = None
    tr["tid"] = 1
    v = ctx.validate("TabularTrace", "Trace.cfg", [tr])[1]
    if not v["accept"]:
        ctx.reject({"case": c, "trace": tr}, v["failed"], signature(c, info))
    ctx.count(1)
    ctx.count(2)
    ctx.sample(tr)
    return ctx.finish(rule="replay of one recorded case")
