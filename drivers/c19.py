"""C19 -- PIN to rectangular-TSV conversion is lossless, order-preserving and idempotent.

(M) PinTsv.tla: the per-line steps of pin_to_valid_tsv (run twice) and the early returns of is_valid_tsv
    against the declarative layer (ConvertDef, ValidDef, the named clauses) for every small text:
    0..2 features, 1..2 PSM lines, 1..3 proteins, protein column at every position 1..ncol, no / short /
    full-length DefaultDirection line, with/without trailing newline (thorough: 0..3 x 1..3 x 1..4);
    three seeded faults must be caught.
(G) TLC prints every such structure as a CASE; the driver renders it as real text with distinct field
    values, writes it to a file and calls the real is_valid_tsv / pin_to_valid_tsv through file objects
    opened exactly as mokapot.py:65-72 does, validates the output, converts the output a second time
    and (thorough) runs mokapot.mokapot.main on a copy, cut after the verify step.  Plus seeded random
    larger texts (<= 30 PSM lines, 0..12 features, <= 6 proteins, empty fields inside lines, ':' and
    blanks inside values) and a few out-of-domain texts for the Domain guard.
(V) PinTsvTrace.tla recomputes the expected conversion from the recorded input lines and accepts iff the
    recorded output equals it field by field, the validity flags are as defined and the second pass is
    the identity.
"""
from __future__ import annotations

import copy
import os
import shutil
import sys
import tempfile

import numpy as np

from engine.tlc import run_tlc, MachineryError
from drivers.common import pmap

LEVEL = "model_checking"

PROT = "Proteins"
DD = "DefaultDirection"


# ----------------------------------------------------------------------------- rendering
def header_of(nfeat, ppos):
    cols = ["SpecId", "Label", "ScanNr"] + ["feat%d" % j for j in range(1, nfeat + 1)] + ["Peptide"]
    return cols[:ppos - 1] + [PROT] + cols[ppos - 1:]


def dd_line(kind, nfeat):
    if kind == "none":
        return None
    n = 3 + nfeat if kind == "short" else 5 + nfeat
    return ([DD, "-", "-"] + ["%d.5" % (j - 3) for j in range(4, n + 1)])[:n]


def render_lines(nfeat, ppos, dd, prots, cell, prot):
    """lines (lists of fields) of the PIN text with the given structure; cell(i, j) / prot(i, m) give the values."""
    lines = [header_of(nfeat, ppos)]
    d = dd_line(dd, nfeat)
    if d is not None:
        lines.append(d)
    for i, k in enumerate(prots, 1):
        other = [cell(i, j) for j in range(1, nfeat + 5)]
        lines.append(other[:ppos - 1] + [prot(i, m) for m in range(1, k + 1)] + other[ppos - 1:])
    return lines


def to_text(lines, nl):
    return "\n".join("\t".join(l) for l in lines) + ("\n" if nl else "")


def plain_cell(nfeat):
    def cell(i, j):
        if j == 1:
            return "target_0_%d_2_-1" % (1000 + i)
        if j == 2:
            return "1" if i % 2 else "-1"
        if j == 3:
            return str(1000 + i)
        if j == nfeat + 4:
            return "K.PEPTIDE%sR.%s" % ("ACDEFGHILMNQSTVWY"[i % 17], "ACDEFGH"[i % 7])
        return "%d.%d25" % (10 * i + j, j)
    return cell


def plain_prot(i, m):
    return "sp|Q%d%d|PROT%d%s_HUMAN" % (i, m, i, "ABCDEF"[m - 1])


def tlc_case(nfeat, ppos, dd, nl, prots):
    lines = render_lines(nfeat, ppos, dd, prots, plain_cell(nfeat), plain_prot)
    return {"source": "tlc", "nfeat": nfeat, "ppos": ppos, "dd": dd, "nl": bool(nl), "prots": list(prots),
            "text": to_text(lines, nl)}


def random_case(rng, max_rows=30, max_feat=12, max_prot=6, nrows=None):
    nfeat = int(rng.integers(0, max_feat + 1))
    ncol = nfeat + 5
    r = rng.random()
    ppos = ncol if r < 0.3 else 1 if r < 0.4 else int(rng.integers(1, ncol + 1))
    dd = ["none", "short", "full"][int(rng.integers(0, 3))]
    nl = bool(rng.integers(0, 2))
    nrows = int(rng.integers(1, max_rows + 1)) if nrows is None else int(nrows)
    style = int(rng.integers(0, 4))
    if style == 0:          # already rectangular
        prots = [1] * nrows
    elif style == 1:        # every row at the maximum
        prots = [max_prot] * nrows
    else:
        prots = [int(v) for v in rng.integers(1, max_prot + 1, nrows)]
    salt = int(rng.integers(0, 1000))
    odd = int(rng.integers(0, 6))           # which oddities the values carry (4, 5: fields that begin with a double quote)
    base = plain_cell(nfeat)

    def cell(i, j):
        if 4 <= j <= nfeat + 3:
            u = (i * 31 + j * 17 + salt) % 11
            if odd == 1 and u == 0:
                return ""                   # empty field (kept away from the line ends below)
            if odd == 2 and u == 1:
                return "-%d.%de-0%d" % (i, j, (salt % 9) + 1)
            if odd == 5 and u == 2:
                return '"%d.5' % (i + j)     # an unclosed leading quote in a non-last field: fields are split at the separator, nothing else
            return "%d.%04d" % (i * j + salt, (i * 131 + j * 7) % 10000)
        v = base(i, j)
        if odd == 3 and j == nfeat + 4:
            v = "K.PEP[+15.99]TIDE n%d.R" % i       # blank inside a value
        return v

    def prot(i, m):
        if odd == 2 and m == 2:
            return "decoy_sp|P%d:%d|X%d" % (i, salt, m)   # the separator inside a protein name
        if odd == 3 and m == 1:
            return "tr|A%d_%d|some protein %d" % (i, salt, i)
        if odd == 4:
            # the protein list wrapped in double quotes as a CSV writer would emit it: "P1<TAB>P2<TAB>P3"
            k = prots[i - 1]
            return ('"' if m == 1 else "") + "sp|P%05d|G%d_%d_HUMAN" % (salt * 7 + i, i, m) + ('"' if m == k else "")
        return "sp|P%05d|G%d_%d_HUMAN" % (salt * 7 + i, i, m)

    lines = render_lines(nfeat, ppos, dd, prots, cell, prot)
    if salt % 3 == 0:
        # feature columns whose names begin like the protein column's (left and right of it): the protein column is the one NAMED "Proteins"
        alt = ["protein_count", "ProteinScore", "proteins2", "nProteins", "PROTEINS_X"]
        lines[0] = [alt[(k + salt) % len(alt)] + ("_%d" % k) if c.startswith("feat") and (k + salt) % 2 == 0 else c for k, c in enumerate(lines[0])]
    for l in lines:          # the domain: no empty field at a line end
        if l[0] == "":
            l[0] = "0"
        if l[-1] == "":
            l[-1] = "0"
    return {"source": "random", "nfeat": nfeat, "ppos": ppos, "dd": dd, "nl": nl, "prots": prots,
            "text": to_text(lines, nl)}


def const_width_case(rng, nrows, width):
    """a long text whose data lines all have exactly `width` characters (line break included): the line breaks then fall on every
    multiple of `width` -- on 65 536, 131 072, ... in particular (anything that reads the file in blocks of 2**k characters)"""
    c = None
    nfeat, ncol = 2, 7
    prots = [int(v) for v in rng.integers(1, 3, nrows)]
    salt = int(rng.integers(0, 1000))
    base = plain_cell(nfeat)

    def cell(i, j):
        if 4 <= j <= nfeat + 3:
            return "%d.%04d" % (i * j + salt, (i * 131 + j * 7) % 10000)
        return base(i, j)

    def prot(i, m):
        return "sp|P%05d|G%d_%d_HUMAN" % (salt * 7 + i, i, m)

    lines = render_lines(nfeat, ncol, "none", prots, cell, prot)
    for l in lines[1:]:
        ln = sum(len(f) for f in l) + len(l)           # fields + separators + line break
        if ln > width:
            raise MachineryError("constant-width case: a line is longer than %d characters" % width)
        l[3] = l[3] + "0" * (width - ln)                # trailing zeros of the first feature value
    return {"source": "random-constwidth", "nfeat": nfeat, "ppos": ncol, "dd": "none", "nl": True, "prots": prots,
            "text": to_text(lines, True)}


def ood_cases():
    """Texts outside the statement's domain: accepted vacuously by the Domain guard of the acceptor."""
    out = []
    h = header_of(1, 6)
    out.append(("header only", to_text([h], True)))
    out.append(("header + DefaultDirection line only", to_text([h, dd_line("short", 1)], True)))
    out.append(("empty last field", to_text([h, ["t1", "1", "7", "0.5", "K.AR.C", ""]], True)))
    out.append(("empty first field", to_text([h, ["", "1", "7", "0.5", "K.AR.C", "P1", "P2"]], False)))
    return [{"source": "ood", "what": w, "nfeat": 1, "ppos": 6, "dd": "none", "nl": t.endswith("\n"), "prots": [],
             "text": t} for w, t in out]


# ----------------------------------------------------------------------------- the real code
def split_text(text):
    """Projection of a text to (lines as field lists, newline-terminated?)."""
    if text == "":
        return [], False
    nl = text.endswith("\n")
    body = text[:-1] if nl else text
    return [l.split("\t") for l in body.split("\n")], nl


class _CutAfterVerify(Exception):
    pass


def _stub_read_pin(*a, **k):
    raise _CutAfterVerify()


def call_real(case, tmp, tid, cli):
    """One execution: returns the trace dict (without tid)."""
    from mokapot.parsers.pin_to_tsv import is_valid_tsv, pin_to_valid_tsv
    text = case["text"]
    lines_in, nl_in = split_text(text)
    sep = case.get("sep", ":")
    kw = {} if sep == ":" else {"sep_protein": sep}          # the CLI calls it without the argument
    cli = cli and sep == ":"
    tr = {"mode": "convert", "sep": sep, "lines_in": lines_in, "nl_in": nl_in, "raised": "", "lines_out": [], "nl_out": False,
          "lines_out2": [], "nl_out2": False, "valid_in": False, "valid_out": False,
          "second_pass_equal": False, "cli": {"ran": False, "lines": [], "nl": False}}
    p_in = os.path.join(tmp, "c%d.pin" % tid)
    p_out = p_in + ".tsv"
    p_out2 = p_out + ".tsv"
    p_cli = os.path.join(tmp, "cli%d.pin" % tid)
    with open(p_in, "w") as fh:
        fh.write(text)
    step = "is_valid_tsv(input)"
    try:
        with open(p_in, "r") as f_pin:                       # mokapot.py:65-66
            tr["valid_in"] = bool(is_valid_tsv(f_pin))
        if case.get("valid_only"):
            tr["mode"] = "valid"
            return tr
        step = "pin_to_valid_tsv(input)"
        try:
            with open(p_in, "r") as f_pin:                   # mokapot.py:70-72
                with open(p_out, "a") as f_tsv:
                    pin_to_valid_tsv(f_in=f_pin, f_out=f_tsv, **kw)
        finally:
            if os.path.exists(p_out):
                with open(p_out) as fh:
                    text1 = fh.read()
                tr["lines_out"], tr["nl_out"] = split_text(text1)
        step = "is_valid_tsv(output)"
        with open(p_out, "r") as f_pin:
            tr["valid_out"] = bool(is_valid_tsv(f_pin))
        step = "pin_to_valid_tsv(output)"
        with open(p_out, "r") as f_pin:
            with open(p_out2, "a") as f_tsv:
                pin_to_valid_tsv(f_in=f_pin, f_out=f_tsv, **kw)
        with open(p_out2) as fh:
            text2 = fh.read()
        tr["lines_out2"], tr["nl_out2"] = split_text(text2)
        tr["second_pass_equal"] = bool(text2 == text1)
        if cli:
            step = "mokapot.mokapot.main verify step"
            mm = sys.modules["mokapot.mokapot"]
            if mm.read_pin is not _stub_read_pin:
                raise MachineryError("CLI harness: read_pin not substituted")
            with open(p_cli, "w") as fh:
                fh.write(text)
            try:
                mm.main(["-v", "0", p_cli])
                raise MachineryError("CLI harness: main ran past read_pin")
            except _CutAfterVerify:
                pass
            with open(p_cli) as fh:
                l, n = split_text(fh.read())
            tr["cli"] = {"ran": True, "lines": l, "nl": n}
    except MachineryError:
        raise
    except Exception as e:              # an exception of mokapot on this input is an event, not a machinery failure
        tr["raised"] = "%s in %s: %s" % (type(e).__name__, step, e)
    finally:
        for p in (p_in, p_out, p_out2, p_cli, p_cli + ".tsv"):
            try:
                os.unlink(p)
            except OSError:
                pass
    return tr


def install_cli_cut():
    import mokapot.mokapot  # noqa: F401  (the module; `mokapot.mokapot` attribute access is not needed)
    mm = sys.modules["mokapot.mokapot"]
    mm.read_pin = _stub_read_pin        # in this process only: main() stops right after lines 61-73
    return mm


# ----------------------------------------------------------------------------- cases
def tlc_cases(cfg):
    r = run_tlc("PinTsv", cfg, workers=4)
    if not r.ok:
        raise MachineryError("generation run failed: %s %s" % (r.violated, r.error))
    cases = [tlc_case(p[1], p[2], p[3], p[4], p[5]) for p in r.prints if p and p[0] == "CASE"]
    if len(cases) != r.distinct:
        raise MachineryError("generation: %d CASE lines for %d initial states" % (len(cases), r.distinct))
    return cases


def valid_cases(cfg):
    """shapes enumerated by TLC from PinValid.tla (data lines narrower / wider than the header) -> texts"""
    r = run_tlc("PinValid", cfg, workers=4)
    if not r.ok:
        raise MachineryError("generation run failed: %s %s" % (r.violated, r.error))
    out, extra = [], []
    for p in r.prints:
        if not p or p[0] != "VCASE":
            continue
        h, w, dd, nl = int(p[1]), [int(x) for x in p[2]], bool(p[3]), bool(p[4])
        lines = [["H%d" % j for j in range(h)]]
        if dd:
            lines.append(["DefaultDirection"] + ["-"] + ["%d" % (j % 2) for j in range(max(0, h - 2))])
        for k, wd in enumerate(w):
            lines.append(["r%dc%d" % (k, j) for j in range(wd)])
        out.append({"source": "tlc-valid", "valid_only": True, "nfeat": h, "ppos": 0, "dd": "short" if dd else "none", "nl": nl,
                    "prots": w, "text": to_text(lines, nl)})
        # the same shape with an EMPTY LAST FIELD in every second data line of at least two fields (the line then ends with the
        # separator): the number of fields -- hence the verdict -- is unchanged
        if any(wd >= 2 for wd in w):
            l2 = [list(x) for x in lines]
            for k, wd in enumerate(w):
                if wd >= 2 and k % 2 == 0:
                    l2[len(l2) - len(w) + k][-1] = ""
            extra.append({"source": "tlc-valid-emptylast", "valid_only": True, "nfeat": h, "ppos": 0, "dd": "short" if dd else "none", "nl": nl,
                          "prots": w, "text": to_text(l2, nl)})
    if len(out) != r.distinct:
        raise MachineryError("generation: %d VCASE lines for %d initial states" % (len(out), r.distinct))
    return out + extra


def signature(c):
    return {"source": c["source"], "nfeat": c["nfeat"], "ppos": c["ppos"], "protein_column_last": c["ppos"] == c["nfeat"] + 5,
            "dd": c["dd"], "nl": c["nl"], "nrows": len(c["prots"]), "max_proteins": max(c["prots"] or [0])}


def key_of(c):
    return (c["source"], c["nfeat"], c["ppos"], c["dd"], c["nl"], tuple(c["prots"]))


# ----------------------------------------------------------------------------- negative controls
def corrupt_drop_row(t, rng):
    b = copy.deepcopy(t)
    i = int(rng.integers(1, len(b["lines_out"])))
    del b["lines_out"][i]
    del b["lines_out2"][i]
    return b


def corrupt_swap_fields(t, rng):
    b = copy.deepcopy(t)
    i = int(rng.integers(1, len(b["lines_out"])))
    row = b["lines_out"][i]
    pairs = [(a, c) for a in range(len(row)) for c in range(a + 1, len(row)) if row[a] != row[c]]
    a, c = pairs[int(rng.integers(0, len(pairs)))]
    for key in ("lines_out", "lines_out2"):
        r = b[key][i]
        r[a], r[c] = r[c], r[a]
    return b


def corrupt_flag(t, rng):
    b = copy.deepcopy(t)
    k = ["valid_in", "valid_out", "second_pass_equal"][int(rng.integers(0, 3))]
    b[k] = not b[k]
    return b


def corrupt_order_or_dd(t, rng):
    """two PSM lines exchanged (if they differ), else the DefaultDirection line kept, else a protein lost"""
    b = copy.deepcopy(t)
    lo = b["lines_out"]
    if len(lo) >= 3 and lo[1] != lo[2]:
        for key in ("lines_out", "lines_out2"):
            b[key][1], b[key][2] = b[key][2], b[key][1]
    elif len(b["lines_in"]) > len(lo):
        for key in ("lines_out", "lines_out2"):
            b[key].insert(1, list(b["lines_in"][1]))
    else:
        p = b["lines_in"][0].index(PROT)
        for key in ("lines_out", "lines_out2"):
            b[key][1][p] = b[key][1][p] + ":"
    return b


# ----------------------------------------------------------------------------- run
def run(ctx):
    ctx.liveness("PinTsv", unfair_control=not ctx.quick)      # termination under weak fairness (PinTsv_live.cfg)
    rng = np.random.default_rng(ctx.seed)
    # ---------------- (M) ----------------
    ctx.model_check("PinTsv", "PinTsv_quick.cfg", note="0..2 features, 1..2 PSM lines, 1..3 proteins, every position, 3 DD kinds, nl")
    if not ctx.quick:
        ctx.model_check("PinTsv", "PinTsv_thorough.cfg", note="0..3 features, 1..3 PSM lines, 1..4 proteins", timeout=1200)
    ctx.model_check("PinTsv", "PinTsv_mut1.cfg", expect_violation="ConvertIsDef", note="seeded fault: protein slice ends one early")
    ctx.model_check("PinTsv", "PinTsv_mut2.cfg", expect_violation="OneLinePerPsmInv", note="seeded fault: DefaultDirection line converted, not dropped")
    ctx.model_check("PinTsv", "PinTsv_mut3.cfg", expect_violation="ValidIffDef", note="seeded fault: validity without the DefaultDirection test")
    ctx.model_check("PinValid", "PinValid.cfg", note="is_valid_tsv on arbitrary shapes: header 1..3 fields, 1..4 data lines of 1..4 fields, DD y/n")
    ctx.model_check("PinValid", "PinValid_mut.cfg", expect_violation="ResultIsDef", note="seeded fault: only lines wider than the header are rejected")
    r = ctx.model_check("PinTsv", "PinTsv_cov.cfg", coverage=True, note="action coverage (<=1 feature, <=2 lines, <=2 proteins)")
    ctx.require_actions(r, ["ReadHeader", "SecondDD", "SecondRow", "LoopLine", "Rerun", "Finish"])
    # ---------------- (G) ----------------
    cases = tlc_cases("PinTsv_gen2.cfg" if ctx.quick else "PinTsv_gen3.cfg")
    n_tlc = len(cases)
    for _ in range(400 if ctx.quick else 6000):
        cases.append(random_case(rng))
    # long files (anything that buffers or batches lines shows only beyond its batch size)
    for nrows in ([999, 1000, 1001, 1002, 2001] if ctx.quick else [999, 1000, 1001, 1002, 1003, 2000, 2001, 2002, 4100, 8200]):
        cases.append(random_case(rng, max_feat=3, max_prot=3, nrows=nrows))
    # ... and long files whose lines all have the same width (128 characters): more than 2 x 65 536 characters
    for nrows in ([1100] if ctx.quick else [1100, 2100, 4200]):
        cases.append(const_width_case(rng, nrows, 128))
    cases.extend(ood_cases())
    cases.extend(valid_cases("PinValid_gen.cfg" if ctx.quick else "PinValid_gen4.cfg"))
    # the protein separator is a parameter of the API (the CLI uses ":"): rotate it over the cases
    for k, c in enumerate(cases):
        if isinstance(c, dict):
            c["sep"] = [":", ":", ";", ","][(k + ctx.seed) % 4]
    # ---------------- drive the real code ----------------
    cli = not ctx.quick
    if cli:
        install_cli_cut()
    tmp = tempfile.mkdtemp(prefix="c19_")
    try:
        call_real(cases[0], tmp, 0, cli)          # warm up imports before forking

        def one(i):
            tr = call_real(cases[i], tmp, i + 1, cli)
            tr["tid"] = i + 1
            return tr
        traces = pmap(one, len(cases))
    finally:
        shutil.rmtree(tmp, ignore_errors=True)
    # ---------------- (V) ----------------
    verdicts = ctx.validate("PinTsvTrace", "Trace.cfg", traces)
    in_domain, valid_acc = [], []
    for tid, c in enumerate(cases, 1):
        v = verdicts[tid]
        tr = traces[tid - 1]
        if v["accept"] and "OutOfDomain" in v["failed"]:
            if c["source"] != "ood":
                raise MachineryError("generated case classified out of domain by the acceptor: %r" % (c,))
            ctx.cov["out_of_domain"] += 1
            ctx.count(None, nontrivial=False)
            continue
        if c["source"] == "ood":
            raise MachineryError("out-of-domain control classified in-domain: %r" % (c,))
        ctx.count(key_of(c))
        if not v["accept"]:
            ctx.reject({"case": c, "cli": cli, "trace": tr}, v["failed"], signature(c))
        elif tr["mode"] == "valid":
            valid_acc.append(tr)
        else:
            in_domain.append(tr)
        if tid in (1, n_tlc // 2, n_tlc, n_tlc + 1):
            ctx.sample({"case": {k: c[k] for k in ("source", "nfeat", "ppos", "dd", "nl", "prots")},
                        "text": c["text"] if len(c["text"]) < 600 else c["text"][:600] + "...",
                        "trace": {k: tr[k] for k in ("valid_in", "valid_out", "second_pass_equal", "raised")},
                        "lines_out": tr["lines_out"][:4]})
    # ---------------- negative controls ----------------
    crng = np.random.default_rng(ctx.seed + 1)
    if len(in_domain) >= 50:
        for name, fn in (("one output row dropped", corrupt_drop_row),
                         ("two fields of an output row swapped", corrupt_swap_fields),
                         ("validity / second-pass flag flipped", corrupt_flag),
                         ("two rows exchanged / DefaultDirection line kept / protein field altered", corrupt_order_or_dd)):
            bad = []
            for j, i in enumerate(crng.integers(0, len(in_domain), 120)):
                b = fn(in_domain[int(i)], crng)
                b["tid"] = j + 1
                bad.append(b)
            ctx.negative_controls("PinTsvTrace", "Trace.cfg", bad, name=name)
    elif not ctx.violations:
        raise MachineryError("too few accepted traces for negative controls")
    if valid_acc:
        bad = []
        for j, i in enumerate(crng.integers(0, len(valid_acc), 120)):
            b = copy.deepcopy(valid_acc[int(i)])
            b["valid_in"] = not b["valid_in"]
            b["tid"] = j + 1
            bad.append(b)
        ctx.negative_controls("PinTsvTrace", "Trace.cfg", bad, name="validity verdict of an arbitrary text flipped")
    ctx.assume("field values contain no tab / newline / carriage return and no line starts or ends with a blank or "
               "an empty field (the statement's domain: strip() then only removes the line terminator)")
    ctx.assume("a DefaultDirection line is a second line whose first field is exactly 'DefaultDirection' "
               "(the code tests startswith); no PSM id starts with that word")
    ctx.assume("the protein column is the header column named 'Proteins' and the proteins of a row are "
               "contiguous fields starting at that column (PIN format)")
    if cli:
        ctx.assume("CLI verify step: mokapot.mokapot.main([-v 0, file]) is run in-process with read_pin replaced "
                   "(in the driver process only) by a stub that raises, so main stops right after lines 61-73")
    return ctx.finish(
        rule="cases = every structure (features 0..2, protein column position 1..ncol, DefaultDirection none/short/full, "
             "trailing newline y/n, 1..%d PSM lines x 1..3 proteins each) enumerated by TLC from PinTsv.tla Init, "
             "rendered with distinct field values, plus seeded random texts (<=30 PSM lines, 0..12 features, <=6 "
             "proteins, empty inner fields, ':' and blanks inside values), plus every validity-only shape enumerated by TLC "
             "from PinValid.tla (header 1..%d fields, 1..%d data lines each narrower, equal or wider than the header, "
             "DefaultDirection line y/n); distinct = distinct (source, structure)"
             % (2 if ctx.quick else 3, 3 if ctx.quick else 4, 3 if ctx.quick else 4),
        exhaustive=True)


def replay(ctx, case):
    c = case["case"]["case"]
    cli = bool(case["case"].get("cli"))
    if cli:
        install_cli_cut()
    tmp = tempfile.mkdtemp(prefix="c19_")
    try:
        tr = call_real(c, tmp, 1, cli)
    finally:
        shutil.rmtree(tmp, ignore_errors=True)
    tr["tid"] = 1
    v = ctx.validate("PinTsvTrace", "Trace.cfg", [tr])[1]
    if not v["accept"]:
        ctx.reject({"case": c, "cli": cli, "trace": tr}, v["failed"], signature(c))
    ctx.count(1)
    ctx.count(2)
    ctx.sample(tr)
    return ctx.finish(rule="replay of one recorded case")
