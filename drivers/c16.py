"""C16 -- protein grouping is a maximal-subset grouping with a consistent peptide map.

(M) ProteinGroups.tla: the loop of read_fasta/_group_proteins (pair by prefixed name, largest first, intersect the
    peptide -> names sets, rename matching groups one after the other in any iteration order while patching the
    peptide map in place, unique/shared split) against the declarative layer D_* and the canonical (order
    independent) result, for every incidence structure of <= 3 x 3 (quick) / <= 4 x 4 (thorough) and every
    admissible visiting order; every naming of the entries at 3 x 2; five seeded faults must be caught.
(G) TLC enumerates the incidence structures as CASE lines; the driver renders each as real FASTA files (distinct
    tryptic peptide strings, protein = concatenation of its peptides and of pieces the digest must drop, decoy
    entries under the prefix by mirroring or by mokapot.make_decoys, entry order permuted, one or two files,
    wrapped sequences, varied digest parameters) and reads them with the real mokapot.read_fasta -- in process
    for several entry orders and in sub-processes under PYTHONHASHSEED 1, 2, 3.  Plus seeded random structures
    up to 8 x 8.
(V) ProteinGroupsTrace.tla accepts a trace iff every run satisfies the declarative layer for the incidence the
    generator built and all runs return the same maps (as sets).
"""
from __future__ import annotations

import itertools
import json
import logging
import os
import re
import shutil
import subprocess
import sys
import tempfile

import numpy as np

LEVEL = "model_checking"

ALPHA = "ACDEFGHILNQSTVWY"          # no K / R (cleavage); P (proline rule) and M (N-terminal clipping) only in the
INNER = ALPHA + "PM"                # interior: never first (of a piece or a protein), never right before the K / R
PREFIXES = ["decoy_", "rev_", "DECOY-", "decoy_"]
NAME_STYLES = ["T%d", "sp|P%05d|PROT_HUMAN", "wf|target%d", "t%d.1", "MIX", "INFIX"]
# "INFIX": target accessions that CONTAIN the decoy prefix, but not at their start (un<prefix>1, sp|P1|<PREFIX>HV1, ...): a decoy
# is an entry whose name STARTS with the prefix
# "MIX": accessions whose first letter is a letter of the decoy prefix (c1, d1, e1, o1, y1, c2, ...): distinct proteins that
# only differ in that letter
MODES = ["mirror", "make_decoys_rev", "make_decoys_shuffle", "none", "partial"]
ENZYMES = ["[KR]", "[KR](?!P)", "compiled"]
TMPROOT = "/dev/shm" if os.path.isdir("/dev/shm") else None


# ------------------------------------------------------------------ rendering
def _rand_pep(rng, length):
    """A tryptic piece: no internal K / R, ends in K or R; its mirror image (all but the last residue reversed)
    and what make_decoys makes of it are pieces of the same kind."""
    n = length - 1
    body = "".join((ALPHA[int(k) % len(ALPHA)] if j in (0, n - 1) else INNER[int(k)])
                   for j, k in enumerate(rng.integers(0, len(INNER), n)))
    return body + "KR"[int(rng.integers(0, 2))]


def _parse_simple_fasta(path):
    out, name, seq = [], None, []
    with open(path) as fh:
        for line in fh.read().splitlines():
            if line.startswith(">"):
                if name is not None:
                    out.append((name, "".join(seq)))
                name, seq = line[1:].split(" ")[0], []
            else:
                seq.append(line)
    if name is not None:
        out.append((name, "".join(seq)))
    return out


def render(case, workdir):
    """The FASTA content of a case: entries (protein id -> name, sequence), the peptide dictionary and the
    incidence of every entry (targets 1..n, decoy entries n+1.. with their own peptide ids m+1..2m).
    Deterministic in case["seed"]."""
    inc = case["inc"]
    n, m = len(inc), case["npep"]
    rng = np.random.default_rng([case["seed"], 16])
    mode = case["mode"]
    prefix = PREFIXES[int(rng.integers(0, len(PREFIXES)))]
    style = NAME_STYLES[int(rng.integers(0, len(NAME_STYLES)))]
    fmt = {"width": [0, 7, 60][int(rng.integers(0, 3))], "split": bool(rng.integers(0, 4) == 0),
           "newline": bool(rng.integers(0, 2)), "describe": int(rng.integers(0, 2))}
    lo = int(rng.integers(4, 7))
    for attempt in range(50):
        lens = [int(rng.integers(lo, lo + 5)) for _ in range(m)]
        tp = [_rand_pep(rng, L) for L in lens]
        dp = [s[:-1][::-1] + s[-1] for s in tp]          # mirrored decoy peptides (make_decoys modes: replaced below)
        if len(set(tp + dp)) == 2 * m:
            break
    else:
        raise RuntimeError("could not draw distinct peptide strings")
    mirror = list(dp)
    shortest, longest = min(lens), max(lens)
    has_empty = any(len(r) == 0 for r in inc)
    min_length = int(rng.integers(2 if has_empty else 1, shortest + 1))
    if rng.integers(0, 4) == 0:
        min_length = shortest
    max_length = longest if rng.integers(0, 3) == 0 else int(rng.integers(longest, 51))
    params = {"enzyme": ENZYMES[int(rng.integers(0, 3))], "missed_cleavages": 0,
              "clip_nterm_methionine": bool(rng.integers(0, 2)), "min_length": min_length,
              "max_length": max_length, "semi": False, "decoy_prefix": prefix}

    def filler():
        kind = int(rng.integers(0, 3))
        if kind == 0 and min_length >= 2:                       # too short
            L = int(rng.integers(1, min_length))
            return _rand_pep(rng, L)
        if kind == 1:                                           # too long
            return _rand_pep(rng, max_length + 1 + int(rng.integers(0, 3)))
        return ""

    if style == "INFIX":
        tnames = [("un%s%d" % (prefix, k + 1)) if k % 2 == 0 else ("sp|P%d|%sHV%d" % (k + 1, prefix.upper().replace("-", "_"), k + 1)) for k in range(n)]
    else:
        tnames = [("cdeoy"[k % 5] + str(k // 5 + 1)) if style == "MIX" else style % (k + 1) for k in range(n)]
    tseqs, layout = [], []
    for row in inc:
        ids = [int(x) for x in rng.permutation(row)] if len(row) else []
        pieces = []           # (peptide id or 0, string)
        for q in ids:
            f = filler()
            if f:
                pieces.append((0, f))
            pieces.append((q, tp[q - 1]))
        if not ids and min_length >= 2 and rng.integers(0, 3) > 0:
            pieces.append((0, _rand_pep(rng, int(rng.integers(1, min_length)))))
        tail = ""
        if min_length >= 2 and rng.integers(0, 3) == 0:         # C-terminal piece without K/R, too short
            tail = "".join(ALPHA[int(k)] for k in rng.integers(0, len(ALPHA), int(rng.integers(1, min_length))))
        layout.append(pieces)
        tseqs.append("".join(s for _, s in pieces) + tail)
    # decoys
    if mode == "none":
        dec_for = []
    elif mode == "partial" and n >= 2:
        k = int(rng.integers(1, n))
        dec_for = sorted(int(x) for x in rng.permutation(n)[:k])
    else:
        dec_for = list(range(n))
    dseqs = {}
    if mode in ("make_decoys_rev", "make_decoys_shuffle"):
        import mokapot
        tfile = os.path.join(workdir, "t_%d_%d.fasta" % (os.getpid(), case["seed"]))
        dfile = tfile + ".decoys"
        with open(tfile, "w") as fh:
            fh.write("".join(">%s\n%s\n" % (a, s) for a, s in zip(tnames, tseqs)))
        ok = False
        for attempt in range(20):
            np.random.seed((case["seed"] * 31 + attempt) % (2 ** 31))
            mokapot.make_decoys(tfile, dfile, decoy_prefix=prefix, enzyme="[KR]",
                                reverse=(mode == "make_decoys_rev"), concatenate=False)
            got = _parse_simple_fasta(dfile)
            dp = [None] * m
            ok = [a for a, _ in got] == [prefix + a for a in tnames]
            for t, (_, dseq) in enumerate(got):
                pos = 0
                for q, s in layout[t]:
                    piece = dseq[pos:pos + len(s)]
                    pos += len(s)
                    if q:
                        if dp[q - 1] is not None and dp[q - 1] != piece:
                            ok = False
                        dp[q - 1] = piece
            for q in range(m):
                if dp[q] is None:
                    dp[q] = mirror[q]                             # peptide in no protein: any distinct string
            if ok and len(set(tp + dp)) == 2 * m:
                break
            ok = False
            if mode == "make_decoys_rev":
                break
        os.unlink(tfile)
        os.unlink(dfile)
        if ok:
            for t, (_, dseq) in enumerate(got):
                dseqs[t] = dseq
        else:                                                     # fall back to mirrored decoys
            mode = "mirror"
            dp = mirror
    if not dseqs:
        for t in dec_for:
            tail = tseqs[t][len("".join(s for _, s in layout[t])):]
            dseqs[t] = "".join((dp[q - 1] if q else s[:-1][::-1] + s[-1:]) for q, s in layout[t]) + tail
    prots, entries = [], {}
    for t in range(n):
        prots.append({"name": tnames[t], "base": tnames[t], "decoy": False, "peps": sorted(int(q) for q in inc[t])})
        entries[t + 1] = (tnames[t], tseqs[t])
    for t in sorted(dseqs):
        prots.append({"name": prefix + tnames[t], "base": tnames[t], "decoy": True,
                      "peps": sorted(int(q) + m for q in inc[t])})
        entries[len(prots)] = (prefix + tnames[t], dseqs[t])
    if case.get("cross_ok") and mode in ("none", "partial", "mirror") and case["seed"] % 3 == 0:
        # a decoy entry built from TARGET peptides (peptides that read the same in both directions, low-complexity sequence):
        # its peptide set lies inside a target's; grouping goes by peptide sets, whatever the kind of the entries
        free = [t for t in range(n) if t not in dseqs]
        cand = [i for i in range(n) if len(inc[i]) >= 1]
        if free and cand:
            j, i = free[0], cand[case["seed"] % len(cand)]
            sub = sorted(int(q) for q in inc[i])[: max(1, len(inc[i]) // 2)]
            prots.append({"name": prefix + tnames[j], "base": tnames[j], "decoy": True, "peps": sub})
            entries[len(prots)] = (prefix + tnames[j], "".join(tp[q - 1] for q in sub))
    pepid = {s: k + 1 for k, s in enumerate(tp)}
    pepid.update({s: m + k + 1 for k, s in enumerate(dp)})
    accid = {p["name"]: k + 1 for k, p in enumerate(prots)}
    return {"prots": prots, "entries": entries, "pepid": pepid, "accid": accid, "params": params,
            "prefix": prefix, "mode": mode, "ntgt": n, "fmt": fmt}


def entry_orders(case, r):
    """Entry orders (lists of protein ids) of a case: for every listed target order, the decoy entries are
    inserted at seeded positions."""
    rng = np.random.default_rng([case["seed"], 17])
    n = r["ntgt"]
    decoys = list(range(n + 1, len(r["prots"]) + 1))
    out = []
    for torder in case["torders"]:
        o = [t + 1 for t in torder]
        style = int(rng.integers(0, 3))
        if style == 0:
            o = o + decoys                                         # targets then decoys
        elif style == 1:
            o = [int(x) for x in rng.permutation(decoys)] + o      # decoys first
        else:
            for d in decoys:
                o.insert(int(rng.integers(0, len(o) + 1)), d)
        out.append(o)
    return out


def write_files(case, r, order, workdir, tag):
    """Write the entries in the given order into one or two FASTA files; returns the list of paths."""
    rng = np.random.default_rng([case["seed"], 18, len(tag)])
    fmt = r["fmt"]
    width = fmt["width"]
    chunks = []
    for pid in order:
        name, seq = r["entries"][pid]
        head = ">" + name + (" description of %s OS=Homo sapiens" % name if (pid + fmt["describe"]) % 2 else "")
        if not seq:
            chunks.append(head if pid % 2 else head + "\n")        # header-only entry / header and a blank line
        elif width:
            chunks.append(head + "\n" + "\n".join(seq[k:k + width] for k in range(0, len(seq), width)))
        else:
            chunks.append(head + "\n" + seq)
    if case["seed"] % 5 == 0 and len(chunks) >= 2:
        # the same entry (identifier and sequence) a second time, at the end: a contaminants file read together with a database
        # that already holds the protein -- it is still one protein
        chunks.append(chunks[len(chunks) // 2])
    split = len(chunks) >= 2 and fmt["split"]
    # the same file names are re-used by every case a worker process handles (a result must not depend on what a path held before)
    # (the files of the hash-seed runs, tag "h", are all written before the worker sessions read them: one name per case there)
    base = os.path.join(workdir, ("c%d_%s" % (case["idx"], tag)) if tag == "h" else ("p%d_%s" % (os.getpid(), tag)))
    if split:
        k = int(rng.integers(1, len(chunks)))
        parts = [chunks[:k], chunks[k:]]
    else:
        parts = [chunks]
    paths = []
    for j, part in enumerate(parts):
        p = "%s_%d.fasta" % (base, j)
        with open(p, "w") as fh:
            fh.write("\n".join(part) + ("\n" if fmt["newline"] else ""))
        paths.append(p)
    return paths


def raw_read(paths, params):
    """Call the real read_fasta; returns the raw maps (strings) or the exception."""
    import mokapot
    kw = dict(params)
    if kw["enzyme"] == "compiled":
        kw["enzyme"] = re.compile("[KR]")
    try:
        res = mokapot.read_fasta(paths[0] if len(paths) == 1 else tuple(paths), **kw)
    except Exception as e:          # recorded, the acceptor rejects (in-domain) or ignores (out of domain)
        return {"raised": "%s: %s" % (type(e).__name__, e), "peptide_map": {}, "shared_peptides": {},
                "protein_map": {}}
    return {"raised": "", "peptide_map": dict(res.peptide_map), "shared_peptides": dict(res.shared_peptides),
            "protein_map": dict(res.protein_map)}


def project(raw, r, order, hashseed):
    """Strings -> ids (projection only; no property is decided here)."""
    unknown = 0
    pepid, accid = r["pepid"], r["accid"]

    def members(group):
        nonlocal unknown
        out = []
        for acc in group.split(", "):
            if acc in accid:
                out.append(accid[acc])
            else:
                unknown += 1
        return sorted(out)
    uniq, shared = [], []
    for pep, grp in raw["peptide_map"].items():
        if pep not in pepid:
            unknown += 1
            continue
        uniq.append([pepid[pep], members(grp)])
    for pep, grps in raw["shared_peptides"].items():
        if pep not in pepid:
            unknown += 1
            continue
        shared.append([pepid[pep], sorted(members(g) for g in grps.split("; "))])
    pairs = sorted([str(k), str(v)] for k, v in raw["protein_map"].items())
    return {"order": list(order), "hashseed": hashseed, "raised": raw["raised"], "unknown": unknown,
            "uniq": sorted(uniq), "shared": sorted(shared), "pairs": pairs}


def call_real(case, workdir):
    """All in-process runs of a case (one per entry order) -> trace (without tid)."""
    r = render(case, workdir)
    runs = []
    for k, order in enumerate(entry_orders(case, r)):
        paths = write_files(case, r, order, workdir, "o%d" % k)
        raw = raw_read(paths, r["params"])
        for p in paths:
            os.unlink(p)
        runs.append(project(raw, r, order, int(os.environ.get("PYTHONHASHSEED", "0") or 0)))
    return {"prefix": r["prefix"], "prots": r["prots"], "runs": runs, "mode": r["mode"],
            "params": {k: (v if not isinstance(v, bool) else v) for k, v in r["params"].items()}}


# ------------------------------------------------------------------ hash seeds (sub-processes)
def worker_main(jobfile, outfile):
    """Sub-process entry: read the listed files with the real read_fasta under this process' PYTHONHASHSEED."""
    logging.disable(logging.CRITICAL)
    with open(jobfile) as fh:
        jobs = json.load(fh)
    out = [{"idx": j["idx"], "raw": raw_read(j["paths"], j["params"])} for j in jobs]
    with open(outfile, "w") as fh:
        json.dump({"hashseed": os.environ.get("PYTHONHASHSEED"), "results": out}, fh)


def hash_seed_runs(cases, traces, pick, workdir, seeds=(1, 2, 3), chunks=4):
    """Append to the traces of the picked cases one run per hash seed (entry order = a further permutation)."""
    from engine.tlc import MachineryError
    jobs, meta = [], {}
    for ci in pick:
        case = cases[ci]
        r = render(case, workdir)
        rng = np.random.default_rng([case["seed"], 19])
        order = [int(x) for x in rng.permutation(len(r["prots"])) + 1]
        paths = write_files(case, r, order, workdir, "h")
        jobs.append({"idx": ci, "paths": paths, "params": r["params"]})
        meta[ci] = (r, order, paths)
    procs = []
    for hs in seeds:
        for c in range(chunks):
            part = jobs[c::chunks]
            if not part:
                continue
            jf = os.path.join(workdir, "jobs_%d_%d.json" % (hs, c))
            of = os.path.join(workdir, "out_%d_%d.json" % (hs, c))
            with open(jf, "w") as fh:
                json.dump(part, fh)
            env = dict(os.environ)
            env["PYTHONHASHSEED"] = str(hs)
            p = subprocess.Popen([sys.executable, "-W", "ignore", os.path.abspath(__file__), "--worker", jf, of],
                                 env=env, stdout=subprocess.PIPE, stderr=subprocess.STDOUT, text=True)
            procs.append((hs, of, p))
    for hs, of, p in procs:
        out, _ = p.communicate(timeout=1800)
        if p.returncode != 0 or not os.path.exists(of):
            raise MachineryError("hash-seed worker failed (seed %d): %s" % (hs, out[-2000:]))
        with open(of) as fh:
            res = json.load(fh)
        if res["hashseed"] != str(hs):
            raise MachineryError("worker ran under PYTHONHASHSEED=%r, expected %d" % (res["hashseed"], hs))
        for item in res["results"]:
            r, order, _ = meta[item["idx"]]
            traces[item["idx"]]["runs"].append(project(item["raw"], r, order, hs))
    for ci in pick:
        for p in meta[ci][2]:
            os.unlink(p)


# ------------------------------------------------------------------ cases
def tlc_incidences(cfg):
    from engine.tlc import run_tlc, MachineryError
    r = run_tlc("ProteinGroups", cfg, workers=4)
    if not r.ok:
        raise MachineryError("generation run failed: %s %s" % (r.violated, r.error))
    incs = [p[1] for p in r.prints if p and p[0] == "CASE"]
    if len(incs) != r.distinct:
        raise MachineryError("generation: %d CASE lines for %d initial states" % (len(incs), r.distinct))
    return incs


def random_incidence(rng, nmax, mmax):
    n = int(rng.integers(2, nmax + 1))
    m = int(rng.integers(2, mmax + 1))
    dens = float(rng.choice([0.2, 0.4, 0.6, 0.8]))
    rows = [set(int(q) + 1 for q in np.nonzero(rng.random(m) < dens)[0]) for _ in range(n)]
    for _ in range(int(rng.integers(0, n + 1))):            # plant subset chains / equal sets / intersections
        a, b, c = (int(x) for x in rng.integers(0, n, 3))
        kind = int(rng.integers(0, 4))
        if kind == 0 and a != b:
            rows[a] = set(rows[b])                                      # equal peptide sets
        elif kind == 1 and a != b:
            rows[a] = set(q for q in rows[b] if rng.random() < 0.6)     # subset (chains when repeated)
        elif kind == 2 and len({a, b, c}) == 3:
            rows[a] = rows[b] & rows[c]                                 # contained in two different proteins
        elif kind == 3 and len({a, b, c}) == 3:
            rows[a] = rows[b] | rows[c]
    return [sorted(r) for r in rows], m


def make_case(idx, inc, npep, seed, torders, mode=None):
    return {"idx": idx, "inc": [list(r) for r in inc], "npep": npep, "seed": int(seed),
            "mode": mode or MODES[seed % len(MODES)], "torders": [list(t) for t in torders], "cross_ok": True}


def signature(case, tr):
    return {"inc": case["inc"], "mode": tr.get("mode", case["mode"]), "nprot": len(case["inc"]), "npep": case["npep"],
            "seed": case["seed"], "params": tr.get("params")}


# ------------------------------------------------------------------ negative controls
def _groups_of(run):
    gs = set(tuple(g) for _, g in run["uniq"])
    for _, lst in run["shared"]:
        gs.update(tuple(g) for g in lst)
    return sorted(gs)


def _rename(run, old, new):
    new = sorted(new)
    run["uniq"] = [[q, (new if tuple(g) == old else g)] for q, g in run["uniq"]]
    run["shared"] = [[q, sorted((new if tuple(g) == old else g) for g in lst)] for q, lst in run["shared"]]


def corrupt(tr, kind, rng):
    """A corrupted copy (the same corruption in every run, so that only a structural clause can reject it),
    or None if the trace offers no place for this corruption."""
    t = json.loads(json.dumps(tr))
    peps = {k + 1: set(p["peps"]) for k, p in enumerate(t["prots"])}
    run0 = t["runs"][0]
    groups = _groups_of(run0)
    if kind == "move_protein":
        # move a member to a group that does not hold all of its peptides
        cands = []
        for g in groups:
            for p in g:
                for h in groups:
                    hp = set().union(*[peps[x] for x in h])
                    if h != g and len(g) > 1 and p not in h and peps[p] and not peps[p] <= hp:
                        cands.append((g, p, h))
        if not cands:
            return None
        g, p, h = cands[int(rng.integers(0, len(cands)))]
        for run in t["runs"]:
            _rename(run, g, [x for x in g if x != p])
            _rename(run, h, list(h) + [p])
        return t
    if kind in ("drop_member", "order_dependent"):
        # a member whose peptides are a strict subset of its group's leaves the group: in every run and from every
        # group (it is in no group any more), resp. in one run and from one of >= 2 groups (only the runs differ)
        cands = []
        for g in groups:
            gp = set().union(*[peps[x] for x in g])
            for p in g:
                others = [h for h in groups if h != g and p in h]
                if len(g) > 1 and peps[p] < gp and (kind == "drop_member" or (others and len(t["runs"]) > 1)):
                    cands.append((g, p))
        if not cands:
            return None
        g, p = cands[int(rng.integers(0, len(cands)))]
        if kind == "order_dependent":
            _rename(t["runs"][-1], g, [x for x in g if x != p])
        else:
            for run in t["runs"]:
                for h in _groups_of(run):
                    if p in h:
                        _rename(run, h, [x for x in h if x != p])
        return t
    if kind == "raised":
        t["runs"][-1].update(raised="KeyError: 'x'", uniq=[], shared=[], pairs=[])
        return t
    if kind == "shared_as_unique":
        if not run0["shared"]:
            return None
        q = run0["shared"][int(rng.integers(0, len(run0["shared"])))][0]
        for run in t["runs"]:
            lst = [l for qq, l in run["shared"] if qq == q][0]
            run["shared"] = [[qq, l] for qq, l in run["shared"] if qq != q]
            run["uniq"] = sorted(run["uniq"] + [[q, lst[0]]])
        return t
    if kind == "unique_as_shared":
        if not run0["uniq"] or len(groups) < 2:
            return None
        q, g = run0["uniq"][int(rng.integers(0, len(run0["uniq"])))]
        other = [list(h) for h in groups if list(h) != g][0]
        for run in t["runs"]:
            run["uniq"] = [[qq, gg] for qq, gg in run["uniq"] if qq != q]
            run["shared"] = sorted(run["shared"] + [[q, sorted([g, other])]])
        return t
    if kind == "break_pairing":
        if not run0["pairs"]:
            return None
        j = int(rng.integers(0, len(run0["pairs"])))
        how = int(rng.integers(0, 3))
        key = run0["pairs"][j][0]
        if how == 1 and not peps[[k + 1 for k, p in enumerate(t["prots"]) if p["name"] == key][0]]:
            how = 0         # dropping the pair of a target without peptides is allowed by the statement
        for run in t["runs"]:
            if how == 0:        # paired with the decoy of a different name
                run["pairs"][j][1] = run["pairs"][j][1] + "_2"
            elif how == 1:      # a target that yields peptides is not paired
                del run["pairs"][j]
            else:               # a decoy entry is paired as if it were a target
                k = t["prefix"] + run["pairs"][j][0]
                run["pairs"] = sorted(run["pairs"] + [[k, t["prefix"] + k]])
        return t
    raise ValueError(kind)


# ------------------------------------------------------------------ the check
def build_cases(ctx, rng):
    cases = []

    def add(inc, npep, torders, mode=None):
        idx = len(cases)
        cases.append(make_case(idx, inc, npep, ctx.seed * 1000003 + idx, torders, mode))
    perms3 = list(itertools.permutations(range(3)))
    inc3 = tlc_incidences("ProteinGroups_gen3.cfg")
    for rep in range(2):                     # every 3 x 3 structure, every order of the target entries, 2 renderings
        for inc in inc3:
            add(inc, 3, perms3)
    if ctx.quick:
        for _ in range(3000):                # sampled 4 x 4
            inc = [sorted(int(q) + 1 for q in np.nonzero(rng.integers(0, 2, 4))[0]) for _ in range(4)]
            add(inc, 4, [[int(x) for x in rng.permutation(4)] for _ in range(3)])
        nrand = 600
    else:
        perms4 = list(itertools.permutations(range(4)))
        inc4 = tlc_incidences("ProteinGroups_gen4.cfg")
        for k, inc in enumerate(inc4):       # every 4 x 4 structure, 3 of the 24 target orders (rotating)
            add(inc, 4, [perms4[(k + j * 7) % 24] for j in range(3)])
        nrand = 6000
    for _ in range(nrand):
        inc, m = random_incidence(rng, 8, 8)
        n = len(inc)
        add(inc, m, [[int(x) for x in rng.permutation(n)] for _ in range(3)])
    return cases, 2 * len(inc3)


def run(ctx):
    ctx.liveness("ProteinGroups", unfair_control=not ctx.quick)      # termination under weak fairness (ProteinGroups_live.cfg)
    from engine.tlc import MachineryError
    from drivers.common import pmap
    logging.disable(logging.CRITICAL)        # "No sequence was detected" warnings of header-only entries
    rng = np.random.default_rng(ctx.seed)
    # ---------------- (M) ----------------
    ctx.model_check("ProteinGroups", "ProteinGroups_quick.cfg", note="3x3, every incidence, visiting order, absorb order")
    if not ctx.quick:
        ctx.model_check("ProteinGroups", "ProteinGroups_thorough.cfg", note="4x4, every incidence, visiting order, absorb order",
                        timeout=3000)
    ctx.model_check("ProteinGroups", "ProteinGroups_pair.cfg", note="3x2, every injective naming of the entries")
    ctx.model_check("ProteinGroups", "ProteinGroups_mut1.cfg", expect_violation="NoGroupInsideAnother",
                    note="seeded fault: smallest first")
    ctx.model_check("ProteinGroups", "ProteinGroups_mut2.cfg", expect_violation="EqualsCanonical",
                    note="seeded fault: only the first matching group absorbs (result depends on hash order)")
    ctx.model_check("ProteinGroups", "ProteinGroups_mut3.cfg", expect_violation="NoGroupInsideAnother",
                    note="seeded fault: absorbed protein's own entry left in the peptide map")
    ctx.model_check("ProteinGroups", "ProteinGroups_mut4.cfg", expect_violation="NoGroupInsideAnother",
                    note="seeded fault: unique/shared split on proteins instead of groups")
    ctx.model_check("ProteinGroups", "ProteinGroups_mut5.cfg", expect_violation="PairingByName",
                    note="seeded fault: prefixed names paired too")
    r = ctx.model_check("ProteinGroups", "ProteinGroups_cov.cfg", coverage=True, note="action coverage (3x2)")
    ctx.require_actions(r, ["Pair", "Sort", "Visit", "Absorb", "Split"])
    # ---------------- (G) ----------------
    cases, n3 = build_cases(ctx, rng)
    workdir = tempfile.mkdtemp(prefix="c16_", dir=TMPROOT)
    try:
        call_real(cases[0], workdir)         # warm up imports before forking

        def one(i):
            try:
                return call_real(cases[i], workdir)
            except Exception as e:           # harness failure (never a verdict)
                return {"harness_error": "%s: %s" % (type(e).__name__, e)}
        traces = pmap(one, len(cases))
        bad = [(i, t["harness_error"]) for i, t in enumerate(traces) if "harness_error" in t]
        if bad:
            raise MachineryError("rendering failed for %d cases, e.g. case %d: %s" % (len(bad), bad[0][0], bad[0][1]))
        # hash seeds: every 3x3 rendering, a sample of the rest (quick) / of everything (thorough)
        rest = list(range(n3, len(cases)))
        crng = np.random.default_rng(ctx.seed + 2)
        take = 600 if ctx.quick else 9000
        pick = list(range(n3)) + sorted(int(x) for x in crng.choice(rest, size=min(take, len(rest)), replace=False))
        hash_seed_runs(cases, traces, pick, workdir, chunks=1 if ctx.quick else 4)
    finally:
        shutil.rmtree(workdir, ignore_errors=True)
    for i, tr in enumerate(traces):
        tr["tid"] = i + 1
        c = cases[i]
        in_domain = any(len(row) for row in c["inc"])
        if not in_domain:
            ctx.cov["out_of_domain"] += 1
        ctx.count((tuple(tuple(r) for r in c["inc"]), c["npep"], tr["mode"]), nontrivial=in_domain)
        if i % 701 == 300:
            ctx.sample({"case": {"inc": c["inc"], "mode": tr["mode"], "params": tr["params"]},
                        "prots": [[p["name"], p["peps"]] for p in tr["prots"]],
                        "run": {k: tr["runs"][-1][k] for k in ("order", "hashseed", "uniq", "shared", "pairs")}})
    ctx.cov["real_calls"] = sum(len(t["runs"]) for t in traces)
    ctx.cov["hash_seed_runs"] = sum(1 for t in traces for r_ in t["runs"] if r_["hashseed"] != 0)
    # ---------------- (V) ----------------
    verdicts = ctx.validate("ProteinGroupsTrace", "Trace.cfg", traces, shards=6 if ctx.quick else 16)
    for i, tr in enumerate(traces):
        v = verdicts[tr["tid"]]
        if not v["accept"]:
            ctx.reject({"case": cases[i], "trace": tr}, v["failed"], signature(cases[i], tr))
    # negative controls
    nrng = np.random.default_rng(ctx.seed + 1)
    badtr, kinds = [], {}
    order = [int(x) for x in nrng.permutation(len(traces))]
    for kind in ("move_protein", "drop_member", "order_dependent", "shared_as_unique", "unique_as_shared",
                 "break_pairing", "raised"):
        got = 0
        for i in order:
            tr = traces[i]
            if not verdicts[tr["tid"]]["accept"] or not any(len(r_) for r_ in cases[i]["inc"]):
                continue
            b = corrupt(tr, kind, nrng)
            if b is None:
                continue
            b["tid"] = len(badtr) + 1
            badtr.append(b)
            got += 1
            if got >= 40:
                break
        kinds[kind] = got
        if got == 0 and not ctx.violations:     # with violations around, accepted traces may be too few to host every kind
            raise MachineryError("no trace offered a place for the negative control %s" % kind)
    ctx.negative_controls("ProteinGroupsTrace", "Trace.cfg", badtr,
                          name="protein moved to another group / dropped from its groups / dropped from one group in "
                               "one run only / shared peptide marked unique / unique peptide marked shared / pairing "
                               "broken / exception recorded %s" % kinds)
    ctx.assume("accessions are distinct, contain no blank, ', ' or '; ', and target accessions do not start with the "
               "decoy prefix (group names are split at ', ' and compared as sets of members)")
    ctx.assume("digest parameters are such that the digest yields exactly the peptides built into the sequences "
               "(missed_cleavages=0, semi=False, no M at an N-terminus, min_length <= shortest and max_length >= longest "
               "peptide; extra pieces are shorter than min_length or longer than max_length); target and decoy entries "
               "share no peptide")
    ctx.assume("a FASTA content in which no target entry yields a peptide is outside the domain (read_fasta raises "
               "'Only decoy proteins were found')")
    return ctx.finish(
        rule="cases = every incidence structure (proteins x peptides) enumerated by TLC from ProteinGroups.tla Init "
             "(3x3 twice%s) plus seeded random structures up to 8x8 with planted equal sets / subset chains / "
             "intersections, each rendered as FASTA file(s) with decoys (mirrored, mokapot.make_decoys reverse/shuffle, "
             "none, partial) and read under all 6 (3x3) / 3 target entry orders in process and under PYTHONHASHSEED "
             "1,2,3 in sub-processes; distinct = distinct (incidence, decoy mode), non-trivial = some target yields a "
             "peptide" % (", sampled 4x4" if ctx.quick else ", every 4x4"),
        exhaustive=True)


def replay(ctx, case):
    logging.disable(logging.CRITICAL)
    c = case["case"]["case"]
    workdir = tempfile.mkdtemp(prefix="c16_", dir=TMPROOT)
    try:
        tr = call_real(c, workdir)
        traces = {c["idx"]: tr}
        cases = {c["idx"]: c}
        hash_seed_runs(cases, traces, [c["idx"]], workdir, chunks=1)
    finally:
        shutil.rmtree(workdir, ignore_errors=True)
    tr["tid"] = 1
    v = ctx.validate("ProteinGroupsTrace", "Trace.cfg", [tr])[1]
    if not v["accept"]:
        ctx.reject({"case": c, "trace": tr}, v["failed"], signature(c, tr))
    ctx.count(1)
    ctx.count(2)
    ctx.sample(tr)
    return ctx.finish(rule="replay of one recorded case")


if __name__ == "__main__":
    if len(sys.argv) == 4 and sys.argv[1] == "--worker":
        worker_main(sys.argv[2], sys.argv[3])
    else:
        sys.exit("usage: c16.py --worker jobs.json out.json")
