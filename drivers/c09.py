"""C09 -- a run's results depend only on its inputs, not on leftovers of earlier runs.

(M) Workdir.tla: sequences of up to 3 runs over one directory, every earlier run may Fail or be Killed at every step;
    ResultsOnlyFromOwnInputs / NoIntermediateLeft; AsIs_GlobTemp reproduces the defect repaired for F-09a.
(G) TLC emits the run-history skeletons (chunk count, prefix, crash step, Fail/Kill); the driver refines every crash
    step to EVERY intercepted I/O call of the real run (to_csv / ParquetWriter / unlink ...), enumerated by a
    fault-free pass, and injects the fault there (Fail: the call raises OSError; Kill: a forked child _exits).
(V) WorkdirTrace.tla compares the observed run in the dirty directory with the same run in a clean directory.
    Second part: the CLI verify step with a stale '<pin>.tsv' (the user's input file must end up as in a clean run).
"""
from __future__ import annotations

import copy
import os
import re
import shutil
import sys
import tempfile
from fractions import Fraction
from pathlib import Path

import numpy as np

from engine.tlc import run_tlc, MachineryError
from drivers.common import pmap
from drivers import conf, mk
from drivers.c03 import random_table, tie_free

LEVEL = "fault_enumeration"


class Faults:
    """Interposition on the I/O calls of a run: counts them, classifies them by target, injects a fault at call k."""

    def __init__(self, k=None, kill=False):
        self.k, self.kill, self.n, self.log = k, kill, 0, []

    def _hit(self, what, target):
        self.n += 1
        self.log.append((what, os.path.basename(str(target))))
        if self.k is not None and self.n == self.k:
            if self.kill:
                os._exit(137)
            raise OSError("injected fault at I/O call %d (%s %s)" % (self.n, what, os.path.basename(str(target))))

    def __enter__(self):
        import pandas as pd
        import pyarrow.parquet as pq
        import pathlib
        F = self
        self._orig = (pd.DataFrame.to_csv, pd.DataFrame.to_parquet, pq.ParquetWriter.__init__, pq.ParquetWriter.write_table,
                      os.unlink, pathlib.Path.unlink)
        o_csv, o_pq, o_pwi, o_pww, o_unl, o_punl = self._orig

        def to_csv(df, path=None, *a, **kw):
            if path is not None and not hasattr(path, "write"):
                F._hit("to_csv", path)
            return o_csv(df, path, *a, **kw)

        def to_parquet(df, path=None, *a, **kw):
            F._hit("to_parquet", path)
            return o_pq(df, path, *a, **kw)

        def pw_init(w, where, *a, **kw):
            F._hit("ParquetWriter", where)
            return o_pwi(w, where, *a, **kw)

        def pw_write(w, table, *a, **kw):
            F._hit("write_table", getattr(w, "where", "?"))
            return o_pww(w, table, *a, **kw)

        def unlink(path, *a, **kw):
            F._hit("unlink", path)
            return o_unl(path, *a, **kw)

        def punlink(p, *a, **kw):
            F._hit("unlink", p)
            return o_punl(p, *a, **kw)
        pd.DataFrame.to_csv, pd.DataFrame.to_parquet = to_csv, to_parquet
        pq.ParquetWriter.__init__, pq.ParquetWriter.write_table = pw_init, pw_write
        os.unlink, pathlib.Path.unlink = unlink, punlink
        return self

    def __exit__(self, *a):
        import pandas as pd
        import pyarrow.parquet as pq
        import pathlib
        (pd.DataFrame.to_csv, pd.DataFrame.to_parquet, pq.ParquetWriter.__init__, pq.ParquetWriter.write_table,
         os.unlink, pathlib.Path.unlink) = self._orig
        return False


def one_run(wd, run, fault=None):
    """run: {rows, chunk, prefix, fmt, dedup, rollup, decoys}.  Executes assign_confidence into wd/out.  With a Kill
    fault the run happens in a forked child.  Returns (trace or None, number of I/O calls)."""
    case = {"kind": "assign", "colls": [{"rows": copy.deepcopy(run["rows"])}], "extra_levels": [], "dedup": run.get("dedup", True),
            "rollup": run.get("rollup", True), "decoys": run.get("decoys", True), "chunk": run["chunk"], "fmt": run["fmt"],
            "prefixes": [run["prefix"]] if run["prefix"] else None, "workers": 1, "sqlite": bool(run.get("sqlite"))}
    if fault and fault[1]:
        sys.stdout.flush()
        pid = os.fork()
        if pid == 0:
            try:
                with Faults(fault[0], True):
                    conf.run_assign(case, workdir=wd, keep=True)
            except BaseException:
                pass
            os._exit(0)
        os.waitpid(pid, 0)
        return None, 0
    with Faults(fault[0] if fault else None, False) as F:
        trs, info = conf.run_assign(case, workdir=wd, keep=True)
    return trs[0], F.n


def classify(name):
    m = re.match(r"^(?:(.*?)\.)?scores_metadata_(\d+)(\.\w+)$", name)
    if m:
        return {"name": name, "kind": "chunk", "pfx": m.group(1) or "", "idx": int(m.group(2)), "ext": m.group(3)}
    m = re.match(r"^(psms|peptides|modifiedpeptides|precursors|peptidegroups|proteins)(\.\w+)$", name)
    if m:
        return {"name": name, "kind": "level", "pfx": "", "idx": 0, "ext": m.group(2)}
    if re.match(r"^(?:(.*?)\.)?(targets|decoys)\.\w+$", name):
        return {"name": name, "kind": "result", "pfx": "", "idx": 0, "ext": ""}
    return {"name": name, "kind": "other", "pfx": "", "idx": 0, "ext": ""}


def files_of(tr, run):
    levels = ["psms"] + (["peptides"] if run.get("rollup", True) else [])
    out = []
    if run.get("sqlite"):
        # the result "files" of a run into an SQLite database are its tables (rows as ints; table / id strings hashed)
        import zlib
        by = {}
        for tbl, ident, q, s4 in tr.get("sqlite_rows", []):
            qq = Fraction(q[0], q[1]) if q[2] else Fraction(-1, 1)
            by.setdefault(tbl, []).append([zlib.crc32(ident.encode()) & 0x3FFFFFFF, int(s4), qq.numerator, qq.denominator])
        return [{"name": k, "rows": by[k]} for k in sorted(by)]
    for f in sorted(tr["files"], key=lambda f: (f["level"], f["td"])):
        if f["level"] not in levels or (f["td"] == "d" and not run.get("decoys", True)):
            continue
        rows = []
        for x in f["rows"]:
            q = Fraction(x["q"][0], x["q"][1]) if x["q"][2] else Fraction(-1, 1)
            rows.append([x["id"], x["s4"], q.numerator, q.denominator])
        out.append({"name": f["level"] + "." + f["td"], "rows": rows})
    return out


def run_scenario(sc):
    """sc: {earlier: [{run, fault:(k, kill)}], last: run}"""
    wd = Path(tempfile.mkdtemp(prefix="c09_"))
    wc = Path(tempfile.mkdtemp(prefix="c09c_"))
    try:
        for e in sc["earlier"]:
            try:
                one_run(wd, e["run"], e.get("fault"))
            except BaseException as ex:
                if isinstance(ex, KeyboardInterrupt):
                    raise
        last = sc["last"]
        tr, _ = one_run(wd, last)
        listing = [classify(n) for n in sorted(os.listdir(wd / "out"))]
        ct, _ = one_run(wc, last)
        n = len(last["rows"])
        ext = "." + last["fmt"]
        if last.get("sqlite"):
            # a run into a database leaves no text result file of its own prefix / levels behind (it creates and removes them): such files
            # in the directory afterwards are part of what the user finds as "the results" -- they are compared with the clean directory
            def text_results(d):
                import zlib
                pfx = (last["prefix"] + ".") if last["prefix"] else ""
                want = [pfx + k + "." + lv for lv in (["psms"] + (["peptides"] if last.get("rollup", True) else []))
                        for k in (["targets", "decoys"] if last.get("decoys", True) else ["targets"])]
                out = []
                for fn in sorted(os.listdir(d / "out")):
                    if any(fn == w or fn.startswith(w + ".") for w in want):
                        with open(d / "out" / fn, "rb") as fh:
                            out.append({"name": "text:" + fn, "rows": [[0, zlib.crc32(line) & 0x3FFFFFFF, 0, 1] for line in fh]})
                return out
            extra_d, extra_c = text_results(wd), text_results(wc)
        else:
            extra_d, extra_c = [], []
        return {"kind": "assign",
                "last": {"pfx": last["prefix"] or "", "ext": ext, "nchunks": (n + last["chunk"] - 1) // last["chunk"]},
                "clean": {"raised": ct["raised"] + ("" if (not ct["missing"] or last.get("sqlite")) else " missing"), "files": files_of(ct, last) + extra_c, "input_after": []},
                "dirty": {"raised": tr["raised"] + ("" if (not tr["missing"] or last.get("sqlite")) else " missing"), "files": files_of(tr, last) + extra_d,
                          "input_after": [], "listing": listing}}
    except Exception as e:
        import traceback
        return {"harness_error": "%s: %s %s" % (type(e).__name__, e, traceback.format_exc()[-700:])}
    finally:
        shutil.rmtree(wd, ignore_errors=True)
        shutil.rmtree(wc, ignore_errors=True)


def count_calls(run):
    wd = Path(tempfile.mkdtemp(prefix="c09n_"))
    try:
        _, n = one_run(wd, run)
        return n
    finally:
        shutil.rmtree(wd, ignore_errors=True)


# ---------------------------------------------------------------- CLI verify step with a stale <pin>.tsv
def pin_text(rows, nprot=2):
    lines = ["SpecId\tLabel\tScanNr\tExpMass\tf1\tf2\tPeptide\tProteins"]
    for r in rows:
        prots = "\t".join("prot_r%d_%d" % (r["id"], j) for j in range(1 + (r["id"] % nprot)))
        lines.append("r%d\t%d\t%d\t%.1f\t%d\t%d\tK.PEP%dK.A\t%s" % (r["id"], 1 if r["tgt"] else -1, r["spec"], 500.0 + r["spec"], r["rank"],
                                                            r["id"] % 5, r["key"][0], prots))
    return "\n".join(lines) + "\n"


def run_cli(sc):
    """the verify step of mokapot.mokapot.main on a ragged PIN, with and without a stale '<pin>.tsv'; main is
    stopped right after the step by a read_pin stub that raises (the step is all C09 observes here)"""
    MM = sys.modules.get("mokapot.mokapot")
    if MM is None:
        import importlib
        MM = importlib.import_module("mokapot.mokapot")

    class Stop(Exception):
        pass

    def stub(*a, **kw):
        raise Stop()
    out = {}
    for mode in ("clean", "dirty"):
        d = Path(tempfile.mkdtemp(prefix="c09cli_"))
        try:
            pin = d / "in.pin"
            pin.write_text(sc["text"])
            if mode == "dirty":
                (d / "in.pin.tsv").write_text(sc["stale"])
            orig = MM.read_pin
            MM.read_pin = stub
            raised = ""
            try:
                MM.main([str(pin), "--dest_dir", str(d / "o"), "-v", "0"])
            except Stop:
                pass
            except BaseException as e:
                if isinstance(e, KeyboardInterrupt):
                    raise
                raised = "%s: %s" % (type(e).__name__, str(e)[:100])
            finally:
                MM.read_pin = orig
            out[mode] = {"raised": raised, "files": [], "input_after": pin.read_text().split("\n"),
                         "listing": [classify(n) for n in sorted(os.listdir(d)) if n != "in.pin"]}
        except Exception as e:
            return {"harness_error": "%s: %s" % (type(e).__name__, e)}
        finally:
            shutil.rmtree(d, ignore_errors=True)
    out["clean"].pop("listing")
    return {"kind": "cli", "last": {"pfx": "", "ext": ".pin", "nchunks": 0}, "clean": out["clean"], "dirty": out["dirty"]}


def run_protein_scenario(sc):
    """sc: {seed, earlier: [bool with_proteins...], last: bool with_proteins}.  Runs with protein-level confidence (FASTA
    of drivers/c08_worker.py): the protein level has its own intermediate file, written by another code path."""
    import zlib
    import mokapot
    import pandas as pd
    from drivers import c08_worker
    mk.install_stub_pep()

    def one(out_dir, with_proteins):
        wd_in = Path(tempfile.mkdtemp(prefix="c09pin_"))
        try:
            ds, proteins = c08_worker.build({"data_seed": sc["seed"], "n": 400, "proteins": True}, wd_in)
            scores = pd.read_csv(ds.filename, sep="\t")["f1"].to_numpy(dtype=float)
            raised = ""
            try:
                mokapot.assign_confidence([ds], max_workers=1, scores=[scores], descs=[True], eval_fdr=0.5, dest_dir=out_dir,
                                          prefixes=[None], decoys=True, proteins=proteins if with_proteins else None, rng=1,
                                          peps_algorithm="stub")
            except Exception as e:
                raised = "%s: %s" % (type(e).__name__, str(e)[:160])
            files = []
            for fn in sorted(os.listdir(out_dir)):
                if classify(fn)["kind"] == "result":
                    with open(out_dir / fn, "rb") as fh:
                        files.append({"name": fn, "rows": [[i, zlib.crc32(line) & 0x3FFFFFFF, 0, 1] for i, line in enumerate(fh)]})
            return raised, files
        finally:
            shutil.rmtree(wd_in, ignore_errors=True)
    wd = Path(tempfile.mkdtemp(prefix="c09p_"))
    wc = Path(tempfile.mkdtemp(prefix="c09pc_"))
    try:
        for wp in sc["earlier"]:
            one(wd, wp)
        if not sc["last"]:
            # result files of an earlier protein-level run are not intermediates and not results of this run: set aside
            for fn in ("targets.proteins", "decoys.proteins"):
                if (wd / fn).exists():
                    os.unlink(wd / fn)
        raised, files = one(wd, sc["last"])
        listing = [classify(n) for n in sorted(os.listdir(wd))]
        craised, cfiles = one(wc, sc["last"])
        return {"kind": "assign", "last": {"pfx": "", "ext": ".pin", "nchunks": 1},
                "clean": {"raised": craised, "files": cfiles, "input_after": []},
                "dirty": {"raised": raised, "files": files, "input_after": [], "listing": listing}}
    except Exception as e:
        import traceback
        return {"harness_error": "%s: %s %s" % (type(e).__name__, e, traceback.format_exc()[-700:])}
    finally:
        shutil.rmtree(wd, ignore_errors=True)
        shutil.rmtree(wc, ignore_errors=True)


def run_rollup_scenario(sc):
    """sc: {seed, spell: 'same' | 'rel_abs', earlier: bool}.  The stand-alone rollup tool (brew_rollup) working IN PLACE: it reads the
    peptide-level result files of the prefixed collections in a directory and writes its 'rollup.*' files into the same directory.
    Dirty: an earlier rollup in that directory covered one more collection (since withdrawn: its files are gone, the earlier
    'rollup.*' outputs are still there); the observed rollup names the directory once relatively and once absolutely.
    Clean: the same collections' files in a fresh directory.  The tool's own earlier outputs are not its inputs."""
    import argparse
    import sys
    import zlib
    import mokapot  # noqa
    import importlib
    BR = sys.modules.get("mokapot.brew_rollup") or importlib.import_module("mokapot.brew_rollup")
    mk.install_stub_pep()
    rng = np.random.default_rng(sc["seed"])
    wd = Path(tempfile.mkdtemp(prefix="c09r_"))
    cwd = os.getcwd()
    try:
        colls, id0 = [], 0
        for c in range(3):
            # every collection keeps targets AND decoys at the peptide level (a result file without any row is F-03c's business)
            rows = []
            for k in range(int(rng.integers(5, 9))):
                for tgt in (True, False):
                    rows.append({"id": id0 + len(rows), "spec": 1 + len(rows), "key": [1 + len(rows)], "tgt": tgt, "rank": int(rng.integers(1, 13))})
            colls.append({"rows": rows})
            id0 += 100
        case = {"colls": colls, "extra_levels": [], "dedup": True, "rollup": True, "decoys": True, "chunk": 5, "fmt": "pin",
                "prefixes": ["a", "b", "c"], "workers": 1}
        conf.run_assign(case, workdir=wd, keep=True)
        out = wd / "out"
        clean = wd / "clean"
        clean.mkdir()
        for fn in os.listdir(out):
            if fn.startswith(("a.", "b.")):
                shutil.copy(out / fn, clean / fn)

        def roll(src, dest):
            cfg = argparse.Namespace(level="peptide", src_dir=src, dest_dir=dest, file_root="rollup", peps_algorithm="stub",
                                     qvalue_algorithm="tdc", seed=1, verbosity=0, suppress_warnings=True)
            try:
                BR.do_rollup(cfg)
                return ""
            except BaseException as e:
                if isinstance(e, KeyboardInterrupt):
                    raise
                return "%s: %s" % (type(e).__name__, str(e)[:160])

        def results(d):
            files = []
            for fn in sorted(os.listdir(d)):
                if fn.startswith("rollup.") and ".temp." not in fn:
                    with open(d / fn, "rb") as fh:
                        files.append({"name": fn, "rows": sorted([0, zlib.crc32(line) & 0x3FFFFFFF, 0, 1] for line in fh)})
            return files
        if sc["spell"] == "fmt_switch":
            # the earlier rollup worked on the same collections held as PARQUET files (converted here); the collections were then
            # replaced by their text files; the tool's own earlier Parquet outputs stay (RollupTool.tla: RefusalNeverByLeftovers, finding F-09c)
            import pandas as pd
            names = sorted(os.listdir(out))
            for fn in names:
                pd.read_csv(out / fn, sep="\t").to_parquet(out / (fn + ".parquet"), index=False)
                os.rename(out / fn, wd / ("keep_" + fn))
            roll(out, out)
            for fn in names:
                os.unlink(out / (fn + ".parquet"))
                os.rename(wd / ("keep_" + fn), out / fn)
        elif sc["earlier"]:
            roll(out, out)                              # the earlier rollup: collections a, b, c
        for fn in os.listdir(out):
            if fn.startswith("c."):
                os.unlink(out / fn)                     # collection c is withdrawn
        os.chdir(wd)
        if sc["spell"] == "fmt_switch":
            raised = roll(out, out)
        elif sc["spell"] == "rel_abs":
            raised = roll(Path("out"), out.resolve())
        else:
            raised = roll(out, out)
        os.chdir(cwd)
        craised = roll(clean, clean)
        # (the tool leaves its 'rollup.temp.<level>s' files behind also on the pinned tree; C09's last sentence is about confidence
        # assignment, so they are listed as 'other' and the observation is recorded in DESIGN.md)
        listing = [{"name": n, "kind": "result" if (n.startswith("rollup.") and ".temp." not in n) else "other", "pfx": "", "idx": 0, "ext": ""}
                   for n in sorted(os.listdir(out))]
        return {"kind": "assign", "last": {"pfx": "rollup.", "ext": "", "nchunks": 0},
                "clean": {"raised": craised, "files": results(clean), "input_after": []},
                "dirty": {"raised": raised, "files": results(out), "input_after": [], "listing": listing}}
    except Exception as e:
        import traceback
        return {"harness_error": "%s: %s %s" % (type(e).__name__, e, traceback.format_exc()[-700:])}
    finally:
        os.chdir(cwd)
        shutil.rmtree(wd, ignore_errors=True)


def make_run(rng, k, prefix, fmt, idbase=0):
    """a run whose table is cut into exactly k chunks"""
    chunk = int(rng.integers(1, 4))
    n = chunk * (k - 1) + int(rng.integers(1, chunk + 1))
    rows = random_table(rng, n, id0=idbase, nkeys=1)
    for r in rows:
        r["rank"] = int(rng.integers(1, 13))
    while not tie_free(rows, 1):
        for r in rows:
            r["rank"] = int(rng.integers(1, 25))
    return {"rows": rows, "chunk": chunk, "prefix": prefix or None, "fmt": fmt, "dedup": True, "rollup": True, "decoys": True}


def run(ctx):
    ctx.liveness("Workdir", unfair_control=not ctx.quick)      # termination under weak fairness (Workdir_live.cfg)
    rng = np.random.default_rng(ctx.seed)
    ctx.phase("model_checking")
    ctx.model_check("Workdir", "Workdir_quick.cfg", note="3 runs x <=3 chunks x 2 prefixes x every crash step x Fail/Kill")
    ctx.model_check("Workdir", "Workdir_asis.cfg", expect_violation="ResultsOnlyFromOwnInputs", note="AsIs_GlobTemp (repaired: F-09a)")
    ctx.model_check("Workdir", "Workdir_mut1.cfg", expect_violation="NoIntermediateLeft", note="seeded fault: no clean-up")
    r = ctx.model_check("Workdir", "Workdir_cov.cfg", coverage=True, note="action coverage")
    ctx.require_actions(r, ["WriteChunk", "Glob", "InitLevel", "Merge", "WriteResults", "UnlinkLevel", "Cleanup", "CrashInChunks", "CrashElsewhere"])
    ctx.phase("generation")
    g = run_tlc("Workdir", "Workdir_gen2.cfg", workers=1)
    skel = [(p[1], p[2]) for p in g.prints if p and p[0] == "CASE"]
    if len(skel) < 100:
        raise MachineryError("only %d run-history skeletons" % len(skel))
    # group skeletons by (earlier k, pfx, last k, pfx): the crash step / kill flag is refined to every I/O call below
    groups = sorted({(h[0]["k"], h[0]["pfx"], l["k"], l["pfx"]) for h, l in skel if len(h) == 1})
    nsc = 10 if ctx.quick else len(groups) * 2
    pick = [groups[int(i)] for i in rng.permutation(len(groups))[:nsc]] if ctx.quick else groups * 2
    scenarios = []
    ncalls = []
    # the model's abstract prefix "a" is rendered as an ordinary name or as one holding glob metacharacters (file names, not patterns)
    PFX = ["a", "s[1]", "a", "x[ab]y", "r*1", "q?"]
    for gi, (k1, p1, k2, p2) in enumerate(pick):
        fmt = "parquet" if gi % 4 == 3 else "pin"
        ren = lambda p, gi=gi: PFX[gi % len(PFX)] if p == "a" else p
        p1, p2 = ren(p1), ren(p2)
        e = make_run(rng, k1, p1, fmt)
        if gi % 3 == 1:
            e.update(rollup=False)
        last = make_run(rng, k2, p2, fmt, idbase=50)
        n = count_calls(e)
        ncalls.append(n)
        for k in range(1, n + 1):
            for kill in (False, True):
                scenarios.append({"earlier": [{"run": e, "fault": (k, kill)}], "last": last, "class": (k1, p1, k2, p2, fmt)})
        scenarios.append({"earlier": [{"run": e, "fault": None}], "last": last, "class": (k1, p1, k2, p2, fmt)})     # a completed, different run
    # results written to an SQLite database: after an earlier text run / a failed run / into a fresh directory
    for j in range(6 if ctx.quick else 60):
        pf = PFX[j % len(PFX)] if j % 2 else None
        e = make_run(rng, 1 + j % 3, pf, "pin")
        last = make_run(rng, 1 + (j // 3) % 3, pf, "pin", idbase=50)
        last["sqlite"] = True
        if j % 3 == 2:
            e["sqlite"] = True
        scenarios.append({"earlier": [] if j % 6 == 5 else [{"run": e, "fault": (int(rng.integers(1, 30)), False) if j % 3 == 1 else None}],
                          "last": last, "class": ("sqlite", j)})
    # sequences of two earlier runs (three-run histories), crash points sampled
    g3 = run_tlc("Workdir", "Workdir_gen3.cfg", workers=1)
    skel3 = [(p[1], p[2]) for p in g3.prints if p and p[0] == "CASE" and len(p[1]) == 2]
    for j in range(40 if ctx.quick else 1500):
        h, l = skel3[int(rng.integers(0, len(skel3)))]
        fmt = "pin"
        es = []
        ren = lambda p, j=j: PFX[j % len(PFX)] if p == "a" else p
        for hh in h:
            e = make_run(rng, hh["k"], ren(hh["pfx"]), fmt, idbase=100 * len(es))
            es.append({"run": e, "fault": (int(rng.integers(1, 40)), bool(hh["kill"]))})
        scenarios.append({"earlier": es, "last": make_run(rng, l["k"], ren(l["pfx"]), fmt, idbase=500), "class": ("seq3", j)})
    # CLI
    cli = []
    for j in range(20 if ctx.quick else 200):
        rows = random_table(rng, int(rng.integers(3, 12)), nkeys=1)
        stale = "".join("STALE_LINE_%d\tx\ty\n" % i for i in range(1 + j % 3)) if j % 4 else pin_text(random_table(rng, 4, id0=900, nkeys=1))
        # every third input is already a valid TSV (one protein per row: the verify step has nothing to convert)
        cli.append({"text": pin_text(rows, nprot=1 if j % 3 == 2 else 2 + j % 2), "stale": stale})
    ctx.cov["io_calls_per_earlier_run"] = ncalls
    ctx.phase("driving")
    run_scenario(scenarios[0])
    res = pmap(lambda i: run_scenario(scenarios[i]), len(scenarios), chunk=6)
    cres = [run_cli(c) for c in cli]
    # protein-level runs: fresh directory / after an earlier protein-level run / a run without proteins after one with
    psc = [{"seed": int(ctx.seed * 10 + j), "earlier": [[], [True], [True], [False, True]][j % 4], "last": j % 4 != 2}
           for j in range(4 if ctx.quick else 24)]
    pres = pmap(lambda i: run_protein_scenario(psc[i]), len(psc), chunk=1)
    for p in psc:
        ctx.count(("proteins", p["seed"], str(p["earlier"]), p["last"]))
    rsc = [{"seed": int(ctx.seed * 10 + 500 + j), "spell": ["rel_abs", "same"][j % 2], "earlier": j % 3 != 2} for j in range(6 if ctx.quick else 40)]
    rsc += [{"seed": int(ctx.seed * 10 + 900 + j), "spell": "fmt_switch", "earlier": True} for j in range(2 if ctx.quick else 8)]
    rres = pmap(lambda i: run_rollup_scenario(rsc[i]), len(rsc), chunk=1)
    for r_ in rsc:
        ctx.count(("rolluptool", r_["seed"], r_["spell"], r_["earlier"]))
    traces = []
    for i, t in enumerate(res + cres + pres + rres):
        if "harness_error" in t:
            raise MachineryError("driver failed on scenario %d: %s" % (i, t["harness_error"]))
        t["tid"] = i + 1
        traces.append(t)
    for sc in scenarios:
        ctx.count(("assign", str(sc["class"]), str([e.get("fault") for e in sc["earlier"]])))
    for j in range(len(cli)):
        ctx.count(("cli", j))
    ctx.sample({"scenario": {"earlier": [{"chunk": e["run"]["chunk"], "rows": len(e["run"]["rows"]), "prefix": e["run"]["prefix"], "fault(call, kill)": e["fault"]}
                                        for e in scenarios[5]["earlier"]],
                             "last": {"chunk": scenarios[5]["last"]["chunk"], "rows": len(scenarios[5]["last"]["rows"]), "prefix": scenarios[5]["last"]["prefix"]}},
                "dirty_listing": [e["name"] for e in traces[5]["dirty"]["listing"]], "dirty_files": traces[5]["dirty"]["files"][:1]})
    ctx.sample({"cli": {"stale": cli[1]["stale"][:60]}, "input_after_dirty": traces[len(res) + 1]["dirty"]["input_after"][:3]})
    ctx.phase("validation")
    verdicts = ctx.validate("WorkdirTrace", "Trace.cfg", traces)
    for i, t in enumerate(traces):
        v = verdicts[t["tid"]]
        if not v["accept"]:
            if i < len(scenarios):
                sc = scenarios[i]
                ctx.reject({"scenario": sc, "trace": t}, v["failed"],
                           {"api": "assign_confidence", "class": str(sc["class"]), "faults": str([e.get("fault") for e in sc["earlier"]]),
                            "dirty_raised": t["dirty"]["raised"].split(":")[0],
                            "stale_chunks": sorted(e["name"] for e in t["dirty"]["listing"] if e["kind"] == "chunk")})
            elif i < len(scenarios) + len(cli):
                ctx.reject({"cli": cli[i - len(scenarios)], "trace": t}, v["failed"], {"api": "cli_verify_pin", "case": i - len(scenarios)})
            elif i >= len(scenarios) + len(cli) + len(psc):
                r_ = rsc[i - len(scenarios) - len(cli) - len(psc)]
                ctx.reject({"rolluptool": r_, "trace": {"dirty_raised": t["dirty"]["raised"], "names": [f["name"] for f in t["dirty"]["files"]]}}, v["failed"],
                           {"api": "brew_rollup in place", "spell": r_["spell"], "earlier": r_["earlier"], "dirty_raised": t["dirty"]["raised"].split(":")[0]})
            else:
                p = psc[i - len(scenarios) - len(cli)]
                ctx.reject({"proteins": p, "trace": {"listing": t["dirty"]["listing"], "dirty_raised": t["dirty"]["raised"]}}, v["failed"],
                           {"api": "assign_confidence(proteins)", "earlier": str(p["earlier"]), "last_with_proteins": p["last"],
                            "dirty_raised": t["dirty"]["raised"].split(":")[0],
                            "left": sorted(e["name"] for e in t["dirty"]["listing"] if e["kind"] in ("level", "chunk"))})
    ctx.phase("hook_traces")
    from drivers import hooktrace
    hooktrace.validate_events(ctx, hooktrace.traced_repo_tests(hooktrace.REPO_TESTS[4:5] if ctx.quick else hooktrace.REPO_TESTS[4:]), "C09")
    ctx.phase("negative_controls")
    bad = []
    for t in traces:
        if not verdicts[t["tid"]]["accept"] or len(bad) >= 90:
            continue
        if t["kind"] == "assign" and t["dirty"]["files"] and t["dirty"]["files"][0]["rows"]:
            b = copy.deepcopy(t)
            b["dirty"]["files"][0]["rows"].append([999, 0, 1, 1])        # a stale row merged into the results
            b["tid"] = len(bad) + 1
            bad.append(b)
            b = copy.deepcopy(t)
            b["dirty"]["listing"].append({"name": "x", "kind": "chunk", "pfx": t["last"]["pfx"], "idx": 0, "ext": t["last"]["ext"]})
            b["tid"] = len(bad) + 1
            bad.append(b)
        elif t["kind"] == "cli":
            b = copy.deepcopy(t)
            b["dirty"]["input_after"] = ["STALE"] + b["dirty"]["input_after"]
            b["tid"] = len(bad) + 1
            bad.append(b)
    ctx.negative_controls("WorkdirTrace", "Trace.cfg", bad, name="stale row in results / own chunk file left / stale line in the input file")
    ctx.phase("rollup_histories")
    from drivers import rolltool
    rolltool.run_family(ctx, "C09", 48 if ctx.quick else 1600, 16 if ctx.quick else 500)
    ctx.assume("fault points are the intercepted calls DataFrame.to_csv / to_parquet, ParquetWriter(), write_table, os.unlink, Path.unlink")
    ctx.assume("the CLI is stopped right after its verify step (read_pin replaced by a stub that raises in the driver process only)")
    return ctx.finish(
        rule="a case = (earlier runs with fault points, observed run): run-history skeletons come from Workdir.tla; for two-run histories "
             "EVERY intercepted I/O call of the earlier run is a fault point, once as Fail (OSError) and once as Kill (forked child "
             "_exit), plus the earlier run completing; three-run histories with sampled fault points; the CLI verify step with stale "
             "'<pin>.tsv' files; protein-level runs (fresh directory, after an earlier protein-level run, without proteins after one "
             "with); histories of the stand-alone rollup tool in one directory (RollupTool.tla: put / drop / roll, the tool's own earlier "
             "files of either file root left behind) against the same roll over the input files alone; the model's prefix is rendered as a plain name or one holding glob metacharacters ([ ] * ?); "
             "distinct = distinct (history class, fault points)", exhaustive=not ctx.quick)


def replay(ctx, case):
    c = case["case"]
    if "rolltool_history" in c:
        from drivers import rolltool
        rolltool.replay_history(ctx, "C09", c["rolltool_history"])
        ctx.count(1)
        ctx.count(2)
        return ctx.finish(rule="replay of one recorded rollup history")
    t = (run_scenario(c["scenario"]) if "scenario" in c else run_protein_scenario(c["proteins"]) if "proteins" in c
         else run_rollup_scenario(c["rolluptool"]) if "rolluptool" in c else run_cli(c["cli"]))
    t["tid"] = 1
    v = ctx.validate("WorkdirTrace", "Trace.cfg", [t])[1]
    if not v["accept"]:
        ctx.reject(c, v["failed"], {"api": t["kind"], "replay": True})
    ctx.count(1)
    ctx.count(2)
    ctx.sample({"dirty_raised": t["dirty"]["raised"]})
    return ctx.finish(rule="replay of one recorded scenario")
